"""C09 — only the leader writes status; the newest status survives a leadership change (DESIGN.md §6 C09)."""
import collections
import os

CORPUS = os.path.join(os.path.dirname(os.path.dirname(os.path.abspath(__file__))), "corpus", "C09")


def _parts(line):
    return dict(p.split(" ", 1) for p in line.split("\t") if " " in p)


def run(ctx):
    ctx.prepare()
    # The Generated/ directory is shared by all checks: another check (possibly against another tree) may
    # regenerate it between prepare() and the build.  Regenerate from THIS tree and build the obligations
    # while holding the translator lock (lock order translator -> build, never the reverse anywhere).
    import vcheck
    with vcheck.Lock("translator"):
        vcheck.sh([vcheck.TRANSLATOR_BIN, "-repo", vcheck.REPO, "-out", vcheck.GENERATED])
        ctx.obligations("NGF.Props.C09")
        ctx.obligations("NGF.Props.C09Wiring")
        ctx.obligations("NGF.Props.C09Faults")
        if ctx.tier == "thorough":
            ctx.leanchecker("NGF.Props.C09")
            ctx.leanchecker("NGF.Props.C09Wiring")
            ctx.leanchecker("NGF.Props.C09Faults")

    fault_procs = _start_faults(ctx)

    # corpus first: (a) the judge still separates the recorded good and bad histories (guards the judge),
    # (b) the recorded operation lists are replayed on the real code
    expect = [l.rstrip("\n").split("\t") for l in open(os.path.join(CORPUS, "judge_expect.tsv")) if "\t" in l]
    got = ctx.driver("judge", [e[1] for e in expect])
    for (want, hist), g in zip(expect, got):
        if want != g:
            ctx.broken(f"judge regression: corpus history expected '{want}', judge says '{g}'",
                       kind="obligation", replay={"judge_input": hist})
    corpus_lines = ctx.harness(["-replay", os.path.join(CORPUS, "ops.txt")]) or []

    n_seq, n_conc, maxops = (400, 1500, 10) if ctx.tier == "quick" else (10000, 60000, 14)
    seq = ctx.harness(["-seed", ctx.seed, "-n", n_seq, "-maxops", maxops])
    seq_rc, seq_err = getattr(ctx, "harness_rc", 0), getattr(ctx, "harness_err", "")
    # concurrent histories: the cases mostly sleep (jitter inside the client), so run shards side by side
    shards = 2 if ctx.tier == "quick" else 12
    conc, conc_rc, conc_err = [], 0, ""
    binp = os.path.join(getattr(ctx, "bindir", ""), "c09")
    if os.path.exists(binp):
        import concurrent.futures
        import subprocess

        def shard(i):
            try:
                p = subprocess.run([binp, "-seed", str(ctx.seed + 7919 + 104729 * i), "-n", str(n_conc // shards),
                                    "-conc"], capture_output=True, text=True, timeout=1500)
                return p.returncode, p.stdout.splitlines(), p.stderr[-3000:]
            except subprocess.TimeoutExpired:
                return -1, [], "timeout"
        with concurrent.futures.ThreadPoolExecutor(shards) as ex:
            for rc, out, err in ex.map(shard, range(shards)):
                conc += out
                if rc != 0:
                    conc_rc, conc_err = rc, err
    if not getattr(ctx, "harness_ok", False):
        ctx.broken("harness does not build against the current tree", detail="\n".join(ctx.build_errors))
    seq, conc = seq or [], conc or []
    for name, rc, err in (("sequential", seq_rc, seq_err), ("concurrent", conc_rc, conc_err)):
        if rc != 0:
            # e.g. `fatal error: concurrent map writes` when a method no longer takes the lock
            ctx.broken(f"{name} harness run crashed (exit {rc}): {err.strip().splitlines()[0] if err.strip() else ''}",
                       detail=err)

    model_in, obs, judge_in, judge_kind = [], [], [], []
    inconclusive = collections.Counter()
    for kind, lines in (("seq", corpus_lines), ("seq", seq), ("conc", conc)):
        for l in lines:
            p = _parts(l)
            if "X" in p:
                inconclusive[p["X"]] += 1
                continue
            if "M" in p:
                model_in.append(p["M"])
                obs.append(p["O"])
            if "J" in p:
                judge_in.append(p["J"])
                judge_kind.append(kind)

    # the property itself, evaluated by the Lean judge on what the real code did
    verdicts = ctx.driver("judge", judge_in)
    clause_hist = collections.Counter()
    for j, k, v in zip(judge_in, judge_kind, verdicts):
        clause_hist[v] += 1
        if v == "bad-op":
            ctx.broken(f"judge cannot decode a {k} history", replay={"judge_input": j})
        elif v != "ok":
            c = v.replace("fail ", "")
            ctx.finding(f"C09:{c}", f"leader-aware status updater violates clause {c} ({k} history)",
                        {"judge_input": j, "mode": k})

    # correspondence: the model replays the same operation list (flush order = the observed map order)
    outs = ctx.driver("model", model_in)
    diffs = 0
    for m, o, out in zip(model_in, obs, outs):
        if o != out:
            diffs += 1
            if diffs <= 3:
                ctx.broken(f"model and implementation disagree on [{m}]: impl {o} / model {out}",
                           replay={"ops": m, "impl": o, "model": out})
    if inconclusive:
        ctx.broken(f"inconclusive cases (timeout = deadlock?): {dict(inconclusive)}")

    wiring_cov = _wiring(ctx)
    faults_cov = _faults(ctx, fault_procs)

    # ---- coverage, measured on the generated cases -------------------------------------------------
    def ops_of(j):
        return j.split("ops=")[1].split(" ")[0].split(";")

    kinds, seq_len, flush_sizes = collections.Counter(), collections.Counter(), collections.Counter()
    for m, o in zip(model_in, obs):
        ops = m.split("ops=")[1].split(";")
        seq_len[str(min(len(ops), 12))] += 1
        en = 0
        for op, out in zip(ops, o.split("outs=")[1].split(";")):
            if op.startswith("e"):
                en += 1
                kinds["enable" if en == 1 else "enable-again"] += 1
                if en == 1:
                    flush_sizes[str(0 if out == "-" else out.count("|") + 1)] += 1
            else:
                empty = op.endswith(":-")
                kinds[("update-empty" if empty else "update") + ("-after" if en else "-before")] += 1
        if en == 0:
            kinds["never-leader"] += 1
    overlap = 0          # concurrent histories in which a submission really overlapped Enable
    overlap_flush = 0    # ... and Enable had something to flush
    for j, k in zip(judge_in, judge_kind):
        if k != "conc":
            continue
        ops = ops_of(j)
        e = [x.split(":") for x in ops if x.startswith("e:")]
        if not e:
            continue
        ec, er = int(e[0][1]), int(e[0][2])
        ov = any(x.startswith("u:") and int(x.split(":")[2]) < er and int(x.split(":")[3]) > ec for x in ops)
        overlap += ov
        eidx = str(ops.index(":".join(e[0])))
        flushed = any(w.split(":")[0] == eidx for w in j.split("writes=")[1].split(";") if w != "-")
        overlap_flush += ov and flushed
    nontrivial = len({m for m, o in zip(model_in, obs) if any(x not in "-;P" for x in o[5:])}) + \
        len({j for j, k in zip(judge_in, judge_kind) if k == "conc" and "writes=-" not in j})
    ctx.finish({
        "evaluations": len(corpus_lines) + len(seq) + len(conc),
        "corpus": {"judge_expectations": len(expect), "replayed_operation_lists": len(corpus_lines)},
        "distinct_nontrivial": nontrivial,
        "rule": "sequential operation lists over the real LeaderAwareGroupUpdater+Updater+EnableAfterBecameLeader "
                "(model equality per operation + judge) and concurrent histories (judge: clauses on stamps + "
                "existence of a linearisation); non-trivial = distinct cases in which at least one status write "
                "reached the client",
        "samples": model_in[:2] + [j for j, k in zip(judge_in, judge_kind) if k == "conc"][:2],
        "traces_validated_against_impl": len(model_in) - diffs,
        "correspondence_diffs": diffs,
        "judge_verdicts": dict(clause_hist),
        "judged_histories": {"sequential": judge_kind.count("seq"), "concurrent": judge_kind.count("conc")},
        "concurrent_with_real_overlap": overlap,
        "concurrent_overlap_and_nonempty_flush": overlap_flush,
        "inconclusive": dict(inconclusive),
        "ops_histogram": dict(kinds),
        "sequential_length_histogram": dict(sorted(seq_len.items(), key=lambda kv: int(kv[0]))),
        "flush_group_count_histogram": dict(flush_sizes),
        "wiring": wiring_cov,
        "api_failures": faults_cov,
    }, assumptions=[
        "Go: sync.Mutex gives atomic sections, so with both methods holding the lock for their whole body "
        "(pinned by LeaderFacts) interleavings are linearisations",
        "controller-runtime starts a Runnable whose NeedLeaderElection() is true only after the replica has been "
        "elected, calls Start once, and a replica never regains leadership in the same process (the manager exits "
        "when leadership is lost); the harness plays this rule for the real EnableAfterBecameLeader",
        "the context passed to Enable/UpdateGroup is not cancelled (Updater.Update returns early on a cancelled context)",
        "whether a single Updater.Update call succeeds at the API server is C08's subject; here a write = a request "
        "reaching client.Status().Update",
        "StartManager itself is not executed (manager, caches, leader election of controller-runtime): the handler is "
        "constructed by the overlay accessor with the same eventHandlerConfig fields, and the manager.go side of the wiring "
        "(raw updater only feeds the wrapper, Enable only registered with the leader-election runnable) is pinned by "
        "regenerated facts",
        "wiring stream: NGINX always accepts the configuration (stub generator/file manager/runtime); the recording "
        "client's Get returns the object without status, so a request whose setter reports no change against an empty "
        "status never reaches Status().Update (counted as silent_requests); whether the statuses are the right ones for "
        "the cluster state is C07/C08's subject - here they are compared with those of a fresh handler",
    ])


def _start_faults(ctx):
    """Scripted per-resource API failures: the cases sleep in the real Updater's backoff (~2 s per persistently failing
    resource and call), so they are started first and collected at the end."""
    import subprocess
    binp = os.path.join(getattr(ctx, "bindir", ""), "c09")
    if not os.path.exists(binp):
        return []
    n_upd, n_wshards, n_wcases = (64, 6, 2) if ctx.tier == "quick" else (1200, 16, 12)
    procs = [("upd", subprocess.Popen([binp, "-faults", "-seed", str(ctx.seed + 977), "-n", str(n_upd), "-maxops", "6"],
                                      stdout=subprocess.PIPE, stderr=subprocess.PIPE, text=True))]
    for i in range(n_wshards):
        procs.append(("wiring", subprocess.Popen(
            [binp, "-wiring", "-faults", "-seed", str(ctx.seed + 4001 + 7919 * i), "-n", str(n_wcases)],
            stdout=subprocess.PIPE, stderr=subprocess.PIPE, text=True)))
    return procs


def _faults(ctx, procs):
    import json
    fexpect = [l.rstrip("\n").split("\t") for l in open(os.path.join(CORPUS, "fjudge_expect.tsv"))
               if "\t" in l and not l.startswith("#")]
    for (want, hist), g in zip(fexpect, ctx.driver("fjudge", [e[1] for e in fexpect])):
        if want != g:
            ctx.broken(f"fault judge regression: corpus history expected '{want}', judge says '{g}'",
                       kind="obligation", replay={"judge_input": hist})
    upd, wir, crashed = [], [], []
    for kind, p in procs:
        try:
            out, err = p.communicate(timeout=1500)
        except Exception:
            p.kill()
            out, err = "", "timeout"
        if p.returncode != 0:
            crashed.append(f"{kind}: exit {p.returncode}: {err.strip().splitlines()[0] if err.strip() else ''}")
        (upd if kind == "upd" else wir).extend(out.splitlines())
    for c in crashed[:3]:
        ctx.broken(f"fault-stream harness run crashed ({c})")
    incon = collections.Counter(l[2:][:80] for l in upd + wir if l.startswith("X "))
    for why, c in incon.items():
        ctx.broken(f"fault stream: inconclusive case ({c}x): {why}")
    ucases = [_parts(l) for l in upd if not l.startswith("X ")]
    ucases = [c for c in ucases if all(k in c for k in "MOJ")]
    hist = collections.Counter()
    nf = 0
    for c, v in zip(ucases, ctx.driver("fjudge", [c["J"] for c in ucases])):
        hist[v] += 1
        if v == "bad-op":
            ctx.broken("fault judge cannot decode a history", replay={"judge_input": c["J"]})
        elif v != "ok":
            clause = v.replace("fail ", "")
            nf += 1
            if nf <= 20:
                ctx.finding(f"C09:api-failure:{clause}",
                            f"with the status writes of some resources failing (script bad=...), a healthy resource's newest "
                            f"status is not written / clause {clause} fails on the history restricted to healthy resources",
                            {"mode": "faults", "judge_input": c["J"], "ops": c["M"], "successful_writes": c["O"]})
    diffs = 0
    for c, out in zip(ucases, ctx.driver("fmodel", [c["M"] for c in ucases])):
        if out != c["O"]:
            diffs += 1
            if diffs <= 3:
                ctx.broken(f"model (every healthy request is attempted) and implementation disagree under failures on "
                           f"[{c['M']}]: impl {c['O']} / model {out}", replay={"mode": "faults", "ops": c["M"], "impl": c["O"], "model": out})
    wcases = [_parts(l) for l in wir if not l.startswith("X ")]
    wcases = [c for c in wcases if all(k in c for k in "JDS")]
    whist = collections.Counter()
    for c, v in zip(wcases, ctx.driver("wfjudge", [c["J"] for c in wcases])):
        whist[v] += 1
        if v == "bad-op":
            ctx.broken("wiring fault judge cannot decode a history", replay={"judge_input": c["J"]})
        elif v != "ok":
            clause = v.replace("fail ", "")
            ctx.finding(f"C09:api-failure:wiring:{clause}",
                        f"real handler + updater with one resource whose status write keeps failing: clause {clause} fails for "
                        f"the healthy resources", {"mode": "wiring-faults", "judge_input": json.loads(c["J"]),
                                                   "dictionary": json.loads(c["D"])})
    stats = collections.Counter()
    for c in ucases:
        for kv in c.get("S", "").split():
            k, _, v = kv.partition("=")
            stats[k] += int(v or 0)
    wrej = sum(json.loads(c["S"]).get("rejected_attempts", 0) for c in wcases)
    return {
        "updater_cases": len(ucases), "updater_judge": dict(hist), "updater_model_agrees": len(ucases) - diffs,
        "script": dict(stats),
        "wiring_cases": len(wcases), "wiring_judge": dict(whist), "wiring_rejected_attempts": wrej,
        "rule": "per-resource failure script: P = every Status().Update rejected, G = every Get fails, N = resource gone "
                "(NotFound), T = first 1-2 attempts rejected; the real Updater retries with its real backoff; judge = the "
                "unchanged C09 judges on the history restricted to resources not scripted P/G/N (transient ones must be written)",
    }


def _wiring(ctx):
    """The REAL eventHandlerImpl in front of the REAL LeaderAwareGroupUpdater: model correspondence (HEv/runR) and the
    fresh-handler judge."""
    wexpect = [l.rstrip("\n").split("\t") for l in open(os.path.join(CORPUS, "wjudge_expect.tsv"))
               if "\t" in l and not l.startswith("#")]
    wgot = ctx.driver("wjudge", [e[1] for e in wexpect])
    for (want, hist), g in zip(wexpect, wgot):
        if want != g:
            ctx.broken(f"wiring judge regression: corpus history expected '{want}', judge says '{g}'",
                       kind="obligation", replay={"judge_input": hist})
    n = 400 if ctx.tier == "quick" else 20000
    maxsteps = 6 if ctx.tier == "quick" else 8
    lines = ctx.harness(["-wiring", "-seed", ctx.seed + 31, "-n", n, "-maxsteps", maxsteps])
    rc, err = getattr(ctx, "harness_rc", 0), getattr(ctx, "harness_err", "")
    if lines is None:
        return {"cases": 0}
    if rc != 0:
        ctx.broken(f"wiring harness run crashed (exit {rc}): {err.strip().splitlines()[0] if err.strip() else ''}", detail=err)
    cases, incon = [], collections.Counter()
    for l in lines:
        if l.startswith("X "):
            incon[l[2:][:80]] += 1
            continue
        p = _parts(l)
        if all(k in p for k in "MOJDS"):
            cases.append(p)
    for why, c in incon.items():
        ctx.broken(f"wiring stream: inconclusive case ({c}x): {why}")
    import json
    verdicts = ctx.driver("wjudge", [c["J"] for c in cases])
    hist = collections.Counter()
    nfind = 0
    for c, v in zip(cases, verdicts):
        hist[v] += 1
        if v == "bad-op":
            ctx.broken("wiring judge cannot decode a history", replay={"judge_input": c["J"]})
        elif v != "ok":
            clause = v.replace("fail ", "")
            nfind += 1
            if nfind <= 40:
                ctx.finding(f"C09:wiring:{clause}",
                            f"real event handler + leader-aware updater violate clause {clause}: the statuses written "
                            f"are not those a fresh handler computes for the cluster state of the submitting batch",
                            {"mode": "wiring", "judge_input": json.loads(c["J"]), "model_events": c["M"],
                             "observed": c["O"], "dictionary": json.loads(c["D"])})
    outs = ctx.driver("wmodel", [c["M"] for c in cases])
    diffs = 0
    for c, out in zip(cases, outs):
        if out != c["O"]:
            diffs += 1
            if diffs <= 3:
                ctx.broken(f"wiring model and implementation disagree on [{c['M']}]: impl {c['O']} / model {out}",
                           replay={"mode": "wiring", "events": c["M"], "impl": c["O"], "model": out,
                                   "dictionary": json.loads(c["D"])})
    stats = collections.Counter()
    for c in cases:
        for k, v in json.loads(c["S"]).items():
            stats[k] += v
    nontrivial = len({c["M"] for c in cases if json.loads(c["S"]).get("flush_writes", 0) > 0})
    return {
        "cases": len(cases),
        "corpus_judge_expectations": len(wexpect),
        "distinct_with_nonempty_flush": nontrivial,
        "model_agrees": len(cases) - diffs,
        "correspondence_diffs": diffs,
        "judge_verdicts": dict(hist),
        "generator": dict(stats),
        "sample": cases[0]["M"] if cases else "",
        "rule": "one case = one controller process: start-up batch + up to maxsteps generated batches through the real "
                "HandleEventBatch, election at a generated point; model = HEv events with the request values snapshotted "
                "at call time (runR allFresh: groups per step and writes per call must be equal); judge = writes at the "
                "election / after it compared per group with a fresh handler on the cluster state of the submitting batch",
    }

