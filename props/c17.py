"""C17 — resources owned by other controllers are neither configured nor written to (DESIGN.md §6 C17)."""
import collections
import json


def _sig(kind, verdict, tag):
    clause = verdict.split(" ")[1] if " " in verdict else verdict
    if kind == "histp" and clause == "foreign_class_disables_all" and "store-lacks-foreign-configured-class" in (tag or ""):
        return "C17:foreign-configured-class-created-while-running"
    where = {"base": "fresh", "meta": "fresh", "disabled": "fresh", "hist": "history", "histp": "history-predicate"}[kind]
    return f"C17:{clause}:{where}"


def _compare(obs, mod, nochange=False):
    """first differing field between the real graph summary and the model's, or None"""
    if mod.get("disabled") and not obs.get("empty"):
        return "disabled(early return)"
    for k in ("wc", "wg"):
        if obs[k] != mod[k]:
            return k
    for k in ("ic", "ig", "routes", "policies"):
        if sorted(obs[k]) != sorted(mod[k]):
            return k
    if set(obs["svcs"]) != set(mod["svcs"]):
        return "svcs"
    if not set(obs["btps"]) <= set(mod["btps"]):
        return "btps(upper bound)"
    ot = sorted(t for t in obs["targets"] if not t.startswith("btp/"))
    mt = sorted(t for t in mod["targets"] if not t.startswith("btp/"))
    if nochange:
        return None
    if ot != mt:
        return "targets"
    if not {t for t in obs["targets"] if t.startswith("btp/")} <= {t for t in mod["targets"] if t.startswith("btp/")}:
        return "btp targets(upper bound)"
    return None


def run(ctx):
    ctx.prepare()
    ctx.obligations("NGF.Props.C17")
    if ctx.tier == "thorough":
        ctx.leanchecker("NGF.Props.C17")

    n, nd, nh, steps = (300, 60, 40, 8) if ctx.tier == "quick" else (4000, 600, 400, 12)
    lines = ctx.harness(["-seed", ctx.seed, "-n", n, "-disabled", nd, "-hist", nh, "-steps", steps]) or []
    if not getattr(ctx, "harness_ok", False):
        ctx.broken("harness does not build against the current tree", detail="\n".join(ctx.build_errors))

    tags, cases, clsev = {}, [], []
    for l in lines:
        if l.startswith('{"k":"tags"'):
            tags = json.loads(l)["tags"]
        elif '"k":"clsev"' in l:
            clsev.append(l)
        elif l.startswith("{"):
            cases.append(l)
    parsed = [json.loads(l) for l in cases]

    # ---- the property, evaluated by the Lean judge on the outputs of the real pipeline
    verdicts = ctx.driver("judge", cases)
    vcount, kinds, skipped = collections.Counter(), collections.Counter(), collections.Counter()
    reported = collections.Counter()
    for d, v in zip(parsed, verdicts):
        kinds[d["k"]] += 1
        if v == "ok":
            vcount["ok"] += 1
        elif v.startswith("skip "):
            skipped[" ".join(v.split(" ")[1:2])] += 1
        elif v == "bad-op":
            ctx.broken("judge cannot decode the harness output", replay={"id": d["id"]})
        else:
            sig = _sig(d["k"], v, d.get("tag"))
            vcount[sig] += 1
            reported[sig] += 1
            if reported[sig] <= 2:
                ctx.finding(sig, f"{v} [{d['k']} case {d['id']} {d.get('tag', '')}]",
                            {"seed": ctx.seed, "id": d["id"], "kind": d["k"], "tag": d.get("tag"), "verdict": v,
                             "in": d["in"], "j": d["j"], "obs": d["obs"]})
    if skipped.get("x-not-foreign", 0) > len(cases) // 20:
        ctx.broken(f"generator: too many foreign sets that the specification does not accept as foreign: {dict(skipped)}")
    if skipped.get("panic", 0) > len(cases) // 10:
        ctx.broken(f"too many panicking runs: {dict(skipped)}")

    # ---- correspondence: model classification of every object vs the real graph's maps
    corr = [(d, l) for d, l in zip(parsed, cases) if d["k"] != "histp" and not d["obs"].get("panic")]
    outs = ctx.driver("model", [l for _, l in corr])
    diffs, field_diffs = 0, collections.Counter()
    for (d, _), out in zip(corr, outs):
        if out == "bad-op":
            ctx.broken("model cannot decode the harness input", replay={"id": d["id"]})
            diffs += 1
            continue
        f = _compare(d["obs"], json.loads(out), bool(d["j"].get("nochange")))
        if f is not None:
            diffs += 1
            field_diffs[f] += 1
            if diffs <= 3:
                ctx.broken(f"model and real graph disagree on `{f}` [{d['k']} case {d['id']}]",
                           replay={"seed": ctx.seed, "id": d["id"], "field": f, "in": d["in"], "obs": d["obs"],
                                   "model": json.loads(out)})

    # ---- correspondence of the class-store model (real GatewayClassPredicate decisions vs runClasses)
    cls_ok, cls_bad = 0, 0
    for l, out in zip(clsev, ctx.driver("clsmodel", clsev)):
        d = json.loads(l)
        if out == "bad-op":
            ctx.broken("clsmodel cannot decode the class event history")
            continue
        m = json.loads(out)
        if sorted(m["store"]) != sorted(d["store"]) or sorted(m["cluster"]) != sorted(d["cluster"]):
            cls_bad += 1
            diffs += 1
            if cls_bad == 1:
                ctx.broken("class store under the real GatewayClassPredicate differs from the model's runClasses",
                           replay={"history": d, "model": m})
        else:
            cls_ok += 1

    # ---- coverage
    def nontrivial(d):
        st, x = d["in"], d["j"].get("x") or []
        if d["k"] == "meta":
            return len(x) >= 3 and bool(d["obs"]["wg"]) and len(d["obs"]["routes"]) >= 1
        if d["k"] == "disabled":
            return len(st["gws"]) >= 1 and len(st["routes"]) >= 1
        if d["k"] in ("hist", "histp"):
            return not d["j"].get("nochange") and len(x) >= 1
        return False
    distinct = {json.dumps(d["in"], sort_keys=True) + "|" + d["k"] for d in parsed if nontrivial(d)}
    xkinds = collections.Counter()
    for d in parsed:
        if d["k"] == "meta":
            for k in d["j"]["x"]:
                xkinds[k.split("/")[0].split(":")[0]] += 1
    kept_checked = sum(len(d["j"].get("kept") or []) for d in parsed)
    kept_with_foreign = sum(1 for d in parsed for k in (d["j"].get("kept") or []) if k["before"])
    samples = []
    for d in parsed:
        if d["k"] == "meta" and len(samples) < 3:
            samples.append({"k": d["k"], "id": d["id"], "x": d["j"]["x"], "targets": d["j"]["targets"],
                            "classes": d["in"]["classes"], "gws": d["in"]["gws"]})
    for d in parsed:
        if d["k"] in ("disabled", "histp") and len(samples) < 5 and d["id"] % 7 == 0:
            samples.append({"k": d["k"], "id": d["id"], "tag": d.get("tag"), "classes": d["in"]["classes"],
                            "targets": d["j"]["targets"]})
    ctx.finish({
        "evaluations": len(cases),
        "distinct_nontrivial": len(distinct),
        "rule": "distinct cluster states judged on the real pipeline; non-trivial = metamorphic pair with a winning Gateway, "
                ">=1 route in the graph and >=3 foreign objects added / disabled case with gateways and routes / history "
                "step that rebuilt the graph with >=1 foreign object present",
        "samples": samples,
        "traces_validated_against_impl": len(corr) - diffs,
        "correspondence_diffs": diffs,
        "class_store_histories_validated": cls_ok,
        "correspondence_diff_fields": dict(field_diffs),
        "case_kinds": dict(kinds),
        "verdicts": dict(vcount),
        "inconclusive": dict(skipped),
        "foreign_objects_added_by_kind": dict(xkinds),
        "setter_runs_checked": kept_checked,
        "setter_runs_with_foreign_entries": kept_with_foreign,
        "generator_branches": tags,
    }, assumptions=[
        "Kubernetes object keys are unique per kind (GatewayClass names, namespaced names)",
        "route validity and backend resolution (L7Route.Valid, BackendRef.SvcNsName) enter the model as data attached to the "
        "route; they depend on no object that C17 calls foreign",
        "generated files are compared after order-normalisation of top-level blocks and upstream server lines; where the "
        "generator's output is not a function of its input (Go map order, C14) runs are repeated and compared as sets",
    ], trusted=[
        "harness/pipeline (shared in-process wiring of the real ChangeProcessor, BuildConfiguration, Generator, Prepare*Requests)",
        "Lean judge NGF.Ownership.judge (specification predicates foreign*/droppableKeys)",
    ])
