"""C17 — resources owned by other controllers are neither configured nor written to (DESIGN.md §6 C17)."""
import collections
import json


def _sig(kind, verdict, tag):
    clause = verdict.split(" ")[1] if " " in verdict else verdict
    if kind == "histp" and clause == "foreign_class_disables_all" and "store-lacks-foreign-configured-class" in (tag or ""):
        return "C17:foreign-configured-class-created-while-running"
    where = {"base": "fresh", "meta": "fresh", "disabled": "fresh", "hist": "history", "histp": "history-predicate",
             "lead": "leadership"}[kind]
    return f"C17:{clause}:{where}"


def _compare(obs, mod, nochange=False):
    """first differing field between the real graph summary and the model's, or None"""
    if mod.get("disabled") and not obs.get("empty"):
        return "disabled(early return)"
    for k in ("wc", "wg"):
        if obs[k] != mod[k]:
            return k
    for k in ("ic", "ig", "routes", "policies"):
        if sorted(obs[k]) != sorted(mod[k]):
            return k
    if set(obs["svcs"]) != set(mod["svcs"]):
        return "svcs"
    if not set(obs["btps"]) <= set(mod["btps"]):
        return "btps(upper bound)"
    if sorted(obs.get("refsnips") or []) != sorted(mod.get("refsnips") or []):
        return "refsnips(SnippetsFilter.Referenced)"
    ot = sorted(t for t in obs["targets"] if not t.startswith("btp/"))
    mt = sorted(t for t in mod["targets"] if not t.startswith("btp/"))
    if nochange:
        return None
    if ot != mt:
        return "targets"
    if not {t for t in obs["targets"] if t.startswith("btp/")} <= {t for t in mod["targets"] if t.startswith("btp/")}:
        return "btp targets(upper bound)"
    return None


def run(ctx):
    ctx.prepare(driver=["C17", "C06"])
    ctx.obligations("NGF.Props.C17")
    ctx.obligations("NGF.Props.C17Leader")
    if ctx.tier == "thorough":
        ctx.leanchecker("NGF.Props.C17")

    n, nd, nh, steps, nl, nf = (300, 60, 40, 8, 60, 150) if ctx.tier == "quick" else (4000, 600, 400, 12, 600, 1500)
    lines = ctx.harness(["-seed", ctx.seed, "-n", n, "-disabled", nd, "-hist", nh, "-steps", steps, "-lead", nl,
                         "-frag", nf]) or []
    if not getattr(ctx, "harness_ok", False):
        ctx.broken("harness does not build against the current tree", detail="\n".join(ctx.build_errors))

    tags, cases, clsev, leadops, fragx, fragsides = {}, [], [], [], [], []
    for l in lines:
        if l.startswith('{"k":"tags"'):
            tags = json.loads(l)["tags"]
        elif l.startswith('{"k":"fragx"'):
            fragx.append(l)
        elif '"c17":"frag' in l[:40]:
            fragsides.append(l)
        elif '"k":"clsev"' in l:
            clsev.append(l)
        elif '"k":"leadops"' in l:
            leadops.append(l)
        elif l.startswith("{"):
            cases.append(l)
    parsed = [json.loads(l) for l in cases]

    # ---- the property, evaluated by the Lean judge on the outputs of the real pipeline
    verdicts = ctx.driver("judge", cases)
    vcount, kinds, skipped = collections.Counter(), collections.Counter(), collections.Counter()
    reported = collections.Counter()
    for d, v in zip(parsed, verdicts):
        kinds[d["k"]] += 1
        if v == "ok":
            vcount["ok"] += 1
        elif v.startswith("skip "):
            skipped[" ".join(v.split(" ")[1:2])] += 1
        elif v == "bad-op":
            ctx.broken("judge cannot decode the harness output", replay={"id": d["id"]})
        else:
            sig = _sig(d["k"], v, d.get("tag"))
            vcount[sig] += 1
            reported[sig] += 1
            if reported[sig] <= 2:
                ctx.finding(sig, f"{v} [{d['k']} case {d['id']} {d.get('tag', '')}]",
                            {"seed": ctx.seed, "id": d["id"], "kind": d["k"], "tag": d.get("tag"), "verdict": v,
                             "in": d["in"], "j": d["j"], "obs": d["obs"]})
    if skipped.get("x-not-foreign", 0) > len(cases) // 20:
        ctx.broken(f"generator: too many foreign sets that the specification does not accept as foreign: {dict(skipped)}")
    if skipped.get("panic", 0) > len(cases) // 10:
        ctx.broken(f"too many panicking runs: {dict(skipped)}")

    # ---- correspondence: model classification of every object vs the real graph's maps
    corr = [(d, l) for d, l in zip(parsed, cases) if d["k"] not in ("histp", "lead") and not d["obs"].get("panic")]
    outs = ctx.driver("model", [l for _, l in corr])
    diffs, field_diffs = 0, collections.Counter()
    for (d, _), out in zip(corr, outs):
        if out == "bad-op":
            ctx.broken("model cannot decode the harness input", replay={"id": d["id"]})
            diffs += 1
            continue
        f = _compare(d["obs"], json.loads(out), bool(d["j"].get("nochange")))
        if f is not None:
            diffs += 1
            field_diffs[f] += 1
            if diffs <= 3:
                ctx.broken(f"model and real graph disagree on `{f}` [{d['k']} case {d['id']}]",
                           replay={"seed": ctx.seed, "id": d["id"], "field": f, "in": d["in"], "obs": d["obs"],
                                   "model": json.loads(out)})

    # ---- correspondence of the class-store model (real GatewayClassPredicate decisions vs runClasses)
    cls_ok, cls_bad = 0, 0
    for l, out in zip(clsev, ctx.driver("clsmodel", clsev)):
        d = json.loads(l)
        if out == "bad-op":
            ctx.broken("clsmodel cannot decode the class event history")
            continue
        m = json.loads(out)
        if sorted(m["store"]) != sorted(d["store"]) or sorted(m["cluster"]) != sorted(d["cluster"]):
            cls_bad += 1
            diffs += 1
            if cls_bad == 1:
                ctx.broken("class store under the real GatewayClassPredicate differs from the model's runClasses",
                           replay={"history": d, "model": m})
        else:
            cls_ok += 1

    # ---- correspondence of the leadership composition: the model's requests (targets . buildGraph split by groupOf)
    # through the model of the leader-aware updater vs what the real LeaderAwareGroupUpdater handed to the real Updater
    lead_ok, lead_bad, lead_ops = 0, 0, 0
    for l, out in zip(leadops, ctx.driver("leadmodel", leadops)):
        d = json.loads(l)
        if out == "bad-op":
            ctx.broken("leadmodel cannot decode the leadership history")
            continue
        mo = json.loads(out)["outs"]
        bad = None
        if len(mo) != len(d["outs"]):
            bad = "number of operations"
        else:
            for i, (ro, m) in enumerate(zip(d["outs"], mo)):
                lead_ops += 1
                nb = lambda ks: sorted(k for k in ks if not k.startswith("btp/"))
                if nb(ro) != nb(m) or not {k for k in ro if k.startswith("btp/")} <= {k for k in m if k.startswith("btp/")}:
                    bad = f"operation {i}"
                    break
        if bad:
            lead_bad += 1
            diffs += 1
            if lead_bad <= 2:
                ctx.broken(f"requests written through the real LeaderAwareGroupUpdater differ from the model's ({bad}) "
                           f"[{d.get('name')}]", replay={"seed": ctx.seed, "history": d, "model": mo})
        else:
            lead_ok += 1

    # ---- the pipeline model (genR = gen . resolve) on in-fragment pairs (s, s+X):
    #  tie      abstractConf(real http.conf) = genR(decoded cluster), on BOTH sides (C06's `refs` mode);
    #  fragx    hypotheses of noninterference_foreign_set on the decoded pair (hypsB), the conclusion executed on the
    #           model, and the verdict on the real files (a judge failure only when the hypotheses hold)
    fr = collections.Counter()
    ties = ctx.driver("refs", fragsides, prop="C06") if fragsides else []
    tie_ok = {}
    for l, o in zip(fragsides, ties):
        d = json.loads(l)
        key = (d["id"], d["c17"])
        if not o.startswith("{"):
            fr["tie_undecodable"] += 1
            ctx.broken(f"C06 refs driver could not decode the fragment case {key}: {o[:200]}")
            continue
        m = json.loads(o)
        if m.get("skip") or not m.get("inFragment"):
            fr["tie_outside:" + (m.get("skip") or m.get("why", ""))[:50]] += 1
            continue
        fr["tie_sides_in_fragment"] += 1
        bad = []
        if not m["confEqual"]:
            bad.append("http.conf differs from gen(resolve c): " + m["confDiff"][:400])
        if not m["shapeOK"]:
            bad.append("resolve changed the shape of the routes")
        bad += [f"graph BackendRef differs: {x}" for x in m["refsDiffs"][:3]]
        if sorted(d.get("refsvcs") or []) != m["refSvcs"]:
            bad.append(f"Graph.ReferencedServices real {sorted(d.get('refsvcs') or [])} model {m['refSvcs']}")
        if bad:
            fr["tie_diffs"] += 1
            diffs += 1
            if fr["tie_diffs"] <= 2:
                ctx.broken(f"pipeline model and real pipeline disagree on fragment case {key}: {bad[0][:300]}",
                           replay={"seed": ctx.seed, "case": key, "differences": bad, "in": d["in"]})
        else:
            fr["tie_sides_equal"] += 1
            tie_ok[key] = True
    for l, o in zip(fragx, ctx.driver("fragx", fragx) if fragx else []):
        d = json.loads(l)
        if d.get("panic"):
            fr["panic"] += 1
            continue
        if not o.startswith("{"):
            fr["fragx_undecodable"] += 1
            ctx.broken(f"fragx driver could not decode pair {d['id']}: {o[:200]}")
            continue
        m = json.loads(o)
        if not m["inFragment"]:
            fr["pair_outside:" + m["why"][:50]] += 1
            continue
        fr["pairs_in_fragment"] += 1
        if not m["hyps"]:
            fr[f"hypotheses_not_met:mixed={m['mixed']},foreign={m['foreign']},keys={m['keys']}"] += 1
            continue
        fr["pairs_hypotheses_hold"] += 1
        fr["x_routes"] += m["xroutes"]
        fr["x_gateways"] += m["xgateways"]
        fr["x_classes"] += m["xclasses"]
        fr["x_services"] += m["xservices"]
        fr["x_grants"] += m["xgrants"]
        fr["probes"] += m["probes"]
        if m["served"] and m["servers"] > 0:
            fr["pairs_served_with_servers"] += 1
        if m["rawDiffers"]:
            fr["pairs_model_output_differs_textually"] += 1
        if m["xInGraph"]:
            fr["pairs_with_x_route_in_graph_but_unattached"] += 1
        elif m["refSvcsPerm"]:
            fr["pairs_referenced_services_unchanged"] += 1
        if tie_ok.get((d["id"], "fragA")) and tie_ok.get((d["id"], "fragB")):
            fr["pairs_tied_on_both_sides"] += 1
        if m["thm"]:
            fr["theorem_contradicted"] += 1
            ctx.broken(f"executable model contradicts a theorem on pair {d['id']}: {m['thm'][:300]}", kind="obligation",
                       replay={"seed": ctx.seed, "pair": d["id"], "a": d["a"], "b": d["b"]})
        if m["verdict"].startswith("fail"):
            fr["files_differ"] += 1
            if fr["files_differ"] <= 2:
                ctx.finding("C17:files_unchanged:fragment",
                            f"{m['verdict']}: generated files differ with a foreign set X (hypotheses of "
                            f"noninterference_foreign_set hold) [frag pair {d['id']}]",
                            {"seed": ctx.seed, "pair": d["id"], "x": d["x"], "filesA": d["filesA"], "filesB": d["filesB"],
                             "a": d["a"], "b": d["b"]})
    if fragx and fr["pairs_hypotheses_hold"] < len(fragx) // 2:
        ctx.broken(f"fragment generator: fewer than half of the pairs satisfy the theorem's hypotheses: {dict(fr)}")

    # ---- coverage
    def nontrivial(d):
        st, x = d["in"], d["j"].get("x") or []
        if d["k"] == "meta":
            return len(x) >= 3 and bool(d["obs"]["wg"]) and len(d["obs"]["routes"]) >= 1
        if d["k"] == "disabled":
            return len(st["gws"]) >= 1 and len(st["routes"]) >= 1
        if d["k"] in ("hist", "histp"):
            return not d["j"].get("nochange") and len(x) >= 1
        if d["k"] == "lead":
            return d["j"].get("phase") in ("enable", "post") and len(d["j"].get("reqs") or []) >= 1
        return False
    distinct = {json.dumps(d["in"], sort_keys=True) + "|" + d["k"] for d in parsed if nontrivial(d)}
    xkinds = collections.Counter()
    for d in parsed:
        if d["k"] == "meta":
            for k in d["j"]["x"]:
                xkinds[k.split("/")[0].split(":")[0]] += 1
    kept_checked = sum(len(d["j"].get("kept") or []) for d in parsed)
    kept_with_foreign = sum(1 for d in parsed for k in (d["j"].get("kept") or []) if k["before"])
    samples = []
    for d in parsed:
        if d["k"] == "meta" and len(samples) < 3:
            samples.append({"k": d["k"], "id": d["id"], "x": d["j"]["x"], "targets": d["j"]["targets"],
                            "classes": d["in"]["classes"], "gws": d["in"]["gws"]})
    for d in parsed:
        if d["k"] in ("disabled", "histp") and len(samples) < 5 and d["id"] % 7 == 0:
            samples.append({"k": d["k"], "id": d["id"], "tag": d.get("tag"), "classes": d["in"]["classes"],
                            "targets": d["j"]["targets"]})
    ctx.dependency("C09", "status requests reach the API through the leader-aware group updater: only the last submission "
                          "per group is written at Enable")
    ctx.dependency("C08", "foreign status entries are preserved by the merging setters")
    ctx.finish({
        "evaluations": len(cases) + len(fragx),
        "distinct_nontrivial": len(distinct),
        "rule": "distinct cluster states judged on the real pipeline; non-trivial = metamorphic pair with a winning Gateway, "
                ">=1 route in the graph and >=3 foreign objects added / disabled case with gateways and routes / history "
                "step that rebuilt the graph with >=1 foreign object present / leadership operation at or after Enable "
                "that handed >=1 request to the real Updater (in-fragment pairs are counted in pipeline_fragment)",
        "samples": samples,
        "traces_validated_against_impl": len(corr) + lead_ok + fr["tie_sides_equal"] - diffs,
        "correspondence_diffs": diffs,
        "class_store_histories_validated": cls_ok,
        "pipeline_fragment": dict(fr),
        "leadership_histories_validated": lead_ok,
        "leadership_operations_compared": lead_ops,
        "dependencies": getattr(ctx, "deps", []),
        "correspondence_diff_fields": dict(field_diffs),
        "case_kinds": dict(kinds),
        "verdicts": dict(vcount),
        "inconclusive": dict(skipped),
        "foreign_objects_added_by_kind": dict(xkinds),
        "setter_runs_checked": kept_checked,
        "setter_runs_with_foreign_entries": kept_with_foreign,
        "generator_branches": tags,
    }, assumptions=[
        "Kubernetes object keys are unique per kind (GatewayClass names, namespaced names)",
        "route validity and backend resolution (L7Route.Valid, BackendRef.SvcNsName) enter the model as data attached to the "
        "route; they depend on no object that C17 calls foreign",
        "generated files are compared after order-normalisation of top-level blocks and upstream server lines; where the "
        "generator's output is not a function of its input (Go map order, C14) runs are repeated and compared as sets",
    ], trusted=[
        "harness/pipeline (shared in-process wiring of the real ChangeProcessor, BuildConfiguration, Generator, Prepare*Requests)",
        "Lean judge NGF.Ownership.judge / judgeLead (specification predicates foreign*/droppableKeys)",
        "the recording Kubernetes client behind the real status.Updater in the leadership stream (Get answers from the "
        "cluster as it is at that moment)",
        "Secrets/ConfigMaps/Services/ReferenceGrants of the foreign set (keys `aux:`) are foreign by construction of the "
        "generator (names no object of the base scenario uses)",
    ])
