"""C19 — product telemetry discloses only counts, flag classes and directive names (DESIGN.md §6 C19)."""
import collections
import os

import vcheck


def _parts(line):
    return dict(p.split(" ", 1) for p in line.split("\t") if " " in p)


def _unhex(h):
    if h in ("_", "-", ""):
        return ""
    try:
        return bytes.fromhex(h).decode("utf-8", "replace")
    except ValueError:
        return "<bad hex>"


def _build_gateway(ctx):
    """The real cmd/gateway (package main) built with the overlay hook overlay/cmd/gateway/zz_verif_c19.go,
    which serves parseFlags over stdin/stdout when VERIF_C19_SERVER=1."""
    hdir = os.path.join(vcheck.VERIF, "harness")
    with vcheck.Lock("harnessmod"):
        mod, ov = ctx._harness_mod()
    out = os.path.join(ctx.bindir, "c19gw")
    rc, _, err = vcheck.sh(["go", "build", "-tags", "verif", "-modfile", mod, "-overlay", ov, "-o", out,
                            "github.com/nginx/nginx-gateway-fabric/cmd/gateway"], cwd=hdir, env=vcheck.GOENV)
    if rc != 0:
        ctx.build_errors.append("gateway binary with C19 hook: " + err[-3000:])
        ctx.log("gateway binary build FAILED:\n" + err[-1500:])
        return None
    return out


SHAPE_TEXT = {
    "leak:quoted-semicolon": "a ';' inside a quoted argument ends the 'directive': the text after it is reported as a directive name",
    "leak:escaped-semicolon": "an escaped '\\;' inside an argument ends the 'directive': the text after it is reported",
    "leak:tab-or-newline-separator": "a tab/newline (not a space) after the directive name: name and following arguments are reported as one string",
    "leak:nested-block-entry": "entries of a nested block (map/geo/types/location/if ...) after the first are reported as directive names",
    "leak:comment-text": "comment text ('#', words after a ';' inside a comment) is reported as a directive name",
    "leak:closing-brace": "the '}' closing a block (and what is glued to it by a newline) is reported as a directive name",
    "leak:brace-glued-name": "'{' glued to the directive name: name, brace and the first word of the block are reported as one string",
    "miscount:directive-after-block": "a directive that follows a block whose last entry has no ';' before '}' is not reported",
    "platform-not-closed": "the reported ClusterPlatform is neither one of the eight platform constants nor other_<scheme> with <scheme> the "
                           "trimmed text before the first '://' of a providerID that contains '://' (user-provided node id text leaves the cluster)",
    "snapshot:report-without-graph": "a report is produced although the change processor holds no graph",
}

COUNT_NAMES = {"gc": "GatewayClassCount", "gw": "GatewayCount", "http": "HTTPRouteCount", "grpc": "GRPCRouteCount", "tls": "TLSRouteCount",
               "sec": "SecretCount", "svc": "ServiceCount", "ep": "EndpointCount", "btp": "BackendTLSPolicyCount",
               "gwcsp": "GatewayAttachedClientSettingsPolicyCount", "rtcsp": "RouteAttachedClientSettingsPolicyCount",
               "obs": "ObservabilityPolicyCount", "usp": "UpstreamSettingsPolicyCount", "np": "NginxProxyCount", "sf": "SnippetsFilterCount"}


def _kv(fields, sep=";"):
    return dict(x.split("=", 1) for x in fields.split(sep) if "=" in x)


def _history_replay(j, descr):
    """readable form of an H judge line: per batch what happened, the snapshot counts and what was reported"""
    out = []
    for i, st in enumerate(j.split("steps=", 1)[1].split("|")):
        f = _kv(st)
        real = {k[2:]: v for k, v in f.items() if k.startswith("r_")}
        snap = None if st.startswith("none") else {k: v for k, v in f.items() if not k.startswith("r_") and k != "r"}
        out.append({"batch": descr[i] if i < len(descr) else f"b{i}",
                    "snapshot(graph held by the processor + configuration built from it)": snap,
                    "reported_counts": real or None})
    return out


def run(ctx):
    ctx.prepare()
    gw = _build_gateway(ctx)
    ctx.obligations("NGF.Props.C19")
    ctx.obligations("NGF.Props.C19Truth")
    if ctx.tier == "thorough":
        ctx.leanchecker("NGF.Props.C19")
        ctx.leanchecker("NGF.Props.C19Truth")

    n, nagg, nraw, nflags = (700, 250, 250, 80) if ctx.tier == "quick" else (40000, 15000, 15000, 2000)
    nplat, nhist, nbatch = (150, 40, 7) if ctx.tier == "quick" else (4000, 1500, 9)
    args = ["-seed", ctx.seed, "-n", n, "-nagg", nagg, "-nraw", nraw, "-nflags", nflags,
            "-nplat", nplat, "-nhist", nhist, "-nbatch", nbatch,
            "-corpus", os.path.join(vcheck.VERIF, "corpus", "C19")]
    if gw:
        args += ["-gw", gw]
    lines = ctx.harness(args) or []
    if not getattr(ctx, "harness_ok", False) or gw is None:
        ctx.broken("harness does not build against the current tree", detail="\n".join(ctx.build_errors))
    if getattr(ctx, "harness_rc", 0) != 0:
        ctx.broken(f"harness run crashed (exit {ctx.harness_rc})", detail=getattr(ctx, "harness_err", ""))

    kinds, model_in, obs, mkind, judge_in, jkind = collections.Counter(), [], [], [], [], []
    jdescr = {}
    inconclusive = collections.Counter()
    for l in lines:
        p = _parts(l)
        k = p.get("K", "?")
        kinds[k.split("/")[0] + "/" + (k.split("/")[1] if "/" in k and not k.startswith("corpus") else "")] += 1
        if "X" in p:
            inconclusive[p["X"].split(" ")[0]] += 1
            ctx.broken(f"harness case inconclusive: {p['X'][:200]}", replay={"case": l[:4000]})
            continue
        if "M" in p and "O" in p:
            model_in.append(p["M"]); obs.append(p["O"]); mkind.append(k)
        if "J" in p:
            if "D" in p:
                jdescr[len(judge_in)] = _unhex(p["D"]).split("\n")
            judge_in.append(p["J"]); jkind.append(k)

    # ---- the property, evaluated by the Lean judge on what the real code returned
    verdicts = ctx.driver("judge", judge_in)
    sig_hist, feat_hist = collections.Counter(), collections.Counter()
    judged_ok = 0
    for ji, (j, k, v) in enumerate(zip(judge_in, jkind, verdicts)):
        if v == "ok":
            judged_ok += 1
            continue
        if v == "bad-op" or not v.startswith("fail "):
            ctx.broken("judge cannot decode a case", replay={"judge_input": j[:4000], "answer": v})
            continue
        _, sigs, detail = (v.split(" ") + ["_"])[:3]
        for s in sigs.split(","):
            sig_hist[s] += 1
            what = SHAPE_TEXT.get(s, f"telemetry report violates clause {s}")
            replay = {"judge_input": j, "case_kind": k, "offending_reported_string": _unhex(detail)}
            if j.startswith("PL "):
                f = dict(x.split("=", 1) for x in j.split(" ")[1:] if "=" in x)
                replay = {"judge_input": j, "case_kind": k, "node_providerID": _unhex(f.get("pid", "_")),
                          "node_labels": {_unhex(e.split(":")[0]): _unhex(e.split(":")[1]) for e in f.get("labels", "-").split(",") if ":" in e},
                          "namespaces": [_unhex(x) for x in f.get("ns", "-").split(",") if x != "-"],
                          "reported_ClusterPlatform": _unhex(f.get("platform", "_"))}
            if j.startswith("H "):
                step = _unhex(detail)
                fld = s.split(":", 1)[1] if s.startswith("snapshot:") else s
                if fld in COUNT_NAMES:
                    what = (f"{COUNT_NAMES[fld]} is not the count of ONE snapshot: it differs from the count of the graph the change "
                            "processor holds together with the configuration built from that graph (graph and configuration of "
                            "different batches are mixed)")
                replay = {"case_kind": k, "first_inconsistent_batch": step,
                          "history": _history_replay(j, jdescr.get(ji, [])), "judge_input": j}
            if j.startswith("S "):
                f = dict(x.split("=", 1) for x in j.split(" ")[1:] if "=" in x)
                replay["snippets"] = [[_unhex(e.split(":")[0]), _unhex(e.split(":")[1])]
                                      for flt in f.get("filters", "").split("|") if ":" in flt
                                      for e in flt.split(",")][:8]
                replay["reported"] = [_unhex(x) for x in f.get("dirs", "").split(",")][:20]
            if j.startswith("G "):
                f = dict(x.split("=", 1) for x in j.split(" ")[1:] if "=" in x)
                names = [_unhex(x) for x in f.get("names", "").split(",")]
                vals = [_unhex(x) for x in f.get("values", "").split(",")]
                replay["command_line"] = ["gateway", "static-mode"] + [_unhex(x) for x in f.get("args", "-").split(",") if x != "-"]
                bad = []
                for fl, v in zip(f.get("flags", "").split(","), vals):
                    p_ = fl.split(":")
                    if p_[1] == "o" and v not in ("default", "user-defined"):
                        bad.append({"flag": _unhex(p_[0]), "type": _unhex(p_[4]), "Value.String()": _unhex(p_[2]),
                                    "DefValue": _unhex(p_[3]), "reported_FlagValue": v})
                    if p_[1] == "b" and v not in ("true", "false"):
                        bad.append({"flag": _unhex(p_[0]), "type": "bool", "reported_FlagValue": v})
                replay["misreported_flags"] = bad
                replay["reported"] = dict(zip(names, vals))
            ctx.finding(f"C19:{s}", f"SnippetsFilter telemetry: {what}" if s.split(":")[0] in ("leak", "miscount", "report")
                        else f"telemetry: {what}", replay)


    # ---- how many cases lie in the region where even the PRE-FIX collector was proved right (`isTidy`,
    # `directives_subset_of_parse_partial`, `fix_preserves_tidy`); a judge failure there is a broken tie
    s_idx = [i for i, j in enumerate(judge_in) if j.startswith("S ")]
    tidy = ctx.driver("model", ["T " + judge_in[i].split(" ")[1] for i in s_idx])
    tidy_cases = tidy_bad = 0
    for i, t in zip(s_idx, tidy):
        if t == "tidy=1":
            tidy_cases += 1
            if verdicts[i] != "ok":
                tidy_bad += 1
                if tidy_bad > 3:
                    continue
                ctx.broken("the real collector misreports a TIDY snippet (region where the pre-fix and the current collector are both proved right)",
                           replay={"judge_input": judge_in[i][:4000], "verdict": verdicts[i]})

    # ---- correspondence: the Lean model on the same inputs
    outs = ctx.driver("model", model_in)
    hvariant = collections.Counter()  # handler histories: current code vs the success-only variant
    variant = collections.Counter()   # tokenizer = the model of the current code; prefix-split = the PRE-FIX variant
    mismatches = []
    for m, o, out, k in zip(model_in, obs, outs, mkind):
        if m.startswith("S ") and " sdirs=" in out:
            cur, old = out.split(" sdirs=")
            old = "dirs=" + old.replace(" scounts=", " counts=")
            if o == cur:
                variant["tokenizer" if o != old else "both"] += 1
            else:
                variant["prefix-split" if o == old else "neither"] += 1
                mismatches.append((m, o, cur, k + (" [equals the PRE-FIX split-based model]" if o == old else "")))
        elif m.startswith("H ") and " sout=" in out:
            cur, so = out.split(" sout=")
            if o == cur:
                hvariant["current" if o != "out=" + so else "both"] += 1
            else:
                hvariant["success-only" if o == "out=" + so else "neither"] += 1
                mismatches.append((m, o, cur, k + (" [equals the SUCCESS-ONLY variant: configuration stored only after a successful update]"
                                                   if o == "out=" + so else "")))
        elif o != out:
            mismatches.append((m, o, out, k))
    diffs = len(mismatches)
    if hvariant["success-only"]:
        ctx.broken(f"the real handler + collector behave like the success-only variant on {hvariant['success-only']} histories: "
                   "GetLatestConfiguration lags behind GetLatestGraph after a failed NGINX update", replay={"variant_histogram": dict(hvariant)})
    if variant["prefix-split"] and not variant["tokenizer"] and not variant["neither"]:
        ctx.broken(f"the real collector behaves like the PRE-FIX split-based collector on all {variant['prefix-split']} cases "
                   "where the two models differ: fix c8088bb is reverted", replay={"variant_histogram": dict(variant)})
    for m, o, out, k in mismatches[:3]:
        ctx.broken(f"model and implementation disagree ({k}): impl [{o[:300]}] / model [{out[:300]}]",
                   replay={"model_input": m[:4000], "impl": o, "model": out, "kind": k})
    model_variant = "prefix-split (REGRESSION)" if variant["prefix-split"] and not variant["tokenizer"] else "tokenizer"

    # ---- coverage
    for k in mkind:
        parts = k.split("/")
        if parts[0] == "single" and len(parts) > 3:
            for f in parts[3].split("+"):
                if f:
                    feat_hist[f] += 1
    distinct = len(set(model_in))
    nontrivial = len({m for m, o in zip(model_in, obs)
                      if (m.startswith("S ") and "dirs=-" not in o) or (m.startswith("R ") and "routes=-" not in m)
                      or (m.startswith("G ") and ":o:" in m and "757365722d646566696e6564" in o)
                      or m.startswith("PL ") or (m.startswith("H ") and ("|c;" in m or "|e;" in m or "steps=c;" in m))})
    # handler histories: measured sensitivity
    hstat = collections.Counter()
    for m, o in zip(model_in, obs):
        if not m.startswith("H "):
            continue
        hstat["histories"] += 1
        steps = [_kv(x) for x in o[4:].split("|")]
        msteps = m.split("steps=", 1)[1].split("|")
        for i, (st, ms) in enumerate(zip(steps, msteps)):
            hstat["batches"] += 1
            hstat["batches_" + {"n": "NoChange", "e": "EndpointsOnlyChange", "c": "ClusterStateChange"}[ms[0]]] += 1
            if st.get("err") == "1":
                hstat["batches_with_failed_update"] += 1
            if "ep" not in st:
                hstat["batches_without_report(no graph yet)"] += 1
            if i > 0 and "ep" in steps[i - 1] and "ep" in st:
                if st["ep"] != steps[i - 1]["ep"]:
                    hstat["batches_changing_EndpointCount"] += 1
                    if st.get("err") == "1":
                        hstat["failed_batches_changing_EndpointCount(discriminate the success-only variant)"] += 1
    plat_hist = collections.Counter(_unhex(o.split("=", 1)[1]).split("_")[0] + ("_<scheme>" if "_" in _unhex(o.split("=", 1)[1]) else "")
                                    for m, o in zip(model_in, obs) if m.startswith("PL "))
    samples = []
    for m, o, k in list(zip(model_in, obs, mkind))[:400:80]:
        if m.startswith("S "):
            flt = m.split("filters=")[1]
            samples.append({"kind": k, "snippets": [_unhex(e.split(":")[1])[:200] for f in flt.split("|") if ":" in f
                                                    for e in f.split(",")][:3],
                            "reported": [_unhex(x) for x in o.split(" ")[0][5:].split(",")][:8]})
    samples += [m[:300] for m in model_in if m.startswith("R ")][:1]
    ctx.finish({
        "evaluations": len(lines),
        "distinct_nontrivial": nontrivial,
        "rule": "distinct cases run through the real Collect / real parseFlags; non-trivial = a snippet case whose real report "
                "is non-empty, a count case with at least one route, or a command line with at least one user-defined flag",
        "samples": samples,
        "traces_validated_against_impl": len(model_in) - diffs,
        "correspondence_diffs": diffs,
        "collector_matches_model_variant": model_variant,
        "variant_histogram": dict(variant),
        "handler_history_stats": dict(hstat),
        "handler_variant_histogram": dict(hvariant),
        "platform_cases": sum(plat_hist.values()),
        "reported_platform_histogram": dict(plat_hist),
        "distinct_cases": distinct,
        "judged": len(judge_in),
        "judged_ok": judged_ok,
        "snippet_cases_in_proved_tidy_region": tidy_cases,
        "snippet_cases_judged": len(s_idx),
        "tidy_cases_misreported": tidy_bad,
        "finding_signature_histogram": dict(sig_hist),
        "case_kind_histogram": dict(kinds),
        "snippet_layout_feature_histogram": dict(feat_hist),
        "inconclusive": dict(inconclusive),
    }, assumptions=[
        "NGINX tokenisation is ngx_conf_read_token as modelled in NGF/Model/SnippetLex.lean (lenient on input NGINX rejects); "
        "directive names of a snippet = first words of its depth-0 statements (nested block entries are not directive names of the context)",
        "snippet strings are valid UTF-8 (they arrive through the Kubernetes API as JSON)",
        "every pflag.Flag with Type()==\"bool\" is pflag's own boolValue (String() is true/false); pinned by the generated fact customFlagTypes",
        "S/R streams: the graph/configuration handed to the collector are generated directly (not through BuildGraph): counts are judged "
        "against the sizes of the maps/slices the collector is given; H stream: real change processor (BuildGraph), real BuildConfiguration, "
        "real HandleEventBatch; NGINX itself is replaced by stubs that fail on demand (ReplaceFiles / Reload / Plus API)",
        "the platform is read from nodes.Items[0] only (pinned fact platformFlow); providerIDs are valid UTF-8",
    ], trusted=[
        "overlay/cmd/gateway/zz_verif_c19.go (calls the real createStaticModeCommand/parseFlags inside package main)",
        "Lean lexer NGF.Model.SnippetLex as the meaning of 'directive name' (lossless: lex_lossless)",
        "overlay/internal/mode/static/zz_verif_c19.go (constructs the real eventHandlerImpl; GetLatestConfiguration is the real method)",
        "harness/c19/truth.go summarize(): reads the set sizes off the real graph.Graph / dataplane.Configuration",
    ])
