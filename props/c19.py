"""C19 — product telemetry discloses only counts, flag classes and directive names (DESIGN.md §6 C19)."""
import collections
import os

import vcheck


def _parts(line):
    return dict(p.split(" ", 1) for p in line.split("\t") if " " in p)


def _unhex(h):
    if h in ("_", "-", ""):
        return ""
    try:
        return bytes.fromhex(h).decode("utf-8", "replace")
    except ValueError:
        return "<bad hex>"


def _build_gateway(ctx):
    """The real cmd/gateway (package main) built with the overlay hook overlay/cmd/gateway/zz_verif_c19.go,
    which serves parseFlags over stdin/stdout when VERIF_C19_SERVER=1."""
    hdir = os.path.join(vcheck.VERIF, "harness")
    with vcheck.Lock("harnessmod"):
        mod, ov = ctx._harness_mod()
    out = os.path.join(ctx.bindir, "c19gw")
    rc, _, err = vcheck.sh(["go", "build", "-tags", "verif", "-modfile", mod, "-overlay", ov, "-o", out,
                            "github.com/nginx/nginx-gateway-fabric/cmd/gateway"], cwd=hdir, env=vcheck.GOENV)
    if rc != 0:
        ctx.build_errors.append("gateway binary with C19 hook: " + err[-3000:])
        ctx.log("gateway binary build FAILED:\n" + err[-1500:])
        return None
    return out


SHAPE_TEXT = {
    "leak:quoted-semicolon": "a ';' inside a quoted argument ends the 'directive': the text after it is reported as a directive name",
    "leak:escaped-semicolon": "an escaped '\\;' inside an argument ends the 'directive': the text after it is reported",
    "leak:tab-or-newline-separator": "a tab/newline (not a space) after the directive name: name and following arguments are reported as one string",
    "leak:nested-block-entry": "entries of a nested block (map/geo/types/location/if ...) after the first are reported as directive names",
    "leak:comment-text": "comment text ('#', words after a ';' inside a comment) is reported as a directive name",
    "leak:closing-brace": "the '}' closing a block (and what is glued to it by a newline) is reported as a directive name",
    "leak:brace-glued-name": "'{' glued to the directive name: name, brace and the first word of the block are reported as one string",
    "miscount:directive-after-block": "a directive that follows a block whose last entry has no ';' before '}' is not reported",
}


def run(ctx):
    ctx.prepare()
    gw = _build_gateway(ctx)
    ctx.obligations("NGF.Props.C19")
    if ctx.tier == "thorough":
        ctx.leanchecker("NGF.Props.C19")

    n, nagg, nraw, nflags = (700, 250, 250, 80) if ctx.tier == "quick" else (40000, 15000, 15000, 2000)
    args = ["-seed", ctx.seed, "-n", n, "-nagg", nagg, "-nraw", nraw, "-nflags", nflags,
            "-corpus", os.path.join(vcheck.VERIF, "corpus", "C19")]
    if gw:
        args += ["-gw", gw]
    lines = ctx.harness(args) or []
    if not getattr(ctx, "harness_ok", False) or gw is None:
        ctx.broken("harness does not build against the current tree", detail="\n".join(ctx.build_errors))
    if getattr(ctx, "harness_rc", 0) != 0:
        ctx.broken(f"harness run crashed (exit {ctx.harness_rc})", detail=getattr(ctx, "harness_err", ""))

    kinds, model_in, obs, mkind, judge_in, jkind = collections.Counter(), [], [], [], [], []
    inconclusive = collections.Counter()
    for l in lines:
        p = _parts(l)
        k = p.get("K", "?")
        kinds[k.split("/")[0] + "/" + (k.split("/")[1] if "/" in k and not k.startswith("corpus") else "")] += 1
        if "X" in p:
            inconclusive[p["X"].split(" ")[0]] += 1
            ctx.broken(f"harness case inconclusive: {p['X'][:200]}", replay={"case": l[:4000]})
            continue
        if "M" in p and "O" in p:
            model_in.append(p["M"]); obs.append(p["O"]); mkind.append(k)
        if "J" in p:
            judge_in.append(p["J"]); jkind.append(k)

    # ---- the property, evaluated by the Lean judge on what the real code returned
    verdicts = ctx.driver("judge", judge_in)
    sig_hist, feat_hist = collections.Counter(), collections.Counter()
    judged_ok = 0
    for j, k, v in zip(judge_in, jkind, verdicts):
        if v == "ok":
            judged_ok += 1
            continue
        if v == "bad-op" or not v.startswith("fail "):
            ctx.broken("judge cannot decode a case", replay={"judge_input": j[:4000], "answer": v})
            continue
        _, sigs, detail = (v.split(" ") + ["_"])[:3]
        for s in sigs.split(","):
            sig_hist[s] += 1
            what = SHAPE_TEXT.get(s, f"telemetry report violates clause {s}")
            replay = {"judge_input": j, "case_kind": k, "offending_reported_string": _unhex(detail)}
            if j.startswith("S "):
                f = dict(x.split("=", 1) for x in j.split(" ")[1:] if "=" in x)
                replay["snippets"] = [[_unhex(e.split(":")[0]), _unhex(e.split(":")[1])]
                                      for flt in f.get("filters", "").split("|") if ":" in flt
                                      for e in flt.split(",")][:8]
                replay["reported"] = [_unhex(x) for x in f.get("dirs", "").split(",")][:20]
            if j.startswith("G "):
                f = dict(x.split("=", 1) for x in j.split(" ")[1:] if "=" in x)
                names = [_unhex(x) for x in f.get("names", "").split(",")]
                vals = [_unhex(x) for x in f.get("values", "").split(",")]
                replay["command_line"] = ["gateway", "static-mode"] + [_unhex(x) for x in f.get("args", "-").split(",") if x != "-"]
                bad = []
                for fl, v in zip(f.get("flags", "").split(","), vals):
                    p_ = fl.split(":")
                    if p_[1] == "o" and v not in ("default", "user-defined"):
                        bad.append({"flag": _unhex(p_[0]), "type": _unhex(p_[4]), "Value.String()": _unhex(p_[2]),
                                    "DefValue": _unhex(p_[3]), "reported_FlagValue": v})
                    if p_[1] == "b" and v not in ("true", "false"):
                        bad.append({"flag": _unhex(p_[0]), "type": "bool", "reported_FlagValue": v})
                replay["misreported_flags"] = bad
                replay["reported"] = dict(zip(names, vals))
            ctx.finding(f"C19:{s}", f"SnippetsFilter telemetry: {what}" if s.split(":")[0] in ("leak", "miscount", "report")
                        else f"telemetry: {what}", replay)

    # ---- how many cases lie in the region where even the PRE-FIX collector was proved right (`isTidy`,
    # `directives_subset_of_parse_partial`, `fix_preserves_tidy`); a judge failure there is a broken tie
    s_idx = [i for i, j in enumerate(judge_in) if j.startswith("S ")]
    tidy = ctx.driver("model", ["T " + judge_in[i].split(" ")[1] for i in s_idx])
    tidy_cases = tidy_bad = 0
    for i, t in zip(s_idx, tidy):
        if t == "tidy=1":
            tidy_cases += 1
            if verdicts[i] != "ok":
                tidy_bad += 1
                if tidy_bad > 3:
                    continue
                ctx.broken("the real collector misreports a TIDY snippet (region where the pre-fix and the current collector are both proved right)",
                           replay={"judge_input": judge_in[i][:4000], "verdict": verdicts[i]})

    # ---- correspondence: the Lean model on the same inputs
    outs = ctx.driver("model", model_in)
    variant = collections.Counter()   # tokenizer = the model of the current code; prefix-split = the PRE-FIX variant
    mismatches = []
    for m, o, out, k in zip(model_in, obs, outs, mkind):
        if m.startswith("S ") and " sdirs=" in out:
            cur, old = out.split(" sdirs=")
            old = "dirs=" + old.replace(" scounts=", " counts=")
            if o == cur:
                variant["tokenizer" if o != old else "both"] += 1
            else:
                variant["prefix-split" if o == old else "neither"] += 1
                mismatches.append((m, o, cur, k + (" [equals the PRE-FIX split-based model]" if o == old else "")))
        elif o != out:
            mismatches.append((m, o, out, k))
    diffs = len(mismatches)
    if variant["prefix-split"] and not variant["tokenizer"] and not variant["neither"]:
        ctx.broken(f"the real collector behaves like the PRE-FIX split-based collector on all {variant['prefix-split']} cases "
                   "where the two models differ: fix c8088bb is reverted", replay={"variant_histogram": dict(variant)})
    for m, o, out, k in mismatches[:3]:
        ctx.broken(f"model and implementation disagree ({k}): impl [{o[:300]}] / model [{out[:300]}]",
                   replay={"model_input": m[:4000], "impl": o, "model": out, "kind": k})
    model_variant = "prefix-split (REGRESSION)" if variant["prefix-split"] and not variant["tokenizer"] else "tokenizer"

    # ---- coverage
    for k in mkind:
        parts = k.split("/")
        if parts[0] == "single" and len(parts) > 3:
            for f in parts[3].split("+"):
                if f:
                    feat_hist[f] += 1
    distinct = len(set(model_in))
    nontrivial = len({m for m, o in zip(model_in, obs)
                      if (m.startswith("S ") and "dirs=-" not in o) or (m.startswith("R ") and "routes=-" not in m)
                      or (m.startswith("G ") and ":o:" in m and "757365722d646566696e6564" in o)})
    samples = []
    for m, o, k in list(zip(model_in, obs, mkind))[:400:80]:
        if m.startswith("S "):
            flt = m.split("filters=")[1]
            samples.append({"kind": k, "snippets": [_unhex(e.split(":")[1])[:200] for f in flt.split("|") if ":" in f
                                                    for e in f.split(",")][:3],
                            "reported": [_unhex(x) for x in o.split(" ")[0][5:].split(",")][:8]})
    samples += [m[:300] for m in model_in if m.startswith("R ")][:1]
    ctx.finish({
        "evaluations": len(lines),
        "distinct_nontrivial": nontrivial,
        "rule": "distinct cases run through the real Collect / real parseFlags; non-trivial = a snippet case whose real report "
                "is non-empty, a count case with at least one route, or a command line with at least one user-defined flag",
        "samples": samples,
        "traces_validated_against_impl": len(model_in) - diffs,
        "correspondence_diffs": diffs,
        "collector_matches_model_variant": model_variant,
        "variant_histogram": dict(variant),
        "distinct_cases": distinct,
        "judged": len(judge_in),
        "judged_ok": judged_ok,
        "snippet_cases_in_proved_tidy_region": tidy_cases,
        "snippet_cases_judged": len(s_idx),
        "tidy_cases_misreported": tidy_bad,
        "finding_signature_histogram": dict(sig_hist),
        "case_kind_histogram": dict(kinds),
        "snippet_layout_feature_histogram": dict(feat_hist),
        "inconclusive": dict(inconclusive),
    }, assumptions=[
        "NGINX tokenisation is ngx_conf_read_token as modelled in NGF/Model/SnippetLex.lean (lenient on input NGINX rejects); "
        "directive names of a snippet = first words of its depth-0 statements (nested block entries are not directive names of the context)",
        "snippet strings are valid UTF-8 (they arrive through the Kubernetes API as JSON)",
        "every pflag.Flag with Type()==\"bool\" is pflag's own boolValue (String() is true/false); pinned by the generated fact customFlagTypes",
        "the graph/configuration handed to the collector are generated directly (not through BuildGraph): counts are judged against the "
        "sizes of the maps/slices the collector is given",
    ], trusted=[
        "overlay/cmd/gateway/zz_verif_c19.go (calls the real createStaticModeCommand/parseFlags inside package main)",
        "Lean lexer NGF.Model.SnippetLex as the meaning of 'directive name' (lossless: lex_lossless)",
    ])
