"""C16 — TLS material is bound to the right listener and never weakened silently (DESIGN.md §6 C16)."""
import collections
import hashlib
import json
import os


def _summary(d):
    i = d["in"]
    return {
        "id": d["id"], "kind": d["kind"], "name": d.get("name", ""),
        "gateway": i.get("gw"),
        "listeners": [{k: l[k] for k in ("name", "port", "proto", "host", "nrefs", "refNS", "refName")} for l in i.get("listeners") or []],
        "btps": [{k: b[k] for k in ("ns", "name", "ts", "targets", "host", "refs", "wk")} for b in i.get("btps") or []],
        "graph_listeners": [{k: l[k] for k in ("name", "valid", "nroutes", "accepted")} for l in d["obs"].get("listeners") or []],
        "ssl_servers": d["obs"].get("servers"),
        "rules": d["obs"].get("rules"),
    }


def run(ctx):
    ctx.prepare()
    ctx.obligations("NGF.Props.C16")
    ctx.obligations("NGF.Props.C16Pipeline")
    if ctx.tier == "thorough":
        ctx.leanchecker("NGF.Props.C16")
        ctx.leanchecker("NGF.Props.C16Pipeline")

    n_pipe, n_loop = (1200, 300) if ctx.tier == "quick" else (24000, 6000)

    # ---- corpus (minimised regression inputs) first, then fixed + generated scenarios on the REAL pipeline
    lines = []
    corpus_dir = os.path.join(os.path.dirname(os.path.dirname(os.path.abspath(__file__))), "corpus", "C16")
    if os.path.isdir(corpus_dir):
        for fn in sorted(os.listdir(corpus_dir)):
            if fn.endswith(".json"):
                out = ctx.harness(["-replay", os.path.join(corpus_dir, fn)])
                for l in out or []:
                    d = json.loads(l)
                    d["name"] = "corpus/" + fn
                    lines.append(json.dumps(d))
    chunk = 4000
    done = 0
    while done < n_pipe:
        k = min(chunk, n_pipe - done)
        out = ctx.harness(["-seed", ctx.seed + done * 7919, "-n", k])
        lines += out or []
        done += k
    if not getattr(ctx, "harness_ok", False):
        ctx.broken("harness does not build against the current tree", detail="\n".join(ctx.build_errors))
    if getattr(ctx, "harness_rc", 0) not in (0, None):
        ctx.broken(f"harness exited with {ctx.harness_rc}", detail=getattr(ctx, "harness_err", ""))

    # ---- the property itself: Lean judge on the real generated files + input objects
    verdicts = ctx.driver("judge", lines) if lines else []
    judge_hist = collections.Counter()
    sig_hist = collections.Counter()
    for l, v in zip(lines, verdicts):
        judge_hist[v.split(" ")[0]] += 1
        if v.startswith("fail "):
            d = json.loads(l)
            sigs, _, detail = v[5:].partition(" :: ")
            for sig in sigs.split(";"):
                sig_hist[sig] += 1
                if sig_hist[sig] <= 1:  # the first input of each signature is the replay
                    ctx.finding(sig, f"{sig}: {detail[:300]}",
                                {"case": _summary(d), "verdict": v[:600],
                                 "reproduce": f"harness/cmd/c16 -seed <seed> -n <n> -dump {d['id']}  (or corpus/C16)"})
        elif v.startswith("bad-op"):
            ctx.broken(f"judge could not decode a case: {v[:200]}")
    panics = collections.Counter()
    for l in lines:
        if '"panic":"' in l[-400:] or '"panic":"' in l:
            d = json.loads(l)
            if d["obs"].get("panic"):
                panics[d["obs"]["panic"]] += 1
    for site, n in panics.items():
        # a panic is C05's subject; here it only means the case could not be judged
        ctx.notes.append(f"{n} case(s) panicked at {site}")

    # ---- direct-call correspondence of the decision functions (through the verif overlay)
    loop = ctx.harness(["-mode", "loop", "-seed", ctx.seed, "-n", n_loop]) or []
    louts = ctx.driver("loop", loop) if loop else []
    loop_hist = collections.Counter()
    ldiffs = 0
    for l, o in zip(loop, louts):
        k = json.loads(l)["k"]
        loop_hist[k] += 1
        if o != "ok":
            ldiffs += 1
            if ldiffs <= 3:
                ctx.broken(f"model and implementation disagree on direct call {l[:300]}: {o[:300]}",
                           replay={"call": json.loads(l), "model": o})
    if not loop:
        ctx.broken("direct-call correspondence produced no lines")
    # ---- correspondence: the Lean model recomputes what the real graph/dataplane code produced
    outs = ctx.driver("model", lines) if lines else []
    model_hist = collections.Counter()
    diffs = 0
    for l, o in zip(lines, outs):
        model_hist[o.split(" ")[0]] += 1
        if o.startswith("diff") or o.startswith("bad-op"):
            diffs += 1
            if diffs <= 3:
                d = json.loads(l)
                ctx.broken(f"model and implementation disagree on case {d['id']} ({d['kind']}): {o[:400]}",
                           replay={"case": _summary(d), "diff": o[:2000]})

    # ---- pipeline level: Model/PipelineTls.genT against the REAL http.conf + the REAL secret files, on C02's fragment
    # scenarios extended with HTTPS listeners / Secrets / ReferenceGrants (harness/c16/fragment.go)
    n_frag = 1500 if ctx.tier == "quick" else 30000
    frag = ctx.harness(["-mode", "frag", "-seed", ctx.seed * 31 + 5, "-n", n_frag]) or []
    fouts = ctx.driver("pipeline", frag) if frag else []
    fr = collections.Counter()
    fr_stats = collections.Counter()
    fr_res = collections.Counter()
    fr_tags = collections.Counter()
    fr_why = collections.Counter()
    fr_nontrivial = set()
    fr_samples = []
    fdiffs = 0
    if not frag:
        ctx.broken("pipeline-level stream (mode frag) produced no lines")
    if len(fouts) != len(frag):
        ctx.broken(f"pipeline driver answered {len(fouts)} lines for {len(frag)} cases")
    for l, o in zip(frag, fouts):
        d = json.loads(l)
        for t, c in (d.get("tags") or {}).items():
            if t.startswith("tls:"):
                fr_tags[t[4:]] += c
        if d.get("panic"):
            fr["panic"] += 1
            panics[d["panic"]] += 1
            continue
        try:
            r = json.loads(o)
        except Exception:
            r = {"error": o[:300]}
        if "inFragment" not in r:
            fr["bad-op"] += 1
            fdiffs += 1
            if fdiffs <= 3:
                ctx.broken(f"pipeline driver could not evaluate fragment case {d['id']}: {o[:300]}")
            continue
        if not r["inFragment"]:
            fr["outside-fragment"] += 1
            fr_why[r.get("why", "")[:80]] += 1
            continue
        fr["in-fragment"] += 1
        bad = []
        if not r["confEqual"]:
            bad.append("http.conf: " + r["confDiff"])
        if not r["filesEqual"]:
            bad.append("secret files: " + r["filesDiff"])
        if r["thmFail"]:
            bad.append("theorem (executed): " + r["thmFail"])
        st = r["stats"]
        for k, v in st.items():
            if k == "res":
                for x in v:
                    fr_res[x] += 1
            else:
                fr_stats[k] += v
        fr_stats["theorem_instances_executed"] += r["thmChecks"]
        if st["sslServers"] > 0:
            fr["with-ssl-server"] += 1
            g = (d["flat"].get("gws") or [])
            fr_nontrivial.add(hashlib.sha1(json.dumps([g, d["flat"].get("routes"), d["flat"].get("grants")], sort_keys=True).encode()).hexdigest())
        if st["contested"] > 0:
            fr["with-contested-hostname"] += 1
        if st["conflicted"] > 0:
            fr["with-port-conflict"] += 1
        if len(fr_samples) < 3 and st["sslServers"] > 1:
            fr_samples.append({"id": d["id"], "listeners": [
                {k: x[k] for k in ("name", "port", "proto", "host", "certs", "from")}
                for gw in d["flat"]["gws"] if gw["name"] == "gw" for x in gw["listeners"]], "stats": st})
        if bad:
            fr["DIVERGES"] += 1
            fdiffs += 1
            if fdiffs <= 3:
                ctx.broken(f"pipeline model genT and the real configuration disagree on fragment case {d['id']}: " + " ;; ".join(bad)[:600],
                           replay={"case_id": d["id"], "tags": d.get("tags"), "diff": bad,
                                   "gateways": d["flat"].get("gws"), "routes": d["flat"].get("routes"),
                                   "grants": d["flat"].get("grants"),
                                   "secrets": [{k: x[k] for k in ("ns", "name", "type", "pairOK")} for x in d.get("secrets") or []],
                                   "secret_files": [x["path"] for x in d.get("sfiles") or []],
                                   "reproduce": f"harness/cmd/c16 -mode frag -seed {ctx.seed * 31 + 5} -n {n_frag} -only {d['id']}"})
        else:
            fr["equal"] += 1
    if frag and fr["in-fragment"] < len(frag) // 2:
        ctx.broken(f"only {fr['in-fragment']} of {len(frag)} generated fragment cases are inside the fragment: {dict(fr_why)}")

    # ---- coverage
    tags = collections.Counter()
    kinds = collections.Counter()
    nontrivial = set()
    n_listeners = collections.Counter()
    sec_states = collections.Counter()
    n_ssl_servers = 0
    n_verify_groups = 0
    for l in lines:
        d = json.loads(l)
        kinds[d["kind"]] += 1
        for t, c in (d.get("tags") or {}).items():
            tags[t] += c
        obs = d["obs"]
        has_cert = any(s.get("kp") for s in obs.get("servers") or [])
        has_verify = any(b.get("verify") for g in obs.get("groups") or [] for b in g.get("backends") or [])
        n_ssl_servers += sum(1 for s in obs.get("servers") or [] if s.get("kp"))
        n_verify_groups += sum(1 for g in obs.get("groups") or [] if any(b.get("verify") for b in g.get("backends") or []))
        https = [x for x in d["in"].get("listeners") or [] if x["proto"] == "HTTPS"]
        n_listeners[min(len(https), 6)] += 1
        for gl in obs.get("listeners") or []:
            sec_states["valid" if gl["valid"] else ("other-invalid" if gl["otherInvalid"] else "bad-cert-ref")] += 1
        if has_cert or has_verify:
            key = json.dumps([d["in"].get("listeners"), d["in"].get("btps"), d["in"].get("grants"), obs.get("rules"),
                              [x.get("accepted") for x in obs.get("listeners") or []]], sort_keys=True)
            nontrivial.add(hashlib.sha1(key.encode()).hexdigest())
    samples = []
    for l in lines[:2] + lines[-2:]:
        d = json.loads(l)
        samples.append(_summary(d))

    ctx.finish({
        "evaluations": len(lines) + len(loop) + len(frag),
        "pipeline_level": {
            "cases": len(frag), "verdicts": dict(fr), "outside_fragment_reasons": dict(fr_why),
            "distinct_with_ssl_server": len(fr_nontrivial),
            "rule": "fragment cases (C02's fragment generator + HTTPS listeners / Secrets / ReferenceGrants) run through the real "
                    "BuildGraph -> BuildConfiguration -> Generate; the real http.conf (plain servers, SSL servers with "
                    "ssl_certificate path and locations, default servers) and the real files of /etc/nginx/secrets must equal "
                    "PipelineTls.genT of the fragment view after order normalisation; distinct = distinct (gateways, routes, "
                    "grants) with at least one SSL server",
            "totals": dict(fr_stats), "secret_resolution_kinds": dict(fr_res), "generator_branches": dict(sorted(fr_tags.items())),
            "samples": fr_samples,
        },
        "pipeline_cases": len(lines),
        "direct_calls": len(loop),
        "distinct_nontrivial": len(nontrivial),
        "rule": "pipeline cases (real BuildGraph -> BuildConfiguration -> Generate) judged by the Lean judge and compared with "
                "the Lean model; non-trivial = distinct (listeners, policies, grants, rule backends, accepted hostnames) "
                "whose real output has at least one certificate-bearing SSL server or one backend with VerifyTLS",
        "samples": samples,
        "traces_validated_against_impl": (len(lines) - diffs) + (len(loop) - ldiffs) + fr["equal"],
        "correspondence_diffs": diffs + ldiffs + fdiffs,
        "judge_verdicts": dict(judge_hist),
        "judge_signatures": dict(sig_hist),
        "model_verdicts": dict(model_hist),
        "direct_call_kinds": dict(loop_hist),
        "case_kinds": dict(kinds),
        "generator_branches": dict(sorted(tags.items())),
        "https_listeners_per_case_histogram": {str(k): v for k, v in sorted(n_listeners.items())},
        "graph_listener_states": dict(sec_states),
        "certificate_bearing_ssl_servers": n_ssl_servers,
        "backend_groups_with_verify_tls": n_verify_groups,
        "panics": dict(panics),
    }, assumptions=[
        "X.509 / PEM parsing (crypto/tls.X509KeyPair, validateCA) is a scenario bit computed with Go's crypto libraries",
        "decision-core level (TlsBind): listener validity for reasons other than the certificate reference (port, protocol "
        "conflict, route kinds) and route attachment are taken from the real graph; pipeline level (PipelineTls.genT): both are "
        "MODELLED (HTTP/HTTPS port conflict, attachment by parentRef/sectionName/allowedRoutes/hostname intersection) inside "
        "the fragment of Model/Pipeline.lean (HTTPRoutes, Exact/PathPrefix matches, listeners with From=All/Same, mode "
        "Terminate, no TLS options)",
        "NGINX: server_name selection and ssl_certificate loading as modelled by NGF.Nginx (lexer/parser are trusted base)",
        "admissible Gateways do not repeat a (port, hostname) pair among HTTPS listeners (API server CEL rule); such inputs "
        "are generated but any of the tied owners is accepted",
    ], trusted=[
        "NGF.Model.NginxLex / NginxParse (what the generated text means to NGINX)",
        "harness/pipeline wiring of the real ChangeProcessor / BuildConfiguration / Generator",
    ])
