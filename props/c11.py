"""C11 — files on disk equal the last generated set under I/O faults (DESIGN.md §6 C11)."""
import collections
import concurrent.futures


def parse(line):
    return dict(p.split(" ", 1) for p in line.split("\t") if " " in p)


def strip_obs(o):
    """observation without the fail-info field = the model's output vocabulary"""
    return ";".join("|".join(s.split("|")[:4]) for s in o.split(";"))


def run_chunk(ctx, args):
    """One harness run + Lean judge + Lean model; returns a summary (keeps memory bounded)."""
    res = {"evaluations": 0, "validated": 0, "diffs": 0, "nfail": 0, "findings": [], "brokens": [],
           "classes": collections.Counter(), "families": collections.Counter(), "outcomes": collections.Counter(),
           "distinct": set(), "nontrivial": set(), "samples": [], "gen_paths": 0, "harness_errors": 0,
           "ran": False, "gp": 0, "gp_ok": 0, "gp_distinct": set(), "gp_sizes": collections.Counter(),
           "gp_sample": None}
    lines = ctx.harness(args)
    if lines is None:
        return res
    res["ran"] = True
    scen, obs, fam = [], [], []
    gp_in, gp_real = [], []
    for l in lines:
        if l.startswith("GP "):
            a, _, b = l[3:].partition("\t")
            gp_in.append(a)
            gp_real.append(b)
        elif l.startswith("P "):
            res["findings"].append(("C11:generated-path-outside-managed-folders",
                                    f"the real generator produced {l[2:]} which is not directly inside one of ConfigFolders",
                                    {"path": l[2:]}))
        elif l.startswith("G "):
            res["gen_paths"] = int(l[2:])
        elif l.startswith("X "):
            res["harness_errors"] += 1
        else:
            parts = parse(l)
            if "M" in parts and "O" in parts:
                scen.append(parts["M"])
                obs.append(parts["O"])
                fam.append(parts.get("F", "?"))
    res["evaluations"] = len(scen)
    # the generated file SET: Lean `GenPaths.generatedPaths` on the objects of each configuration vs the (path, type)
    # list the real GeneratorImpl.Generate returned
    if gp_in:
        outs = ctx.driver("genpaths", gp_in)
        for a, real, out in zip(gp_in, gp_real, outs):
            res["gp"] += 1
            want = sorted(x for x in real.split("+") if x != "-")
            got = sorted(x for x in out.split("+") if x != "-")
            res["gp_distinct"].add(hash(a))
            res["gp_sizes"][len(want) // 5 * 5] += 1
            if want == got and out != "bad-op":
                res["gp_ok"] += 1
                if res["gp_sample"] is None and len(want) > 12:
                    res["gp_sample"] = a + " -> " + out
            else:
                res["diffs"] += 1
                if len(res["brokens"]) < 3:
                    only_real = sorted(set(want) - set(got))
                    only_model = sorted(set(got) - set(want))
                    res["brokens"].append((f"generated file set: model and GeneratorImpl.Generate disagree on [{a}]: only real "
                                           f"{only_real} / only model {only_model}"
                                           + ("" if only_real or only_model else " (same set, different multiplicity)"),
                                           {"objects": a, "real": real, "model": out}))
        # the property on the REAL output, evaluated by the Lean judge: no path twice, every path in a managed folder,
        # the PEM file of every key pair present, every secret path of secret type
        verd = ctx.driver("genjudge", [a + " real=" + real for a, real in zip(gp_in, gp_real)])
        seen_g = set()
        for a, real, v in zip(gp_in, gp_real, verd):
            if v != "ok":
                res["nfail"] += 1
                clause = v.split(" ")[1] if v.startswith("fail ") else v
                if clause not in seen_g:
                    seen_g.add(clause)
                    res["findings"].append((f"C11:{clause}", f"the set the real GeneratorImpl.Generate returned violates the "
                                            f"property: {v} (objects: {a})", {"objects": a, "real": real, "verdict": v}))
    # the property itself, evaluated by the Lean judge on the disk the real code left behind
    verdicts = ctx.driver("judge", [m + " obs=" + o for m, o in zip(scen, obs)])
    seen_sig = set()
    for m, o, v in zip(scen, obs, verdicts):
        if v != "ok":
            res["nfail"] += 1
            clause = v.split(" ")[1] if v.startswith("fail ") else v
            if clause not in seen_sig:      # the shortest scenario per clause is the most readable replay
                seen_sig.add(clause)
                res["findings"].append((f"C11:{clause}", f"real file manager violates the property: {v}",
                                        {"scenario": m, "observed": o, "verdict": v,
                                         "replay_cmd": "go run ./harness/cmd/c11 -replay '<scenario>' (see notes/C11.md)"}))
    # correspondence: the Lean model on the same scenario
    outs = ctx.driver("model", scen)
    for m, o, out, f in zip(scen, obs, outs, fam):
        if strip_obs(o) != out:
            res["diffs"] += 1
            if len(res["brokens"]) < 3:
                res["brokens"].append((f"model and implementation disagree on [{m}]: impl {strip_obs(o)} / model {out}",
                                       {"scenario": m, "impl": o, "model": out}))
        else:
            res["validated"] += 1
        family, cls = (f.split("/", 1) + ["?"])[:2]
        res["families"][family] += 1
        res["classes"][cls] += 1
        for so in o.split(";"):
            res["outcomes"][so.split("|", 1)[0]] += 1
        h = hash(m)
        if h not in res["distinct"]:
            res["distinct"].add(h)
            if "fail|" in o or "crash|" in o:
                res["nontrivial"].add(h)
    if scen:
        res["samples"] = [scen[0] + " obs=" + obs[0], scen[-1] + " obs=" + obs[-1]]
    return res


def run(ctx):
    ctx.prepare()
    ctx.obligations("NGF.Props.C11")
    if ctx.tier == "thorough":
        ctx.leanchecker("NGF.Props.C11")

    import os
    common = ["-seed", ctx.seed, "-sets", 3]
    corpus_file = os.path.join(os.path.dirname(os.path.dirname(os.path.abspath(__file__))), "corpus", "C11",
                               "regressions.txt")
    if ctx.replay_in:
        # ./check C11 --replay <file written by an earlier run>: rerun exactly that scenario on the real code
        import json
        rep = json.load(open(ctx.replay_in))
        scenario = (rep.get("input") or {}).get("scenario")
        if not scenario:
            for b in rep.get("broken", []):
                scenario = scenario or ((b.get("replay") or {}).get("scenario"))
        chunks = [["-replay", scenario]] if scenario else [["-replayfile", corpus_file]]
        par = 1
    elif ctx.tier == "quick":
        # all single faults and all crash points for 20 sequences + 60 random double faults each
        chunks = [["-replayfile", corpus_file],
                  common + ["-from", 0, "-n", 20, "-doubles", 60, "-maxfiles", 4, "-workers", 8, "-gensets", 400]]
        par = 1
    else:
        # all single and ALL double faults (+ crash points) for 200 sequences of 3 sets; the sequences
        # whose sets come from the real generator (8+ files each) get all singles and 1500 doubles each
        chunks = [["-replayfile", corpus_file]] + [common + ["-from", i, "-n", 10, "-doubles", -1, "-gendoubles", 1500, "-maxfiles", 2,
                            "-workers", 4] for i in range(0, 200, 10)]
        chunks.append(["-seed", ctx.seed, "-n", 0, "-gensets", 20000])
        par = 4

    tot = collections.Counter()
    classes, families, outcomes = collections.Counter(), collections.Counter(), collections.Counter()
    distinct, nontrivial, samples = set(), set(), []
    gen_paths = 0
    ran_any = False
    gp_distinct, gp_sizes, gp_sample = set(), collections.Counter(), None
    with concurrent.futures.ThreadPoolExecutor(max_workers=par) as ex:
        pending = [ex.submit(run_chunk, ctx, c) for c in chunks]
        for fut in pending:
            r = fut.result()
            ran_any = ran_any or r["ran"]
            for k in ("evaluations", "validated", "diffs", "nfail", "harness_errors", "gp", "gp_ok"):
                tot[k] += r[k]
            gp_distinct |= r["gp_distinct"]
            gp_sizes.update(r["gp_sizes"])
            gp_sample = gp_sample or r["gp_sample"]
            classes.update(r["classes"])
            families.update(r["families"])
            outcomes.update(r["outcomes"])
            distinct |= r["distinct"]
            nontrivial |= r["nontrivial"]
            gen_paths = max(gen_paths, r["gen_paths"])
            if len(samples) < 4:
                samples += r["samples"]
            for sig, what, replay in r["findings"]:
                ctx.finding(sig, what, replay)
            if len([b for b in ctx.brokens if b["kind"] == "correspondence"]) < 3:
                for what, replay in r["brokens"]:
                    ctx.broken(what, replay=replay)
            if tot["nfail"] > 20 or tot["diffs"] > 50:
                for p in pending:       # a broken tree: enough evidence, do not run for minutes
                    p.cancel()
                break
    if not getattr(ctx, "harness_ok", False):
        ctx.broken("harness does not build against the current tree", detail="\n".join(ctx.build_errors))
    elif not ran_any or tot["evaluations"] == 0:
        ctx.broken("harness produced no scenario")
    if ran_any and not ctx.replay_in and tot["gp"] == 0:
        ctx.broken("the generated-set correspondence did not run (no GP line from the harness)")
    if tot["harness_errors"]:
        ctx.broken(f"{tot['harness_errors']} scenarios could not be set up on disk (harness error)")

    ctx.finish({
        "evaluations": tot["evaluations"],
        "distinct_nontrivial": len(nontrivial),
        "rule": "scenario = initial disk + start-up + 3 file sets (+ restarts/retries) with a fault schedule, run on the real "
                "ManagerImpl/ClearFolders over a real directory tree; non-trivial = distinct scenarios in which at least one "
                "call failed or crashed (so that recovery is exercised)",
        "samples": samples[:4],
        "traces_validated_against_impl": tot["validated"],
        "correspondence_diffs": tot["diffs"],
        "judge_failures": tot["nfail"],
        "distinct_cases": len(distinct),
        "fault_class_histogram": dict(classes.most_common()),
        "family_histogram": dict(families),
        "step_outcome_histogram": dict(outcomes),
        "real_generator_distinct_paths": gen_paths,
        "generated_sets_compared_with_model": tot["gp"],
        "generated_sets_equal": tot["gp_ok"],
        "generated_sets_distinct_inputs": len(gp_distinct),
        "generated_set_size_histogram": {f"{k}-{k + 4}": v for k, v in sorted(gp_sizes.items())},
        "generated_set_sample": gp_sample,
    }, assumptions=[
        "POSIX: create truncates and keeps the mode of an existing file, chmod acts on the open file, a failing write may "
        "leave a prefix, unlink removes; ReadDir lists exactly the entries, sorted by name",
        "a Remove that answers ENOENT means the file is absent (injected as: somebody else removed it)",
        "(*os.File).Close does not fail (it is not part of OSFileManager and cannot be injected)",
        "umask 022; only regular files directly inside the five managed folders are considered",
        "bootstrap files (ignoreFilePaths) that start-up keeps and that no later set contains may stay: the statement "
        "excepts them at start-up",
    ], trusted=[
        "harness/c11 FaultFS: maps /etc/nginx/... into a scratch root under /verif/work/tmp, delegates to the "
        "repository's StdLibOSFileManager",
    ])
