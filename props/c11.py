"""C11 — files on disk equal the last generated set under I/O faults (DESIGN.md §6 C11)."""
import collections


def parse(line):
    return dict(p.split(" ", 1) for p in line.split("\t") if " " in p)


def strip_obs(o):
    """observation without the fail-info field = the model's output vocabulary"""
    return ";".join("|".join(s.split("|")[:4]) for s in o.split(";"))


def run(ctx):
    ctx.prepare()
    ctx.obligations("NGF.Props.C11")
    if ctx.tier == "thorough":
        ctx.leanchecker("NGF.Props.C11")

    if ctx.tier == "quick":
        chunks = [(0, 20, 60)]
    else:
        chunks = [(i, 10, -1) for i in range(0, 200, 10)]

    stats = collections.Counter()
    classes = collections.Counter()
    families = collections.Counter()
    outcomes = collections.Counter()
    samples, distinct, nontrivial = [], set(), set()
    diffs = validated = evaluations = 0
    gen_paths = 0
    stop = False
    for frm, n, doubles in chunks:
        if stop:
            break
        lines = ctx.harness(["-seed", ctx.seed, "-from", frm, "-n", n, "-doubles", doubles,
                             "-sets", 3, "-maxfiles", 4 if ctx.tier == "quick" else 3, "-workers", 8])
        if lines is None:
            break
        if getattr(ctx, "harness_rc", 0) != 0:
            ctx.broken(f"harness exited {ctx.harness_rc}: {ctx.harness_err[-300:]}")
        scen, obs, fam = [], [], []
        for l in lines:
            if l.startswith("P "):
                ctx.finding("C11:generated-path-outside-managed-folders",
                            f"the real generator produced {l[2:]} which is not directly inside one of ConfigFolders",
                            {"path": l[2:]})
                continue
            if l.startswith("G "):
                gen_paths = max(gen_paths, int(l[2:]))
                continue
            if l.startswith("X "):
                stats["harness-error"] += 1
                continue
            parts = parse(l)
            if "M" in parts and "O" in parts:
                scen.append(parts["M"])
                obs.append(parts["O"])
                fam.append(parts.get("F", "?"))
        evaluations += len(scen)
        # the property itself, evaluated by the Lean judge on the disk the real code left behind
        verdicts = ctx.driver("judge", [m + " obs=" + o for m, o in zip(scen, obs)])
        nfail = 0
        for m, o, v in zip(scen, obs, verdicts):
            if v != "ok":
                nfail += 1
                clause = v.split(" ")[1] if v.startswith("fail ") else v
                ctx.finding(f"C11:{clause}", f"real file manager violates the property: {v}",
                            {"scenario": m, "observed": o, "verdict": v,
                             "replay_cmd": "harness/cmd/c11 -replay '<scenario>'"})
        # correspondence: the Lean model on the same scenario
        outs = ctx.driver("model", scen)
        for m, o, out, f in zip(scen, obs, outs, fam):
            if strip_obs(o) != out:
                diffs += 1
                if diffs <= 3:
                    ctx.broken(f"model and implementation disagree on [{m}]: impl {strip_obs(o)} / model {out}",
                               replay={"scenario": m, "impl": o, "model": out})
            else:
                validated += 1
            family, cls = (f.split("/", 1) + ["?"])[:2]
            families[family] += 1
            classes[cls] += 1
            for so in o.split(";"):
                outcomes[so.split("|", 1)[0]] += 1
            if m not in distinct:
                distinct.add(m)
                if "fail|" in o or "crash|" in o:
                    nontrivial.add(m)
        if len(samples) < 4 and scen:
            samples += [scen[0] + " obs=" + obs[0], scen[-1] + " obs=" + obs[-1]]
        if nfail > 20 or diffs > 50:
            stop = True     # a broken tree: enough evidence, do not run for minutes
    if not getattr(ctx, "harness_ok", False):
        ctx.broken("harness does not build against the current tree", detail="\n".join(ctx.build_errors))
    elif evaluations == 0:
        ctx.broken("harness produced no scenario")
    if stats["harness-error"]:
        ctx.broken(f"{stats['harness-error']} scenarios could not be set up on disk (harness error)")

    ctx.finish({
        "evaluations": evaluations,
        "distinct_nontrivial": len(nontrivial),
        "rule": "scenario = initial disk + start-up + 3 file sets (+ restarts/retries) with a fault schedule, run on the real "
                "ManagerImpl/ClearFolders over a real directory tree; non-trivial = distinct scenarios in which at least one "
                "call failed or crashed (so that recovery is exercised)",
        "samples": samples[:4],
        "traces_validated_against_impl": validated,
        "correspondence_diffs": diffs,
        "distinct_cases": len(distinct),
        "fault_class_histogram": dict(classes.most_common()),
        "family_histogram": dict(families),
        "step_outcome_histogram": dict(outcomes),
        "real_generator_distinct_paths": gen_paths,
    }, assumptions=[
        "POSIX: create truncates and keeps the mode of an existing file, chmod acts on the open file, a failing write may "
        "leave a prefix, unlink removes; ReadDir lists exactly the entries, sorted by name",
        "a Remove that answers ENOENT means the file is absent (injected as: somebody else removed it)",
        "(*os.File).Close does not fail (it is not part of OSFileManager and cannot be injected)",
        "umask 022; only regular files directly inside the five managed folders are considered",
    ], trusted=[
        "harness/c11 FaultFS: maps /etc/nginx/... into a scratch root, delegates to the repository's StdLibOSFileManager",
    ])
