"""C18 — provisioner: exactly one NGF Deployment per Gateway of the configured class (DESIGN.md §6 C18)."""
import collections
import json
import os
import tempfile

import vcheck

CMP_ALL = ("P", "D", "S", "G", "C", "N", "X")
CMP_PANIC = ("P", "D", "G", "C", "N", "X")   # a panicking batch wrote no statuses


def _parts(line):
    return dict(p.split(" ", 1) for p in line.split("\t") if " " in p)


def _fields(obs):
    return dict(f.split("=", 1) for f in obs.split("&") if "=" in f)


def _diff(want, got):
    """first differing (batch index, field) between implementation and model observations, or None"""
    w, g = want.split(";"), got.split(";")
    if len(w) != len(g):
        return (min(len(w), len(g)), "length")
    for i, (a, b) in enumerate(zip(w, g)):
        fa, fb = _fields(a), _fields(b)
        for k in (CMP_ALL if fa.get("X") == "-" else CMP_PANIC):
            if fa.get(k) != fb.get(k):
                return (i, k)
    return None


def run(ctx):
    ctx.prepare()
    ctx.obligations("NGF.Props.C18")
    if ctx.tier == "thorough":
        ctx.leanchecker("NGF.Props.C18")

    n, maxb = (500, 12) if ctx.tier == "quick" else (50000, 16)

    def harness(args):
        out = ctx.harness(args)
        return out if out is not None else []

    tmpdir = tempfile.mkdtemp(prefix="c18-", dir=vcheck.WORK)

    def replay(gc, batches):
        """run one explicit history on the real code; returns (judge verdict, parts) or None if not applicable"""
        p = os.path.join(tmpdir, "r.ops")
        open(p, "w").write(f"{gc}={';'.join(','.join(b) if b else '-' for b in batches)}\n")
        ls = [l for l in harness(["-opsfile", p]) if l.startswith(("M ", "X "))]
        if len(ls) != 1 or ls[0].startswith("X "):
            return None
        parts = _parts(ls[0])
        return ctx.driver("judge", [parts["J"]])[0], parts

    # ---- corpus first, then exhaustive small scope, then generated histories; processed in chunks
    stats, hstats = collections.Counter(), {}
    clause_count, first_by_clause = collections.Counter(), {}
    tot = {"cases": 0, "diffs": 0, "prefix": 0, "both": 0, "corpus": 0, "exhaustive": 0}
    prefix_case = [None]
    tmpl_seen = [None]
    distinct, nontrivial, samples = set(), set(), []
    dns_keys, hostile_samples = {}, []
    deps_compared = [0]

    def process(lines, label):
        cases = []
        for l in lines:
            if l.startswith("T "):
                tmpl_seen[0] = l[2:]
            elif l.startswith("K "):
                f = l.split(" ")
                if len(f) == 3:
                    dns_keys[f[1]] = f[2]
            elif l.startswith("STATS "):
                for k, v in json.loads(l[6:]).items():
                    if isinstance(v, dict):
                        d = hstats.setdefault(k, collections.Counter())
                        for kk, vv in v.items():
                            d[kk] += vv
                    elif k.startswith("Max"):
                        hstats[k] = max(hstats.get(k, 0), v)
                    else:
                        hstats[k] = hstats.get(k, 0) + v
            elif l.startswith("M "):
                cases.append(_parts(l))
            elif l.startswith("X "):
                stats[label + "_not_applicable"] += 1
        if not cases:
            return
        tot["cases"] += len(cases)
        tot[label] = tot.get(label, 0) + len(cases)
        if len(samples) < 6:
            samples.extend(c["H"] for c in cases[:2])
        if label == "hostile" and len(hostile_samples) < 8:
            hostile_samples.extend(c["H"] for c in cases[:50:7])
        # the property, evaluated by the Lean judge on the listings of the real cluster
        verdicts = ctx.driver("judge", [c["J"] for c in cases])
        for c, v in zip(cases, verdicts):
            distinct.add(c["H"] + "|" + c["M"].split(" ")[0])
            if c["O"].count(";") >= 2 and "nginx-gateway-2" in c["O"]:
                nontrivial.add(c["H"] + "|" + c["M"].split(" ")[0])
            if v == "ok":
                continue
            if v == "ok precondition":
                stats["startup_without_configured_class(precondition)"] += 1
                continue
            if v == "bad-op":
                ctx.broken("judge cannot decode the harness output", replay={"judge_input": c["J"][:2000]})
                continue
            for clause in v[5:].split(","):
                clause_count[clause] += 1
                if clause not in first_by_clause or len(c["H"]) < len(first_by_clause[clause]["H"]):
                    first_by_clause[clause] = c
        # correspondence: the model of the code in the tree (`step`) predicts every observation; a handler that behaves
        # like the pre-fix removal loop (`stepPreFix`) instead is the regression C18:deployment-kept-after-class-change
        outs = ctx.driver("model", [c["M"] for c in cases])
        for c, out in zip(cases, outs):
            if out == "bad-op":
                ctx.broken("model cannot decode the harness history", replay={"model_input": c["M"][:2000]})
                tot["diffs"] += 1
                continue
            primary, prefix = out.split(" ## ")
            d = _diff(c["O"], primary)
            if d is None:
                deps_compared[0] += sum(len([x for x in _fields(b).get("D", "-").split(",") if x != "-"])
                                        for b in c["O"].split(";"))
                if primary == prefix:
                    tot["both"] += 1
                continue
            tot["diffs"] += 1
            if _diff(c["O"], prefix) is None:
                tot["prefix"] += 1
                if prefix_case[0] is None or len(c["H"]) < len(prefix_case[0]["H"]):
                    prefix_case[0] = c
            if tot["diffs"] <= 3:
                i, k = d
                ob, mb = c["O"].split(";"), primary.split(";")
                ctx.broken(f"model and implementation disagree at batch {i} field {k} of history [{c['H']}]"
                           + (" (the implementation matches the PRE-FIX removal loop)" if _diff(c["O"], prefix) is None else ""),
                           replay={"ops": c["H"], "gc": c["M"].split(" ")[0][3:], "batch": i, "field": k,
                                   "impl": _fields(ob[i]).get(k) if i < len(ob) else None,
                                   "model": _fields(mb[i]).get(k) if i < len(mb) else None})

    corpus_lines = []
    for fn, text in vcheck.corpus("C18"):
        corpus_lines += [l for l in text.splitlines() if l.strip() and not l.startswith("#")]
    if corpus_lines:
        p = os.path.join(tmpdir, "corpus.ops")
        open(p, "w").write("\n".join(corpus_lines) + "\n")
        process(harness(["-opsfile", p]), "corpus")
    if not getattr(ctx, "harness_ok", False):
        ctx.broken("harness does not build against the current tree", detail="\n".join(ctx.build_errors))
    else:
        # hostile-name family first (deterministic part + random part): Gateway namespaces/names containing the manifest's
        # arg names, prefixes/suffixes/swaps of each other, single and multi-Gateway batches
        process(harness(["-hostile", "-seed", ctx.seed, "-n", 150 if ctx.tier == "quick" else 10000, "-maxbatches", 8]),
                "hostile")
        # tie of the DNS-1123 predicates of the model (hypotheses of the arg theorems) to apimachinery's validators
        if dns_keys:
            ks = sorted(dns_keys)
            for k, got in zip(ks, ctx.driver("dns", ks)):
                if got != dns_keys[k]:
                    stats["dns_predicate_diffs"] += 1
                    if stats["dns_predicate_diffs"] <= 3:
                        ctx.broken(f"dnsLabel/dnsSubdomain of the model disagree with apimachinery on {k!r}",
                                   replay={"key": k, "apimachinery": dns_keys[k], "model": got})
        process(harness(["-exhaustive", 3 if ctx.tier == "quick" else 5]), "exhaustive")
        chunk, done, i = 1000, 0, 0
        known_sigs = {k["signature"] for k in vcheck.load_known().get("C18", [])}

        def unlisted_failure():
            return any("C18:" + cl not in known_sigs for cl in clause_count)

        while done < n and not (tot["diffs"] >= 12 and unlisted_failure()):
            m = min(chunk, n - done)
            process(harness(["-seed", ctx.seed + 7919 * i, "-n", m, "-maxbatches", maxb]), "generated")
            done += m
            i += 1
        if (tot["diffs"] or ctx.brokens) and not unlisted_failure():
            # a tie is broken but the judge has not failed yet: search harder before finishing
            ctx.log("broken tie without a judge failure so far: searching harder (deeper exhaustive scope, more histories)")
            if ctx.tier == "quick":
                process(harness(["-exhaustive", 4]), "exhaustive")
            extra = 0
            while extra < 3000 and not unlisted_failure():
                process(harness(["-seed", ctx.seed + 104729 + 7919 * i, "-n", 1000, "-maxbatches", 16]), "generated")
                extra += 1000
                i += 1

        # tie: the template args the translator read from the manifest are the ones the real YAML decoder yields
        facts_tmpl = ctx.facts.get("ProvisionerFacts.templateArgs")
        if tmpl_seen[0] is None or tmpl_seen[0].startswith("error"):
            ctx.broken(f"static deployment manifest does not decode: {tmpl_seen[0]}")
        elif facts_tmpl is None or "|".join(facts_tmpl) != tmpl_seen[0]:
            ctx.broken("translator and yaml.Unmarshal disagree on the container args of the static deployment manifest",
                       replay={"translator": facts_tmpl, "yaml": tmpl_seen[0]})

    known = {k["signature"] for k in vcheck.load_known().get("C18", [])}
    for clause, c in first_by_clause.items():
        sig = "C18:" + clause
        gc, ops = c["M"].split(" ")[0][3:], [b.split(",") if b != "-" else [] for b in c["H"].split(";")]
        if sig not in known:
            ops = shrink(replay, gc, ops, clause)
        res = replay(gc, ops)
        ctx.finding(sig, f"provisioner violates clause {clause} (in {clause_count[clause]} of {tot['cases']} histories)",
                    {"gc": gc, "ops": ";".join(",".join(b) if b else "-" for b in ops),
                     "replay_cmd": "harness/cmd/c18 -ops '<gc>=<ops>' | ngfdriver_C18 judge (J part)",
                     "judge_verdict": res[0] if res else None,
                     "cluster_listings": (res[1]["J"] if res else c["J"])[:6000]})

    diffs, matched_prefix, matched_both = tot["diffs"], tot["prefix"], tot["both"]
    if matched_prefix and "deployment-kept-after-class-change" not in clause_count:
        # cannot happen while the judge states the property (the variants differ only where a Deployment outlives a
        # class change), kept so that the regression is never reported without its signature
        c = prefix_case[0]
        ctx.finding("C18:deployment-kept-after-class-change",
                    f"the handler behaves like the removal loop before bb91ad6 on {matched_prefix} histories",
                    {"gc": c["M"].split(" ")[0][3:], "ops": c["H"], "cluster_listings": c["J"][:6000]})
    if matched_prefix:
        ctx.log(f"{matched_prefix} histories match only the PRE-FIX model variant (regression of bb91ad6)")

    try:
        import shutil
        shutil.rmtree(tmpdir, ignore_errors=True)
    except Exception:
        pass

    ctx.finish({
        "evaluations": tot["cases"],
        "distinct_nontrivial": len(nontrivial),
        "rule": "corpus + hostile-name family (25 fixed DNS-1123 keys containing leader-election-lock-name / gateway / gatewayclass / "
                "config / service / '--', prefixes, suffixes, swaps and re-bracketings of each other: each alone at start-up and in a later "
                "batch with delete + re-create, pairs becoming provisionable in ONE batch, then random histories over 4 keys drawn from the "
                "pool / generated from arg-name fragments / derived as prefix-suffix-swap) + ALL op histories up to length 3 (quick) / 5 (thorough) over 2 Gateways x 2 classes and 2 GatewayClasses "
                "(singleton batches and one big batch) + random histories of create/update(class change)/delete/re-create of <=4 "
                "Gateways and 3 GatewayClasses in random batches against the real eventHandler + fake client + real status.Updater; every batch compared with the Lean "
                "model (provisions, Deployments with args, statuses, store, next id, panic) and judged; non-trivial = distinct "
                "op histories with at least 3 batches in which at least two Deployments were created",
        "samples": samples,
        "traces_validated_against_impl": tot["cases"] - diffs,
        "correspondence_diffs": diffs,
        "matched_only_prefix_variant(regression)": matched_prefix,
        "histories_where_variants_coincide": matched_both,
        "distinct_cases": len(distinct),
        "corpus_cases": tot.get("corpus", 0),
        "exhaustive_small_scope_cases": tot.get("exhaustive", 0),
        "generated_cases": tot.get("generated", 0),
        "hostile_name_cases": tot.get("hostile", 0),
        "hostile_name_samples": hostile_samples,
        "deployment_arg_lists_compared_with_prepareArgs": deps_compared[0],
        "dns1123_keys_compared_with_apimachinery": len(dns_keys),
        "dns1123_keys_valid": sum(1 for v in dns_keys.values() if v == "11"),
        "judge_clause_histogram": dict(clause_count),
        "generator": {k: (dict(v) if isinstance(v, dict) else v) for k, v in hstats.items()},
        "other": dict(stats),
    }, assumptions=[
        "controller-runtime's fake client stands in for the API server (Create fails on an existing name, Delete on a missing one)",
        "events reach the handler as the watch predicates of manager.go let them through (the real GatewayClassPredicate is applied "
        "by the harness); every cluster change yields one event; a handler panic ends the process (history stops there)",
        "precondition: the configured GatewayClass exists when the provisioner starts (start-up without it panics by design and is "
        "counted, not reported)",
        "CRD bundle version is the supported one (ValidateCRDVersions adds no conditions); Gateway namespaces are DNS-1123 labels and "
        "names DNS-1123 subdomains (dnsKey of the model, compared with apimachinery's IsDNS1123Label/IsDNS1123Subdomain on every "
        "generated key and on 16 illegal or boundary ones)",
    ], trusted=[
        "overlay/internal/mode/provisioner/zz_verif_c18.go (in-package constructor/accessors, build tag verif)",
    ])


def shrink(replay, gc, ops, clause, budget=80):
    """greedy: drop whole batches, then single ops, while the judge still reports `clause`"""
    def fails(o):
        r = replay(gc, o)
        return r is not None and r[0].startswith("fail ") and clause in r[0][5:].split(",")
    if not fails(ops):
        return ops
    changed = True
    while changed and budget > 0:
        changed = False
        for i in range(len(ops) - 1, 0, -1):
            cand = ops[:i] + ops[i + 1:]
            budget -= 1
            if budget <= 0:
                break
            if fails(cand):
                ops, changed = cand, True
        for i in range(len(ops) - 1, -1, -1):
            for j in range(len(ops[i]) - 1, -1, -1):
                cand = [list(b) for b in ops]
                del cand[i][j]
                budget -= 1
                if budget <= 0:
                    break
                if fails(cand):
                    ops, changed = cand, True
                    break
    return ops
