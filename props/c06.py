"""C06 — cross-namespace references take effect only when a ReferenceGrant permits them (DESIGN.md §6 C06)."""
import collections
import json
import os

import vcheck

# further Props modules of C06 (imported by NGF.Props.C06 as well; listed so that the axiom audit names them)
# NGF.Props.C01Refs: C01's Service-relevance theorem over Model/PipelineRefs (built in C06's round; audited here until
# props/c01.py lists it)
# NGF.Props.C06Certs: grant gating of certificate Secrets over C16's TLS pipeline model (imports NGF.Props.C06 and
# NGF.Props.C16Pipeline, therefore a module of its own)
EXTRA_MODULES = ["NGF.Props.C01Refs", "NGF.Props.C06Certs"]

LATER_REASONS = {"BackendNotFound", "UnsupportedValue", "InvalidIPFamily"}
VALIDATOR_FREE = {"RefNotPermitted", "Invalid", "ProtocolConflict", "HostnameConflict", "InvalidCertificateRef"}


def corr_e2e(d, m):
    """Model vs real at the graph / dataplane.Configuration cut points. Returns a list of differences."""
    obs = d["obs"]
    diffs = []
    stale = obs.get("stale")
    routes = obs["graph"]["routes"]
    if not stale:
        for gr, mr in zip(routes, m["refs"]):
            if mr is None:
                continue
            reasons = {c[2] for c in gr["conds"] if c[0] == "ResolvedRefs" and c[1] == "False"}
            for ri, (grule, mrule) in enumerate(zip(gr["rules"], mr)):
                if mrule is None:
                    continue
                if len(mrule) != len(grule["refs"]):
                    diffs.append(f"{gr['kind']}/{gr['ns']}/{gr['name']} rule {ri}: {len(grule['refs'])} graph refs, model {len(mrule)}")
                    continue
                for bi, (gref, v) in enumerate(zip(grule["refs"], mrule)):
                    where = f"{gr['kind']}/{gr['ns']}/{gr['name']} rule {ri} ref {bi}"
                    if v != "ok":
                        if gref["valid"]:
                            diffs.append(f"{where}: model {v}, real valid")
                        elif v not in reasons:
                            diffs.append(f"{where}: model {v}, real conditions {sorted(reasons)}")
                    elif not gref["valid"] and not (reasons & LATER_REASONS):
                        diffs.append(f"{where}: model ok, real invalid with {sorted(reasons)}")
        for gl, ml in zip(obs["graph"]["listeners"], m["listeners"]):
            if ml in (None, "n/a"):
                continue
            reasons = {c[2] for c in gl["conds"]}
            validators_passed = reasons <= VALIDATOR_FREE
            if ml.startswith("mismatch"):
                diffs.append(f"listener {gl['name']}: Model/PipelineTlsRefs (projected grants) and the resolver model disagree: {ml}")
            elif ml == "RefNotPermitted":
                if gl["valid"] or gl["secret"]:
                    diffs.append(f"listener {gl['name']}: model RefNotPermitted, real valid={gl['valid']} secret={gl['secret']}")
                elif validators_passed and "RefNotPermitted" not in reasons:
                    diffs.append(f"listener {gl['name']}: model RefNotPermitted, real conditions {sorted(reasons)}")
            else:
                want = ml.split(" ", 1)[1]
                if gl["secret"] not in ("", want) or "RefNotPermitted" in reasons:
                    diffs.append(f"listener {gl['name']}: model {ml}, real secret={gl['secret']} conditions {sorted(reasons)}")
    for og, mg in zip(obs["conf"]["groups"], m["groups"]):
        where = f"group {og['gname']}"
        if mg is None:
            diffs.append(f"{where}: no graph route/rule for it")
            continue
        if [(b["up"], b["valid"], b["weight"]) for b in og["backends"]] != [(b["up"], b["valid"], b["weight"]) for b in mg["backends"]]:
            diffs.append(f"{where}: backends real {og['backends']} model {mg['backends']}")
        if og["target"] != mg["target"]:
            diffs.append(f"{where}: target real {og['target']} model {mg['target']}")
        if og["split"] != mg["split"]:
            diffs.append(f"{where}: split values real {og['split']} model {mg['split']}")
    real_l4 = {s["up"] for s in obs["conf"]["l4"] if s["up"]}
    if not real_l4 <= set(m["l4ups"]):
        diffs.append(f"l4 upstreams real {sorted(real_l4)} model {m['l4ups']}")
    if obs["hasconf"] and sorted(k["id"] for k in obs["conf"]["keypairs"]) != m["keypairs"]:
        diffs.append(f"key pairs real {[k['id'] for k in obs['conf']['keypairs']]} model {m['keypairs']}")
    return diffs


def run(ctx):
    ctx.prepare()
    ctx.obligations("NGF.Props.C06")
    if ctx.tier == "thorough":
        ctx.leanchecker("NGF.Props.C06")

    for mod in EXTRA_MODULES:
        ctx.obligations(mod)
        if ctx.tier == "thorough":
            ctx.leanchecker(mod)

    n_res, n_val, n_e2e, n_scen, n_seq, steps = (600, 800, 260, 120, 70, 4) if ctx.tier == "quick" else (40000, 40000, 5000, 2500, 900, 6)
    n_refs = 200 if ctx.tier == "quick" else 6000
    chunk = 400  # pipeline cases per harness invocation (bounds memory: a case carries the generated files)
    st = {"n": 0, "diffs": 0, "panics": 0, "e2e": 0, "first": []}
    # stream `refs`: Model/PipelineRefs (resolve, gen ∘ resolve) against the real graph and the real http.conf
    rf = {"cases": 0, "in_fragment": 0, "refs_compared": 0, "conf_equal": 0, "targets": 0, "invalid_shares": 0, "diffs": 0, "skipped": 0,
          "referenced_services": 0, "names_ok": 0}
    rclasses, routside = collections.Counter(), collections.Counter()
    vhist, dkinds, h, kinds = collections.Counter(), collections.Counter(), collections.Counter(), collections.Counter()
    nontrivial, samples, nsig = set(), [], collections.Counter()

    def process(lines):
        lines = [l for l in lines if l.startswith("{")]
        parsed = [json.loads(l) for l in lines]
        st["n"] += len(lines)
        for d in parsed:
            kinds[d["k"] + (":" + d["id"][0] if d["k"] == "e2e" else ":cube" if d["id"].startswith("cube") else "")] += 1
            if d["k"] == "e2e" and len(samples) < 3 and d["id"][0] in "xq" and d["in"]["grants"]:
                samples.append({"id": d["id"], "desc": d.get("desc", ""), "grants": d["in"]["grants"][:2], "routes": d["in"]["routes"][:1]})
        if not st["first"]:
            st["first"] = [l[:300] for l in lines[:1]]
        judge_and_compare(lines, parsed)
        refs_compare([l for l, d in zip(lines, parsed) if "flat" in d], [d for d in parsed if "flat" in d])

    def refs_compare(lines, parsed):
        """Model/PipelineRefs: `resolveRef` vs the real graph BackendRefs, `gen (resolve c)` vs the real http.conf."""
        outs = ctx.driver("refs", lines) if lines else []
        for d, o in zip(parsed, outs):
            rf["cases"] += 1
            try:
                m = json.loads(o)
            except ValueError:
                m = None
            if m is None:
                rf["diffs"] += 1
                if rf["diffs"] <= 3:
                    ctx.broken(f"refs driver could not decode case {d['id']}: {o[:200]}", replay={"case": d["id"], "in": d["in"]})
                continue
            if m.get("skip"):
                rf["skipped"] += 1
                continue
            if not m["inFragment"]:
                routside[m["why"][:60]] += 1
                continue
            rf["in_fragment"] += 1
            rf["refs_compared"] += m["refsCompared"]
            rf["targets"] += m["targets"]
            rf["invalid_shares"] += m["invalidShares"]
            for c in m["refClasses"]:
                rclasses[c] += 1
            bad = []
            if not m["shapeOK"]:
                bad.append("fragment conversion changed a route (harness/driver defect)")
            bad += [f"graph BackendRef differs: {x}" for x in m["refsDiffs"]]
            if sorted(d.get("refsvcs") or []) != m["refSvcs"]:
                bad.append(f"Graph.ReferencedServices real {sorted(d.get('refsvcs') or [])} model {m['refSvcs']}")
            rf["referenced_services"] += len(m["refSvcs"])
            rf["names_ok"] += 1 if m["namesOK"] else 0
            if m["confEqual"]:
                rf["conf_equal"] += 1
            else:
                bad.append(f"http.conf differs from gen (resolve c): {m['confDiff'][:400]}")
            if bad:
                rf["diffs"] += 1
                st["diffs"] += 1
                dkinds["refs"] += 1
                if rf["diffs"] <= 3:
                    ctx.broken(f"Model/PipelineRefs and implementation disagree on case {d['id']}: {bad[0]}",
                               replay={"kind": "refs", "case": d["id"], "differences": bad[:10], "in": d["in"],
                                       "services": d["flat"]["svcs"], "graph": d["obs"]["graph"]["routes"],
                                       "http.conf": d["obs"]["files"]["http"][:20000]})

    def judge_and_compare(lines, parsed):
        # ---- the property itself, evaluated by the Lean judge on what the real pipeline produced
        e2e_idx = [i for i, d in enumerate(parsed) if d["k"] == "e2e"]
        verdicts = ctx.driver("judge", [lines[i] for i in e2e_idx]) if e2e_idx else []
        for i, v in zip(e2e_idx, verdicts):
            d = parsed[i]
            if v == "ok":
                vhist["ok"] += 1
            elif v.startswith("skip"):
                vhist["skip panic"] += 1
                st["panics"] += 1
            elif v.startswith("bad-op"):
                vhist["bad-op"] += 1
                ctx.broken(f"judge could not decode e2e case {d['id']}: {v}", replay={"line": lines[i][:6000]})
            else:
                clauses = [c.strip() for c in v[len("fail "):].split(";")]
                for c in clauses:
                    vhist["fail " + c.split(" ")[0]] += 1
                # one finding per case: its first failing clause (safety clauses come first; the rest are
                # consequences and stay visible in the replay's verdict)
                c = clauses[0]
                nsig[c.split(' ')[0]] += 1
                full = nsig[c.split(' ')[0]] <= 2
                ctx.finding(f"C06:{c.split(' ')[0]}",
                            f"{c} (case {d['id']}{' after: ' + d['desc'] if d.get('desc') else ''}"
                            f"{', served output is stale: Apply reported ' + d['obs']['change'] if d['obs'].get('stale') else ''})",
                            {"case": d["id"], "desc": d.get("desc", ""), "verdict": v, "in": d["in"],
                             "obs": d["obs"] if full else "(omitted: see the first replays of this signature)"})
        st["e2e"] += len(e2e_idx)

        # ---- correspondence: the Lean model on the same inputs
        outs = ctx.driver("model", lines) if lines else []
        for d, o in zip(parsed, outs):
            try:
                m = json.loads(o)
            except ValueError:
                m = None
            if m is None:
                bad = [f"model answered {o[:200]}"]
            elif d["k"] in ("res", "val"):
                bad = [f"{k}: real {d['obs'].get(k)} model {m.get(k)}" for k in m if m[k] != d["obs"].get(k)]
            elif d["obs"]["panic"]:
                bad = []
            else:
                bad = corr_e2e(d, m)
            if bad:
                st["diffs"] += 1
                dkinds[d["k"]] += 1
                if st["diffs"] <= 3:
                    ctx.broken(f"model and implementation disagree on {d['k']} case {d['id']}: {bad[0]}",
                               replay={"kind": d["k"], "case": d["id"], "differences": bad[:10], "in": d["in"],
                                       "impl": d["obs"] if d["k"] != "e2e" else {k: d["obs"][k] for k in ("graph", "conf", "winner")},
                                       "model": m})

        # ---- coverage statistics (measured on the generated inputs and the real outputs)
        for d in parsed:
            i, o = d["in"], d["obs"]
            for t, c in (d.get("tags") or {}).items():
                h["gen:" + t] += c
            if d["k"] == "res":
                for a in o["answers"]:
                    h["res:answer=" + str(a)] += 1
                h["res:grants=%d" % len(i["grants"])] += 1
                if any(o["answers"]) and not all(o["answers"]):
                    nontrivial.add(json.dumps(i, sort_keys=True))
            elif d["k"] == "val":
                h["val:%s/%s" % (i["kind"], o["reason"] or ("ok" if o["valid"] else "/".join(sorted({c.split('/')[2] for c in o["conds"]}))))] += 1
                cross = (i["ref"] and i["ref"]["ns"] not in (None, i["ns"])) or any(c["ns"] not in (None, i["ns"]) for c in i["certs"])
                if cross:
                    nontrivial.add(json.dumps(i, sort_keys=True))
            else:
                if o["panic"]:
                    continue
                h["e2e:" + ("stale" if o.get("stale") else "fresh")] += 1
                ncross = nperm = 0
                for gr in o["graph"]["routes"]:
                    for c in gr["conds"]:
                        if c[2] == "RefNotPermitted":
                            h["e2e:route-RefNotPermitted:" + gr["kind"]] += 1
                for r in i["routes"]:
                    for rule in r["rules"]:
                        for ref in rule["refs"]:
                            if ref["ns"] not in (None, r["ns"]):
                                ncross += 1
                                h["e2e:crossns-ref:" + r["kind"]] += 1
                for gl in o["graph"]["listeners"]:
                    if any(c[2] == "RefNotPermitted" for c in gl["conds"]):
                        h["e2e:listener-RefNotPermitted"] += 1
                        nperm += 1
                    if gl["secret"] and o["winner"] and not gl["secret"].startswith(o["winner"][0] + "/"):
                        h["e2e:listener-crossns-secret-served" if gl["valid"] else "e2e:listener-crossns-secret-resolved-invalid"] += 1
                        ncross += 1
                for g in o["conf"]["groups"]:
                    for b in g["backends"]:
                        if b["valid"] and not b["up"].startswith(g["ns"] + "_"):
                            h["e2e:crossns-backend-served"] += 1
                        if not b["valid"]:
                            h["e2e:invalid-backend-in-group"] += 1
                for s in o["conf"]["l4"]:
                    if s["up"]:
                        h["e2e:l4-upstream-served"] += 1
                h["e2e:grants=%d" % min(len(i["grants"]), 8)] += 1
                if ncross and o["hasconf"]:
                    nontrivial.add(json.dumps(i, sort_keys=True))
    # corpus first: typed-object arrays replayed through the real pipeline
    corpus_lines = ctx.harness(["-mode", "replay", "-file", os.path.join(vcheck.VERIF, "corpus", "C06")]) or []
    n_corpus = len(corpus_lines)
    process(corpus_lines)
    # exhaustive: one grant x one cross-namespace reference, 1728 attribute combinations per referrer kind
    process(ctx.harness(["-mode", "cube"]) or [])
    for mode, n, off in (("res", n_res, 0), ("val", n_val, 104729), ("e2e", n_e2e, 1299709),
                         ("scen", n_scen, 15485863), ("seq", n_seq, 32452843), ("refs", n_refs, 49979687)):
        per = n if mode in ("res", "val") else (chunk if mode != "seq" else max(1, chunk // (steps + 1)))
        done = 0
        while done < n:
            k = min(per, n - done)
            process(ctx.harness(["-mode", mode, "-seed", ctx.seed + off + 7919 * (done // per), "-n", k, "-steps", steps]) or [])
            done += k
            if len(ctx.findings) > 200:
                break
    if not getattr(ctx, "harness_ok", False):
        ctx.broken("harness does not build against the current tree", detail="\n".join(ctx.build_errors))
    if st["panics"] > max(3, st["e2e"] // 20):
        ctx.broken(f"the real pipeline panicked in {st['panics']} of {st['e2e']} scenarios (C05's subject; C06 cannot judge them)")
    diffs = st["diffs"]
    if n_refs and rf["in_fragment"] < rf["cases"] // 2:
        ctx.broken(f"stream refs: only {rf['in_fragment']} of {rf['cases']} generated scenarios are inside the fragment "
                   f"(outside: {dict(routside)}) — the tie of Model/PipelineRefs does not check")
    ctx.dependency("C13", "a permitted (or same-namespace) backend receives traffic only at the endpoints of THAT Service in "
                          "ITS namespace: the upstream's servers are exactly the ready endpoints of the referenced Service port")

    ctx.finish({
        "evaluations": st["n"],
        "distinct_nontrivial": len(nontrivial),
        "rule": "distinct generated inputs; non-trivial = resolver cases with both permitted and refused queries, validator "
                "cases whose reference crosses a namespace, pipeline states (fresh or after a create/revoke batch) that "
                "contain at least one cross-namespace backendRef or certificateRef and produced a configuration",
        "samples": samples,
        "traces_validated_against_impl": st["n"] - diffs,
        "correspondence_diffs": diffs,
        "correspondence_diffs_by_kind": dict(dkinds),
        "cases_by_kind": dict(kinds),
        "corpus_cases": n_corpus,
        "judge_verdicts": dict(vhist),
        "refs_stream": dict(rf, outside_fragment=dict(routside), ref_classes=dict(sorted(rclasses.items())),
                            note="in-fragment scenarios (c02.GenFragment + redrawn Services/backendRefs/ReferenceGrants): every "
                                 "backendRef of every route compared with graph.BackendRef{Valid,SvcNsName,ServicePort.Port,Weight}, "
                                 "the whole http.conf (locations, redirects, upstream / split_clients targets and shares) with "
                                 "Pipeline.gen (PipelineRefs.resolve c)"),
        "generator_histogram": dict(sorted(h.items())),
    }, assumptions=[
        "Kubernetes object names and namespaces contain no '_' (DNS-1123), so an upstream name ns_name_port and a key pair id "
        "ssl_keypair_ns_name identify their Service / Secret uniquely",
        "NGINX reads the generated files as the Lean lexer/block parser (NginxLex/NginxParse) does; a request reaches an "
        "upstream only through a proxy_pass/grpc_pass target or a split_clients value of the variable in that target",
        "revocation 'at the next reconciliation' = the next batch handed to ChangeProcessorImpl.Process (harness/pipeline.Apply); "
        "the watch on ReferenceGrants uses GenerationChangedPredicate (pinned by store_as_modelled): every create and delete and "
        "every update that changes the spec (the API server bumps metadata.generation) reaches the change processor",
        "which upstream *servers* an upstream name resolves to is C13's subject; which certificate a host name gets is C16's",
        "the theorems over gen (resolve c) (Props/C06 §8) speak about the fragment of Model/Pipeline.lean (one served Gateway, HTTP "
        "listeners, HTTPRoutes with Exact/PathPrefix matches, optional RequestRedirect; no BackendTLSPolicy, NginxProxy, appProtocol); a "
        "generated cluster is inside iff PipelineTie.toFragment and Pipeline.inFragment accept it (measured: refs_stream.in_fragment)",
    ], trusted=[
        "lean/NGF/Model/PipelineTie.lean, harness/c02/flat.go (shared, C02): fragment view of the flat scenario and abstraction of the real "
        "http.conf/matches.json to Pipeline.Conf; lean/NGF/Model/PipelineRefsTie.lean: pairing of rules with their backendRefs",
        "harness/c06/flat.go: copies the fields of the typed objects and of graph/dataplane/status values into flat JSON",
        "harness/pipeline (shared): wiring of the real ChangeProcessor, BuildConfiguration, Generator and status setters",
        "lean/NGF/Model/NginxLex.lean, NginxParse.lean (shared): what the NGINX text means",
    ])
