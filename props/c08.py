"""C08 — status writes: idempotent, retry-safe, foreign entries preserved, within CRD limits (DESIGN.md §6 C08)."""
import collections
import os

import vcheck

LIMIT_KEYS = ["maxParents", "maxAncestors", "maxControllers", "maxListeners", "maxConds", "maxMessage",
              "maxReason", "maxType"]


def _gwapi_dir(repo):
    """directory of the sigs.k8s.io/gateway-api module version the repo requires (for the CRD schemas)"""
    import re
    import subprocess
    try:
        m = re.search(r"^\s*sigs\.k8s\.io/gateway-api\s+(v\S+)", open(os.path.join(repo, "go.mod")).read(), re.M)
        cache = subprocess.run(["go", "env", "GOMODCACHE"], capture_output=True, text=True, env=vcheck.GOENV).stdout.strip()
        d = os.path.join(cache or os.path.expanduser("~/go/pkg/mod"), "sigs.k8s.io", "gateway-api@" + m.group(1))
        return d if os.path.isdir(d) else ""
    except Exception:
        return ""


def _info(r):
    return dict(f.split("=", 1) for f in r.get("I", "").split(" ") if "=" in f)


def _kind(line):
    return line.split(" ", 1)[0].split("=", 1)[1]


def _split(lines):
    """harness lines -> records {M,O,J,I} / skipped / panics / unreadable"""
    recs, skipped, panics, bad = [], collections.Counter(), [], []
    for l in lines:
        parts = {}
        for p in l.split("\t"):
            if " " in p:
                k, v = p.split(" ", 1)
                parts[k] = v
        if "S" in parts and "M" not in parts:
            skipped[parts["S"]] += 1
        elif "P" in parts:
            panics.append(parts)
        elif "X" in parts:
            bad.append(parts["X"])
        elif "M" in parts:
            recs.append(parts)
    return recs, skipped, panics, bad


def run(ctx):
    ctx.prepare()
    ctx.obligations("NGF.Props.C08")
    ctx.obligations("NGF.Props.C08Drift")
    if ctx.tier == "thorough":
        ctx.leanchecker("NGF.Props.C08")
    if not getattr(ctx, "harness_ok", False):
        ctx.broken("harness does not build against the current tree", detail="\n".join(ctx.build_errors))

    facts = ctx.facts
    missing = [k for k in LIMIT_KEYS + ["backoffSteps"] if ("StatusFacts." + k) not in facts]
    if missing:
        ctx.broken(f"translator could not regenerate {missing} from the CRDs / updater.go", kind="obligation")
    defaults = {"maxParents": 32, "maxAncestors": 16, "maxControllers": 16, "maxListeners": 64, "maxConds": 8,
                "maxMessage": 32768, "maxReason": 1024, "maxType": 316, "backoffSteps": 4}
    val = lambda k: int(facts.get("StatusFacts." + k, defaults[k]))
    limits = [val(k) for k in LIMIT_KEYS]
    steps = val("backoffSteps")

    n_retry, n_upd, n_small = (1500, 12, 300) if ctx.tier == "quick" else (30000, 200, 5000)
    gwapi = _gwapi_dir(vcheck.REPO)
    if not gwapi:
        ctx.broken("gateway-api module directory (CRD schemas) not found in the module cache", kind="obligation")
    gw = ["-gwapi", gwapi] if gwapi else []

    # ---- corpus first, then fresh cases
    corpus_lines = []
    for fn, text in vcheck.corpus("C08"):
        corpus_lines += [l for l in text.splitlines() if l.strip() and not l.startswith("#")]
    lines = []
    if corpus_lines:
        lines += ctx.harness(["-mode", "replay"] + gw, input="\n".join(corpus_lines) + "\n") or []
    n_corpus = len(lines)
    # real route builder + real validator: aggregated validation message beyond the CRD's maxLength
    lines += ctx.harness(["-steps", steps, "-mode", "longmsg"] + gw) or []
    n_corpus = len(lines)
    lines += ctx.harness(["-seed", ctx.seed, "-n", n_retry, "-steps", steps, "-mode", "retry"] + gw) or []
    upd = ctx.harness(["-seed", ctx.seed + 104729, "-n", n_upd, "-steps", steps, "-mode", "updater"] + gw, timeout=300) or []
    recs, skipped, panics, bad = _split(lines)
    urecs, _, upanics, ubad = _split(upd)
    for r in urecs:
        r["via"] = "updater"
    recs += urecs
    for p in (panics + upanics)[:3]:
        ctx.finding(f"C08:panic:{_kind(p['M'])}", f"status setter / retry function panicked: {p['P'][:200]}",
                    {"model_line": p["M"]})
    for b in (bad + ubad)[:3]:
        ctx.broken(f"harness could not run a case: {b}")

    # ---- the property, evaluated by the Lean judge on what the real code did
    judge_in = [r["J"] for r in recs]
    verdicts = ctx.driver(["judge"] + [str(x) for x in limits], judge_in)
    clause_hist = collections.Counter()
    stats = collections.Counter()
    seen_sig = set()
    schema_hist = collections.Counter()
    for r, v in zip(recs, verdicts):
        info = _info(r)
        sv = info.get("schema", "-")
        if sv != "-":
            import re as _re
            kws = sorted({_re.sub(r"%5b\$\d+%5d\$", "[]", x) for x in sv.split("%2c$")})
            for kw in kws:
                schema_hist[kw.replace("%40$", "@")] += 1
            # a submitted object the CRD schema rejects although the Lean judge (entry-list view) is content
            if v.startswith("ok") and info.get("lenient") != "true":
                sig = f"C08:crd-schema:{kws[0].replace('%40$', '@')}:{_kind(r['M'])}"
                if sig not in seen_sig:
                    seen_sig.add(sig)
                    ctx.finding(sig, f"{_kind(r['M'])}: a submitted status violates the CRD schema ({', '.join(kws)[:300]})",
                                {"replay_line": r["M"], "schema_violations": sv})
        if v.startswith("ok"):
            for f in v.split()[1:]:
                k, x = f.split("=")
                stats[k] += int(x)
            continue
        if v == "bad-op":
            ctx.broken("judge could not decode a harness line", replay={"judge_input": r["J"][:2000]})
            continue
        clause = v.split()[1]
        kind = _kind(r["M"])
        sig = f"C08:{clause}:{kind}"
        # policies have an "ancestor list is full" check on the graph side; it looks at the cached object. When the
        # computed ancestors fitted there and the LIVE object holds more foreign ancestors, the overflow is the
        # known live-drift defect (the judge decides that from the snapshot: `drift=1`)
        if clause == "entries-exceed-maxItems" and " drift=1" in v and kind in ("NGFPolicy", "BackendTLSPolicy"):
            sig += ":live-drift"
        clause_hist[sig] += 1
        if sig not in seen_sig:
            seen_sig.add(sig)
            ctx.finding(sig, f"{kind} status write violates clause {v[5:]}", {"replay_line": r["M"], "judge": v,
                                                                              "info": r.get("I", "")})

    # ---- correspondence: the model of the code in the tree (primary) on the same cases; the pre-fix
    # mutating variant is evaluated too, only to name the regression when the tree matches it instead
    outs = ctx.driver("model", [r["M"] for r in recs])
    matched = collections.Counter()
    diffs = 0
    for r, out in zip(recs, outs):
        if out == "bad-op" or " mutating=" not in out:
            diffs += 1
            if diffs <= 3:
                ctx.broken("model could not decode a harness line", replay={"model_line": r["M"][:2000]})
            continue
        primary, mutating = out[len("primary="):].split(" mutating=")
        if r["O"] == primary:
            matched["primary" if primary != mutating else "primary (variants agree)"] += 1
            continue
        diffs += 1
        kind = _kind(r["M"])
        if r["O"] == mutating:
            matched["pre-fix-mutating-only"] += 1
            if matched["pre-fix-mutating-only"] <= 3:
                ctx.broken(f"{kind}: implementation behaves like the PRE-FIX setter that stores the merged status in its "
                           f"captured variable (regression of fix 4e76cf1)",
                           replay={"replay_line": r["M"], "impl": r["O"], "model_primary": primary})
                sig = f"C08:retry-duplicates-foreign:{kind}"
                if sig not in seen_sig:   # the judge normally reports it already on the same input
                    seen_sig.add(sig)
                    ctx.finding(sig, f"{kind} status setter mutates its captured status again: retried write duplicates "
                                     f"foreign entries", {"replay_line": r["M"], "impl": r["O"]})
        else:
            matched["neither"] += 1
            if matched["neither"] <= 3:
                ctx.broken(f"model and implementation disagree on a {kind} case ({r.get('I', '')})",
                           replay={"replay_line": r["M"], "impl": r["O"], "model_primary": primary,
                                   "model_prefix_mutating": mutating})

    # ---- small correspondences: DeduplicateConditions, ancestor-full checks
    small = collections.Counter()
    for mode in ("dedup", "attach"):
        ls = ctx.harness(["-seed", ctx.seed + 31, "-n", n_small, "-mode", mode]) or []
        ins = [l.split("\t")[0][2:] for l in ls]
        want = [l.split("\t")[1][2:] for l in ls]
        got = ctx.driver(mode, ins)
        for i, w, g in zip(ins, want, got):
            small[mode] += 1
            if w != g:
                small[mode + "-diff"] += 1
                if small[mode + "-diff"] <= 2:
                    ctx.broken(f"{mode}: model and implementation disagree", replay={"input": i, "impl": w, "model": g})

    # ---- coverage
    kinds = collections.Counter(_kind(r["M"]) for r in recs)
    variants = collections.Counter(r["M"].split(" ")[1].split("=")[1] for r in recs)
    profiles = collections.Counter(dict(f.split("=", 1) for f in r.get("I", "profile=?").split(" ")).get("profile", "?").split(":")[0]
                                   for r in recs)
    fields = collections.Counter(dict(f.split("=", 1) for f in r.get("I", "profile=?").split(" ")).get("profile", "?")
                                 for r in recs if "one-field:" in r.get("I", ""))
    ops = collections.Counter()
    drift_ops = collections.Counter()
    drift_foreign = collections.Counter()
    drift_cases = 0
    edits_between_attempts = 0
    sched_len = collections.Counter()
    prev_sizes = collections.Counter()
    calls = collections.Counter()
    nontrivial = set()
    for r in recs:
        kv = dict(f.split("=", 1) for f in r["M"].split(" ") if "=" in f)
        s = [] if kv["sched"] == "*" else kv["sched"].split(",")
        sched_len[len(s)] += 1
        for o in s:
            if o.startswith("e"):
                edits_between_attempts += 1
                o = o.split("+", 1)[1]
            ops[o[0]] += 1
        d = _info(r).get("drift", "-")
        if d != "-":
            drift_cases += 1
            dn, sf, lf, own = d.split(":")
            for x in dn.split("+"):
                drift_ops[x] += 1
            if kv["kind"] in ("NGFPolicy", "BackendTLSPolicy", "SnippetsFilter") and int(lf) >= 13 or int(lf) >= 29:
                drift_foreign[f"{kv['kind']}:snapshot {sf} -> live {lf} foreign + {own} own"] += 1
        prev_sizes[min(0 if kv["store"] == "*" else kv["store"].count(";") + 1, 24) // 4 * 4] += 1
        c = r["O"].split("/subs:")[0][len("calls:"):]
        calls[c] += 1
        # non-trivial: the setter was invoked and either wrote or had something foreign/own to look at
        if "g1" in c and kv["store"] != "*":
            nontrivial.add(r["M"])
    ctx.finish({
        "evaluations": len(recs) + small["dedup"] + small["attach"],
        "distinct_nontrivial": len(nontrivial),
        "rule": "cases = (kind, computed status, previous status, failure schedule) run through the real setter under the real "
                "NewRetryUpdateFunc (and a few through Updater.Update with real backoff); non-trivial = distinct cases in which "
                "the setter was invoked on a non-empty previous status",
        "samples": [r["M"][:400] for r in recs[:2]] + [r["J"][:400] for r in recs[-1:]],
        "traces_validated_against_impl": len(recs) - diffs,
        "correspondence_diffs": diffs,
        "model_variant_matched": dict(matched),
        "corpus_cases": n_corpus,
        "prepared_by_real_Prepare_functions": sum(1 for r in recs if "prepared=true" in r.get("I", "")),
        "via_real_updater": len(urecs),
        "kinds": dict(kinds), "variants": dict(variants), "prev_profiles": dict(profiles),
        "one_field_perturbations": dict(fields),
        "schedule_ops": dict(ops),
        "live_drift_cases": drift_cases, "live_drift_edits": dict(drift_ops),
        "live_drift_near_limit": dict(sorted(drift_foreign.items())[:60]),
        "edits_between_attempts": edits_between_attempts, "schedule_length": {str(k): v for k, v in sorted(sched_len.items())},
        "prev_entries_histogram_by_4": {str(k): v for k, v in sorted(prev_sizes.items())},
        "client_call_sequences": dict(calls.most_common(20)),
        "skipped_no_request": dict(skipped),
        "judge_fail_histogram": dict(clause_hist),
        "judge_stats": dict(stats),
        "crd_schema_violation_histogram": dict(schema_hist),
        "dedup_cases": small["dedup"], "attach_cases": small["attach"],
        "limits_used": dict(zip(LIMIT_KEYS, limits)), "retry_steps": steps,
        "notes": ctx.notes,
    }, assumptions=[
        "Get replaces the whole object with a deep copy of the stored one (controller-runtime cache reader); Update stores "
        "the submitted status; the API server admits exactly the statuses within the CRD limits",
        "'no-op when only the transition time would change' is read set-wise for own entries when the previous status "
        "holds duplicated own entries (DESIGN §8); such cases are counted in judge_stats.dupown/dupkept",
        "policy ancestors: the computed status is derived (through the real ancestor-full checks) from a SNAPSHOT of the "
        "object; in a quarter of the cases the live object the retry function fetches has drifted from it (foreign entries "
        "added up to the CRD limit / removed / reordered / altered), and other writers edit the object between attempts",
    ], trusted=[
        "harness/c08 conversion between API structs and the entry-list view (ParentReference fields, flattened GatewayStatus)",
        "mini YAML reader of the translator for the CRD limits",
    ])
