"""C15 — weighted backends get proportional shares (DESIGN.md §6 C15, §7 row 4, §8)."""
import collections
import os

import vcheck


def fields(line):
    return dict(p.split("=", 1) for p in line.split("\t") if "=" in p)


def signature(clause, f):
    """Clause reported by the Lean judge -> finding signature (specific to the failing input class)."""
    if clause == "share_syntax:last:-0.00":
        return "C15:last-share-negative-zero"
    if clause == "zero_weight_gets_traffic:last:remainder":
        return "C15:zero-weight-last-backend-gets-remainder"
    return "C15:" + clause


def run(ctx):
    ctx.prepare()
    ctx.obligations("NGF.Props.C15")
    if ctx.tier == "thorough":
        ctx.leanchecker("NGF.Props.C15")

    corpus_dir = os.path.join(vcheck.VERIF, "corpus", "C15")
    args = ["-seed", ctx.seed]
    if ctx.tier == "quick":
        args += ["-n", 6000, "-exhaustive", 24]
    else:
        args += ["-n", 1000000, "-exhaustive", 200]
    cp = os.path.join(corpus_dir, "weights.txt")
    if os.path.exists(cp):
        args += ["-corpus", cp]
    lines = ctx.harness(args) or []
    if not getattr(ctx, "harness_ok", False):
        ctx.broken("harness does not build against the current tree", detail="\n".join(ctx.build_errors))

    anomalies = [l for l in lines if l.startswith("X ")]
    cases = [l for l in lines if not l.startswith("X ")]
    for a in anomalies[:3]:
        ctx.finding("C15:generator-anomaly:" + a[2:].split("\t")[0].split(":")[0][:40],
                    "the generator failed on a backend group: " + a[2:120], {"line": a})
    if not cases and getattr(ctx, "harness_ok", False):
        ctx.broken("harness produced no cases: " + getattr(ctx, "harness_err", "")[-500:])

    fs = [fields(l) for l in cases]
    nb = [0 if f["w"] == "-" else len(f["w"].split(",")) for f in fs]

    # ---- the property itself, evaluated by the Lean judge on the generated text (rules with >= 2 backends)
    jidx = [i for i, n in enumerate(nb) if n >= 2]
    verdicts = ctx.driver("judge", [cases[i] for i in jidx])
    clause_hist = collections.Counter()
    strict_fail = deficit = 0
    reported = collections.Counter()
    for i, v in zip(jidx, verdicts):
        if v.startswith("ok"):
            kv = dict(p.split("=") for p in v.split(" ")[1:])
            strict_fail += kv.get("strict") == "0"
            deficit += int(kv.get("deficit", "0"))
            continue
        if v == "bad-op":
            ctx.broken("judge could not decode a harness line", replay={"line": cases[i]})
            continue
        for clause in v.split(" ")[1:]:
            sig = signature(clause, fs[i])
            clause_hist[sig] += 1
            reported[sig] += 1
            if reported[sig] <= 2:
                f = fs[i]
                ctx.finding(sig, f"weights [{f['w']}] valid [{f['v']}]: clause {clause} fails on the generated block "
                                 f"{f['block']}", {"weights": f["w"], "valid": f["v"], "ups": f["ups"],
                                                   "block": f["block"], "pp": f["pp"], "clause": clause})

    # ---- correspondence: the Lean model must print the same block and proxy_pass, string for string
    outs = ctx.driver("model", cases)
    diffs = 0
    for l, f, o in zip(cases, fs, outs):
        g = fields(o)
        if o == "bad-op" or g.get("block") != f["block"] or g.get("pp") != f["pp"]:
            diffs += 1
            if diffs <= 3:
                ctx.broken(f"model and generator disagree on weights [{f['w']}] valid [{f['v']}]: "
                           f"generator block={f['block']} pp={f['pp']} / model {o}",
                           replay={"line": l, "model": o})
        elif g.get("range") != "1":
            ctx.broken(f"a float operation left the normal binary64 range on weights [{f['w']}]", replay={"line": l})

    # ---- the repaired variant (candidate fix in notes/C15.md) satisfies the judge on the same vectors (statistic)
    fam = collections.Counter(f["fam"] for f in fs)
    lens = collections.Counter(nb)
    vpat = collections.Counter(
        "all-valid" if "0" not in f["v"] else "all-invalid" if "1" not in f["v"] else "mixed" for f in fs)
    distinct = {(f["w"], f["v"]) for f in fs}
    nontrivial = {(f["w"], f["v"]) for f, n in zip(fs, nb)
                  if n >= 2 and len({w for w in f["w"].split(",") if w != "0"}) >= 1 and
                  sum(1 for w in f["w"].split(",") if w != "0") >= 2}
    ctx.finish({
        "evaluations": len(cases),
        "distinct_nontrivial": len(nontrivial),
        "rule": "backend groups rendered by the real config.Generator (split_clients block + proxy_pass of the rule's "
                "location, compared string for string with the Lean model and judged by the Lean judge); non-trivial = "
                "distinct (weights, validity) with >= 2 backends of which >= 2 have non-zero weight",
        "samples": [f"w={f['w']} v={f['v']}" for f in fs[:2] + fs[len(fs) // 2:len(fs) // 2 + 2] + fs[-1:]],
        "traces_validated_against_impl": len(cases) - diffs,
        "correspondence_diffs": diffs,
        "judged_rules": len(jidx),
        "distinct_cases": len(distinct),
        "family_histogram": dict(fam),
        "backend_count_histogram": {str(k): v for k, v in sorted(lens.items())},
        "validity_pattern_histogram": dict(vpat),
        "judge_clause_failures": dict(clause_hist),
        "stricter_reading_every_backend_within_0.01_fails_on": strict_fail,
        "nonlast_share_one_hundredth_low_from_float_rounding": deficit,
        "generator_anomalies": len(anomalies),
    }, assumptions=[
        "IEEE-754 binary64 with round-to-nearest-even for +,-,*,/ and float64(int32); Go does not fuse the operations "
        "of percentOf (no x*y+z shape); strconv formats %.2f by correct rounding of the exact binary value",
        "NGINX reads a split_clients percentage with ngx_atofp(.,2), rejects 0 and a sign, and ignores `#` lines",
        "weights reach the generator through createBackendRef (range [0,10^6], pinned by the translator); at most 16 "
        "backendRefs per rule (Gateway API CRD maxItems)",
    ], trusted=[
        "NGF.F64: rational model of binary64 rounding (exponent range checked at run time by the driver, not proved)",
    ])
