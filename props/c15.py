"""C15 — weighted backends get proportional shares (DESIGN.md §6 C15, §7 row 4, §8)."""
import collections
import concurrent.futures
import json
import os

import vcheck


def fields(line):
    return dict(p.split("=", 1) for p in line.split("\t") if "=" in p)


def signature(clause):
    """Clause reported by the Lean judge -> finding signature (specific to the failing input class).
    The first two are the signatures of the pre-fix float64 algorithm (fixed in /repo by 286dc83): a regression
    is reported under the same names."""
    if clause == "share_syntax:last:-0.00":
        return "C15:last-share-negative-zero"
    if clause == "zero_weight_gets_traffic:last:remainder":
        return "C15:zero-weight-last-backend-gets-remainder"
    parts = clause.split(":")
    if parts[0] == "share_syntax" and len(parts) >= 3:
        pct = parts[2]
        kind = "negative" if "-" in pct else "zero" if pct.strip("0.") == "" else "malformed"
        return f"C15:share_syntax:{parts[1]}:{kind}"
    return "C15:" + clause


def pdriver(ctx, mode, lines, workers=12, chunk=4000):
    """ctx.driver on big inputs: the lines are split over several driver processes."""
    if len(lines) <= chunk:
        return ctx.driver(mode, lines)
    parts = [lines[i:i + chunk] for i in range(0, len(lines), chunk)]
    with concurrent.futures.ThreadPoolExecutor(max_workers=workers) as ex:
        res = list(ex.map(lambda p: ctx.driver(mode, p), parts))
    return [r for part in res for r in part]


class Stats:
    def __init__(self):
        self.evaluations = self.diffs = self.judged = 0
        self.strict_fail = self.deficit = self.positional = 0
        self.wcases = self.anomalies = self.prefix_matches = 0
        self.e2e = self.e2e_diffs = 0
        self.e2e_classes = collections.Counter()
        self.e2e_kinds = collections.Counter()
        self.e2e_lens = collections.Counter()
        self.clause_hist = collections.Counter()
        self.reported = collections.Counter()
        self.fam = collections.Counter()
        self.lens = collections.Counter()
        self.vpat = collections.Counter()
        self.distinct = set()
        self.nontrivial = set()
        self.samples = []


E2E_STAGES = (("gw", "gv", "gu"), ("bw", "bv", "bu"), ("block", "pp"))


def process_e2e(ctx, st, elines):
    """End-to-end stream: route spec -> graph refs -> backend group -> split_clients block (real pipeline).
    Judge: the property evaluated from the SPEC (k-th line <-> k-th backendRef). Correspondence: every stage equals
    the Lean model (createBackendRef, newBackendGroup, distributions)."""
    if not elines:
        return
    st.e2e += len(elines)
    fs = [fields(l) for l in elines]
    for l, f, v in zip(elines, fs, pdriver(ctx, "e2ejudge", elines)):
        for x in f["sk"].split(","):
            st.e2e_classes[x] += 1
        st.e2e_kinds[f["kind"]] += 1
        st.e2e_lens[len(f["sk"].split(","))] += 1
        if v == "ok":
            continue
        if v == "bad-op":
            ctx.broken("e2e judge could not decode a harness line", replay={"line": l})
            continue
        for clause in v.split(" ")[1:]:
            sig = signature(clause).replace("C15:", "C15:route-spec:", 1)
            st.clause_hist[sig] += 1
            st.reported[sig] += 1
            if st.reported[sig] <= 2:
                ctx.finding(sig, f"{f['kind']} route rule with backendRefs weights [{f['sw']}] classes [{f['sk']}] "
                                 f"(resolve [{f['sv']}]): clause {clause} fails; backend group weights [{f['bw']}] "
                                 f"valid [{f['bv']}] upstreams [{f['bu']}]; block {f['block']}",
                            {"kind": f["kind"], "spec_weights": f["sw"], "spec_classes": f["sk"], "spec_targets": f["su"],
                             "backend_group": {"w": f["bw"], "v": f["bv"], "u": f["bu"]}, "block": f["block"],
                             "pp": f["pp"], "clause": clause})
    for l, f, o in zip(elines, fs, pdriver(ctx, "e2emodel", elines)):
        g = fields(o)
        for name, keys in zip(("graph BackendRefs", "dataplane BackendGroup", "generated block"), E2E_STAGES):
            if o == "bad-op" or any(g.get(k) != f.get(k) for k in keys):
                st.e2e_diffs += 1
                if st.e2e_diffs <= 3:
                    ctx.broken(f"model and pipeline disagree at stage '{name}' for backendRefs weights [{f['sw']}] "
                               f"classes [{f['sk']}]: pipeline " + " ".join(f"{k}={f.get(k)}" for k in keys) +
                               " / model " + " ".join(f"{k}={g.get(k)}" for k in keys), replay={"line": l, "model": o})
                break


def process(ctx, st, lines):
    anomalies = [l for l in lines if l.startswith("X ")]
    wlines = [l for l in lines if l.startswith("W\t")]
    elines = [l for l in lines if l.startswith("E\t")]
    cases = [l for l in lines if l[:2] not in ("X ", "W\t", "E\t")]
    process_e2e(ctx, st, elines)
    st.anomalies += len(anomalies)
    for a in anomalies[:3]:
        ctx.finding("C15:generator-anomaly:" + a[2:].split("\t")[0].split(":")[0][:40],
                    "the generator failed on a backend group: " + a[2:120], {"line": a})
    if not cases and getattr(ctx, "harness_ok", False):
        ctx.broken("harness produced no cases: " + getattr(ctx, "harness_err", "")[-500:])

    fs = [fields(l) for l in cases]
    nb = [0 if f["w"] == "-" else len(f["w"].split(",")) for f in fs]
    st.evaluations += len(cases)

    # ---- the property itself, evaluated by the Lean judge on the generated text (rules with >= 2 backends)
    jidx = [i for i, n in enumerate(nb) if n >= 2]
    st.judged += len(jidx)
    verdicts = pdriver(ctx, "judge", [cases[i] for i in jidx])
    for i, v in zip(jidx, verdicts):
        if v.startswith("ok"):
            kv = dict(p.split("=") for p in v.split(" ")[1:])
            st.strict_fail += kv.get("strict") == "0"
            st.deficit += int(kv.get("deficit", "0"))
            st.positional += kv.get("positional") == "1"
            continue
        if v == "bad-op":
            ctx.broken("judge could not decode a harness line", replay={"line": cases[i]})
            continue
        for clause in v.split(" ")[1:]:
            sig = signature(clause)
            st.clause_hist[sig] += 1
            st.reported[sig] += 1
            if st.reported[sig] <= 2:
                f = fs[i]
                ctx.finding(sig, f"weights [{f['w']}] valid [{f['v']}]: clause {clause} fails on the generated block "
                                 f"{f['block']}", {"weights": f["w"], "valid": f["v"], "ups": f["ups"],
                                                   "block": f["block"], "pp": f["pp"], "clause": clause})

    # ---- correspondence: the Lean model must print the same block and proxy_pass, string for string
    outs = pdriver(ctx, "model", cases)
    diff_idx = []
    for k, (l, f, o) in enumerate(zip(cases, fs, outs)):
        g = fields(o)
        if o == "bad-op" or g.get("block") != f["block"] or g.get("pp") != f["pp"]:
            diff_idx.append(k)
    if diff_idx:
        # is it the pre-fix float64 algorithm (regression of 286dc83)?
        pre = pdriver(ctx, "prefix", [cases[k] for k in diff_idx])
        same_as_prefix = sum(1 for k, o in zip(diff_idx, pre)
                             if fields(o).get("block") == fs[k]["block"] and fields(o).get("pp") == fs[k]["pp"])
        st.prefix_matches += same_as_prefix
        for k in diff_idx:
            st.diffs += 1
            if st.diffs <= 3:
                f = fs[k]
                note = (" — every differing block equals the PRE-FIX float64 algorithm (regression of 286dc83)"
                        if same_as_prefix == len(diff_idx) else "")
                ctx.broken(f"model and generator disagree on weights [{f['w']}] valid [{f['v']}]: "
                           f"generator block={f['block']} pp={f['pp']} / model {outs[k]}" + note,
                           replay={"line": cases[k], "model": outs[k]})

    # ---- weights reach the generator through createBackendRef: default 1, out of range -> 0 (real code via overlay)
    st.wcases += len(wlines)
    wv = ctx.driver("wjudge", wlines)
    wm = ctx.driver("wmodel", wlines)
    for l, v, m in zip(wlines, wv, wm):
        f = fields(l)
        if v != "ok":
            ctx.finding("C15:createBackendRef:" + v.replace("fail ", ""),
                        f"createBackendRef turns weight {f['in']} into {f['out']}: {v}", {"line": l})
        elif m != "out=" + f["out"]:
            ctx.broken(f"weight model and createBackendRef disagree on weight {f['in']}: {f['out']} / {m}",
                       replay={"line": l})

    for f, n in zip(fs, nb):
        st.fam[f["fam"]] += 1
        st.lens[n] += 1
        st.vpat["all-valid" if "0" not in f["v"] else "all-invalid" if "1" not in f["v"] else "mixed"] += 1
        key = hash((f["w"], f["v"]))
        st.distinct.add(key)
        if n >= 2 and sum(1 for w in f["w"].split(",") if w != "0") >= 2:
            st.nontrivial.add(key)
    if len(st.samples) < 6:
        st.samples += [f"w={f['w']} v={f['v']}" for f in fs[:1] + fs[len(fs) // 2:len(fs) // 2 + 1] + fs[-1:]]


def run(ctx):
    ctx.prepare()
    ctx.obligations("NGF.Props.C15")
    # Redundant with the Lean theorems facts_*_pinned (vcheck now holds the translator lock across regenerate+build):
    # the facts this run extracted are compared with the values the theorems were proved against, which gives a
    # readable message naming the changed statement.
    pinned = json.load(open(os.path.join(vcheck.VERIF, "props", "c15_facts.json")))
    for k, v in sorted(pinned.items()):
        if ctx.facts.get(k) != v:
            ctx.broken(f"source fact {k} changed: {json.dumps(ctx.facts.get(k))[:300]} (pinned: {json.dumps(v)[:200]})",
                       kind="obligation")
    if ctx.tier == "thorough":
        ctx.leanchecker("NGF.Props.C15")

    cp = os.path.join(vcheck.VERIF, "corpus", "C15", "weights.txt")
    base = ["-corpus", cp] if os.path.exists(cp) else []
    if ctx.tier == "quick":
        runs = [["-seed", ctx.seed, "-n", 12000, "-exhaustive", 30, "-e2e", 1500] + base]
    else:
        runs = [["-seed", ctx.seed, "-n", 0, "-exhaustive", 200, "-e2e", 60000] + base]
        runs += [["-seed", ctx.seed + 1000 * k, "-n", 100000] for k in range(1, 11)]
    st = Stats()
    for args in runs:
        lines = ctx.harness(args) or []
        if not getattr(ctx, "harness_ok", False):
            ctx.broken("harness does not build against the current tree", detail="\n".join(ctx.build_errors))
            break
        process(ctx, st, lines)
        if len(ctx.brokens) > 20 or len(ctx.findings) > 200:
            break
    if st.e2e == 0 and getattr(ctx, "harness_ok", False):
        ctx.broken("harness produced no end-to-end route rules")
    if st.wcases == 0 and getattr(ctx, "harness_ok", False):
        ctx.broken("harness produced no createBackendRef weight cases")

    ctx.dependency("C03", "'invalid backends keep their share and answer 500' and 'a zero-weight backend gets no traffic' are "
                          "statements about what NGINX does with the split_clients variable and the upstreams it names: "
                          "every variable and upstream the rule uses must be defined by the same file set")

    ctx.finish({
        "evaluations": st.evaluations + st.e2e,
        "distinct_nontrivial": len(st.nontrivial),
        "rule": "(a) route rules (HTTPRoute/GRPCRoute, 2..16 backendRefs incl. unresolvable and duplicate ones) sent through the "
                "real ChangeProcessor/BuildGraph/BuildConfiguration/Generate pipeline, every stage compared with the Lean "
                "model and the property judged from the spec; (b) backend groups rendered by the real config.Generator (split_clients block + proxy_pass of the rule's "
                "location, compared string for string with the Lean model and judged by the Lean judge); non-trivial = "
                "distinct (weights, validity) with >= 2 backends of which >= 2 have non-zero weight",
        "samples": st.samples[:6],
        "traces_validated_against_impl": st.evaluations - st.diffs + st.e2e - st.e2e_diffs,
        "correspondence_diffs": st.diffs,
        "judged_rules": st.judged,
        "distinct_cases": len(st.distinct),
        "family_histogram": dict(st.fam),
        "backend_count_histogram": {str(k): v for k, v in sorted(st.lens.items())},
        "validity_pattern_histogram": dict(st.vpat),
        "judge_clause_failures": dict(st.clause_hist),
        "stricter_reading_every_backend_within_0.01_fails_on": st.strict_fail,
        "positional_reading_nonlast_floor_last_remainder_holds_on": st.positional,
        "differing_blocks_equal_to_prefix_float_algorithm": st.prefix_matches,
        "createBackendRef_weight_cases": st.wcases,
        "e2e_route_rules_through_real_pipeline": st.e2e,
        "e2e_stage_diffs": st.e2e_diffs,
        "e2e_backendref_class_histogram": dict(st.e2e_classes),
        "e2e_route_kind_histogram": dict(st.e2e_kinds),
        "e2e_backendref_count_histogram": {str(k): v for k, v in sorted(st.e2e_lens.items())},
        "nonlast_share_one_hundredth_below_exact_two_decimal_value": st.deficit,
        "generator_anomalies": st.anomalies,
    }, assumptions=[
        "Go int64 arithmetic (no overflow: 10^6*10^4 < 2^63, proved) and fmt %d.%02d; for the pre-fix variant: IEEE-754 "
        "binary64 round-to-nearest-even and correctly rounded %.2f",
        "NGINX reads a split_clients percentage with ngx_atofp(.,2), rejects 0 and a sign, and ignores `#` lines",
        "weights reach the generator through createBackendRef (range [0,10^6]: checked on the real function and pinned "
        "by the translator); at most 16 backendRefs per rule (Gateway API CRD maxItems)",
    ], trusted=[
        "addToLastNonZero is the structural transcription of `lastNonZero`/`cents[lastNonZero] += remaining` "
        "(checked string for string against the generator on every vector)",
    ])
