"""C13 — upstreams contain exactly the ready endpoints of the referenced Service port (DESIGN.md §6 C13)."""
import collections
import hashlib
import json

import vcheck


def _eps(l):
    return sorted((e["a"], e["p"], bool(e["v6"])) for e in (l or []))


def _ups(l):
    return sorted((u["name"], _eps(u["eps"])) for u in (l or []))


def _conf(l):
    return sorted((u["name"], u["zone"], u["state"], sorted(u["servers"] or [])) for u in (l or []))


def _table(t, drop=()):
    return sorted((k, sorted(v or [])) for k, v in (t or {}).items() if k not in drop)


VARIANTS = (("repaired-503-through-api", "A"), ("repaired-reload-for-new-stream-upstream", "B"),
            ("both-repairs", "AB"))


def use_fixed(kind, m, tag):
    """The model output under a repaired variant (known findings C13:plus_empty_no_503 = A,
    C13:plus_stream_upstream_absent = B); None when the model has no such variant for this kind."""
    m = dict(m)
    if kind == "pipe" and "viewFixed" + tag in m:
        m["view"] = m["viewFixed" + tag]
        return m
    if kind in ("plus", "e2e") and "viewsFixed" + tag in m:
        m["views"] = m["viewsFixed" + tag]
        return m
    return None


def canon(kind, out, real):
    """Order-free form of an output (lists that come from Go maps are sets)."""
    if kind == "resolve":
        return {"res": out.get("res"), "eps": _eps(out.get("eps"))}
    if kind == "pipe":
        v = out.get("view") or {}
        return {"http": _ups(out.get("http")), "stream": _ups(out.get("stream")),
                "httpConf": _conf(out.get("httpConf")), "streamConf": _conf(out.get("streamConf")),
                "view": [_table(v.get("http")), _table(v.get("stream"))]}
    if kind in ("plus", "e2e"):
        drop = ("invalid-backend-ref",) if real else ()
        return {"confs": [[_ups(c.get("http")), _ups(c.get("stream"))] for c in (out.get("confs") or [])],
                "views": [[_table(v.get("http"), drop), _table(v.get("stream"))] for v in (out.get("views") or [])]}
    if kind == "hist":
        drop = ("invalid-backend-ref",) if real else ()
        return {"changes": list(out.get("changes") or []),
                "views": [[_table(v.get("http"), drop), _table(v.get("stream"))] for v in (out.get("views") or [])],
                "confs": [[_ups(c.get("http")), _ups(c.get("stream"))] for c in (out.get("confs") or [])]}
    if kind == "pipeE":
        return {"conf": _ups(out.get("conf")), "upstreams": _conf(out.get("upstreams"))}
    if kind == "faults":
        drop = ("invalid-backend-ref",) if real else ()
        return {"confs": [[_ups(c.get("http")), _ups(c.get("stream"))] for c in (out.get("confs") or [])],
                "views": [[_table(v.get("http"), drop), _table(v.get("stream"))] for v in (out.get("views") or [])],
                "errs": [bool(e) for e in (out.get("errs") or [])],
                "lastErrs": [bool(e) for e in (out.get("lastErrs") or [])]}
    return out


def _obligations(ctx):
    """lake build of the theorems against the facts of THIS tree. NGF/Generated is shared with checks of other
    properties that may run at the same time on another tree (VERIF_REPO) and regenerate it; the translator
    lock is therefore held from regeneration until the theorems have been built and audited."""
    with vcheck.Lock("translator"):
        rc, _, err = vcheck.sh([vcheck.TRANSLATOR_BIN, "-repo", vcheck.REPO, "-out", vcheck.GENERATED])
        if rc not in (0, 3):
            raise SystemExit(f"translator crashed (framework error):\n{err}")
        ok = True
        for mod in ("NGF.Props.C13Handler", "NGF.Props.C13History", "NGF.Props.C13"):
            ok = ctx.obligations(mod) and ok
        return ok


class Stats:
    def __init__(self):
        self.n = 0
        self.diffs = 0
        self.dkinds = collections.Counter()
        self.vhist = collections.Counter()
        self.h = collections.Counter()
        self.kinds = collections.Counter()
        self.nontrivial = set()
        self.samples = []
        self.per_clause = collections.Counter()
        self.variant = collections.Counter()
        self.outside = 0


def process(ctx, st, lines):
    """judge + correspondence + statistics for one batch of harness lines"""
    lines = [l for l in lines if l.startswith("{")]
    if not lines:
        return
    st.n += len(lines)
    if len(st.samples) < 3:
        st.samples.append(lines[0][:600])
    # the property itself, evaluated by the Lean judge on what the real code produced
    verdicts = ctx.driver("judge", lines)
    for l, v in zip(lines, verdicts):
        if v == "ok" or v.startswith("skip"):
            st.vhist[v] += 1
            continue
        if v == "bad-op":
            ctx.broken("judge could not decode a harness line", replay={"line": l[:4000]})
            st.vhist[v] += 1
            continue
        for clause in v.replace("fail ", "").split(","):
            st.vhist["fail " + clause] += 1
            st.per_clause[clause] += 1
            if st.per_clause[clause] <= 3:   # keep the first few failing inputs of every clause as replays
                d = json.loads(l)
                ctx.finding(f"C13:{clause}", f"clause {clause} fails on the real code ({d['k']} case {d['id']})",
                            {"kind": d["k"], "in": d["in"], "out": d["out"], "verdict": v})

    # correspondence: the Lean model recomputes every output
    outs = ctx.driver("model", lines)
    for l, o in zip(lines, outs):
        d = json.loads(l)
        try:
            m = json.loads(o)
        except ValueError:
            m = None
        k = d["k"]
        st.kinds[k] += 1
        impl = canon(k, d["out"], True)
        matched = None
        if k == "pipeE" and m is not None and not m.get("inFragment"):
            # the cluster is outside the fragment of Model/Pipeline.lean (reported, not compared)
            st.h["pipeE_outside_fragment:" + str(m.get("why"))[:60]] += 1
            st.outside += 1
            continue
        if k == "pipeE" and (d["out"].get("panic") or d["out"].get("noConf")):
            st.h["pipeE_no_output"] += 1
            st.outside += 1
            continue
        if m is not None and canon(k, m, False) == impl:
            matched = "as-is"
        elif m is not None:
            for name, tag in VARIANTS:
                mv = use_fixed(k, m, tag)
                if mv is not None and canon(k, mv, False) == impl:
                    matched = name
                    break
        if matched:
            st.variant[matched] += 1
        else:
            st.diffs += 1
            st.dkinds[k] += 1
            if st.diffs <= 3:
                ctx.broken(f"model and implementation disagree on {k} case {d['id']}",
                           replay={"kind": k, "in": d["in"], "impl": d["out"], "model": m if m is not None else o})
        # ---- coverage statistics (measured on the generated inputs and the real outputs)
        h, i, o = st.h, d["in"], d["out"]
        key = hashlib.sha1(json.dumps(i, sort_keys=True).encode()).digest()[:10]
        if k == "resolve":
            h["res:" + str(o.get("res"))] += 1
            mine = [s for s in i["slices"] if s["ns"] == i["ns"] and s["label"] == i["name"]]
            h["slices_of_service:%d" % min(len(mine), 4)] += 1
            for s in mine:
                h["type:" + s["type"]] += 1
                for p in s["ports"]:
                    h["port:" + ("nil" if p["port"] is None else "num") + "/" +
                      ("nil" if p["name"] is None else "named" if p["name"] else "unnamed")] += 1
                for e in s["eps"]:
                    h["ready:" + str(e["ready"])] += 1
            h["targetPort:" + ("str" if i["sp"].get("tps") is not None else "int0" if not i["sp"].get("tpi") else "int")] += 1
            h["endpoints_returned:%d" % min(len(o.get("eps") or []), 6)] += 1
            if len(mine) >= 2 and o.get("eps"):
                st.nontrivial.add(key)
        elif k == "pipe":
            h["pipe_fam:" + i["fam"] + ("/plus" if i["plus"] else "/oss")] += 1
            if any(u["eps"] for u in (o.get("http") or []) + (o.get("stream") or [])):
                st.nontrivial.add(key)
        elif k == "seq":
            h["seq:" + ("equal" if o.get("eq") else "differ") + ("/same-length" if len(i["new"]) == len(i["old"]) else "/other-length")] += 1
            if i["new"] and len(i["new"]) == len(i["old"]):
                st.nontrivial.add(key)
        elif k == "hist":
            mode = "plus" if i["plus"] else "oss"
            refd = False   # some route exists (its Services are referenced)
            late = False
            seen_unreferenced = set()
            for b, ch in zip(i.get("batches") or [], o.get("changes") or []):
                h["hist_%s_batch:%s/%s" % (mode, ch, "single-event" if len(b) == 1 else "multi-event")] += 1
                for e in b:
                    h["hist_event:%s %s%s" % (e["op"], e["kind"], (" (" + e["note"] + ")") if e.get("note") else "")] += 1
                    if e["kind"] == "slice" and e["op"] == "upsert" and not refd:
                        seen_unreferenced.add(e["slice"]["obj"])
                    if e["kind"] == "route" and e["op"] == "upsert":
                        refd = True
                    if (refd and len(b) == 1 and e["kind"] == "slice" and ch == "endpoints" and
                            (e.get("name") in seen_unreferenced or (e.get("slice") or {}).get("obj") in seen_unreferenced)):
                        late = True
            if late:
                h["hist_%s_late_reference_then_slice_change_alone" % mode] += 1
                st.nontrivial.add(key)
        elif k == "pipeE":
            conf = o.get("conf") or []
            h["pipeE_upstreams:%d" % min(len(conf), 6)] += 1
            h["pipeE_upstreams_with_endpoints:%d" % min(sum(1 for u in conf if u["eps"]), 4)] += 1
            h["pipeE_slices:%d" % min(len(i.get("slices") or []) // 5 * 5, 30)] += 1
            tg = set(m.get("targets") or [])
            h["pipeE_proxied_names:%d" % min(len(tg - {"invalid-backend-ref"}), 6)] += 1
            if tg != set(o.get("proxied") or []):
                st.diffs += 1
                ctx.broken("the upstream names the REAL http.conf proxies to (proxy_pass / split_clients) are not those of "
                           "confTargets (gen (resolve c))",
                           replay={"kind": k, "objs": i.get("objs"), "model": sorted(tg), "real": sorted(o.get("proxied") or [])})
            if any(u["eps"] for u in conf) and len(conf) >= 2:
                st.nontrivial.add(key)
        elif k == "faults":
            mode = "plus" if i["plus"] else "oss"
            errs, fired = o.get("errs") or [], o.get("fired") or []
            retried = False
            for n, op in enumerate(i["ops"]):
                f = op.get("faults") or {}
                kind = ("replace" if f.get("replace") else "reload" if f.get("reload") else "get" if f.get("get") else
                        "api" if (f.get("http") or f.get("stream")) else "none")
                hit = n < len(fired) and fired[n]
                h["faults_%s_op:%s/fault=%s/%s" % (mode, op["op"], kind, "fired" if hit else "not-fired")] += 1
                h["faults_note:" + (op.get("note") or "first")] += 1
                if n < len(errs):
                    h["faults_%s_batch:%s" % (mode, "error-recorded" if errs[n] else "quiet")] += 1
                # the retry pattern: a batch with a recorded error followed by a quiet batch
                if n > 0 and n < len(errs) and errs[n - 1] and not errs[n]:
                    retried = True
                    same = op["slices"] == i["ops"][n - 1]["slices"]
                    h["faults_%s_retry_after_error:%s" % (mode, "same-slices" if same else "changed-slices")] += 1
            if retried:
                st.nontrivial.add(key)
        elif k in ("plus", "e2e"):
            for op, c in zip(i["ops"], o.get("calls") or []):
                h[k + "_op:" + op["op"] + ("/api-update" if c else "/no-update")] += 1
            if any(c for op, c in zip(i["ops"], o.get("calls") or []) if op["op"] == "endpoints"):
                st.nontrivial.add(key)


def run(ctx):
    ctx.prepare()
    _obligations(ctx)
    if ctx.tier == "thorough":
        ctx.leanchecker("NGF.Props.C13")

    st = Stats()
    corp = vcheck.corpus("C13")
    if corp:
        process(ctx, st, ctx.harness(["-mode", "replay"],
                                     input="".join(t if t.endswith("\n") else t + "\n" for _, t in corp)) or [])
    n_corpus = st.n
    # (mode, cases per round, seed offset); thorough = 10 rounds with different seeds (memory stays bounded)
    plan = (("resolve", 1500, 0), ("pipe", 400, 104729), ("plus", 250, 1299709), ("e2e", 150, 15485863),
            ("seq", 400, 32452843), ("faults", 300, 49979687), ("pipeE", 150, 67867967), ("hist", 300, 86028121))
    rounds, maxops = (1, 8) if ctx.tier == "quick" else (30, 14)
    if ctx.tier == "thorough":
        plan = (("resolve", 10000, 0), ("pipe", 2000, 104729), ("plus", 600, 1299709), ("e2e", 400, 15485863),
                ("seq", 2000, 32452843), ("faults", 800, 49979687), ("pipeE", 300, 67867967), ("hist", 800, 86028121))
    for rnd in range(rounds):
        for mode, n, off in plan:
            process(ctx, st, ctx.harness(["-mode", mode, "-seed", ctx.seed + off + 7919 * rnd, "-n", n,
                                          "-maxops", maxops]) or [])
        if len(ctx.brokens) > 6:
            break   # a broken tree: do not run for minutes
    if st.kinds["pipeE"] and st.outside * 2 > st.kinds["pipeE"]:
        ctx.broken(f"pipeE: {st.outside} of {st.kinds['pipeE']} generated clusters are outside the fragment or gave no configuration")
    if not getattr(ctx, "harness_ok", False):
        ctx.broken("harness does not build against the current tree", detail="\n".join(ctx.build_errors))

    ctx.dependency("C03", "'a Service with no such endpoint answers 503 rather than keeping old servers' needs the generated "
                          "upstream/stream configuration to load: every upstream a server or map names is defined by the same file set")

    ctx.finish({
        "evaluations": st.n,
        "distinct_nontrivial": len(st.nontrivial),
        "rule": "distinct generated inputs; non-trivial = resolve cases with >=2 slices of the Service and >=1 endpoint "
                "returned, pipeline cases with >=1 resolved endpoint, Plus sequences (synthetic configurations and "
                "end-to-end EndpointSlice histories) with >=1 endpoints-only step that changed a server set through the API, "
                "serversEqual pairs of equal non-zero length, fault sequences in which a batch with a recorded error is followed by a "
                "quiet batch (the retry), pipeline clusters with >=2 upstreams of which >=1 has endpoints, event histories in "
                "which a slice first seen while no route existed is changed alone in a batch after a route exists and the real "
                "processor reports EndpointsOnlyChange",
        "samples": st.samples,
        "traces_validated_against_impl": st.n - st.diffs,
        "correspondence_diffs": st.diffs,
        "correspondence_diffs_by_kind": dict(st.dkinds),
        "model_variant_matched": dict(st.variant),
        "cases_by_kind": dict(st.kinds),
        "pipeE_cases_not_compared": st.outside,
        "corpus_cases": n_corpus,
        "judge_verdicts": dict(st.vhist),
        "generator_histogram": dict(sorted(st.h.items())),
    }, assumptions=[
        "controller-runtime List(MatchingFields{k8sServiceName}, InNamespace) returns exactly the slices of the namespace "
        "whose index value is the name (the harness uses controller-runtime's fake client with the real index function)",
        "NGINX Plus API UpdateHTTPServers/UpdateStreamServers makes the server set of an existing upstream equal to the "
        "given list and fails for an unknown upstream; an upstream with a state file starts with the servers of that file; "
        "only upstreams with a zone are visible in the API (harness/c13/nginx.go)",
        "NGINX answers 502 for an upstream group without servers (so 'answers 503' = the 503 placeholder server is present)",
        "EndpointPort numbers are 1..65535 and names are non-nil (API server validation/defaulting); other inputs are "
        "compared with the model but not judged",
        "a ChangeProcessor that reports EndpointsOnlyChange only when nothing but EndpointSlices changed (property C01)",
        "faults: a failing ReplaceFiles / Reload / GetUpstreams / UpdateHTTPServers / UpdateStreamServers call changes nothing in "
        "NGINX; a failed reload leaves NGINX running what it held; NGINX Plus state files survive reloads (also while their "
        "upstream is absent from the configuration) and are shared by http and stream upstreams of one name",
        "'the handler reports the batch as successful' = it logged no \"Failed to update NGINX configuration\" error during that batch",
        "hist: one Gateway that every HTTPRoute attaches to, same-namespace backendRefs; the fake client plays the informer "
        "cache and is updated before the event is delivered; no faults",
        "pipeE: clusters inside the fragment of Model/Pipeline.lean (decoded by PipelineRefsTie.toScenarioR), NGINX OSS, no NginxProxy (IPFamily Dual)",
    ], trusted=[
        "harness/c13/pipee.go: upstream blocks / proxy_pass / split_clients values read from the real http.conf by line regexes",
        "harness/c13/nginx.go: stand-in for NGINX (Plus): parses upstream blocks of the generated files, state-file and API semantics",
    ])
