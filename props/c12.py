"""C12 — reload reported successful only if NGINX runs that version (DESIGN.md §6 C12, A.4)."""
import collections
import os

import vcheck


def _kv(s, sep=" "):
    return dict(f.split("=", 1) for f in s.split(sep) if "=" in f)


def _same(want, got):
    """every field the harness observed must equal the model's field"""
    w, g = _kv(want), _kv(got)
    return bool(w) and all(g.get(k) == v for k, v in w.items())


def run(ctx):
    ctx.prepare()
    # Generated/*.lean is shared by all checks that run at the same time; another check (against another
    # tree) may have regenerated it since prepare(). Regenerate from OUR tree and build under the translator lock.
    with vcheck.Lock("translator"):
        vcheck.sh([vcheck.TRANSLATOR_BIN, "-repo", vcheck.REPO, "-out", vcheck.GENERATED])
        ctx.obligations("NGF.Props.C12Apply")   # apply transaction + composed batch model (no generated facts)
        ctx.obligations("NGF.Props.C12")        # reload / handler / status theorems + fact pins (imports C12Apply)
    if ctx.tier == "thorough":
        ctx.leanchecker("NGF.Props.C12")

    if ctx.tier == "quick":
        sizes = dict(reload=150, wait=100, handler=80, status=100, restart=12, maxbatches=8, slow=6, workers=8)
    else:
        sizes = dict(reload=20000, wait=15000, handler=15000, status=10000, restart=1000, maxbatches=14, slow=300, workers=16)
    args = ["-seed", ctx.seed]
    # corpus first: Reload edge cases in the model's vocabulary (corpus/C12/*.txt), run on the real code
    corpus_lines = [l for _, text in vcheck.corpus("C12") for l in text.splitlines() if l.startswith("R ")]
    if corpus_lines:
        os.makedirs(os.path.join(vcheck.WORK, "tmp"), exist_ok=True)
        cpath = os.path.join(vcheck.WORK, "tmp", f"c12-corpus-{os.getpid()}.txt")
        with open(cpath, "w") as f:
            f.write("\n".join(corpus_lines) + "\n")
        args += ["-corpus", cpath]
    for k, v in sizes.items():
        args += [f"-{k}", v]
    lines = ctx.harness(args, timeout=1500) or []
    if not getattr(ctx, "harness_ok", False):
        ctx.broken("harness does not build against the current tree", detail="\n".join(ctx.build_errors))
    elif not lines:
        ctx.broken("harness produced no output", detail=getattr(ctx, "harness_err", ""))

    model_in, obs, judge_in, kinds, notes, case_idx = [], [], [], collections.Counter(), [], []
    for li, l in enumerate(lines):
        parts = dict(p.split(" ", 1) for p in l.split("\t") if " " in p)
        if "K" in parts:
            for k in parts["K"].split("+"):
                kinds[k] += 1
        if "X" in parts:
            notes.append(parts["X"])
        if "M" in parts and "O" in parts:
            model_in.append(parts["M"])
            obs.append(parts["O"])
            case_idx.append(li)
        if "J" in parts:
            judge_in.append(parts["J"])

    # 1. the property itself, evaluated by the Lean judge on what the real code did
    verdicts = ctx.driver("judge", judge_in)
    fails = collections.Counter()
    for j, v in zip(judge_in, verdicts):
        if v != "ok":
            clause = v.replace("fail ", "").replace(" ", "_")
            fails[clause] += 1
            if fails[clause] <= 2:
                what = {"R": "Reload returned nil although the simulated NGINX master was not running that version",
                        "H": "handler batch sequence violates clause",
                        "P": "sequence of controller processes violates clause"}[j[0]]
                ctx.finding(f"C12:{clause}", f"{what} ({clause})", {"judge_input": j})
    for n in notes:
        if n.startswith("panic"):
            ctx.finding("C12:" + n.split(":")[0].replace(" ", "_"), n, {"note": n})
            break

    # 2. correspondence: the Lean model on the same oracle scripts / batch sequences
    def agrees(m, o, out):
        if m[0] == "H":
            ws, gs = o.split(";"), out.split(";")
            return len(ws) == len(gs) and all(_same(w, g) for w, g in zip(ws, gs))
        return out != "bad-op" and _same(o, out)

    outs = ctx.driver("model", model_in)
    diverging = [k for k, (m, o, out) in enumerate(zip(model_in, obs, outs)) if not agrees(m, o, out)]
    # The deadlines of the code under test are wall-clock (scaled down): on a loaded machine a scripted event may
    # not be reached before the deadline. Every diverging case is therefore re-run ALONE with all timeouts x20
    # (same seed, same random stream: `-only <case>`), and reported only if the divergence persists.
    diffs, resolved, reran = 0, 0, 0
    for k in diverging:
        if diffs >= 3:
            diffs += 1      # enough evidence: the remaining ones are counted, not re-run
            continue
        reran += 1
        again = ctx.harness(args + ["-only", case_idx[k], "-scale", 20, "-workers", 1], timeout=900) or []
        parts = dict(p.split(" ", 1) for p in (again[0] if again else "").split("\t") if " " in p)
        m2, o2 = parts.get("M"), parts.get("O")
        if m2 and o2:
            out2 = ctx.driver("model", [m2])[0]
            if agrees(m2, o2, out2):
                resolved += 1
                ctx.log(f"divergence of case {case_idx[k]} did not persist when re-run alone with timeouts x20 "
                        f"(first run: impl [{obs[k][:160]}] / model [{outs[k][:160]}])")
                continue
        else:
            m2, o2, out2 = model_in[k], obs[k], outs[k]
        diffs += 1
        ctx.broken(f"model and implementation disagree on [{m2[:400]}]: impl [{o2[:400]}] / model [{out2[:400]}] "
                   f"(persisted when re-run alone with timeouts x20)",
                   replay={"input": m2, "impl": o2, "model": out2, "first_run": {"impl": obs[k], "model": outs[k]}})
    if corpus_lines and os.path.exists(cpath):
        os.remove(cpath)
    harness_notes = [n for n in notes if not n.startswith("panic")]
    if harness_notes:
        ctx.broken(f"harness anomaly: {harness_notes[0]}")

    by_tag = collections.Counter(m[0] for m in model_in)
    batches = [b for m in model_in if m[0] == "H" for b in m.split("bs=")[1].split(";")]
    ct_hist = collections.Counter(_kv(b, "/").get("ct") for b in batches)
    seq_len = collections.Counter(len(m.split("bs=")[1].split(";")) for m in model_in if m[0] == "H")
    res_hist = collections.Counter(_kv(o).get("res", "?") for m, o in zip(model_in, obs) if m[0] in "RW")
    rr_hist = collections.Counter(_kv(s).get("rr") for m, o in zip(model_in, obs) if m[0] == "H" for s in o.split(";"))
    files_hist = collections.Counter()
    for b in batches:
        w = _kv(b, "/").get("w", "ok")
        if w != "ok":
            cls, k = w.split(":")
            vi = int(_kv(b, "/").get("vi", 0))
            files_hist[{"n": "notExist", "p": "permission", "i": "EIO", "o": "plain"}[cls]
                       + (" after" if int(k) > vi else " before") + " version file"] += 1
    judged_disk = sum(1 for j in judge_in if j[0] in "HP" for o in j.split("obs=")[1].replace("|", ";").split(";")
                      if "/full=1" in o or "/full=0" in o)
    nontrivial = {m for m, o in zip(model_in, obs)
                  if (m[0] in "RW" and ("," in _kv(m).get("vs", "") or "," in _kv(m).get("ch", "") or _kv(o).get("res") != "ok"))
                  or (m[0] == "H" and ";" in m)
                  or (m[0] == "S" and "," in m)}
    ctx.dependency("C09", "failures are surfaced through statuses, which reach the API through the leader-aware group "
                          "updater (a stale older write must not land after the newer one)")

    ctx.finish({
        "evaluations": len(lines),
        "distinct_nontrivial": len(nontrivial),
        "rule": "R/W: distinct oracle scripts with a late/failing observation somewhere (more than one children read or version "
                "answer, or a result other than ok); H: distinct batch sequences with at least two batches; S: distinct "
                "condition lists with at least two conditions",
        "samples": model_in[:2] + [m for m in model_in if m[0] == "H"][:2] + judge_in[-2:],
        "traces_validated_against_impl": len(model_in) - diffs,
        "correspondence_diffs": diffs,
        "divergences_rerun_alone_x20": reran,
        "divergences_not_persisting_on_rerun": resolved,
        "judged": len(judge_in),
        "corpus_cases": len(corpus_lines),
        "judge_failures": dict(fails),
        "cases_by_kind": {"Reload": by_tag["R"], "WaitForCorrectVersion": by_tag["W"], "handler sequences": by_tag["H"],
                          "status folds": by_tag["S"],
                          "controller restart sequences (judge only)": sum(1 for j in judge_in if j[0] == "P"),
                          "judge-only (behaviour outside the model vocabulary)": len(judge_in) + by_tag["S"] - len(model_in)},
        "fault_kind_histogram": dict(kinds.most_common()),
        "reload_result_histogram": dict(res_hist),
        "handler_batches": len(batches),
        "handler_change_type_histogram": dict(ct_hist),
        "handler_sequence_length_histogram": {str(k): v for k, v in sorted(seq_len.items())},
        "handler_reload_result_histogram": {str(k): v for k, v in rr_hist.items()},
        "replacefiles_failures_by_error_class_and_position": dict(files_hist),
        "file_operation_faults_by_op_and_class (per sequence)": {k[6:]: v for k, v in kinds.items() if k.startswith("files-")},
        "batches_judged_against_the_disk (on-disk set vs generated set, version file on disk)": judged_disk,
    }, assumptions=[
        "the NGINX master is an environment: the simulator (pid file, children file, HUP, unix-socket version endpoint) presents "
        "scripted behaviours; nothing is assumed about them in the theorems",
        "wall-clock deadlines are abstracted to poll budgets; deadline cases use 'never' behaviours and their poll counts are not "
        "compared; a case whose result differs from the model is re-run alone with all timeouts x20 before it is reported",
        "ReplaceFiles is a cut point: its outcome (error class by errors.Is, number of completely written files) is input of the "
        "model; the real file.ManagerImpl runs over a fault-injecting file layer (its own atomicity is C11's subject)",
        "PidFileTimeout/NginxReloadTimeout are scaled down in the harness (the constants and call sites are pinned by ReloadFacts)",
        "version uniqueness is per controller process (h.version restarts at 0 when the NGF container restarts while NGINX keeps running)",
        "data races on nginxConfiguredOnStartChecker.ready (read without the lock in the handler) are outside the model",
    ], trusted=[
        "harness/c12 simulator of the NGINX master (it loads and serves the version file actually on disk) and the "
        "classification of returned errors by message/sentinel",
        "harness/c12 fault-injecting file layer under the real file.ManagerImpl",
    ])
