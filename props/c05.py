"""C05 — the control plane never crashes on admissible resources, in any order (DESIGN.md §6 C05)."""
import collections
import json
import os
import re

# function (as printed by harness/c05 siteOf) -> mirrored site of lean/NGF/Model/PanicSites.lean, by message fragment
MIRRORED = [
    (r"graph\.isRouteNamespaceAllowedByListener$", {"not found in map": "namespace-lookup", "nil pointer": "nil-from"}),
    (r"dataplane\.\(\*hostPathRules\)\.buildServers$", {"no listener found": "no-listener-for-hostname"}),
    (r"dataplane\.convertPathType$", {"unsupported path type": "path-type"}),
    (r"dataplane\.\(\*hostPathRules\)\.upsertRoute$", {"nil pointer": "nil-path"}),
    (r"resolver\.\(\*ServiceResolverImpl\)\.Resolve$", {"expected the following fields": "resolve-precondition"}),
    (r"graph\.setPlusSecretContent$", {"did not have expected field": "plus-secret-field"}),
    (r"config\.GeneratorImpl\.generateMgmtFiles$", {"token not set": "mgmt-token"}),
    (r"state\.\(\*changeTrackingUpdater\)\.assertSupportedGVK$", {"unsupported GVK": "store-gvk"}),
    (r"state\.\(\*multiObjectStore\)\.mustFindStoreForObj$", {"object store for": "store-find"}),
    (r"graph\.(convertRouteType|getRefGrantFromResourceForRoute)$|status\.PrepareRouteRequests$",
     {"route type": "route-type"}),
    (r"graph\.validateFilter$", {"unexpected filter type": "filter-type"}),
    (r"graph\.findBackendTLSPolicyForService$", {"index out of range": "btp-conditions-index"}),
]
MAY_SITES = {"btp-conditions-index"}   # the pre-fix model says "fires if reached"; reachability is not modelled
# Since commits d734bd5 / 02715d5 / 72dccd7 the current-code mirrors never fire namespace-lookup, plus-secret-field and
# btp-conditions-index; the PRE-FIX mirrors (`pre=` / `premay=` of the driver) still recognise the old input classes,
# so that a regression of one of the repairs is reported under its old (now `fixed`) signature.


def mirrored_site(func, msg):
    for rx, by_msg in MIRRORED:
        if re.search(rx, func):
            for frag, name in by_msg.items():
                if frag.lower() in msg.lower():
                    return name
    return None


def signature(func, msg, pre, premay, file=""):
    """site-based signature of a panic of the real code; the three named (repaired) classes are confirmed by the
    pre-fix Lean mirrors on the same view."""
    m = mirrored_site(func, msg)
    if m == "namespace-lookup" and m in pre:
        return "C05:panic:namespace-lookup-before-namespace-event"
    if m == "plus-secret-field" and m in pre:
        return "C05:panic:plus-secret-missing-field"
    if m == "btp-conditions-index" and m in premay:
        return "C05:panic:backend-tls-policy-ancestors-full"
    if re.search(r"graph\.process(HTTP|GRPC)RouteRule$", func) and "index out of range" in msg:
        return "C05:panic:backendref-filters-index"
    f = re.sub(r"[^A-Za-z0-9_.]+", "", func.replace("(*", "").replace(")", ""))
    if file:
        f = os.path.basename(file) + ":" + f
    kind = "nil-deref" if "nil pointer" in msg else "index" if "index out of range" in msg or "slice bounds" in msg \
        else "nil-map" if "assignment to entry in nil map" in msg else "type-assert" if "interface conversion" in msg \
        else "explicit"
    return f"C05:panic:{f}:{kind}"


def parse_kv(s):
    return dict(f.split("=", 1) for f in s.split(" ") if "=" in f)


class Acc:
    def __init__(self):
        self.steps = 0
        self.diffs = self.agree_panic = self.agree_ok = 0
        self.unmirrored = collections.Counter()
        self.sigs = collections.Counter()
        self.depth = collections.Counter()
        self.features = collections.Counter()
        self.pre_classes = collections.Counter()
        self.ns_unknown_reports = collections.Counter()
        self.outcomes = collections.Counter()
        self.profiles = collections.Counter()
        self.distinct, self.nontrivial = set(), set()
        self.samples, self.panic_samples = [], []
        self.stats = []
        self.deref_rows = 0
        self.deref_hist, self.deref_verdicts, self.deref_why = {}, {}, {}
        self.focus_found = []
        self.unit_total, self.unit_classes = collections.Counter(), collections.Counter()
        self.unit_panics_predicted, self.unit_judge_fail = collections.Counter(), collections.Counter()
        self.unit_agree = self.unit_diffs = 0
        self.unit_distinct = set()


def hang_persists(ctx, args, h):
    """Re-run one case alone with a 120 s per-step timeout; True iff some step still hangs (or the re-run failed)."""
    lines = ctx.harness(list(args) + ["-only", h.get("case", "-1"), "-timeout", 120000, "-noshrink"], timeout=900)
    if lines is None:
        return True
    return any(l.startswith("S ") and " outcome=hang" in l for l in lines)


def process(ctx, acc, lines, args=None):
    steps, replays = [], {}
    for l in lines:
        if l.startswith("S "):
            parts = l.split("\t")
            head = parse_kv(parts[0][2:])
            view = next((p[2:] for p in parts[1:] if p.startswith("M ")), "")
            msg = next((p[2:] for p in parts[1:] if p.startswith("P ")), "")
            steps.append((head, view, msg))
        elif l.startswith("R "):
            try:
                r = json.loads(l[2:])
                replays.setdefault(r.get("site", "?"), r)
            except ValueError:
                pass
        elif l.startswith("G "):
            try:
                acc.stats.append(json.loads(l[2:]))
            except ValueError:
                pass
    if not steps:
        return
    views = [v for _, v, _ in steps]
    outs = ctx.driver("model", views)          # Lean mirrors on the views of the real intermediate data
    jin = []
    for h, v, _ in steps:
        ur = re.search(r"(?:^| )ur=(\d+)", v)
        up = re.search(r"(?:^| )up=(\S+)", v)
        pu = re.search(r"(?:^| )pu=(\d+)", v)
        jin.append(f"outcome={h.get('outcome', '?')} site={h.get('site', '-')} ur={ur.group(1) if ur else 0} "
                   f"up={up.group(1) if up else '-'} pu={pu.group(1) if pu else 0}")
    verdicts = ctx.driver("judge", jin)        # the property on what the real controller did
    acc.steps += len(steps)
    if len(acc.samples) < 2:
        acc.samples += views[:2]
    for (h, v, msg), out, ver in zip(steps, outs, verdicts):
        o = parse_kv(out) if out != "bad-op" else {}
        predicted = [] if o.get("sites", "-") == "-" else o["sites"].split(",")
        pre = [] if o.get("pre", "-") == "-" else o["pre"].split(",")
        premay = [] if o.get("premay", "-") == "-" else o["premay"].split(",")
        for x in pre + premay:
            acc.pre_classes[x] += 1
        outcome = h.get("outcome")
        acc.outcomes[outcome] += 1
        acc.profiles[h.get("profile")] += 1
        func = h.get("site", "-").split("@")[-1]
        srcfile = h.get("site", "-").split("@")[0]
        key = re.sub(r"(^| )(ev|dp|fx|shadow|sk|nl)=\S+", "", v)
        acc.distinct.add(hash(key))
        kv = parse_kv(v)
        if kv.get("nl", "-") != "-":
            acc.ns_unknown_reports.update(kv["nl"].split(","))
        fx = kv.get("fx", "-")
        if fx != "-":
            acc.features.update(fx.split(","))
        dp = kv.get("dp", "-")
        if dp != "-":
            f = dp.split(":")
            if len(f) >= 6:
                deep = (int(f[3]) > 0) + (int(f[4]) > 0) + (int(f[5]) > 0)
                acc.depth[f"attached={int(f[3]) > 0},servers={int(f[4]) > 0},upstreams={int(f[5]) > 0}"] += 1
                if deep >= 2 or predicted or pre or premay:
                    acc.nontrivial.add(hash(key))
        if out == "bad-op":
            acc.diffs += 1
            if acc.diffs <= 3:
                ctx.broken(f"Lean driver cannot decode the view of case {h.get('case')} step {h.get('step')}",
                           replay={"view": v})
            continue
        shadow_failed = kv.get("shadow", "-") != "-"
        if outcome == "panic":
            if len(acc.panic_samples) < 2:
                acc.panic_samples.append(v)
            m = mirrored_site(func, msg)
            if m is None:
                acc.unmirrored[func] += 1          # implicit runtime panic or unmirrored site: judged, not modelled
            elif m in predicted:
                acc.agree_panic += 1
            elif m in pre or (m in MAY_SITES and m in premay):
                # a repaired site fires again exactly where the pre-fix mirror says it would: regression of a fix
                acc.diffs += 1
                if acc.diffs <= 3:
                    ctx.broken(f"the real code panicked at the REPAIRED site {m} ({func}: {msg}); the pre-fix Lean mirror "
                               f"predicts it on this view, the current-code mirror (proved total) does not",
                               replay={"case": h, "view": v, "model": out})
            elif shadow_failed:
                acc.unmirrored[func + " (view unavailable)"] += 1
            else:
                acc.diffs += 1
                if acc.diffs <= 3:
                    ctx.broken(f"the real code panicked at mirrored site {m} ({func}: {msg}) but the Lean mirror, run on the "
                               f"real intermediate data, predicts {predicted or 'no panic'}",
                               replay={"case": h, "view": v, "model": out})
        elif outcome in ("ok", "nochange"):
            if predicted:
                acc.diffs += 1
                if acc.diffs <= 3:
                    ctx.broken(f"the Lean mirror predicts a panic at {predicted} but the real code returned normally: an "
                               f"invariant the proofs rely on does not hold on the real intermediate data",
                               replay={"case": h, "view": v, "model": out})
            else:
                acc.agree_ok += 1
        if ver != "ok":
            if ver.startswith("fail panic"):
                sig = signature(func, msg, pre, premay, srcfile)
                what = f"the control plane panics in {func}: {msg}"
            elif ver.startswith("fail hang"):
                # A per-step wall-clock timeout is not evidence of a hang on a loaded machine: re-run the case alone with
                # a twelve times larger timeout and report it only if the step still does not return.
                if args is not None and not hang_persists(ctx, args, h):
                    acc.slow_steps = getattr(acc, "slow_steps", 0) + 1
                    continue
                sig = f"C05:hang:{h.get('profile')}"
                what = "processing one batch did not return within the per-step timeout"
            elif ver.startswith("fail unreported"):
                cls = ver.split(" ")[-1]
                if cls == "inadmissible-duplicate-parentrefs":
                    ctx.broken("the generator produced parentRefs the CRD's CEL rules reject (harness defect)",
                               replay={"case": h, "view": v})
                    continue
                sig = f"C05:unreported:{cls}"
                what = ("a route is declared invalid by the graph but carries no condition and gets no parent status: "
                        "the inconsistency is not reported (" + cls + ")")
            else:
                sig, what = f"C05:{ver}", ver
            acc.sigs[sig] += 1
            if acc.sigs[sig] == 1:
                rp = replays.get(h.get("site", "-").replace("@", " ")) or {}
                ctx.finding(sig, what, {"step": h, "panic": msg, "view": v, "model": out,
                                        "replay": rp.get("replay"), "stack": rp.get("panic"),
                                        "how": "save the 'replay' object to a file and run harness/cmd/c05 -replay <file>"})


# real function (suffix of the harness site token) + panic kind -> mirrored implicit site of lean/NGF/Model/NilGuards.lean
UNIT_SITES = [
    (r"graph\.validateFilter(Redirect|Rewrite)$", "nil pointer", "pathmod-body"),
    (r"dataplane\.convertHTTP(RequestRedirect|URLRewrite|Header)Filter$", "nil pointer", "convert-filter-body"),
    (r"dataplane\.convertPathModifier$", "nil pointer", "convert-pathmod-body"),
    (r"createHTTPSListenerValidator\.func\d+$", "nil pointer", "tls-mode"),
    (r"createExternalReferencesForTLSSecretsResolver\.func\d+$", "nil pointer", "tls-resolve-nil"),
    (r"createExternalReferencesForTLSSecretsResolver\.func\d+$", "index out of range", "tls-cert-index"),
    (r"dataplane\.buildServers$", "nil map", "proto-map-write"),
    (r"graph\.getIPFamilyAndPortFromRef$", "nil pointer", "backend-port"),
    (r"graph\.processBackendTLSPolicies$", "index out of range", "btp-ca-index"),
    (r"graph\.validateBackendTLSCACertRef$", "index out of range", "btp-ca-validate-index"),
    (r"graph\.validateBackendTLSWellKnownCACerts$", "nil pointer", "btp-wellknown"),
]


def unit_site(func, msg):
    for rx, frag, name in UNIT_SITES:
        if re.search(rx, func) and frag in msg:
            return name
    return None


def process_units(ctx, acc, lines):
    """Unit streams: the REAL functions of the mirrored nil-guard sites on generated shapes (admissible and
    CEL-bypassing) vs. the Lean mirrors; the Lean judge evaluates the property on the real outputs of the
    admissible shapes (no panic; unsupported values are reported)."""
    U, R, P = [], [], []
    for l in lines:
        if not l.startswith("U "):
            continue
        parts = l.split("\t")
        U.append(parts[0][2:])
        R.append(next((x[2:] for x in parts[1:] if x.startswith("R ")), ""))
        P.append(next((x[2:] for x in parts[1:] if x.startswith("P ")), ""))
    if not U:
        return
    outs = ctx.driver("unit", U)
    vers = ctx.driver("ujudge", [u + " " + r for u, r in zip(U, R)])
    for u, r, pmsg, o, ver in zip(U, R, P, outs, vers):
        ku, kr = parse_kv(u), parse_kv(r)
        kind = ku.get("k", "?")
        acc.unit_total[kind] += 1
        acc.unit_distinct.add(u)
        if o == "bad-op" or ver == "bad-op":
            acc.unit_diffs += 1
            if acc.unit_diffs <= 3:
                ctx.broken(f"Lean driver cannot decode the unit shape: {u}", replay={"shape": u})
            continue
        ko = parse_kv(o)
        acc.unit_classes[f"{kind} adm={ko['adm']} uns={ko['uns']} real={kr.get('rout')}"] += 1
        func = kr.get("rsite", "-").split("@")[-1]
        ok = True
        why = ""
        if kr.get("rout") != ko["out"]:
            ok, why = False, "panic / no panic"
            if kr.get("rout") == "panic" and ko.get("pre", "-") != "-" and unit_site(func, pmsg) == ko["pre"]:
                why = (f"panic / no panic: the real code panicked at the REPAIRED site {ko['pre']}; the pre-fix Lean mirror "
                       f"predicts it on this shape, the current-code mirror (proved total) does not")
        elif kr.get("rout") == "panic":
            m = unit_site(func, pmsg)
            if m != ko["site"]:
                ok, why = False, f"site (real {func}: {pmsg!r} = {m}, model {ko['site']})"
            else:
                acc.unit_panics_predicted[ko["site"]] += 1
        else:
            if kind == "pathmatch":
                if int(kr["rrep"]) != int(ko["rep"]):
                    ok, why = False, "number of errors"
            elif (int(kr["rrep"]) > 0) != (int(ko["rep"]) > 0):
                ok, why = False, "reported / not reported"
            if ok and ko["valid"] != "-" and kr.get("rvalid") != ko["valid"]:
                ok, why = False, "validity flag"
        if ku.get("adm") == "1" and ko["adm"] != "1":
            ok, why = False, "the generator claims the shape admissible, the Lean CEL predicate does not"
        if ok:
            acc.unit_agree += 1
        else:
            acc.unit_diffs += 1
            if acc.unit_diffs <= 3:
                ctx.log(f"unit stream {kind}: real vs Lean mirror disagree on {why}: {u} | {r} | {o}")
                ctx.broken(f"unit stream {kind}: the real function and the Lean mirror disagree on {why}",
                           replay={"shape": u, "real": r, "panic": pmsg, "model": o})
        if ver != "ok":
            if "panic" in ver:
                sig = signature(func, pmsg, [], [], kr.get("rsite", "-").split("@")[0])
                what = f"the real {func} panics on an admissible {kind} shape: {pmsg}"
            else:
                sig = f"C05:unreported:{kind}-{ku.get('t') or ku.get('p') or ku.get('pt') or 'shape'}"
                what = f"an admissible but unsupported {kind} value is accepted silently (no error / condition)"
            acc.sigs[sig] += 1
            acc.unit_judge_fail[sig] += 1
            if acc.sigs[sig] == 1:
                ctx.finding(sig, what, {"shape": u, "real": r, "panic": pmsg, "model": o, "verdict": ver,
                                        "how": "harness/cmd/c05 -unit -seed <seed> -n <n> prints this shape; the U line is the "
                                               "input of `ngfdriver_C05 unit` / `ujudge`"})


def lean_str(x):
    return json.dumps(x, ensure_ascii=False)


def deref_inventory(ctx, acc):
    """The regenerated inventory of implicit panic sites (facts) is decided row by row by the Lean driver — the same
    `siteOk` that `every_deref_guarded_or_justified` is stated about.  Returns the `file:func` focus list of the rows
    that are neither guarded nor justified (a removed nil check, a new unguarded use, a caller that stopped checking)."""
    rows = ctx.facts.get("PanicSites.derefSites") or []
    acc.deref_rows = len(rows)
    acc.deref_hist = ctx.facts.get("PanicSites.derefHistogram") or {}
    if not rows:
        ctx.broken("the inventory of implicit panic sites is empty (translator could not type-check the packages)",
                   detail="\n".join(getattr(ctx, "translator_errors", [])[:5]))
        return []
    lines = ["\t".join([str(r["id"]), r["file"], r["func"], r["class"], r["expr"], r["guardKind"], r["guard"], str(r["n"])])
             for r in rows]
    outs = ctx.driver("deref", lines)
    acc.deref_verdicts = collections.Counter(o.split(" ")[0] for o in outs)
    acc.deref_why = collections.Counter(o.split(" ", 1)[1] for o in outs if o.startswith("justified "))
    focus = []
    for r, o in zip(rows, outs):
        if o == "UNJUSTIFIED":
            row = (f'⟨⟨{r["id"]}, {lean_str(r["file"])}, {lean_str(r["func"])}, {lean_str(r["class"])}, {lean_str(r["expr"])},\n'
                   f'     {lean_str(r["guardKind"])}, {lean_str(r["guard"])}, {r["n"]}⟩,\n    .<why>, "<reason>"⟩')
            ctx.broken(f'implicit panic site without guard or justification: {r["class"]} `{r["expr"]}` in {r["func"]} '
                       f'({r["file"]}; guard found: {r["guardKind"]} {r["guard"]!r}; {r["n"]} use(s))',
                       detail="if the site cannot fire for admissible objects, add to `justified` in "
                              "lean/NGF/Model/DerefSites.lean:\n" + row,
                       replay={"row": r})
            ctx.log(f'deref inventory: UNJUSTIFIED {r["class"]} `{r["expr"]}` in {r["func"]} ({os.path.basename(r["file"])}; '
                    f'guard {r["guardKind"]} {r["guard"]!r}, {r["n"]} use(s))')
            f = os.path.basename(r["file"]) + ":" + r["func"]
            if f not in focus:
                focus.append(f)
        elif o in ("justified-text-differs", "bad-op"):
            ctx.broken(f'the justification row with id {r["id"]} does not spell the inventory row it claims to justify '
                       f'({r["func"]}: {r["expr"]}) — {o}', replay={"row": r})
    return focus


def run(ctx):
    import time
    t0 = time.time()
    phases = {}

    def lap(name):
        nonlocal t0
        phases[name] = round(time.time() - t0, 1)
        t0 = time.time()
    ctx.prepare()
    lap("prepare")
    ctx.obligations("NGF.Props.C05")
    ctx.obligations("NGF.Props.C05Deref")
    ctx.obligations("NGF.Props.C05Guards")
    lap("obligations")
    if ctx.tier == "thorough":
        ctx.leanchecker("NGF.Props.C05")
        ctx.leanchecker("NGF.Props.C05Deref")
        ctx.leanchecker("NGF.Props.C05Guards")

    acc = Acc()
    focus = deref_inventory(ctx, acc)
    lap("deref")
    cdir = os.path.join(os.path.dirname(os.path.dirname(os.path.abspath(__file__))), "corpus", "C05")
    corpus = sorted(os.path.join(cdir, f) for f in os.listdir(cdir)) if os.path.isdir(cdir) else []
    if corpus:
        process(ctx, acc, ctx.harness(["-replay", ",".join(corpus)]) or [])
    corpus_steps = acc.steps
    lap("corpus")
    # unit streams after the corpus, so that a regression of a repaired site is first reported with its corpus replay
    process_units(ctx, acc, ctx.harness(["-unit", "-seed", ctx.seed, "-n", 1500 if ctx.tier == "quick" else 20000]) or [])
    lap("units")
    # exhaustive small scope: all 120 delivery orders of the selector scenario x batchings x route kinds
    process(ctx, acc, ctx.harness(["-perms"]) or [])
    perm_steps = acc.steps - corpus_steps
    lap("perms")
    if ctx.tier == "quick":
        chunks = [(ctx.seed, 1500)]
    else:
        chunks = [(ctx.seed * 1000 + k, 5000) for k in range(10)]
    for seed, n in chunks:
        process(ctx, acc, ctx.harness(["-seed", seed, "-n", n]) or [], args=["-seed", seed, "-n", n])
        if len(acc.sigs) > 12:
            break           # a broken tree: enough evidence
    lap("generated")
    # a row of the deref inventory is neither guarded nor justified: SEARCH for a crashing admissible input, with the
    # generator focused on the objects / fields that reach the functions the rows name
    focus_steps = 0
    if focus and len(acc.sigs) <= 12:
        before = acc.steps
        sigs_before = set(acc.sigs)
        for k, chunk in enumerate([focus[i:i + 3] for i in range(0, min(len(focus), 9), 3)]):
            n = 1200 if ctx.tier == "quick" else 6000
            process(ctx, acc, ctx.harness(["-seed", ctx.seed * 7919 + k, "-n", n, "-focus", ",".join(chunk)]) or [], args=["-seed", ctx.seed * 7919 + k, "-n", n, "-focus", ",".join(chunk)])
        focus_steps = acc.steps - before
        acc.focus_found = sorted(set(acc.sigs) - sigs_before)
        ctx.log(f"deref inventory: focused search on {focus[:9]}: {focus_steps} steps, new signatures {acc.focus_found}")
    if not getattr(ctx, "harness_ok", False):
        ctx.broken("harness does not build against the current tree", detail="\n".join(ctx.build_errors))
    elif getattr(ctx, "harness_rc", 0) != 0:
        ctx.broken(f"harness exited with {ctx.harness_rc}", detail=getattr(ctx, "harness_err", ""))

    gen_stats = [s for s in acc.stats if s.get("optional_fields_total") and s.get("objects_per_kind")]
    tags = collections.Counter()
    objs = collections.Counter()
    invalid = collections.Counter()
    for s in acc.stats:
        tags.update(s.get("tags") or {})
        objs.update(s.get("objects_per_kind") or {})
        invalid.update(s.get("schema_invalid") or {})
    opt_missing = None
    for s in gen_stats:
        miss = set(s.get("optional_fields_missing") or [])
        opt_missing = miss if opt_missing is None else (opt_missing & miss)
    g = gen_stats[-1] if gen_stats else {}
    ctx.finish({
        "evaluations": acc.steps,
        "distinct_nontrivial": len(acc.nontrivial),
        "rule": "one evaluation = one batch of events delivered to the real ChangeProcessor followed by Process / BuildConfiguration / "
                "Generate / Prepare*Requests + status setters, under recover and a per-step timeout; distinct = distinct views "
                "of the real intermediate data (event kinds excluded); non-trivial = the step got at least two of {route "
                "attached, server generated, upstream generated} or reached a mirrored panic site",
        "samples": acc.samples[:2] + acc.panic_samples[:2],
        "traces_validated_against_impl": acc.agree_ok + acc.agree_panic + acc.unit_agree,
        "correspondence_diffs": acc.diffs,
        "mirrored_panics_predicted": acc.agree_panic,
        "unmirrored_panics": dict(acc.unmirrored),
        "cases": int(sum(v for k, v in tags.items() if k.startswith("profile-"))),
        "corpus_steps": corpus_steps,
        "phase_seconds": phases,
        "unit_shapes": dict(acc.unit_total),
        "unit_distinct_shapes": len(acc.unit_distinct),
        "unit_agreements": acc.unit_agree,
        "unit_diffs": acc.unit_diffs,
        "unit_classes": dict(acc.unit_classes),
        "unit_panics_predicted_by_site": dict(acc.unit_panics_predicted),
        "unit_judge_failures": dict(acc.unit_judge_fail),
        "deref_inventory_rows": acc.deref_rows,
        "deref_inventory_uses_by_class_and_guard": acc.deref_hist,
        "deref_inventory_verdicts": dict(acc.deref_verdicts),
        "deref_inventory_justified_by": dict(acc.deref_why),
        "deref_focus_functions": focus,
        "deref_focus_steps": focus_steps,
        "deref_focus_new_signatures": acc.focus_found,
        "exhaustive_permutation_steps": perm_steps,
        "distinct_views": len(acc.distinct),
        "outcomes": dict(acc.outcomes),
        "steps_per_profile": dict(acc.profiles),
        "signatures": dict(acc.sigs),
        "depth_histogram": dict(acc.depth),
        "dataplane_features_histogram": dict(acc.features),
        "steps_in_repaired_input_classes": dict(acc.pre_classes),
        "parentref_reports_of_routes_with_unknown_namespace": dict(acc.ns_unknown_reports),
        "generator_tags": dict(tags),
        "optional_spec_fields_total": g.get("optional_fields_total"),
        "optional_spec_fields_populated_in_some_case":
            (g.get("optional_fields_total", 0) - len(opt_missing or [])) if gen_stats else None,
        "optional_spec_fields_never_populated": sorted(opt_missing or [])[:40],
        "objects_per_kind": dict(objs),
        "generator_self_check_dropped": dict(invalid),
        "cel_rules_per_kind_hand_encoded": g.get("cel_rules_per_kind"),
        "max_step_ms": max([s.get("max_step_ms", 0) for s in acc.stats] or [0]),
    }, assumptions=[
        "admissibility = CRD OpenAPI schema read from the manifests (types, enums, patterns, bounds, required, defaults) + the CEL "
        "rules hand-encoded in harness/c05/cel.go (cel-go is not available offline); built-in kinds follow their built-in validation",
        "events are delivered exactly as the reconciler does (full object on upsert, bare type + name on delete); CRDs as "
        "PartialObjectMetadata; the fake client holds the EndpointSlices for the real resolver",
        "hangs are bounded-time observations (per-step timeout), not proofs of termination",
        "implicit runtime panics (nil dereference, index, nil map) are decided by exploration of the real code; only the three "
        "mirrored ones (nil From, nil Path, BackendTLSPolicy Conditions[0] - the last guarded since 72dccd7) are in the Lean model",
    ], trusted=[
        "harness/pipeline (shared runner) + harness/c05/ctrl.go wiring of Plus secret metadata as StartManager does",
        "view extraction in harness/c05/view.go (BuildGraph on the live store with the Namespaces map completed)",
    ])
