"""C05 — the control plane never crashes on admissible resources, in any order (DESIGN.md §6 C05)."""
import collections
import json
import os
import re

# function (as printed by harness/c05 siteOf) -> mirrored site of lean/NGF/Model/PanicSites.lean, by message fragment
MIRRORED = [
    (r"graph\.isRouteNamespaceAllowedByListener$", {"not found in map": "namespace-lookup", "nil pointer": "nil-from"}),
    (r"dataplane\.\(\*hostPathRules\)\.buildServers$", {"no listener found": "no-listener-for-hostname"}),
    (r"dataplane\.convertPathType$", {"unsupported path type": "path-type"}),
    (r"dataplane\.\(\*hostPathRules\)\.upsertRoute$", {"nil pointer": "nil-path"}),
    (r"resolver\.\(\*ServiceResolverImpl\)\.Resolve$", {"expected the following fields": "resolve-precondition"}),
    (r"graph\.setPlusSecretContent$", {"did not have expected field": "plus-secret-field"}),
    (r"config\.GeneratorImpl\.generateMgmtFiles$", {"token not set": "mgmt-token"}),
    (r"state\.\(\*changeTrackingUpdater\)\.assertSupportedGVK$", {"unsupported GVK": "store-gvk"}),
    (r"state\.\(\*multiObjectStore\)\.mustFindStoreForObj$", {"object store for": "store-find"}),
    (r"graph\.(convertRouteType|getRefGrantFromResourceForRoute)$|status\.PrepareRouteRequests$",
     {"route type": "route-type"}),
    (r"graph\.validateFilter$", {"unexpected filter type": "filter-type"}),
    (r"graph\.findBackendTLSPolicyForService$", {"index out of range": "btp-conditions-index"}),
]
MAY_SITES = {"btp-conditions-index"}   # the pre-fix model says "fires if reached"; reachability is not modelled
# Since commits d734bd5 / 02715d5 / 72dccd7 the current-code mirrors never fire namespace-lookup, plus-secret-field and
# btp-conditions-index; the PRE-FIX mirrors (`pre=` / `premay=` of the driver) still recognise the old input classes,
# so that a regression of one of the repairs is reported under its old (now `fixed`) signature.


def mirrored_site(func, msg):
    for rx, by_msg in MIRRORED:
        if re.search(rx, func):
            for frag, name in by_msg.items():
                if frag.lower() in msg.lower():
                    return name
    return None


def signature(func, msg, pre, premay, file=""):
    """site-based signature of a panic of the real code; the three named (repaired) classes are confirmed by the
    pre-fix Lean mirrors on the same view."""
    m = mirrored_site(func, msg)
    if m == "namespace-lookup" and m in pre:
        return "C05:panic:namespace-lookup-before-namespace-event"
    if m == "plus-secret-field" and m in pre:
        return "C05:panic:plus-secret-missing-field"
    if m == "btp-conditions-index" and m in premay:
        return "C05:panic:backend-tls-policy-ancestors-full"
    if re.search(r"graph\.process(HTTP|GRPC)RouteRule$", func) and "index out of range" in msg:
        return "C05:panic:backendref-filters-index"
    f = re.sub(r"[^A-Za-z0-9_.]+", "", func.replace("(*", "").replace(")", ""))
    if file:
        f = os.path.basename(file) + ":" + f
    kind = "nil-deref" if "nil pointer" in msg else "index" if "index out of range" in msg or "slice bounds" in msg \
        else "nil-map" if "assignment to entry in nil map" in msg else "type-assert" if "interface conversion" in msg \
        else "explicit"
    return f"C05:panic:{f}:{kind}"


def parse_kv(s):
    return dict(f.split("=", 1) for f in s.split(" ") if "=" in f)


class Acc:
    def __init__(self):
        self.steps = 0
        self.diffs = self.agree_panic = self.agree_ok = 0
        self.unmirrored = collections.Counter()
        self.sigs = collections.Counter()
        self.depth = collections.Counter()
        self.features = collections.Counter()
        self.pre_classes = collections.Counter()
        self.ns_unknown_reports = collections.Counter()
        self.outcomes = collections.Counter()
        self.profiles = collections.Counter()
        self.distinct, self.nontrivial = set(), set()
        self.samples, self.panic_samples = [], []
        self.stats = []


def process(ctx, acc, lines):
    steps, replays = [], {}
    for l in lines:
        if l.startswith("S "):
            parts = l.split("\t")
            head = parse_kv(parts[0][2:])
            view = next((p[2:] for p in parts[1:] if p.startswith("M ")), "")
            msg = next((p[2:] for p in parts[1:] if p.startswith("P ")), "")
            steps.append((head, view, msg))
        elif l.startswith("R "):
            try:
                r = json.loads(l[2:])
                replays.setdefault(r.get("site", "?"), r)
            except ValueError:
                pass
        elif l.startswith("G "):
            try:
                acc.stats.append(json.loads(l[2:]))
            except ValueError:
                pass
    if not steps:
        return
    views = [v for _, v, _ in steps]
    outs = ctx.driver("model", views)          # Lean mirrors on the views of the real intermediate data
    jin = []
    for h, v, _ in steps:
        ur = re.search(r"(?:^| )ur=(\d+)", v)
        up = re.search(r"(?:^| )up=(\S+)", v)
        pu = re.search(r"(?:^| )pu=(\d+)", v)
        jin.append(f"outcome={h.get('outcome', '?')} site={h.get('site', '-')} ur={ur.group(1) if ur else 0} "
                   f"up={up.group(1) if up else '-'} pu={pu.group(1) if pu else 0}")
    verdicts = ctx.driver("judge", jin)        # the property on what the real controller did
    acc.steps += len(steps)
    if len(acc.samples) < 2:
        acc.samples += views[:2]
    for (h, v, msg), out, ver in zip(steps, outs, verdicts):
        o = parse_kv(out) if out != "bad-op" else {}
        predicted = [] if o.get("sites", "-") == "-" else o["sites"].split(",")
        pre = [] if o.get("pre", "-") == "-" else o["pre"].split(",")
        premay = [] if o.get("premay", "-") == "-" else o["premay"].split(",")
        for x in pre + premay:
            acc.pre_classes[x] += 1
        outcome = h.get("outcome")
        acc.outcomes[outcome] += 1
        acc.profiles[h.get("profile")] += 1
        func = h.get("site", "-").split("@")[-1]
        srcfile = h.get("site", "-").split("@")[0]
        key = re.sub(r"(^| )(ev|dp|fx|shadow|sk|nl)=\S+", "", v)
        acc.distinct.add(hash(key))
        kv = parse_kv(v)
        if kv.get("nl", "-") != "-":
            acc.ns_unknown_reports.update(kv["nl"].split(","))
        fx = kv.get("fx", "-")
        if fx != "-":
            acc.features.update(fx.split(","))
        dp = kv.get("dp", "-")
        if dp != "-":
            f = dp.split(":")
            if len(f) >= 6:
                deep = (int(f[3]) > 0) + (int(f[4]) > 0) + (int(f[5]) > 0)
                acc.depth[f"attached={int(f[3]) > 0},servers={int(f[4]) > 0},upstreams={int(f[5]) > 0}"] += 1
                if deep >= 2 or predicted or pre or premay:
                    acc.nontrivial.add(hash(key))
        if out == "bad-op":
            acc.diffs += 1
            if acc.diffs <= 3:
                ctx.broken(f"Lean driver cannot decode the view of case {h.get('case')} step {h.get('step')}",
                           replay={"view": v})
            continue
        shadow_failed = kv.get("shadow", "-") != "-"
        if outcome == "panic":
            if len(acc.panic_samples) < 2:
                acc.panic_samples.append(v)
            m = mirrored_site(func, msg)
            if m is None:
                acc.unmirrored[func] += 1          # implicit runtime panic or unmirrored site: judged, not modelled
            elif m in predicted:
                acc.agree_panic += 1
            elif m in pre or (m in MAY_SITES and m in premay):
                # a repaired site fires again exactly where the pre-fix mirror says it would: regression of a fix
                acc.diffs += 1
                if acc.diffs <= 3:
                    ctx.broken(f"the real code panicked at the REPAIRED site {m} ({func}: {msg}); the pre-fix Lean mirror "
                               f"predicts it on this view, the current-code mirror (proved total) does not",
                               replay={"case": h, "view": v, "model": out})
            elif shadow_failed:
                acc.unmirrored[func + " (view unavailable)"] += 1
            else:
                acc.diffs += 1
                if acc.diffs <= 3:
                    ctx.broken(f"the real code panicked at mirrored site {m} ({func}: {msg}) but the Lean mirror, run on the "
                               f"real intermediate data, predicts {predicted or 'no panic'}",
                               replay={"case": h, "view": v, "model": out})
        elif outcome in ("ok", "nochange"):
            if predicted:
                acc.diffs += 1
                if acc.diffs <= 3:
                    ctx.broken(f"the Lean mirror predicts a panic at {predicted} but the real code returned normally: an "
                               f"invariant the proofs rely on does not hold on the real intermediate data",
                               replay={"case": h, "view": v, "model": out})
            else:
                acc.agree_ok += 1
        if ver != "ok":
            if ver.startswith("fail panic"):
                sig = signature(func, msg, pre, premay, srcfile)
                what = f"the control plane panics in {func}: {msg}"
            elif ver.startswith("fail hang"):
                sig = f"C05:hang:{h.get('profile')}"
                what = "processing one batch did not return within the per-step timeout"
            elif ver.startswith("fail unreported"):
                cls = ver.split(" ")[-1]
                if cls == "inadmissible-duplicate-parentrefs":
                    ctx.broken("the generator produced parentRefs the CRD's CEL rules reject (harness defect)",
                               replay={"case": h, "view": v})
                    continue
                sig = f"C05:unreported:{cls}"
                what = ("a route is declared invalid by the graph but carries no condition and gets no parent status: "
                        "the inconsistency is not reported (" + cls + ")")
            else:
                sig, what = f"C05:{ver}", ver
            acc.sigs[sig] += 1
            if acc.sigs[sig] == 1:
                rp = replays.get(h.get("site", "-").replace("@", " ")) or {}
                ctx.finding(sig, what, {"step": h, "panic": msg, "view": v, "model": out,
                                        "replay": rp.get("replay"), "stack": rp.get("panic"),
                                        "how": "save the 'replay' object to a file and run harness/cmd/c05 -replay <file>"})


def run(ctx):
    ctx.prepare()
    ctx.obligations("NGF.Props.C05")
    if ctx.tier == "thorough":
        ctx.leanchecker("NGF.Props.C05")

    acc = Acc()
    cdir = os.path.join(os.path.dirname(os.path.dirname(os.path.abspath(__file__))), "corpus", "C05")
    corpus = sorted(os.path.join(cdir, f) for f in os.listdir(cdir)) if os.path.isdir(cdir) else []
    if corpus:
        process(ctx, acc, ctx.harness(["-replay", ",".join(corpus)]) or [])
    corpus_steps = acc.steps
    # exhaustive small scope: all 120 delivery orders of the selector scenario x batchings x route kinds
    process(ctx, acc, ctx.harness(["-perms"]) or [])
    perm_steps = acc.steps - corpus_steps
    if ctx.tier == "quick":
        chunks = [(ctx.seed, 1500)]
    else:
        chunks = [(ctx.seed * 1000 + k, 5000) for k in range(10)]
    for seed, n in chunks:
        process(ctx, acc, ctx.harness(["-seed", seed, "-n", n]) or [])
        if len(acc.sigs) > 12:
            break           # a broken tree: enough evidence
    if not getattr(ctx, "harness_ok", False):
        ctx.broken("harness does not build against the current tree", detail="\n".join(ctx.build_errors))
    elif getattr(ctx, "harness_rc", 0) != 0:
        ctx.broken(f"harness exited with {ctx.harness_rc}", detail=getattr(ctx, "harness_err", ""))

    gen_stats = [s for s in acc.stats if s.get("optional_fields_total") and s.get("objects_per_kind")]
    tags = collections.Counter()
    objs = collections.Counter()
    invalid = collections.Counter()
    for s in acc.stats:
        tags.update(s.get("tags") or {})
        objs.update(s.get("objects_per_kind") or {})
        invalid.update(s.get("schema_invalid") or {})
    opt_missing = None
    for s in gen_stats:
        miss = set(s.get("optional_fields_missing") or [])
        opt_missing = miss if opt_missing is None else (opt_missing & miss)
    g = gen_stats[-1] if gen_stats else {}
    ctx.finish({
        "evaluations": acc.steps,
        "distinct_nontrivial": len(acc.nontrivial),
        "rule": "one evaluation = one batch of events delivered to the real ChangeProcessor followed by Process / BuildConfiguration / "
                "Generate / Prepare*Requests + status setters, under recover and a per-step timeout; distinct = distinct views "
                "of the real intermediate data (event kinds excluded); non-trivial = the step got at least two of {route "
                "attached, server generated, upstream generated} or reached a mirrored panic site",
        "samples": acc.samples[:2] + acc.panic_samples[:2],
        "traces_validated_against_impl": acc.agree_ok + acc.agree_panic,
        "correspondence_diffs": acc.diffs,
        "mirrored_panics_predicted": acc.agree_panic,
        "unmirrored_panics": dict(acc.unmirrored),
        "cases": int(sum(v for k, v in tags.items() if k.startswith("profile-"))),
        "corpus_steps": corpus_steps,
        "exhaustive_permutation_steps": perm_steps,
        "distinct_views": len(acc.distinct),
        "outcomes": dict(acc.outcomes),
        "steps_per_profile": dict(acc.profiles),
        "signatures": dict(acc.sigs),
        "depth_histogram": dict(acc.depth),
        "dataplane_features_histogram": dict(acc.features),
        "steps_in_repaired_input_classes": dict(acc.pre_classes),
        "parentref_reports_of_routes_with_unknown_namespace": dict(acc.ns_unknown_reports),
        "generator_tags": dict(tags),
        "optional_spec_fields_total": g.get("optional_fields_total"),
        "optional_spec_fields_populated_in_some_case":
            (g.get("optional_fields_total", 0) - len(opt_missing or [])) if gen_stats else None,
        "optional_spec_fields_never_populated": sorted(opt_missing or [])[:40],
        "objects_per_kind": dict(objs),
        "generator_self_check_dropped": dict(invalid),
        "cel_rules_per_kind_hand_encoded": g.get("cel_rules_per_kind"),
        "max_step_ms": max([s.get("max_step_ms", 0) for s in acc.stats] or [0]),
    }, assumptions=[
        "admissibility = CRD OpenAPI schema read from the manifests (types, enums, patterns, bounds, required, defaults) + the CEL "
        "rules hand-encoded in harness/c05/cel.go (cel-go is not available offline); built-in kinds follow their built-in validation",
        "events are delivered exactly as the reconciler does (full object on upsert, bare type + name on delete); CRDs as "
        "PartialObjectMetadata; the fake client holds the EndpointSlices for the real resolver",
        "hangs are bounded-time observations (per-step timeout), not proofs of termination",
        "implicit runtime panics (nil dereference, index, nil map) are decided by exploration of the real code; only the three "
        "mirrored ones (nil From, nil Path, BackendTLSPolicy Conditions[0] - the last guarded since 72dccd7) are in the Lean model",
    ], trusted=[
        "harness/pipeline (shared runner) + harness/c05/ctrl.go wiring of Plus secret metadata as StartManager does",
        "view extraction in harness/c05/view.go (BuildGraph on the live store with the Namespaces map completed)",
    ])
