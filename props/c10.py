"""C10 — event loop: exactly once, in order, one batch at a time (DESIGN.md §6 C10)."""
import collections


def run(ctx):
    ctx.prepare()
    ctx.obligations("NGF.Props.C10")
    if ctx.tier == "thorough":
        ctx.leanchecker("NGF.Props.C10")

    n_sync, n_racy, maxops = (300, 150, 30) if ctx.tier == "quick" else (6000, 3000, 60)
    lines = (ctx.harness(["-seed", ctx.seed, "-n", n_sync, "-maxops", maxops]) or []) + \
            (ctx.harness(["-seed", ctx.seed + 7919, "-n", n_racy, "-maxops", maxops, "-racy"]) or []) + \
            (ctx.harness(["-seed", ctx.seed + 104729, "-n", n_sync // 2, "-maxops", maxops, "-reconciler"]) or []) + \
            (ctx.harness(["-seed", ctx.seed + 15485863, "-n", 6 if ctx.tier == "quick" else 60, "-maxops", maxops,
                          "-bigfirst", 1500]) or [])
    if not getattr(ctx, "harness_ok", False):
        ctx.broken("harness does not build against the current tree", detail="\n".join(ctx.build_errors))

    model_in, obs, judge_in, inconclusive = [], [], [], collections.Counter()
    for l in lines:
        parts = dict(p.split(" ", 1) for p in l.split("\t") if " " in p)
        if "X" in parts:
            inconclusive[parts["X"]] += 1
            continue
        if "M" in parts:
            model_in.append(parts["M"])
            obs.append(parts["O"])
        if "J" in parts:
            judge_in.append(parts["J"])

    # the property itself, evaluated by the Lean judge on what the real loop did
    verdicts = ctx.driver("judge", judge_in)
    for j, v in zip(judge_in, verdicts):
        if v != "ok":
            ctx.finding(f"C10:{v.replace('fail ', '')}", f"event loop violates clause {v}", {"judge_input": j})

    # correspondence: the model replays the same schedule
    outs = ctx.driver("model", model_in)
    diffs = 0
    for m, o, out in zip(model_in, obs, outs):
        want = dict(f.split("=", 1) for f in o.split(" "))
        got = dict(f.split("=", 1) for f in out.split(" ")) if out != "bad-op" else {}
        bad = [k for k in want if got.get(k) != want[k]]
        if bad or got.get("skipped") != "0":
            diffs += 1
            if diffs <= 3:
                ctx.broken(f"model and implementation disagree on schedule [{m}]: impl {o} / model {out}",
                           replay={"schedule": m, "impl": o, "model": out})
    if inconclusive and sum(inconclusive.values()) > len(lines) // 10:
        ctx.broken(f"too many inconclusive schedules: {dict(inconclusive)}")

    lens = collections.Counter(min(len(m.split("ops=")[1].split(",")) // 10, 6) for m in model_in)
    kinds = collections.Counter()
    for m in model_in:
        for op in m.split("ops=")[1].split(","):
            kinds[op[0]] += 1
    distinct = len(set(model_in) | set(judge_in))
    nontrivial = len({j for j in judge_in if "|" in j.split("batches=")[1].split(" ")[0]})
    ctx.finish({
        "evaluations": len(lines),
        "distinct_nontrivial": nontrivial,
        "rule": "schedules of send/release/cancel over the real EventLoop (sync: model equality + judge; racy: judge only; reconciler: "
                "events delivered through the real controller.Reconciler as upserts/deletes, identity re-read from the event objects); "
                "non-trivial = distinct schedules in which at least two batches were handled",
        "samples": model_in[:3] + judge_in[-2:],
        "traces_validated_against_impl": len(model_in) - diffs,
        "correspondence_diffs": diffs,
        "inconclusive": dict(inconclusive),
        "distinct_cases": distinct,
        "ops_histogram": dict(kinds),
        "schedule_length_histogram_by_10": {str(k): v for k, v in sorted(lens.items())},
    }, assumptions=[
        "Go: unbuffered channel operations are rendezvous; select picks any ready arm; the harness observes the ack "
        "instant by the handler goroutine's exit (runtime.NumGoroutine)",
        "data races as such are outside the model",
    ])
