"""C10 — event loop: exactly once, in order, one batch at a time (DESIGN.md §6 C10)."""
import collections
import concurrent.futures


def kv(s):
    return dict(f.split("=", 1) for f in s.split(" ") if "=" in f)


def delivery_streams(ctx, dlines, plines, cov):
    """The producer side (NGF.Model.Delivery): real Reconcilers parked behind a stalled loop start-up, and the
    real FirstEventBatchPreparerImpl over a fake reader."""
    # ---- (a) reconciler delivery
    d_in, d_obs, j_in, incon = [], [], [], collections.Counter()
    for l in dlines:
        parts = dict(p.split(" ", 1) for p in l.split("\t") if " " in p)
        if "X" in parts or "D" not in parts:
            incon[parts.get("X", l[:60])] += 1
            continue
        d_in.append(parts["D"])
        d_obs.append(parts["O"])
        j_in.append(parts["J"])
    verdicts = ctx.driver("djudge", j_in)
    for j, v in zip(j_in, verdicts):
        if v != "ok":
            clause = v.replace("fail ", "")
            ctx.finding(f"C10:{clause}",
                        f"reconciler delivery violates {clause}: a reconcile request did not result in exactly one handled "
                        f"event although the manager's context was live (or a failed Get was not reported)",
                        {"djudge_input": j, "meaning": "qs = per-reconciler requests id:pass:get; recv = events the handler saw "
                                                        "(2*id upsert, 2*id+1 delete); stall = ms during which nobody read the channel"})
    outs = ctx.driver("dmodel", d_in)
    ddiffs = 0
    for m, o, out in zip(d_in, d_obs, outs):
        want, got = kv(o), (kv(out) if out != "bad-op" else {})
        bad = [k for k in want if got.get(k) != want[k]]
        if bad or got.get("skipped") != "0" or got.get("quiet") != "true":
            ddiffs += 1
            if ddiffs <= 3:
                ctx.broken(f"delivery: model and implementation disagree on [{m}]: impl {o} / model {out}",
                           replay={"schedule": m, "impl": o, "model": out})
    if incon and sum(incon.values()) > max(1, len(dlines) // 10):
        ctx.broken(f"delivery: too many inconclusive cases: {dict(incon)}")
    stalls = [int(kv(j)["stall"]) for j in j_in]
    # ---- (b) start-up batch
    p_in, p_obs = [], []
    for l in plines:
        parts = dict(p.split(" ", 1) for p in l.split("\t") if " " in p)
        if "P" in parts and "O" in parts:
            p_in.append(parts["P"])
            p_obs.append(parts["O"])
    pj_in = [f"{i} out={kv(o).get('batch', 'PANIC')}" for i, o in zip(p_in, p_obs)]
    pver = ctx.driver("pjudge", pj_in)
    for j, v in zip(pj_in, pver):
        if v != "ok":
            clause = v.replace("fail ", "")
            ctx.finding(f"C10:{clause}",
                        f"FirstEventBatchPreparerImpl.Prepare violates {clause}: the start-up batch is not exactly one upsert per "
                        f"present object / list item (or Prepare failed although every read succeeded, or vice versa)",
                        {"pjudge_input": j, "meaning": "objs = individually-fetched id:f(ound)|n(otfound)|e(rror); lists = items per "
                                                        "list or E; out = upserts returned (2*id) or ERR"})
    pouts = ctx.driver("pmodel", p_in)
    pdiffs = 0
    for i, o, out in zip(p_in, p_obs, pouts):
        if o != out:
            pdiffs += 1
            if pdiffs <= 3:
                ctx.broken(f"prepare: model and implementation disagree on [{i}]: impl {o} / model {out}",
                           replay={"input": i, "impl": o, "model": out})
    cov.update({
        "delivery_cases": len(d_in),
        "delivery_correspondence_diffs": ddiffs,
        "delivery_inconclusive": dict(incon),
        "delivery_cancelled_cases": sum(1 for j in j_in if kv(j)["cancelled"] == "1"),
        "delivery_max_stall_ms": max(stalls) if stalls else 0,
        "delivery_stall_histogram_ms": {k: sum(1 for s in stalls if lo <= s < hi) for k, lo, hi in
                                        (("<100", 0, 100), ("100-999", 100, 1000), ("1000-5999", 1000, 6000), (">=6000", 6000, 10**9))},
        "delivery_requests": sum(len(q.split(",")) for j in j_in for q in kv(j)["qs"].split("|")),
        "delivery_samples": d_in[:2],
        "prepare_cases": len(p_in),
        "prepare_correspondence_diffs": pdiffs,
        "prepare_cases_with_missing_object": sum(1 for i in p_in if ":n" in i),
        "prepare_cases_aborting": sum(1 for o in p_obs if "batch=ERR" in o),
        "prepare_samples": p_in[len(p_in) // 2:len(p_in) // 2 + 2],
    })
    return len(d_in) - ddiffs + len(p_in) - pdiffs


def run(ctx):
    ctx.prepare()
    ctx.obligations("NGF.Props.C10")
    ctx.obligations("NGF.Props.C10Delivery")
    if ctx.tier == "thorough":
        ctx.leanchecker("NGF.Props.C10")
        ctx.leanchecker("NGF.Props.C10Delivery")

    # the delivery stream contains a case whose reader is stalled for 6 s (thorough: up to 20 s): it runs in the
    # background while the other streams execute
    pool = concurrent.futures.ThreadPoolExecutor(2)
    if ctx.tier == "quick":
        dargs = ["-delivery", "-seed", ctx.seed + 32452843, "-n", 60, "-long", "6000", "-maxstall", 300]
        pargs = ["-prepare", "-seed", ctx.seed + 49979687, "-n", 300, "-maxlists", 2]
    else:
        dargs = ["-delivery", "-seed", ctx.seed + 32452843, "-n", 1500, "-long", "6000,7500,11000,15000,20000", "-maxstall", 1200]
        pargs = ["-prepare", "-seed", ctx.seed + 49979687, "-n", 5000, "-maxlists", 3]
    dfut = pool.submit(ctx.harness, dargs)
    pfut = pool.submit(ctx.harness, pargs)

    n_sync, n_racy, maxops = (300, 150, 30) if ctx.tier == "quick" else (6000, 3000, 60)
    lines = (ctx.harness(["-seed", ctx.seed, "-n", n_sync, "-maxops", maxops]) or []) + \
            (ctx.harness(["-seed", ctx.seed + 7919, "-n", n_racy, "-maxops", maxops, "-racy"]) or []) + \
            (ctx.harness(["-seed", ctx.seed + 104729, "-n", n_sync // 2, "-maxops", maxops, "-reconciler"]) or []) + \
            (ctx.harness(["-seed", ctx.seed + 15485863, "-n", 6 if ctx.tier == "quick" else 60, "-maxops", maxops,
                          "-bigfirst", 1500]) or []) + \
            (ctx.harness(["-seed", ctx.seed + 67867967, "-n", 16 if ctx.tier == "quick" else 160, "-idlefamily"]) or [])
    if not getattr(ctx, "harness_ok", False):
        ctx.broken("harness does not build against the current tree", detail="\n".join(ctx.build_errors))

    model_in, obs, judge_in, inconclusive = [], [], [], collections.Counter()
    for l in lines:
        parts = dict(p.split(" ", 1) for p in l.split("\t") if " " in p)
        if "X" in parts:
            inconclusive[parts["X"]] += 1
            continue
        if "M" in parts:
            model_in.append(parts["M"])
            obs.append(parts["O"])
        if "J" in parts:
            judge_in.append(parts["J"])

    # the property itself, evaluated by the Lean judge on what the real loop did
    verdicts = ctx.driver("judge", judge_in)
    for j, v in zip(judge_in, verdicts):
        if v != "ok":
            ctx.finding(f"C10:{v.replace('fail ', '')}", f"event loop violates clause {v}", {"judge_input": j})

    # correspondence: the model replays the same schedule
    outs = ctx.driver("model", model_in)
    diffs = 0
    for m, o, out in zip(model_in, obs, outs):
        want = dict(f.split("=", 1) for f in o.split(" "))
        got = dict(f.split("=", 1) for f in out.split(" ")) if out != "bad-op" else {}
        bad = [k for k in want if got.get(k) != want[k]]
        if bad or got.get("skipped") != "0":
            diffs += 1
            if diffs <= 3:
                ctx.broken(f"model and implementation disagree on schedule [{m}]: impl {o} / model {out}",
                           replay={"schedule": m, "impl": o, "model": out})
    if inconclusive and sum(inconclusive.values()) > len(lines) // 10:
        ctx.broken(f"too many inconclusive schedules: {dict(inconclusive)}")

    dcov = {}
    dlines, plines = dfut.result() or [], pfut.result() or []
    if getattr(ctx, "harness_ok", False) and (not dlines or not plines):
        ctx.broken("delivery/prepare stream produced no output", detail=str(getattr(ctx, "harness_err", "")))
    d_ok = delivery_streams(ctx, dlines, plines, dcov)

    lens = collections.Counter(min(len(m.split("ops=")[1].split(",")) // 10, 6) for m in model_in)
    kinds = collections.Counter()
    for m in model_in:
        for op in m.split("ops=")[1].split(","):
            kinds[op[0]] += 1
    distinct = len(set(model_in) | set(judge_in))
    nontrivial = len({j for j in judge_in if "|" in j.split("batches=")[1].split(" ")[0]})
    ctx.finish({
        **dcov,
        "evaluations": len(lines) + len(dlines) + len(plines),
        "distinct_nontrivial": nontrivial,
        "rule": "schedules of send/release/cancel over the real EventLoop, a quarter of them with an EMPTY start-up batch (sync: model equality + judge; racy: judge only; "
                "idlefamily: start-up batch or in-flight burst of 1024..1100 events, or bursts of 60..70 / 120..135 events coalesced while a "
                "batch is in flight after 0-3 earlier single-event batches (either buffer in flight; batch recorded at handler entry and exit), "
                "then 3-5 events each offered only after the handler was observed idle, bounded wait - clauses handler_view_stable, "
                "idle_implies_empty_next; delivery: Get errors of three classes (plain, wrapping context.DeadlineExceeded / Canceled) while "
                "the context is alive, with controller-runtime's requeue-on-error (same request re-invoked until nil error); reconciler: "
                "events delivered through the real controller.Reconciler as upserts/deletes, identity re-read from the event objects); "
                "delivery: 1-3 real Reconcilers (filter / found / NotFound / Get error) parked behind a loop whose start-up is stalled "
                "(one case 6 s in quick, up to 20 s in thorough), with and without cancellation, model equality + judge; prepare: real "
                "FirstEventBatchPreparerImpl, exhaustive found/missing/error over <=4 objects x lists of 0-3 items or failing; "
                "non-trivial = distinct schedules in which at least two batches were handled",
        "samples": model_in[:3] + judge_in[-2:],
        "traces_validated_against_impl": len(model_in) - diffs + d_ok,
        "correspondence_diffs": diffs,
        "schedules_with_empty_startup_batch": sum(1 for j in judge_in if j.startswith("first=- ")),
        "idle_family_cases": sum(1 for j in judge_in if " stuck=" in j),
        "max_startup_batch": max((len(j.split(" ")[0].split(",")) for j in judge_in), default=0),
        "inconclusive": dict(inconclusive),
        "distinct_cases": distinct,
        "ops_histogram": dict(kinds),
        "schedule_length_histogram_by_10": {str(k): v for k, v in sorted(lens.items())},
    }, assumptions=[
        "Go: unbuffered channel operations are rendezvous; select picks any ready arm; the harness observes the ack "
        "instant by the handler goroutine's exit (runtime.NumGoroutine)",
        "data races as such are outside the model",
        "delivery: controller-runtime runs one Reconcile at a time per controller (MaxConcurrentReconciles = 1, the default NGF uses) "
        "and calls it with the manager's context; a Reconcile that returns an error is requeued by controller-runtime (not modelled)",
        "delivery: in cases where the harness cancels the context, an event the loop received but did not handle before it stopped "
        "is indistinguishable from one given up at <-ctx.Done(); both are legal after cancellation and are replayed as give-ups",
    ])
