"""C02 — requests are routed exactly as the attached Routes prescribe (DESIGN.md §6 C02, A.7/A.8)."""
import collections
import json
import os
import subprocess

VERIF = os.path.dirname(os.path.dirname(os.path.abspath(__file__)))


def _node(lines):
    """Run the unmodified httpmatches.js under node on the N cases; returns list of answers or None."""
    runner = os.path.join(VERIF, "js", "run_httpmatches.mjs")
    if not os.path.exists(runner):
        return None
    repo = os.environ.get("VERIF_REPO", "/repo")
    try:
        p = subprocess.run(["node", runner, os.path.join(repo, "internal/mode/static/nginx/modules/src/httpmatches.js")],
                           input="\n".join(lines) + "\n", stdout=subprocess.PIPE, stderr=subprocess.PIPE, text=True, timeout=120)
    except Exception:
        return None
    if p.returncode != 0:
        return None
    out = p.stdout.splitlines()
    return [json.loads(x) for x in out] if len(out) == len(lines) else None


def run(ctx):
    ctx.prepare(harness=["c02", "c16"])
    ctx.obligations("NGF.Props.C02")
    if ctx.tier == "thorough":
        ctx.leanchecker("NGF.Props.C02")

    n, meta, cores = (170, 40, 150) if ctx.tier == "quick" else (6000, 1500, 3000)
    lines = ctx.harness(["-seed", ctx.seed, "-n", n, "-meta", meta, "-cores", cores]) or []
    if not getattr(ctx, "harness_ok", False):
        ctx.broken("harness does not build against the current tree", detail="\n".join(ctx.build_errors))
    # corpus first
    corpus_lines = []
    cdir = os.path.join(VERIF, "corpus", "C02")
    if os.path.isdir(cdir):
        for fn in sorted(os.listdir(cdir)):
            out = ctx.harness(["-replay", os.path.join(cdir, fn)]) or []
            corpus_lines += out
    lines = corpus_lines + lines

    kinds = collections.Counter()
    parsed = []
    for l in lines:
        try:
            d = json.loads(l)
        except Exception:
            continue
        parsed.append((d, l))
        kinds[d.get("k", "?")] += 1

    judge_in = [(d, l) for d, l in parsed if d["k"] in ("J", "M", "G")]
    verdicts = ctx.driver("judge", [l for _, l in judge_in]) if judge_in else []

    tot = collections.Counter()
    classes = collections.Counter()
    tags = collections.Counter()
    profiles = collections.Counter()
    noise = collections.Counter()
    samples = []
    nontrivial = set()
    lv_diffs = 0
    for (d, l), v in zip(judge_in, verdicts):
        try:
            v = json.loads(v)
        except Exception:
            ctx.broken("Lean judge returned an undecodable answer", replay={"line": l[:2000]})
            continue
        if "error" in v:
            ctx.broken(f"Lean judge could not decode a harness line: {v}", replay={"line": l[:2000]})
            continue
        if d["k"] == "G":
            tot["grpc_convert_cases"] += 1
            if not v.get("ok", False):
                ctx.finding("C02:grpc-convert-shared-path",
                            "graph.ConvertGRPCMatches: a converted match does not carry the path of its own GRPC match "
                            f"(matches {json.dumps(d['matches'])} -> {json.dumps(d['out'])})",
                            {"matches": d["matches"], "out": d["out"]})
            continue
        for k in ("probes", "agree", "ambiguous", "outOfScope", "confError", "hostReadingDiff"):
            tot[k] += v.get(k, 0)
        if v.get("unparsable"):
            tot["unparsable_config"] += 1
        for k, c in (v.get("classes") or {}).items():
            classes[k] += c
        if d["k"] == "J":
            profiles[d.get("profile", "")] += 1
            for k, c in (d.get("tags") or {}).items():
                tags[k] += c
            cl = v.get("classes") or {}
            if len([k for k in cl if k.startswith(("proxy", "redirect", "passthrough"))]) >= 1 and v.get("probes", 0) > 0:
                nontrivial.add(json.dumps(d["flat"], sort_keys=True))
            if v.get("listenerValidityDiff"):
                lv_diffs += 1
            if len(samples) < 3 and cl:
                samples.append({"id": d["id"], "profile": d.get("profile"), "probes": v.get("probes"), "classes": cl})
        else:
            for k in d.get("noise", []):
                noise[k] += 1
            tot["meta_pairs"] += 1
        for f in v.get("failures", []):
            replay = {"detail": f["detail"], "case": d["k"], "id": d["id"], "flat": d.get("flat")}
            if d["k"] == "J":
                replay["files"] = d.get("files")
            else:
                replay["noise"] = d.get("noise")
            ctx.finding(f["sig"], f"routing differs from Gateway API: {f['sig']} — {f['detail'][:600]}", replay)
    for d, _ in parsed:
        if d["k"] == "P":
            tot["panics(C05)"] += 1

    # translation validation of the pipeline model (Model/Pipeline.gen) on the scenarios inside its fragment, and the
    # fragment theorem / restated specification executed on the probes
    jl = [(d, l) for d, l in judge_in if d["k"] == "J"]
    ties = ctx.driver("pipeline", [l for _, l in jl]) if jl else []
    frag = collections.Counter()
    outside = collections.Counter()
    frag_by_profile = collections.Counter()
    for (d, l), t in zip(jl, ties):
        try:
            t = json.loads(t)
        except Exception:
            t = {"error": "undecodable"}
        if "error" in t:
            ctx.broken(f"pipeline mode could not decode a harness line: {t}", replay={"line": l[:2000]})
            continue
        frag["scenarios"] += 1
        if not t.get("inFragment"):
            outside[t.get("why", "")[:70]] += 1
            continue
        frag["in_fragment"] += 1
        frag_by_profile[d.get("profile", "")] += 1
        frag["no_shadow"] += bool(t.get("noShadow"))
        frag["probes"] += t.get("probes", 0)
        # the hypotheses of route_refines_spec_fragment (Props/C02.lean), measured: the driver evaluates the equation on
        # exactly the (scenario, request) pairs inside them
        in_thm = bool(t.get("noShadow")) and bool(t.get("hostsDNS")) and bool(t.get("routesHaveRules"))
        frag["theorem_scenarios"] += in_thm
        frag["theorem_probes_evaluated"] += t.get("thmProbes", 0)
        frag["theorem_probes_excluded_by_reqOK"] += t.get("reqExcluded", 0)
        if t.get("noShadow") and not t.get("hostsDNS"):
            frag["excluded_hostsDNS"] += 1
        if t.get("hostsDNS") and not t.get("namesPlain"):
            ctx.broken("hostsDNS holds but namesPlain does not (contradicts namesPlain_from_hostDNS)", replay={"id": d["id"], "flat": d.get("flat")})
        if t.get("noShadow") and not t.get("routesHaveRules"):
            frag["excluded_routesHaveRules"] += 1
        if t.get("confEqual"):
            frag["conf_equal"] += 1
        else:
            frag["conf_differs"] += 1
            if frag["conf_differs"] <= 3:
                ctx.broken("pipeline model and real generator disagree (abstracted http.conf ≠ Pipeline.gen): " + t.get("confDiff", "")[:700],
                           replay={"id": d["id"], "flat": d.get("flat"), "files": d.get("files"), "diff": t.get("confDiff")})
        if t.get("thmFail"):
            frag["theorem_falsified"] += 1
            ctx.broken("route_refines_spec_fragment is false on a generated input: " + t["thmFail"][:700],
                       kind="obligation", replay={"id": d["id"], "flat": d.get("flat"), "detail": t["thmFail"]})
        if t.get("specFail"):
            frag["spec_restatement_differs"] += 1
            ctx.broken("Pipeline.routeF (fragment specification) disagrees with Spec.GatewayAPI.route: " + t["specFail"][:700],
                       replay={"id": d["id"], "flat": d.get("flat"), "detail": t["specFail"]})

    # HTTPS: route_refines_spec_https / sni_host_mismatch_421 (Props/C02.lean) executed on the fragment cases of harness/c16
    # (C02's fragment scenarios + HTTPS listeners, Secrets, ReferenceGrants): nginxEvalConfT on the REAL http.conf (abstracted)
    # and on genT vs routeT vs the full oracle, restricted exactly like the theorem
    n_https = 150 if ctx.tier == "quick" else 4000
    hl = ctx.harness(["-mode", "frag", "-seed", ctx.seed * 31 + 7, "-n", n_https], cmd="c16") or []
    hl = [l for l in hl if l.startswith("{")]
    https = collections.Counter()
    https_out = collections.Counter()
    https_why = collections.Counter()
    if not hl:
        ctx.broken("HTTPS stream: harness c16 (mode frag) produced no lines", detail="\n".join(ctx.build_errors))
    for l, o in zip(hl, ctx.driver("pipelineT", hl) if hl else []):
        try:
            t = json.loads(o)
        except Exception:
            t = {"error": "undecodable"}
        d = json.loads(l)
        if "error" in t:
            ctx.broken(f"pipelineT mode could not decode a harness line: {t}", replay={"line": l[:2000]})
            continue
        https["cases"] += 1
        if not t.get("inFragment"):
            https_why[t.get("why", "")[:70]] += 1
            continue
        https["in_fragment"] += 1
        https["inside_theorem_scenarios"] += bool(t.get("hyp"))
        for k in ("probes", "tlsProbes", "thmProbes", "thmTlsProbes", "exclSniServed", "exclShadow", "exclReq", "mismatchProbes"):
            https[k] += t.get(k, 0)
        for k, v in (t.get("outcomes") or {}).items():
            https_out[k] += v
        rep = {"id": d.get("id"), "flat": d.get("flat"), "files": d.get("files")}
        if not t.get("realOK"):
            https["real_not_abstractable"] += 1
            if https["real_not_abstractable"] <= 3:
                ctx.broken("HTTPS stream: the real http.conf is outside the shape Model/PipelineTlsTie.abstractConfT reads: " + t.get("realWhy", "")[:300], replay=rep)
        for key, what, kind in (
                ("thmFail", "route_refines_spec_https is false on a generated input (model genT)", "obligation"),
                ("realFail", "HTTPS: NGINX on the REAL configuration differs from routeT inside the hypotheses of route_refines_spec_https", None),
                ("realModelDiff", "HTTPS: the real configuration and genT mean different things on a probe", None),
                ("specFail", "PipelineTls.routeT (specification for HTTPS) disagrees with Spec.GatewayAPI.route", None),
                ("mismatchFail", "sni_host_mismatch_421 fails on a probe (SNI ≠ Host, both served)", None)):
            if t.get(key):
                https[key] += 1
                if https[key] <= 3:
                    kw = {"kind": kind} if kind else {}
                    ctx.broken(what + ": " + t[key][:700], replay=dict(rep, detail=t[key]), **kw)
    if hl and https["in_fragment"] and https["thmTlsProbes"] == 0:
        ctx.broken("route_refines_spec_https was evaluated on no TLS probe")

    # correspondence of the proved cores with the real functions
    core_in = [(d, l) for d, l in parsed if d["k"] in ("H", "S", "L", "G", "N")]
    outs = ctx.driver("model", [l for _, l in core_in]) if core_in else []
    diffs = 0
    validated = 0
    node_cases = [(d, l) for d, l in core_in if d["k"] == "N"]
    node_out = _node([l for _, l in node_cases]) if node_cases else []
    node_map = {}
    if node_cases and node_out is None:
        ctx.broken("node runner for httpmatches.js failed")
    elif node_cases:
        node_map = {id(d): o for (d, _), o in zip(node_cases, node_out)}
    for (d, l), o in zip(core_in, outs):
        try:
            o = json.loads(o)
        except Exception:
            o = {"error": "undecodable"}
        k = d["k"]
        want = d.get("out") if k != "N" else None
        if k == "H":
            got, want = {"accepted": o.get("accepted"), "pairs": o.get("pairs")}, d["out"]
        elif k == "S":
            got, want = o.get("order"), d["out"]
        elif k == "L":
            got, want = o.get("locs"), d["out"]
        elif k == "G":
            got, want = o.get("conv"), d["out"]
        else:
            got, want = o.get("win"), node_map.get(id(d))
            if want is None:
                continue
        if got != want:
            diffs += 1
            if diffs <= 3:
                ctx.broken(f"model and implementation disagree on core {k}: impl {json.dumps(want)[:300]} / model {json.dumps(got)[:300]}",
                           replay={"case": d, "impl": want, "model": got})
        else:
            validated += 1
            tot["core_" + k] += 1

    # the refinement theorem must not be vacuous on the generated inputs
    if ctx.tier != "quick" or frag["in_fragment"] >= 10:
        if frag["in_fragment"] and frag["theorem_probes_evaluated"] == 0:
            ctx.broken("route_refines_spec_fragment was evaluated on no probe: its hypotheses exclude every generated in-fragment scenario")

    if tot["probes"] and tot["confError"] * 20 > tot["probes"]:
        ctx.broken(f"too many probes outside the modelled NGINX fragment: {tot['confError']} of {tot['probes']}")

    # Backend shares are compared above with the tolerance the property allows; their exact arithmetic is C15's subject.
    ctx.dependency("C15", "weighted backends receive the shares computed by createSplitClientDistributions "
                          "(the routing judge compares distributions up to the 0.01 pp tolerance)")

    ctx.finish({
        "evaluations": tot["probes"],
        "distinct_nontrivial": len(nontrivial),
        "rule": "probe requests evaluated by the Lean NGINX model on the real generated files and by the Gateway API oracle on the "
                "same scenario; non-trivial = distinct scenarios (flat form) for which at least one probe is prescribed a proxy, "
                "redirect or passthrough outcome",
        "samples": samples,
        "traces_validated_against_impl": validated + frag["conf_equal"] + https["thmProbes"],
        "correspondence_diffs": diffs,
        "line_kinds": dict(kinds),
        "profiles": dict(profiles),
        "probe_totals": dict(tot),
        "oracle_outcome_classes": dict(classes),
        "generator_tags": dict(tags),
        "noise_kinds": dict(noise),
        "listener_validity_differs_from_graph": lv_diffs,
        "pipeline_model_fragment": dict(frag),
        "pipeline_model_fragment_by_profile": dict(frag_by_profile),
        "pipeline_model_outside_fragment_reasons": dict(outside),
        "https_refinement(route_refines_spec_https)": dict(https),
        "https_refinement_outcomes_inside_theorem": dict(https_out),
        "https_refinement_outside_fragment_reasons": dict(https_why),
        "hostname_reading_differences(DESIGN §8)": tot["hostReadingDiff"],
    }, assumptions=[
        "NGINX behaves as Model/NginxEval.lean says (server_name, location, rewrite/return, split_clients, stream map hostnames, "
        "auto-redirect of slash-terminated proxied prefix locations); no nginx binary exists in the sandbox",
        "njs: r.headersIn is case-insensitive with comma-joined duplicates, r.args is case-sensitive first-wins "
        "(the Lean model is diffed against the unmodified httpmatches.js under node with a mock built to these rules)",
        "Gateway API semantics are those of Spec/GatewayAPI.lean (N1–N5 name the implementation-defined choices)",
        "admissible states: CRD defaults applied, (port,protocol,hostname) unique per Gateway, unique (kind,namespace,name)",
        "route_refines_spec_fragment (all inputs) speaks about Model/Pipeline.gen; it reaches the real generator through the "
        "translation validation abstract(real http.conf, matches.json) = gen s on every in-fragment scenario of the run, and "
        "through Pipeline.routeF = Spec.GatewayAPI.route on the probes",
        "included files (policies, snippets, gRPC error pages), header modifiers and Host rewriting are not evaluated",
    ], trusted=[
        "Lean environment models NGF/Model/NginxLex, NginxParse, NginxEval and the oracle NGF/Spec/GatewayAPI",
        "harness/c02 flattening of the typed objects (Secret.ok via crypto/tls, Service port readiness from EndpointSlices)",
        "/verif/js/run_httpmatches.mjs (mock of the njs request object)",
    ])
