"""C04 — user-supplied field values cannot inject NGINX configuration (DESIGN.md §6 C04)."""
import collections
import json
import os
import re


def sig_for(meta, clause):
    """Signature = generic field path + cause (trailing-backslash / dollar / structure / dropped-silently)."""
    generic = meta["generic"]
    if generic == "NginxProxy.spec.logging.errorLevel":
        return "C04:invalid-nginxproxy-errorlevel"
    # the cause, not the generator branch: a value ending in an odd number of backslashes escapes the
    # template character that follows the hole, whatever else it contains
    v = meta["value"]
    if clause == "empty-argument":
        return f"C04:{generic}:empty-argument"
    if clause != "dropped-silently" and (len(v) - len(v.rstrip("\\"))) % 2 == 1:
        cause = "trailing-backslash"
    elif clause in ("dollar", "dropped-silently"):
        cause = clause
    else:
        cause = "structure"     # skeleton / lex-error / nesting / files / json
    return f"C04:{generic}:{cause}"


COND_CLASSES = ("method", "header-name", "header-value", "query-name", "query-value")


def _print_stream(ctx):
    """Text step of the fragment (Model/Print, Model/PrintGuards): scenarios of C02's fragment profile with a benign / hostile
    marker value in every guarded string field in turn, through the REAL pipeline; the Lean driver (mode print) evaluates the
    field guards on the scenario and compares lex(real http.conf) with lex(printDirs(render(genR s))) token for token."""
    thorough = ctx.tier == "thorough"
    n, stride = (48, 1) if thorough else (10, 3)
    args = ["-mode", "print", "-seed", ctx.seed, "-n", n, "-stride", stride]
    lines = ctx.harness(args) or []
    out = {"runs": len(lines), "scenarios": n}
    if not lines:
        ctx.broken("print stream of harness/c04 produced nothing")
        return out
    res = ctx.driver("print", lines)
    hist = collections.Counter()
    outside = collections.Counter()
    per_class = collections.defaultdict(collections.Counter)
    benign = {}          # (scen, site) -> result of the benign run
    samples, nbroken = [], 0

    def rep(l, o):
        return {"input": {k: l.get(k) for k in ("id", "scen", "site", "class", "value")}, "lean": {k: v for k, v in o.items() if k not in ("skel", "modelSkel")},
                "how": f"harness/cmd/c04 -mode print -seed {ctx.seed} -n {l.get('scen', 0) + 1} -scen {l.get('scen', 0)} -site '{l.get('site', '')}' "
                       "regenerates the lines of this site (all payloads); ngfdriver_C04 print reads them"}

    def broken(msg, l, o):
        nonlocal nbroken
        nbroken += 1
        if nbroken <= 4:
            ctx.broken(msg, replay=rep(l, o))

    pairs = []
    for raw, r in zip(lines, res):
        try:
            l, o = json.loads(raw), json.loads(r)
        except Exception:
            ctx.broken(f"print mode: undecodable line pair: {r[:200]}")
            continue
        pairs.append((l, o))
        if l.get("benign") and "error" not in o and "panic" not in o:
            benign[(l["scen"], l["site"])] = o
    for l, o in pairs:
        cls = l["class"]
        if "panic" in o:
            hist["panic"] += 1      # crashes are C05's business
            continue
        if "error" in o:
            broken(f"print mode could not decode a harness line: {o}", l, o)
            continue
        b = benign.get((l["scen"], l["site"]), {})
        reaches = bool(b.get("markHttp") or b.get("markMatches")) or cls == "redirect-scheme"
        guards = o["fieldsOK"] and o["condsOK"]
        accepted = o["markHttp"] or o["markMatches"]
        sig = f"C04:fragment:{cls}"
        what = f"{l['site']} = {l['value']!r} (fragment scenario {l['id']})"
        if not o["realLexes"]:
            ctx.finding(sig + ":structure", f"{what}: the generated http.conf is not tokenisable / does not nest: {o['why']}", rep(l, o))
            hist["fail-real-conf-unreadable"] += 1
            continue
        if not o["realRoundtrip"]:
            broken("Print.dirsToks does not invert NginxParse.parseToks on the tokens of a real http.conf", l, o)
        if cls in COND_CLASSES and o["markHttp"]:
            ctx.finding(sig + ":reaches-http-conf", f"{what}: a match condition string, which is rendered into matches.json only, "
                        "appears in http.conf", rep(l, o))
            hist["fail-condition-in-http-conf"] += 1
            continue
        if not guards:
            if accepted:
                # rejected by the guard the model attaches to the field, yet rendered by the real pipeline
                altered = b.get("skel") is not None and o["skel"] != b.get("skel")
                hist["fail-unguarded"] += 1
                if altered:
                    ctx.finding(sig + ":structure", f"{what}: the value violates the guard of its field, is rendered all the same and "
                                f"changes the token skeleton of http.conf", rep(l, o))
                else:
                    broken(f"dataflow gap: {what} is rejected by PrintGuards.fieldsOK/condsOK but reaches the generated files", l, o)
            else:
                k = "rejected" if reaches else "rejected-site-not-rendered"
                hist[k] += 1
                per_class[cls][k] += 1
            continue
        # the guards hold
        if not o["inFragment"]:
            hist["guards-hold-outside-fragment"] += 1
            outside[o["why"][:60]] += 1
            continue
        if not o["rawSame"]:
            broken(f"PrintTie.rawFragment and PipelineTie.toFragment render differently: {what}", l, o)
        if not o["toksEqual"]:
            hist["fail-text-differs"] += 1
            shape_kept = b.get("modelSkel") is not None and b.get("modelSkel") == o["modelSkel"]
            if shape_kept and o["skel"] != b.get("skel"):
                ctx.finding(sig + ":structure", f"{what}: the value satisfies its guard and keeps the skeleton of the model text, but "
                            f"changes the token skeleton of the real http.conf: {o['diff']}", rep(l, o))
            else:
                broken(f"lex(real http.conf) ≠ lex(printDirs(render(genR s))) although the field guards hold: {what}: {o['diff']}", l, o)
            continue
        if not o["skelIntended"]:
            hist["fail-skeleton-not-intended"] += 1
            ctx.finding(sig + ":structure", f"{what}: the text NGF writes (= the model text) is tokenised with a skeleton other than "
                        f"the one of the intended directives although the field guards hold", rep(l, o))
            continue
        if not o.get("dirsOKw"):
            broken(f"fields_weak_dirs is false on a generated input (fieldsOK but a word of the tree violates the weak predicate): {what}",
                   l, o)
        if o["noBackslash"] and not o["dirsOK"]:
            broken(f"fields_safe_dirs is false on a generated input (fieldsOK ∧ noBackslash but a word of the tree is unsafe): {what}",
                   l, o)
        if o["noBackslash"] and not o["roundtrip"]:
            hist["fail-not-read-back"] += 1
            ctx.finding(sig + ":structure", f"{what}: the text NGF writes (= the model text) is not read back as the intended "
                        f"directives although the field guards hold", rep(l, o))
            continue
        if l["benign"]:
            k = "benign-equal"
        elif accepted:
            k = "hostile-accepted-equal" + ("" if o["noBackslash"] else "-backslash")
            if len(samples) < 6 and cls not in [x["class"] for x in samples]:
                samples.append({"class": cls, "site": l["site"], "value": l["value"], "tokens": o["tokens"]})
        else:
            k = "hostile-not-rendered-equal"
        hist[k] += 1
        per_class[cls][k] += 1
    acc = hist["hostile-accepted-equal"] + hist["hostile-accepted-equal-backslash"]
    if acc < (200 if thorough else 40) or hist["rejected"] < (200 if thorough else 40):
        ctx.broken(f"print tie nearly vacuous: {acc} accepted hostile values compared, {hist['rejected']} rejected with a rendered "
                   f"benign value")
    out.update({"verdicts": dict(hist), "outside_fragment_reasons": dict(outside),
                "per_class": {k: dict(v) for k, v in sorted(per_class.items())}, "samples": samples,
                "hostile_accepted_compared": acc, "hostile_rejected_benign_rendered": hist["rejected"]})
    return out


def _pairs_stream(ctx):
    """The SAME hostile value in two leaves guarded by different validators of one family (match path / filter path
    replacement, header and query names / values, listener / route / filter hostnames), in one batch, in a second run of the
    same objects in the same process, and in two successive batches of one controller; plus: every such scenario and every base
    scenario run twice in one process must give the same configuration (harness/c04/pairs.go). Judged like the leaf search."""
    thorough = ctx.tier == "thorough"
    lines = ctx.harness(["-mode", "pairs", "-seed", ctx.seed, "-n", 0 if thorough else 2, "-workers", 12 if thorough else 4]) or []
    out = {"lines": len(lines)}
    if not lines:
        ctx.broken("pairs stream of harness/c04 produced nothing")
        return out
    jin, metas, stats = [], {}, {}
    for l in lines:
        tag = l[:1]
        if tag in "FBPLR" and l[1:2] == "\t":
            jin.append(l)
        elif tag == "M":
            m = json.loads(l[2:])
            metas[m["id"]] = m
        elif tag == "S":
            _, k, v = l.split("\t")
            stats[k] = int(v)
        elif tag == "X":
            ctx.broken(f"base scenario unusable: {l[2:]}")
        elif tag == "D":
            d = json.loads(l[2:])
            ctx.broken(f"statefulness: {d['what']}: {d.get('pair', d['base'])} = {d.get('value', '')!r}: {d['diff']}", replay=d)
    jout = ctx.driver("judge", jin) if jin else []
    verdicts = collections.Counter()
    nstate = 0
    for l, v in zip(jin, jout):
        if l[0] == "B":
            if not v.startswith("base "):
                ctx.broken(f"pair baseline files do not lex: {v}", replay={"baseline": l.split('\t')[1]})
            continue
        if l[0] not in "PR":
            continue
        m = metas.get(int(l.split("\t")[1]))
        if m is None:
            continue
        what = f"{m['path']} = {m['value']!r} ({m['base']}; {m.get('gate', '')})"
        if m.get("panic"):
            verdicts["panic"] += 1
            continue
        if l[0] == "R":
            if v == "same":
                verdicts["second-run-same"] += 1
            else:
                verdicts["second-run-differs"] += 1
                nstate += 1
                if nstate <= 3:
                    ctx.broken(f"statefulness: the same objects run a second time in one process give a different configuration: "
                               f"{what}: {v}", replay={"meta": m, "verdict": v})
            continue
        if v == "ok absent":
            changed = bool(m.get("conds_new") or m.get("conds_gone"))
            if m["reaches"] and not changed:
                verdicts["dropped-silently"] += 1
                ctx.finding(sig_for(m, "dropped-silently"), f"{what}: the value of the first leaf is rendered when the second leaf is "
                            f"benign, vanishes when both carry the value, and no status condition reports it", {"meta": m, "verdict": v})
            else:
                verdicts["rejected-or-not-rendered"] += 1
        elif v.startswith("ok inside"):
            verdicts["inside-argument"] += 1
        elif v.startswith("fail "):
            parts = v.split(" ", 4)
            clause = parts[1]
            verdicts["fail-" + clause] += 1
            ctx.finding(sig_for(m, clause), f"{what}: {clause} in {parts[2]} against the run in which only the second leaf carries the "
                        f"value: {parts[4] if len(parts) > 4 else ''}", {"meta": m, "verdict": v})
        else:
            ctx.broken(f"judge could not decode pair case {m['id']}: {v}")
    if stats.get("pair-probes", 0) < 100 or verdicts["second-run-same"] + verdicts["second-run-differs"] < 100:
        ctx.broken(f"pairs stream nearly vacuous: {stats.get('pair-probes', 0)} probes, {verdicts['second-run-same']} repeat comparisons")
    out.update({"verdicts": dict(verdicts), "pipeline_runs": stats.get("runs", 0), "leaf_pairs": stats.get("pairs", 0),
                "probes": stats.get("pair-probes", 0), "first_leaf_rejects_class": stats.get("pair-class-rejected-by-first-leaf", 0),
                "group_pairs": {k[10:]: v for k, v in stats.items() if k.startswith("pairgroup:")},
                "payload_classes": {k[10:]: v for k, v in stats.items() if k.startswith("pairclass:")},
                "base_scenarios_run_twice": stats.get("base-scenarios-run-twice", 0)})
    return out


def run(ctx):
    ctx.prepare()
    ctx.obligations("NGF.Props.C04")
    ctx.obligations("NGF.Props.C04Print")
    if ctx.tier == "thorough":
        ctx.leanchecker("NGF.Props.C04")
        ctx.leanchecker("NGF.Props.C04Print")
    if not getattr(ctx, "harness_ok", False):
        ctx.broken("harness does not build against the current tree", detail="\n".join(ctx.build_errors))
    for e in getattr(ctx, "translator_errors", []):
        if "Regexes" in e or "Templates" in e:
            ctx.broken(f"translator could not extract a fact: {e}", kind="obligation")

    thorough = ctx.tier == "thorough"

    # ------------------------------------------------ 1. validator / regex correspondence (Go regexp vs Lean Regex)
    vlines = ctx.harness(["-mode", "regex", "-seed", ctx.seed, "-n", 60000 if thorough else 2500]) or []
    vin, vexp = [], []
    for l in vlines:
        f = l.split("\t")
        if len(f) == 4 and f[0] == "V":
            vin.append(f[1] + "\t" + f[2])
            vexp.append(f[3])
        elif f[0] == "C" and "\\=" in f:
            k = f.index("\\=")    # `\=` cannot be produced by the escaping of a value
            vin.append("\t".join(f[1:k]))
            vexp.append("\t".join(f[k + 1:]))
    vout = ctx.driver("regex", vin) if vin else []
    vdiffs, vacc, vnames = 0, collections.Counter(), collections.Counter()
    mism = [i for i, (want, got) in enumerate(zip(vexp, vout)) if want != got]
    for i, (q, want) in enumerate(zip(vin, vexp)):
        vnames[q.split("\t")[0]] += 1
        vacc[want if want in ("0", "1") else "str"] += 1
    for i in mism:
        vdiffs += 1
        if vdiffs <= 3:
            ctx.broken(f"validator model and implementation disagree on {vin[i]!r}: impl {vexp[i]} / model {vout[i]}",
                       replay={"validator_input": vin[i], "impl": vexp[i], "model": vout[i]})

    # ------------------------------------------------ 2. search on the real pipeline, judged by the Lean lexer
    args = ["-mode", "search", "-seed", ctx.seed, "-workers", 12 if thorough else 4,
            "-stride", 1 if thorough else 4, "-combos", 12 if thorough else 1]
    if thorough:
        args.append("-thorough")
    if ctx.replay_in:
        try:
            rp = json.load(open(ctx.replay_in))
            only = rp.get("input", {}).get("meta", {}).get("path")
            if only:
                args += ["-only", only, "-stride", 1]
        except Exception:
            pass
    lines = ctx.harness(args) or []
    jin, metas, stats, inconclusive = [], {}, {}, []
    for l in lines:
        tag = l[:1]
        if tag in "FBPQ" and l[1:2] == "\t":
            jin.append(l)
        elif tag == "M":
            m = json.loads(l[2:])
            metas[m["id"]] = m
        elif tag == "S":
            _, k, v = l.split("\t")
            stats[k] = int(v)
        elif tag == "X":
            inconclusive.append(l[2:])
    for x in inconclusive:
        ctx.broken(f"base scenario unusable: {x}")
    jout = ctx.driver("judge", jin) if jin else []

    verdicts = collections.Counter()
    outcome_by_leaf = collections.defaultdict(collections.Counter)
    inside_samples, reject_samples = [], []
    nfind = 0
    for l, v in zip(jin, jout):
        if l[0] not in "PQ":
            if l[0] == "B" and not v.startswith("base "):
                ctx.broken(f"baseline files do not lex: {v}", replay={"baseline": l.split('\t')[1]})
            continue
        cid = int(l.split("\t")[1])
        m = metas.get(cid)
        if m is None:
            continue
        leaf = m["generic"]
        if m.get("panic"):
            # crashes are C05's business; here they only make the probe inconclusive
            verdicts["panic"] += 1
            continue
        if l[0] == "Q":
            # empty string in a *string field: rejected, or same as unset, or skeleton of the benign run kept
            changed = bool(m.get("conds_new") or m.get("conds_gone"))
            if changed:
                verdicts["empty-rejected-with-status"] += 1
            elif m.get("same_as_unset"):
                verdicts["empty-same-as-unset"] += 1
            elif v == "ok empty-same":
                verdicts["empty-keeps-skeleton"] += 1
            else:
                verdicts["fail-empty-argument"] += 1
                outcome_by_leaf[leaf]["FAIL-empty-argument"] += 1
                nfind += 1
                ctx.finding(f"C04:{leaf}:empty-argument",
                            f"{m['path']} = '' ({m['base']}/{m['variant']}): the empty string is accepted without a status "
                            f"change, is not equivalent to the unset field, and removes an argument: {v}",
                            {"meta": m, "verdict": v})
            continue
        if v == "ok absent":
            changed = bool(m.get("conds_new") or m.get("conds_gone"))
            if m["reaches"] and not changed:
                # the benign value is rendered, the hostile one vanished and no status changed
                verdicts["dropped-silently"] += 1
                outcome_by_leaf[leaf]["dropped-silently"] += 1
                nfind += 1
                ctx.finding(sig_for(m, "dropped-silently"),
                            f"{m['path']}: value {m['value']!r} is not rendered (the benign {m['benign']!r} is"
                            f"{', with ' + m['gate'] if m.get('gate') else ''}) "
                            f"and no status condition reports it", {"meta": m, "verdict": v})
            elif m["reaches"]:
                verdicts["rejected-with-status"] += 1
                outcome_by_leaf[leaf]["rejected"] += 1
                if len(reject_samples) < 3:
                    reject_samples.append({"path": m["path"], "value": m["value"], "conds_new": m.get("conds_new", [])[:2]})
            else:
                verdicts["not-rendered"] += 1
                outcome_by_leaf[leaf]["not-rendered"] += 1
        elif v.startswith("ok inside"):
            verdicts["inside-argument"] += 1
            outcome_by_leaf[leaf]["inside"] += 1
            if len(inside_samples) < 4 and m["class"] not in ("name-dash", "name-dot"):
                inside_samples.append({"path": m["path"], "value": m["value"], "verdict": v})
        elif v.startswith("fail "):
            parts = v.split(" ", 4)
            clause = parts[1]
            gate = f", with {m['gate']}" if m.get("gate") else ""
            verdicts["fail-" + clause] += 1
            outcome_by_leaf[leaf]["FAIL-" + clause] += 1
            nfind += 1
            ctx.finding(sig_for(m, clause),
                        f"{m['path']} = {m['value']!r} ({m['base']}/{m['variant']}{gate}): {clause} in {parts[2]}: "
                        f"{parts[4] if len(parts) > 4 else ''}", {"meta": m, "verdict": v})
        else:
            ctx.broken(f"judge could not decode case {cid}: {v}")

    print_tie = _print_stream(ctx)
    pairs = _pairs_stream(ctx)

    leaves_total = stats.get("leaves", 0)
    reaching = stats.get("leaves-reaching-config", 0)
    if leaves_total < 1000 or reaching < 100:
        ctx.broken(f"degenerate enumeration: {leaves_total} leaves, {reaching} reaching the configuration")
    distinct_nontrivial = sum(1 for lf, c in outcome_by_leaf.items() for k in c if k != "not-rendered")
    ctx.finish({
        "evaluations": len(metas) + len(vin) + print_tie.get("runs", 0) + pairs.get("pipeline_runs", 0),
        "distinct_nontrivial": verdicts["inside-argument"] + verdicts["rejected-with-status"] + nfind +
                               print_tie.get("hostile_accepted_compared", 0) + print_tie.get("hostile_rejected_benign_rendered", 0),
        "rule": "one evaluation = one run of the real pipeline (graph, dataplane, generator, status setters) on a base scenario "
                "with one string leaf replaced by a hostile value, judged by the Lean lexer against the run with a benign value of "
                "the same leaf; non-trivial = the benign value of that leaf reaches the generated files and the hostile value was "
                "either rendered (inside-argument / failing) or rejected with a status change. Plus validator-correspondence "
                "evaluations (real Go validator vs Lean model over the generated regex).",
        "samples": inside_samples + reject_samples,
        "traces_validated_against_impl": len(vin) - vdiffs,
        "validator_correspondence": {"evaluations": len(vin), "diffs": vdiffs, "accepted": vacc.get("1", 0),
                                     "rejected": vacc.get("0", 0), "composed_strings": vacc.get("str", 0),
                                     "validators": len(vnames)},
        "print_tie": print_tie,
        "same_value_pairs": pairs,
        "pipeline_runs": stats.get("runs", 0),
        "probes": len(metas),
        "leaves_enumerated": leaves_total,
        "leaves_whose_benign_value_reaches_files": reaching,
        "distinct_file_contents_lexed": stats.get("distinct-file-contents", 0),
        "verdict_histogram": dict(verdicts),
        "payload_class_histogram": {k[6:]: v for k, v in stats.items() if k.startswith("class:")},
        "variant_histogram": {k[8:]: v for k, v in stats.items() if k.startswith("variant:")},
        "leaf_type_histogram": {k[9:]: v for k, v in stats.items() if k.startswith("leaftype:")},
        "leaf_outcomes_rendered": {lf: dict(c) for lf, c in sorted(outcome_by_leaf.items())
                                   if any(k != "not-rendered" for k in c)},
        "distinct_leaf_outcome_pairs": distinct_nontrivial,
    }, assumptions=[
        "NGINX tokenises as the Lean model of ngx_conf_read_token (NGF.Model.NginxLex); no nginx binary in the sandbox",
        "metadata.name/namespace syntax (DNS-1123) is enforced by the API server independently of CRD schemas, so object names "
        "are probed with admissible odd names only; every other string leaf gets the full hostile family (CRD validation bypassed)",
        "dataflow completeness (every field reaches the files only through its validator) is decided by the search on "
        "three fully populated base scenarios x four variants (valid, invalid NginxProxy, partially invalid routes, NGINX Plus), "
        "not proved",
        "Go regexp == Lean Regex semantics on valid UTF-8 strings (checked by correspondence, proved only inside Lean)",
    ], trusted=[
        "Lean model of the NGINX tokeniser (environment model)",
        "regexp/syntax parse of the validator regexes (translator) and the Böhm-Berarducci emission",
    ])
