"""C07 — reported status tells the truth about what is programmed (DESIGN.md §6 C07, §8)."""
import collections
import json
import os
import subprocess

import vcheck


def run(ctx):
    ctx.prepare()
    ctx.obligations("NGF.Props.C07")
    # fragment stage: status truth against Pipeline.gen from ONE scenario (imports NGF.Props.C07 for the decision core)
    ctx.obligations("NGF.Props.C07Fragment")
    # TLS layer of the pipeline model (listener validity / conditions vs. genT)
    ctx.obligations("NGF.Props.C07Tls")
    if ctx.tier == "thorough":
        ctx.leanchecker("NGF.Props.C07")
        ctx.leanchecker("NGF.Props.C07Fragment")
        ctx.leanchecker("NGF.Props.C07Tls")

    n = 180 if ctx.tier == "quick" else 6000
    lines = []
    # corpus first: minimised cluster states (JSON arrays of objects) that once failed
    cdir = os.path.join(vcheck.VERIF, "corpus", "C07")
    ncorpus = 0
    if os.path.isdir(cdir):
        for fn in sorted(os.listdir(cdir)):
            if fn.endswith(".json"):
                out = ctx.harness(["-objs", os.path.join(cdir, fn)])
                if out:
                    lines += out
                    ncorpus += len(out)
    if ctx.tier == "quick":
        lines += ctx.harness(["-seed", ctx.seed, "-n", n]) or []
        # handler stream: batch sequences through the REAL eventHandlerImpl.HandleEventBatch (one line per batch)
        lines += ctx.harness(["-seed", ctx.seed + 104729, "-hseq", 70, "-hb", 5]) or []
        # fragment stream: scenarios inside the fragment of Model/Pipeline.lean; lines carry the flat scenario
        lines += ctx.harness(["-seed", ctx.seed + 7919, "-frag", 160]) or []
        # TLS fragment stream: scenarios of Model/PipelineTls.lean (HTTPS listeners, Secrets, port conflicts); "flat" + "secrets"
        lines += ctx.harness(["-seed", ctx.seed + 15485863, "-tls", 120]) or []
    else:
        # 16 independent streams
        per = n // 16
        procs = []
        for k in range(16):
            binp = os.path.join(ctx.bindir, "c07")
            if not os.path.exists(binp):
                break
            procs.append(subprocess.Popen([binp, "-seed", str(ctx.seed * 1000 + k), "-n", str(per)],
                                          stdout=subprocess.PIPE, text=True))
            procs.append(subprocess.Popen([binp, "-seed", str(ctx.seed * 1000 + 500 + k), "-hseq", "150", "-hb", "6"],
                                          stdout=subprocess.PIPE, text=True))
            procs.append(subprocess.Popen([binp, "-seed", str(ctx.seed * 1000 + 800 + k), "-frag", "400"],
                                          stdout=subprocess.PIPE, text=True))
            procs.append(subprocess.Popen([binp, "-seed", str(ctx.seed * 1000 + 900 + k), "-tls", "250"],
                                          stdout=subprocess.PIPE, text=True))
        for p in procs:
            out, _ = p.communicate()
            lines += out.splitlines()
    if not getattr(ctx, "harness_ok", False):
        ctx.broken("harness does not build against the current tree", detail="\n".join(ctx.build_errors))
    lines = [l for l in lines if l.startswith("{")]

    # (a) correspondence: model(summary of the real graph) == real statuses
    outs = ctx.driver("model", lines) if lines else []
    diffs = 0
    for l, o in zip(lines, outs):
        if o != "ok":
            diffs += 1
            if diffs <= 3:
                d = json.loads(l)
                ctx.broken(f"model and implementation disagree on statuses of case {d['id']}: {o[:300]}",
                           replay={"case": d["id"], "model": o, "sum": d["sum"], "st": d["st"]})

    # (a') fragment correspondence: statuses computed by Model/PipelineStatus from the SAME Pipeline.Scenario that
    # Pipeline.gen turns into the configuration (PipelineTie.toFragment of the flat scenario) == real statuses
    frag_lines = [l for l in lines if l.startswith('{"id":"f') and '"flat":' in l]
    frag = {"cases": len(frag_lines), "compared": 0, "in_fragment_wf": 0, "outside": collections.Counter(), "diffs": 0,
            "routes": 0, "routes_with_status": 0, "parents": 0, "listeners": 0, "ignored_gateways": 0,
            "invalid_routes": 0, "parents_resolvedrefs_false": 0, "reasons": collections.Counter(),
            "attached_routes_values": collections.Counter(), "class_state": collections.Counter(),
            "view": collections.Counter()}
    fouts = ctx.driver("fragment", frag_lines) if frag_lines else []
    if frag_lines and len(fouts) != len(frag_lines):
        ctx.broken(f"fragment driver answered {len(fouts)} lines for {len(frag_lines)} cases")
    for l, o in zip(frag_lines, fouts):
        if o.startswith("out "):
            frag["outside"][o[4:]] += 1
            continue
        if o == "skip":
            continue
        if not (o.startswith("ok ") or o.startswith("diff ")):
            ctx.broken(f"fragment driver could not process case {json.loads(l)['id']}: {o[:300]}")
            continue
        frag["compared"] += 1
        stats = o.split(" ## ")[0].split()[1:]
        kv = dict(x.split("=", 1) for x in stats if "=" in x)
        for key, field in (("routes", "routes"), ("withStatus", "routes_with_status"), ("parents", "parents"),
                           ("listeners", "listeners"), ("ignored", "ignored_gateways"), ("invalidRoutes", "invalid_routes"),
                           ("unresolved", "parents_resolvedrefs_false")):
            frag[field] += int(kv.get(key, 0))
        for item in filter(None, kv.get("reasons", "").split(",")):
            name, _, cnt = item.rpartition(":")
            frag["reasons"][name] += int(cnt)
        for item in filter(None, kv.get("attached", "").split(",")):
            name, _, cnt = item.rpartition(":")
            frag["attached_routes_values"][name] += int(cnt)
        frag["class_state"][kv.get("class", "?")] += 1
        frag["view"][kv.get("view", "?")] += 1
        if kv.get("inFragment") == "true":
            frag["in_fragment_wf"] += 1
        if o.startswith("diff "):
            frag["diffs"] += 1
            if frag["diffs"] <= 3:
                d = json.loads(l)
                ctx.broken(f"PipelineStatus (statuses from the Pipeline scenario) and the implementation disagree on case "
                           f"{d['id']}: {o[:600]}",
                           replay={"case": d["id"], "fragment": o, "flat": d["flat"], "st": d["st"], "sum": d["sum"],
                                   "replay_cmd": "harness/cmd/c07 -seed S -frag N -only I (id = f<S>-<I>-<ok|err>)"})
    if ctx.tier == "quick" and getattr(ctx, "harness_ok", False) and frag["compared"] < 100:
        ctx.broken(f"fragment stream: only {frag['compared']} of {frag['cases']} cases were inside the fragment")

    # (a'') TLS layer: listener / Gateway / route statuses computed by Model/PipelineStatusTls from the SAME ScenarioT that
    # PipelineTls.genT turns into the configuration (PipelineTlsTie.toFragmentT, the view C16 validates against the real files)
    tls_lines = [l for l in lines if l.startswith('{"id":"t') and '"flat":' in l]
    tls = {"cases": len(tls_lines), "compared": 0, "outside": collections.Counter(), "diffs": 0, "listeners": 0,
           "invalid_listeners": 0, "conflicted": 0, "secret_unresolved": 0, "certificateRefs_rejected": 0,
           "attachedRoutes_on_invalid_listeners": 0, "parent_entries": 0, "reasons": collections.Counter()}
    touts = ctx.driver("tls", tls_lines) if tls_lines else []
    if tls_lines and len(touts) != len(tls_lines):
        ctx.broken(f"tls driver answered {len(touts)} lines for {len(tls_lines)} cases")
    for l, o in zip(tls_lines, touts):
        if o.startswith("out "):
            tls["outside"][o[4:]] += 1
            continue
        if o == "skip":
            continue
        if not (o.startswith("ok ") or o.startswith("diff ")):
            ctx.broken(f"tls driver could not process case {json.loads(l)['id']}: {o[:300]}")
            continue
        tls["compared"] += 1
        kv = dict(x.split("=", 1) for x in o.split(" ## ")[0].split()[1:] if "=" in x)
        for key, field in (("listeners", "listeners"), ("invalid", "invalid_listeners"), ("conflicted", "conflicted"),
                           ("unresolved", "secret_unresolved"), ("certRejected", "certificateRefs_rejected"),
                           ("attachedOnInvalid", "attachedRoutes_on_invalid_listeners"), ("parents", "parent_entries")):
            tls[field] += int(kv.get(key, 0))
        for item in filter(None, kv.get("reasons", "").split(",")):
            name, _, cnt = item.rpartition(":")
            tls["reasons"][name] += int(cnt)
        if o.startswith("diff "):
            tls["diffs"] += 1
            if tls["diffs"] <= 3:
                d = json.loads(l)
                ctx.broken(f"PipelineStatusTls (statuses from the ScenarioT of the TLS pipeline model) and the implementation disagree on "
                           f"case {d['id']}: {o[:600]}",
                           replay={"case": d["id"], "tls": o, "flat": d["flat"], "st": d["st"], "sum": d["sum"],
                                   "replay_cmd": "harness/cmd/c07 -seed S -tls N -only I (id = t<S>-<I>-<ok|err>)"})
    if ctx.tier == "quick" and getattr(ctx, "harness_ok", False) and tls["compared"] < 80:
        ctx.broken(f"tls stream: only {tls['compared']} of {tls['cases']} cases were inside the fragment")

    # (b) the property itself, evaluated by the Lean judge on real configuration + real statuses
    verdicts = ctx.driver("judge", lines) if lines else []
    classes = collections.Counter()
    skipped = collections.Counter()
    tags = collections.Counter()
    sizes = collections.Counter()
    nontrivial = set()
    panics = 0
    samples = []
    hbatches = collections.Counter()
    reason_stats = collections.Counter()
    usp_hist = collections.Counter()   # (winning Gateway valid?, #targetRefs naming referenced Services, #ancestors) of every UpstreamSettingsPolicy
    fresh_cases = 0                    # handler-stream cases held against the statuses of a fresh handler (recovery clause)
    svc_cases = collections.Counter()
    for l, v in zip(lines, verdicts):
        # statistic only (C07 does not prescribe the REASON of an Accepted=False condition): never a finding
        v, _, rs = v.partition(" ## ")
        for tag in filter(None, rs.split(";")):
            reason_stats[tag.partition("@")[0]] += 1
        d = json.loads(l)
        gwsum = d["sum"].get("gateway")
        for pol in d["sum"].get("policies") or []:
            if pol["kind"] == "UpstreamSettingsPolicy":
                usp_hist[f"gateway={'valid' if gwsum and gwsum['valid'] else 'invalid' if gwsum else 'none'} "
                         f"referencedServiceTargets={pol.get('svcRefd', 0)} ancestors={len(pol['ancestors'])}"] += 1
        if d.get("fresh") is not None and d.get("h"):
            fresh_cases += 1
        if "-svc" in d["id"]:
            svc_cases["after-failed-apply" if d["reloadErr"] else "after-successful-apply"] += 1
        if d.get("h"):
            b = d["h"]["batches"][-1]
            out = "ok" if (b["w"] and b["r"] and b["api"]) else ("write-fails" if not b["w"] else
                                                                 ("reload-fails" if not b["r"] else "plus-api-fails"))
            hbatches[("plus " if d["h"]["plus"] else "oss ") + {"c": "ClusterStateChange", "e": "EndpointsOnlyChange",
                                                                  "n": "NoChange"}[b["ct"]] + " " + out] += 1
        for t, c in (d.get("tags") or {}).items():
            tags[t] += c
        nroutes = len(d["sum"].get("routes") or [])
        sizes[min(nroutes, 8)] += 1
        if d.get("panic"):
            panics += 1
        # non-trivial: a winning gateway with listeners and at least one route in the graph
        gw = d["sum"].get("gateway")
        if gw and gw.get("listeners") and nroutes > 0:
            nontrivial.add(json.dumps([d["objs"], d["reloadErr"]], sort_keys=True))
        if len(samples) < 3 and nroutes > 2:
            samples.append({"id": d["id"], "routes": [r["kind"] + "/" + r["ns"] + "/" + r["name"] for r in d["sum"]["routes"]],
                            "reloadErr": d["reloadErr"], "verdict": v[:200]})
        if v == "ok":
            classes["ok"] += 1
            continue
        if v.startswith("skip "):
            skipped[v[5:]] += 1
            continue
        if v.startswith("bad-op"):
            ctx.broken(f"judge could not decode case {d['id']}: {v[:200]}")
            continue
        for tag in v[5:].split(";"):
            sig, _, detail = tag.partition("@")
            classes[sig] += 1
            ctx.finding(f"C07:{sig}", f"status does not tell the truth: {sig} ({detail}) in case {d['id']}",
                        {"case": d["id"], "failure": tag, "reloadErr": d["reloadErr"],
                         "replay_cmd": "harness/cmd/c07 -seed S -only I -dump (id = s<S>-<I>-<ok|err>)",
                         "batch_sequence": d.get("h"), "truth": d.get("failKind"),
                         "objs": d["objs"], "sum": d["sum"], "st": d["st"], "conf": d["conf"]})

    # The statuses judged above reach the API server through mechanisms that are the subject of sibling properties;
    # C07's end-to-end claim assumes them, and the assumption is discharged by the siblings' checks on the same tree.
    ctx.dependency("C09", "computed statuses are written through the leader-aware group updater (newest status survives, "
                          "nothing older is written after it)")
    ctx.dependency("C08", "computed statuses are written by the merging setters through the retrying writer")
    ctx.dependency("C12", "Programmed/Accepted depend on the reload result the handler remembers")

    ctx.finish({
        "evaluations": len(lines),
        "distinct_nontrivial": len(nontrivial),
        "rule": "cluster states (shared scen generator + C07 emphasis) x reload outcome {ok, failed} run through the REAL "
                "graph builder, configuration builder, status.Prepare*Requests and status setters; non-trivial = distinct "
                "(objects, reload outcome) with a winning Gateway that has listeners and at least one route in the graph; plus a "
                "handler stream: batch sequences {ClusterStateChange, EndpointsOnlyChange, NoChange} x {ok, ReplaceFiles error, "
                "Reload error, Plus API error} through the REAL eventHandlerImpl.HandleEventBatch, judged after every batch; plus a "
                "fragment stream: scenarios inside the fragment of Model/Pipeline.lean whose real statuses are compared with "
                "Model/PipelineStatus (see fragment_stream) and judged like all others",
        "samples": samples,
        "traces_validated_against_impl": len(lines) - diffs,
        "correspondence_diffs": diffs,
        "corpus_cases": ncorpus,
        "judge_classes": dict(classes),
        "skipped": dict(skipped),
        "panics": panics,
        "generator_tags": dict(tags),
        "handler_batches": dict(hbatches),
        "tls_stream": {
            "what": "scenarios of the TLS layer (C16's generator + parentRefs by listener): REAL Gateway / listener conditions as sets of "
                    "(type, status, observedGeneration), attachedRoutes per listener (also of INVALID listeners) and route parent entries == "
                    "PipelineStatusTls of PipelineTlsTie.toFragmentT(flat, secrets); ResolvedRefs masked for listeners whose certificateRefs "
                    "the validator rejects",
            "cases": tls["cases"], "compared": tls["compared"], "diffs": tls["diffs"], "outside_fragment": dict(tls["outside"]),
            "listeners_compared": tls["listeners"], "invalid_listeners": tls["invalid_listeners"],
            "listeners_in_protocol_conflict": tls["conflicted"], "listeners_secret_unresolved": tls["secret_unresolved"],
            "listeners_certificateRefs_rejected": tls["certificateRefs_rejected"],
            "attachedRoutes_on_invalid_listeners": tls["attachedRoutes_on_invalid_listeners"],
            "parent_entries_compared": tls["parent_entries"], "accepted_reason_histogram": dict(tls["reasons"]),
        },
        "service_policy_ancestors_histogram": dict(usp_hist),
        "handler_cases_compared_with_fresh_handler": fresh_cases,
        "out_of_batch_gateway_writes": dict(svc_cases),
        "reason_disagreements": dict(reason_stats),
        "reason_disagreements_note": "statistic, not a verdict: Accepted=False reasons (NoMatchingParent / NotAllowedByListeners / "
                                     "NoMatchingListenerHostname) that differ from the Gateway API reading of the objects; the property "
                                     "does not prescribe reasons, they are compared in the model<->implementation correspondence only",
        "fragment_stream": {
            "what": "in-fragment scenarios (C02's fragment generator + several parentRefs incl. ignored/foreign/missing Gateways and "
                    "non-Gateway kinds, section-name misses, namespace-not-allowed, hostname misses, all-rules-invalid routes, "
                    "missing/foreign GatewayClass): REAL statuses == PipelineStatus.routeParentStatuses / gatewayStatus / ignored "
                    "Gateways of PipelineTie.toFragment(flat scenario) — type, status, reason, observedGeneration, entry order, "
                    "attachedRoutes; the reason of ResolvedRefs=False is masked",
            "cases": frag["cases"], "compared": frag["compared"], "diffs": frag["diffs"],
            "wellformed_inFragment": frag["in_fragment_wf"], "outside_fragment": dict(frag["outside"]),
            "routes": frag["routes"], "routes_with_status": frag["routes_with_status"],
            "parent_entries_compared": frag["parents"], "listeners_compared": frag["listeners"],
            "ignored_gateways_compared": frag["ignored_gateways"], "invalid_routes": frag["invalid_routes"],
            "parent_entries_resolvedrefs_false": frag["parents_resolvedrefs_false"],
            "accepted_reason_histogram": dict(frag["reasons"]),
            "attachedRoutes_value_histogram": dict(frag["attached_routes_values"]),
            "gatewayclass_state": dict(frag["class_state"]),
            "fragment_view_vs_C02_toFragment": dict(frag["view"]),
        },
        "routes_in_graph_histogram": {str(k): v for k, v in sorted(sizes.items())},
    }, assumptions=[
        "Kubernetes API server: objects are admissible (CRD schema + CEL of gateway-api v1.2.1 experimental channel, after "
        "defaulting); the harness applies allowedRoutes defaulting and the parentRefs / listener uniqueness CEL rules",
        "the status objects are fresh (no entries of other controllers); C08 covers merging with existing entries",
        "HTTPRoute and GRPCRoute names are disjoint in the generator (dataplane MatchRule.Source carries no kind)",
        "fragment theorems (NGF.Props.C07Fragment): Pipeline.inFragment, parentsOK (no empty section name) and noDupRefs (no "
        "(Gateway, section) named twice — the known finding duplicate-parentref is the excluded region); Route.valid / Backend.valid "
        "of the fragment scenario come from the Lean oracle's reading of the objects, cross-checked by the status correspondence",
        "handler stream: generator, file manager and NGINX runtime manager are stubs whose outcome the harness chooses; the "
        "truth 'NGINX failed to take the last applied configuration' is what those stubs experienced",
    ], trusted=[
        "Lean judge NGF.Model.StatusJudge: an independent reading of Gateway API binding (parentRef/allowedRoutes/hostname "
        "intersection/TLS hostname claims) over the objects, combined with the REAL dataplane.Configuration",
        "facts of the real graph used by the judge: winning gateway's attachable listeners, per-route 'some BackendRef invalid' "
        "and 'extension filter unresolved', per-listener route maps (only to name the difference)",
        "fragment stream: harness/c02.Flatten (mechanical projection of the objects) and PipelineTie.toFragment / "
        "PipelineStatusTie.toFragmentV (which scenarios are inside the fragment); C02's translation validation ties Pipeline.gen of the "
        "same scenario to the real http.conf",
    ])
