"""C07 — reported status tells the truth about what is programmed (DESIGN.md §6 C07, §8)."""
import collections
import json
import os
import subprocess

import vcheck


def run(ctx):
    ctx.prepare()
    ctx.obligations("NGF.Props.C07")
    if ctx.tier == "thorough":
        ctx.leanchecker("NGF.Props.C07")

    n = 180 if ctx.tier == "quick" else 6000
    lines = []
    # corpus first: minimised cluster states (JSON arrays of objects) that once failed
    cdir = os.path.join(vcheck.VERIF, "corpus", "C07")
    ncorpus = 0
    if os.path.isdir(cdir):
        for fn in sorted(os.listdir(cdir)):
            if fn.endswith(".json"):
                out = ctx.harness(["-objs", os.path.join(cdir, fn)])
                if out:
                    lines += out
                    ncorpus += len(out)
    if ctx.tier == "quick":
        lines += ctx.harness(["-seed", ctx.seed, "-n", n]) or []
        # handler stream: batch sequences through the REAL eventHandlerImpl.HandleEventBatch (one line per batch)
        lines += ctx.harness(["-seed", ctx.seed + 104729, "-hseq", 70, "-hb", 5]) or []
    else:
        # 16 independent streams
        per = n // 16
        procs = []
        for k in range(16):
            binp = os.path.join(ctx.bindir, "c07")
            if not os.path.exists(binp):
                break
            procs.append(subprocess.Popen([binp, "-seed", str(ctx.seed * 1000 + k), "-n", str(per)],
                                          stdout=subprocess.PIPE, text=True))
            procs.append(subprocess.Popen([binp, "-seed", str(ctx.seed * 1000 + 500 + k), "-hseq", "150", "-hb", "6"],
                                          stdout=subprocess.PIPE, text=True))
        for p in procs:
            out, _ = p.communicate()
            lines += out.splitlines()
    if not getattr(ctx, "harness_ok", False):
        ctx.broken("harness does not build against the current tree", detail="\n".join(ctx.build_errors))
    lines = [l for l in lines if l.startswith("{")]

    # (a) correspondence: model(summary of the real graph) == real statuses
    outs = ctx.driver("model", lines) if lines else []
    diffs = 0
    for l, o in zip(lines, outs):
        if o != "ok":
            diffs += 1
            if diffs <= 3:
                d = json.loads(l)
                ctx.broken(f"model and implementation disagree on statuses of case {d['id']}: {o[:300]}",
                           replay={"case": d["id"], "model": o, "sum": d["sum"], "st": d["st"]})

    # (b) the property itself, evaluated by the Lean judge on real configuration + real statuses
    verdicts = ctx.driver("judge", lines) if lines else []
    classes = collections.Counter()
    skipped = collections.Counter()
    tags = collections.Counter()
    sizes = collections.Counter()
    nontrivial = set()
    panics = 0
    samples = []
    hbatches = collections.Counter()
    for l, v in zip(lines, verdicts):
        d = json.loads(l)
        if d.get("h"):
            b = d["h"]["batches"][-1]
            out = "ok" if (b["w"] and b["r"] and b["api"]) else ("write-fails" if not b["w"] else
                                                                 ("reload-fails" if not b["r"] else "plus-api-fails"))
            hbatches[("plus " if d["h"]["plus"] else "oss ") + {"c": "ClusterStateChange", "e": "EndpointsOnlyChange",
                                                                  "n": "NoChange"}[b["ct"]] + " " + out] += 1
        for t, c in (d.get("tags") or {}).items():
            tags[t] += c
        nroutes = len(d["sum"].get("routes") or [])
        sizes[min(nroutes, 8)] += 1
        if d.get("panic"):
            panics += 1
        # non-trivial: a winning gateway with listeners and at least one route in the graph
        gw = d["sum"].get("gateway")
        if gw and gw.get("listeners") and nroutes > 0:
            nontrivial.add(json.dumps([d["objs"], d["reloadErr"]], sort_keys=True))
        if len(samples) < 3 and nroutes > 2:
            samples.append({"id": d["id"], "routes": [r["kind"] + "/" + r["ns"] + "/" + r["name"] for r in d["sum"]["routes"]],
                            "reloadErr": d["reloadErr"], "verdict": v[:200]})
        if v == "ok":
            classes["ok"] += 1
            continue
        if v.startswith("skip "):
            skipped[v[5:]] += 1
            continue
        if v.startswith("bad-op"):
            ctx.broken(f"judge could not decode case {d['id']}: {v[:200]}")
            continue
        for tag in v[5:].split(";"):
            sig, _, detail = tag.partition("@")
            classes[sig] += 1
            ctx.finding(f"C07:{sig}", f"status does not tell the truth: {sig} ({detail}) in case {d['id']}",
                        {"case": d["id"], "failure": tag, "reloadErr": d["reloadErr"],
                         "replay_cmd": "harness/cmd/c07 -seed S -only I -dump (id = s<S>-<I>-<ok|err>)",
                         "batch_sequence": d.get("h"), "truth": d.get("failKind"),
                         "objs": d["objs"], "sum": d["sum"], "st": d["st"], "conf": d["conf"]})

    ctx.finish({
        "evaluations": len(lines),
        "distinct_nontrivial": len(nontrivial),
        "rule": "cluster states (shared scen generator + C07 emphasis) x reload outcome {ok, failed} run through the REAL "
                "graph builder, configuration builder, status.Prepare*Requests and status setters; non-trivial = distinct "
                "(objects, reload outcome) with a winning Gateway that has listeners and at least one route in the graph; plus a "
                "handler stream: batch sequences {ClusterStateChange, EndpointsOnlyChange, NoChange} x {ok, ReplaceFiles error, "
                "Reload error, Plus API error} through the REAL eventHandlerImpl.HandleEventBatch, judged after every batch",
        "samples": samples,
        "traces_validated_against_impl": len(lines) - diffs,
        "correspondence_diffs": diffs,
        "corpus_cases": ncorpus,
        "judge_classes": dict(classes),
        "skipped": dict(skipped),
        "panics": panics,
        "generator_tags": dict(tags),
        "handler_batches": dict(hbatches),
        "routes_in_graph_histogram": {str(k): v for k, v in sorted(sizes.items())},
    }, assumptions=[
        "Kubernetes API server: objects are admissible (CRD schema + CEL of gateway-api v1.2.1 experimental channel, after "
        "defaulting); the harness applies allowedRoutes defaulting and the parentRefs / listener uniqueness CEL rules",
        "the status objects are fresh (no entries of other controllers); C08 covers merging with existing entries",
        "HTTPRoute and GRPCRoute names are disjoint in the generator (dataplane MatchRule.Source carries no kind)",
        "handler stream: generator, file manager and NGINX runtime manager are stubs whose outcome the harness chooses; the "
        "truth 'NGINX failed to take the last applied configuration' is what those stubs experienced",
    ], trusted=[
        "Lean judge NGF.Model.StatusJudge: an independent reading of Gateway API binding (parentRef/allowedRoutes/hostname "
        "intersection/TLS hostname claims) over the objects, combined with the REAL dataplane.Configuration",
        "facts of the real graph used by the judge: winning gateway's attachable listeners, per-route 'some BackendRef invalid' "
        "and 'extension filter unresolved', per-listener route maps (only to name the difference)",
    ])
