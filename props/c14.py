"""C14 — conflicts resolve by age then name, independent of arrival and map iteration order (DESIGN.md §6 C14)."""
import collections
import concurrent.futures
import hashlib
import json
import os

import vcheck

KNOWN_OK = {"ok", "skip"}


def competitors(d):
    """number of competing objects at the site of this line (for the non-triviality rule)"""
    s = d["site"]
    if s == "gw":
        return sum(1 for g in d["gws"] if g["cls"] == d["class"])
    if s == "mr":
        return len({(r["kind"], r["src"]["ns"], r["src"]["name"]) for r in d["obs"]})
    if s == "lis":
        ports = collections.Counter(l["port"] for l in d["ls"] if l["entered"])
        return max(ports.values()) if ports else 0
    if s == "tls":
        return len(d["routes"])
    if s == "btp":
        return len(d["btps"])
    if s == "pol":
        groups = collections.Counter((p["gvk"], t) for p in d["pols"] if p["validBefore"] for t in p["targets"])
        return max(groups.values()) if groups else 0
    if s == "det":
        return d["n"]
    return 0


def check_model(d, out):
    """model/implementation correspondence for one line; returns None or a description of the mismatch"""
    s = d["site"]
    if out.startswith("bad-op"):
        return out
    if s == "gw":
        w, i = out.split(" ", 1)
        mw = w[2:]
        mi = set(x for x in i[2:].split(",") if x and x != "-")
        if mw != d["winner"] or mi != set(d["ignored"]):
            return f"gateways: model {out} / impl W={d['winner']} I={','.join(d['ignored'])}"
    elif s == "mr":
        want = ",".join(str(i) for i in range(len(d["obs"])))
        if out != want and not d["twin"]:
            return f"match rules at {d['where']}: model order {out} / impl {want}"
    elif s == "lis":
        m, i = out.split("] impl[")
        if m[len("model["):] != i[:-1]:
            return f"listeners: {out}"
    elif s in ("tls", "btp"):
        bad = [x for x in out.split(" ") if x and not x.endswith("same")]
        if bad:
            return f"{s}: {' '.join(bad)}"
    elif s == "pol":
        if " in=true " not in out:
            return f"policies: {out}"
    return None


def run(ctx):
    ctx.prepare()
    # Generated/*.lean is shared by all checks: hold the translator lock while the obligations are built so that a
    # concurrent check of another property (possibly on another VERIF_REPO) cannot swap the facts in between.
    with vcheck.Lock("translator"):
        vcheck.sh([vcheck.TRANSLATOR_BIN, "-repo", vcheck.REPO, "-out", vcheck.GENERATED])
        ctx.obligations("NGF.Props.C14")
        # permutation invariance of the pipeline fragment model (Model/Pipeline.gen); imported by Props/C14.lean
        ctx.obligations("NGF.Props.C14Pipeline")
        # the same for the layered models (references, endpoints, TLS, statuses, renderer port order)
        ctx.obligations("NGF.Props.C14Layers")
    if ctx.tier == "thorough":
        ctx.leanchecker("NGF.Props.C14")
        ctx.leanchecker("NGF.Props.C14Pipeline")
        ctx.leanchecker("NGF.Props.C14Layers")

    quick = ctx.tier == "quick"
    jobs = []  # (label, args)
    cdir = os.path.join(vcheck.VERIF, "corpus", "C14")
    if os.path.isdir(cdir):
        for fn in sorted(os.listdir(cdir)):
            if fn.endswith(".json"):
                jobs.append(("corpus:" + fn, ["-seed", ctx.seed, "-reps", 16 if quick else 48, "-replay", os.path.join(cdir, fn)]))
    layer_jobs = []  # stream `pipe`, layered families (refs / tls / base): references, endpoints, TLS, statuses per order
    pipe_jobs = []  # stream `pipe`: in-fragment states (harness/c02 generator) in several arrival orders
    if quick:
        jobs.append(("gen", ["-seed", ctx.seed, "-n", 200, "-reps", 8]))
        pipe_jobs.append(("pipe", ["-pipeline", "-seed", ctx.seed, "-n", 120, "-orders", 5]))
        layer_jobs.append(("layers", ["-pipelayers", "-seed", ctx.seed, "-n", 100, "-orders", 4]))
    else:
        for k in range(12):
            jobs.append((f"gen{k}", ["-seed", ctx.seed * 1000 + k, "-n", 420, "-reps", 32]))
        for k in range(4):
            jobs.append((f"perm{k}", ["-seed", ctx.seed * 1000 + 500 + k, "-n", 60, "-permall"]))
        for k in range(6):
            pipe_jobs.append((f"pipe{k}", ["-pipeline", "-seed", ctx.seed * 1000 + 700 + k, "-n", 250, "-orders", 8]))
        for k in range(6):
            layer_jobs.append((f"layers{k}", ["-pipelayers", "-seed", ctx.seed * 1000 + 800 + k, "-n", 200, "-orders", 6]))
    jobs += pipe_jobs + layer_jobs

    results = {}
    with concurrent.futures.ThreadPoolExecutor(max_workers=4 if quick else 14) as ex:
        futs = {ex.submit(ctx.harness, args): (label, args) for label, args in jobs}
        for f, (label, args) in futs.items():
            results[label] = (args, f.result() or [])
    if not getattr(ctx, "harness_ok", False):
        ctx.broken("harness does not build against the current tree", detail="\n".join(ctx.build_errors))

    pipe_labels = {j[0] for j in pipe_jobs + layer_jobs}
    lines, origin = [], []
    for label, args in [(j[0], j[1]) for j in jobs if j[0] not in pipe_labels]:
        for l in results[label][1]:
            if l.startswith("{"):
                lines.append(l)
                origin.append((label, args))
    verdicts = ctx.driver("judge", lines) if lines else []
    models = ctx.driver("model", lines) if lines else []

    sites = collections.Counter()
    verdict_hist = collections.Counter()
    comp_hist = collections.Counter()
    fam_tags = collections.Counter()
    distinct = set()
    nontrivial = set()
    evaluations = 0
    validated = 0
    diffs = 0
    panics = collections.Counter()
    samples = []
    dumped = {}

    def replay_for(d, label, args, line):
        """the scenario's objects (re-generated by the harness) so that the failure can be replayed"""
        rep = {"harness_args": [str(a) for a in args], "scenario": d.get("sc"), "line": line[:6000]}
        key = (label, d.get("sc"))
        if "-replay" in [str(a) for a in args]:
            rep["corpus_file"] = str(args[[str(a) for a in args].index("-replay") + 1])
        elif key not in dumped and len(dumped) < 6 and d.get("sc", -1) >= 0:
            seed = args[[str(a) for a in args].index("-seed") + 1]
            extra = ["-permall"] if "-permall" in args else []
            out = ctx.harness(["-seed", seed, "-dump", d["sc"]] + extra)
            dumped[key] = out[0] if out else None
        if dumped.get(key):
            try:
                rep["objects"] = json.loads(dumped[key])
            except Exception:
                pass
        return rep

    for line, (label, args), v, m in zip(lines, origin, verdicts, models):
        try:
            d = json.loads(line)
        except Exception:
            ctx.broken("harness emitted an undecodable line", detail=line[:300])
            continue
        s = d.get("site")
        sites[s] += 1
        if s == "tags":
            for k, n in d["tags"].items():
                fam_tags[k] += n
            continue
        if s == "sample":
            if len(samples) < 4:
                samples.append(f"scenario {d['sc']}: {d['desc']}")
            continue
        if s == "panic":
            panics[d["where"]] += 1
            continue
        if s == "skip":
            continue
        if s == "det":
            evaluations += d["n"]
        c = competitors(d)
        comp_hist[f"{s}:{min(c, 6)}"] += 1
        h = hashlib.sha1(line.encode()).hexdigest()
        distinct.add(h)
        if c >= 2:
            nontrivial.add(h)
        word = v.split(" ", 1)[0]
        verdict_hist[f"{s}:{word}" + (":" + v.split(" ")[1] if word in ("fail", "known") and " " in v else "")] += 1
        if word == "fail":
            sig = v.split(" ")[1]
            ctx.finding(f"C14:{sig}", f"C14 {v[5:400]}", replay_for(d, label, args, line))
        elif word == "known":
            for sig in v.split(" ")[1].split(","):
                what = {
                    "policy-conflict-order-dependent": "which policies are marked Conflicted depends on the iteration order of `possibles` in markConflictedPolicies when policies have several targetRefs",
                    "same-name-http-grpc-backend-group": "an HTTPRoute and a GRPCRoute with the same namespace/name share one backend group / tie in match-rule order; the winner depends on map iteration order",
                    "policy-target-overlap-order-dependent": "whether a policy on a route gets TargetConflict depends on the iteration order of the AcceptedHostnames map in buildHostPortPaths/checkForRouteOverlap",
                    "hostrule-grpc-last-writer": "hostRule.GRPC is last-writer-wins over `range l.Routes` when an HTTPRoute and a GRPCRoute share host and path",
                }.get(sig, sig)
                ctx.finding(f"C14:{sig}", what, replay_for(d, label, args, line))
        elif word == "bad-op":
            ctx.broken(f"the Lean judge could not decode a {s} line: {v[:200]}", replay={"line": line[:3000]})
        # correspondence with the model
        if m != "skip":
            bad = check_model(d, m)
            if bad is None:
                validated += 1
            else:
                diffs += 1
                if diffs <= 3:
                    ctx.broken(f"model and implementation disagree: {bad[:500]}", replay=replay_for(d, label, args, line))
        if s in ("gw", "tls", "pol", "btp") and c >= 3 and len(samples) < 10:
            samples.append(f"{s} sc{d['sc']} competitors={c} verdict={v[:60]} model={m[:100]}")

    # ---- stream `pipe`: one in-fragment state, several arrival orders, real pipeline vs Model/Pipeline.gen
    pipe = collections.Counter()
    pipe_outside = collections.Counter()
    pipe_tags = collections.Counter()
    pipe_lines, pipe_origin = [], []
    for label, args in pipe_jobs:
        for l in results[label][1]:
            if l.startswith("{"):
                pipe_lines.append(l)
                pipe_origin.append((label, args))
    pipe_answers = ctx.driver("pipeline", pipe_lines) if pipe_lines else []
    for l, (label, args), a in zip(pipe_lines, pipe_origin, pipe_answers):
        try:
            d = json.loads(l)
            a = json.loads(a)
        except Exception:
            ctx.broken("pipe stream: undecodable harness line or driver answer", detail=l[:300])
            continue
        s = d.get("site")
        if s == "tags":
            for k, n in d["tags"].items():
                pipe_tags[k] += n
            continue
        if s == "panic":
            panics[d["where"]] += 1
            continue
        if s != "pipe":
            continue
        rep = {"harness_args": [str(x) for x in args] + ["-only", str(d["sc"])], "scenario": d["sc"],
               "arrivals": [o["arrival"] for o in d["orders"]]}
        if "error" in a:
            ctx.broken(f"pipeline mode could not decode a harness line: {a}", replay=rep)
            continue
        pipe["scenarios"] += 1
        pipe["real_builds"] += len(d["orders"])
        evaluations += len(d["orders"])
        pipe["probes"] += a.get("probes", 0) * len(d["orders"])
        if a.get("abstracted"):
            pipe["real_conf_abstracted"] += 1
        j = a.get("judge", "")
        if j != "ok":
            pipe["judge_fail"] += 1
            sig = j.split(" ")[1] if " " in j else "pipeline-arrival-order"
            ctx.finding(f"C14:{sig}", f"C14 one cluster state, two arrival orders, different result: {j[5:900]}",
                        dict(rep, detail=j, line=l[:400000]))
        else:
            pipe["judge_ok"] += 1
        if not a.get("inFragment"):
            pipe["outside_fragment"] += 1
            pipe_outside[a.get("why", "")[:70]] += 1
            continue
        pipe["in_fragment"] += 1
        pipe["served"] += bool(a.get("served"))
        if a.get("gwsOfClass", 0) >= 2:
            pipe["with_competing_gateways"] += 1
        h = hashlib.sha1(json.dumps(d["orders"][0]["flat"], sort_keys=True).encode()).hexdigest()
        distinct.add(h)
        if a.get("gwsOfClass", 0) >= 2 or a.get("routes", 0) >= 2:
            nontrivial.add(h)
        if a.get("tie"):
            pipe["tie_differs"] += 1
            diffs += 1
            if pipe["tie_differs"] <= 3:
                ctx.broken("pipeline model and real generator disagree for an arrival order "
                           "(abstracted http.conf ≠ Pipeline.gen of the scenario in that order): " + a["tie"][:700],
                           replay=dict(rep, diff=a["tie"], line=l[:400000]))
        else:
            pipe["tie_equal_orders"] += a.get("orders", 0)
            validated += a.get("orders", 0)
        if a.get("hyps"):
            pipe["theorem_hypotheses_hold"] += 1
            if a.get("thm"):
                pipe["theorem_falsified"] += 1
                ctx.broken("a C14Pipeline theorem is false on a generated input: " + a["thm"][:700], kind="obligation",
                           replay=dict(rep, detail=a["thm"], line=l[:400000]))
        if a.get("rawDiffers", 0) > 0:
            pipe["scenarios_where_reordering_changes_raw_model_output"] += 1
        if len(samples) < 12 and a.get("gwsOfClass", 0) >= 2 and a.get("rawDiffers", 0) > 0:
            samples.append(f"pipe sc{d['sc']} {d['desc']} servers={a.get('servers')} locs={a.get('locs')} orders={a.get('orders')} "
                           f"raw-model-output-differs-in={a.get('rawDiffers')} arrival[1]={d['orders'][1]['arrival'][:160]}")
    if pipe_jobs and pipe["in_fragment"] == 0 and getattr(ctx, "harness_ok", False):
        ctx.broken("pipe stream is vacuous: no generated scenario is inside the fragment of Model/Pipeline",
                   detail=str(dict(pipe_outside)))

    # ---- stream `pipe`, layered families: the layered models per arrival order
    lay = collections.Counter()
    lay_stats = collections.defaultdict(collections.Counter)
    lay_tags = collections.Counter()
    lay_why = collections.Counter()
    lay_lines, lay_origin = [], []
    for label, args in layer_jobs:
        for l in results[label][1]:
            if l.startswith("{"):
                lay_lines.append(l)
                lay_origin.append((label, args))
    lay_answers = ctx.driver("layers", lay_lines) if lay_lines else []
    for l, (label, args), a in zip(lay_lines, lay_origin, lay_answers):
        try:
            d = json.loads(l)
            a = json.loads(a)
        except Exception:
            ctx.broken("layers stream: undecodable harness line or driver answer", detail=l[:300])
            continue
        s = d.get("site")
        if s == "tags":
            for k, n in d["tags"].items():
                lay_tags[k] += n
            continue
        if s == "panic":
            panics[d["where"]] += 1
            continue
        if s != "pipe":
            continue
        rep = {"harness_args": [str(x) for x in args] + ["-only", str(d["sc"])], "scenario": d["sc"], "family": d.get("fam"),
               "arrivals": [o["arrival"] for o in d["orders"]]}
        if "error" in a:
            ctx.broken(f"layers mode could not decode a harness line: {a}", replay=rep)
            continue
        fam = a.get("fam", "?")
        n_orders = len(d["orders"])
        lay[f"family:{fam}:scenarios"] += 1
        lay[f"family:{fam}:real_builds"] += n_orders
        evaluations += n_orders
        h = hashlib.sha1(json.dumps(d["orders"][0]["flat"], sort_keys=True).encode()).hexdigest()
        distinct.add(h)
        nontrivial.add(h)
        base = a.get("base", {})
        j = base.get("judge", "")
        if j and j != "ok":
            lay["judge_fail"] += 1
            sig = j.split(" ")[1] if " " in j else "pipeline-arrival-order"
            ctx.finding(f"C14:{sig}", f"C14 ({fam}) one cluster state, two arrival orders, different result: {j[5:900]}",
                        dict(rep, detail=j, line=l[:600000]))
        else:
            lay["judge_ok"] += 1
        if a.get("tlsJudge"):
            lay["judge_fail"] += 1
            ctx.finding("C14:pipeline-arrival-order-changes-tls-config",
                        f"C14 (tls) one cluster state, two arrival orders, different SSL servers / certificates: {a['tlsJudge'][:900]}",
                        dict(rep, detail=a["tlsJudge"], line=l[:600000]))
        if fam != "tls":
            if base.get("inFragment") and not base.get("tie"):
                lay["gen:tied_orders"] += base.get("orders", 0)
                validated += base.get("orders", 0)
            elif base.get("tie"):
                diffs += 1
                ctx.broken("layers stream: Pipeline.gen and the real generator disagree for an arrival order: " + base["tie"][:600],
                           replay=dict(rep, diff=base["tie"], line=l[:600000]))
            if base.get("thm"):
                ctx.broken("a C14Pipeline theorem is false on a generated input: " + base["thm"][:600], kind="obligation",
                           replay=dict(rep, detail=base["thm"], line=l[:600000]))
        for part, what in (("refs", "PipelineRefs.genR (references)"), ("ends", "PipelineEndpoints.httpUpstreams (endpoints)"),
                           ("tls", "PipelineTls.genT (TLS)"), ("status", "PipelineStatus (statuses)")):
            x = a.get(part)
            if x is None:
                continue
            if x.get("why"):
                lay[f"{part}:outside"] += 1
                lay_why[f"{part}: {x['why'][:60]}"] += 1
                continue
            lay[f"{part}:scenarios"] += 1
            for k, v in (x.get("stats") or {}).items():
                lay_stats[part][k] += v
            if x.get("tie"):
                lay[f"{part}:tie_differs"] += 1
                diffs += 1
                if lay[f"{part}:tie_differs"] <= 2:
                    ctx.broken(f"layers stream: {what} and the real output disagree for an arrival order: " + x["tie"][:700],
                               replay=dict(rep, diff=x["tie"], line=l[:600000]))
            else:
                lay[f"{part}:tied_orders"] += x.get("tied", 0)
                validated += x.get("tied", 0)
            if x.get("hyps"):
                lay[f"{part}:theorem_hypotheses_hold"] += 1
                if x.get("thm"):
                    lay[f"{part}:theorem_falsified"] += 1
                    ctx.broken("a C14Layers theorem is false on a generated input: " + x["thm"][:700], kind="obligation",
                               replay=dict(rep, detail=x["thm"], line=l[:600000]))
    if layer_jobs and getattr(ctx, "harness_ok", False):
        for part in ("refs", "ends", "tls", "status"):
            if lay[f"{part}:tied_orders"] == 0 and lay[f"{part}:tie_differs"] == 0:
                ctx.broken(f"layers stream is vacuous for the {part} layer: no scenario inside its fragment",
                           detail=str(dict(lay_why)))

    if sum(panics.values()) > max(3, sites["det"] // 20):
        ctx.broken(f"too many scenarios panicked (not this property's subject, but nothing was judged): {dict(panics)}")
    if sites["det"] == 0:
        ctx.broken("no scenario was built", detail=str(getattr(ctx, "harness_err", "")))

    ctx.finish({
        "evaluations": evaluations,
        "distinct_nontrivial": len(nontrivial),
        "rule": "evaluations = real builds (scenarios x repetitions with permuted arrival/batching, Go map order random per range); "
                "a case = one site observation (gateways / match rules of one path / listeners / TLS hostnames / BTPs / "
                "policies / determinism of one scenario); non-trivial = distinct case with at least two competitors at the site "
                "(for `det`: at least two builds); stream `pipe`: a case = one in-fragment cluster state (Model/Pipeline) built in "
                "several arrival orders, non-trivial = distinct state with at least two Gateways of the class or two HTTPRoutes; "
                "its per-order translation validations (abstractConf(real) = Pipeline.gen up to order) count as validated traces",
        "samples": samples,
        "traces_validated_against_impl": validated,
        "correspondence_diffs": diffs,
        "scenarios": sites["det"],
        "distinct_cases": len(distinct),
        "site_histogram": {k: v for k, v in sorted(sites.items()) if k},
        "verdict_histogram": dict(sorted(verdict_hist.items())),
        "competitors_per_site_histogram": dict(sorted(comp_hist.items())),
        "generator_tags": dict(sorted(fam_tags.items())),
        "pipeline_arrival_orders": dict(sorted(pipe.items())),
        "pipeline_arrival_orders_generator_tags": dict(sorted(pipe_tags.items())),
        "pipeline_arrival_orders_outside_fragment_reasons": dict(pipe_outside),
        "layers_arrival_orders": dict(sorted(lay.items())),
        "layers_arrival_orders_stats": {k: dict(sorted(v.items())) for k, v in sorted(lay_stats.items())},
        "layers_arrival_orders_generator_tags": dict(sorted(lay_tags.items())),
        "layers_arrival_orders_outside_reasons": dict(lay_why),
        "panics_in_code_under_test": dict(panics),
        "jobs": [j[0] for j in jobs],
    }, assumptions=[
        "Go: sort.Slice/sort.SliceStable return a permutation sorted w.r.t. less (SliceStable: keeping the order of equal elements); "
        "map iteration order is arbitrary (modelled by a permutation argument)",
        "objects of one kind have distinct (namespace, name); creation timestamps have second precision (metav1.Time)",
        "the policy `Conflicts` functions are abstracted as 'a compared field is set in both specs' (bit masks computed by the harness)",
    ], trusted=[
        "harness/c14 normalisation (servers by (port,name), locations by (modifier,path), upstream servers / map params / includes "
        "as sets, match keys by content, config version dropped, condition messages dropped)",
        "Lean re-implementation of hostname intersection (findAcceptedHostnames) used by the TLS judge",
        "stream pipe: PipelineTie.abstractConf (real http.conf + matches.json -> Conf), PipelineTie.confDiff (canonical text of a "
        "Conf: ports, servers, locations sorted), harness/c02 Flatten of the objects in arrival order, Model/NginxEval restricted "
        "to Conf (nginxEvalConf) as the meaning of a configuration",
    ])
