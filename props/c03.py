"""C03 — every generated configuration is loadable by NGINX (DESIGN.md §6 C03)."""
import collections
import hashlib
import json
import os
import re

# crossplane v0.4.71 does not know the NGINX Plus R33 mgmt directives; everything else it reports counts
XP_KNOWN_GAPS = ('unknown directive "license_token"', 'unknown directive "deployment_context"')
# clauses of the Lean judge that crossplane's parser/analyser can also see
XP_VISIBLE = {"syntax", "arity", "bad-context", "unknown-directive", "block-mismatch", "include-missing"}
REWRITE_SUFFIXES = ("([^?]*)?", "(?:/([^?]*))?")
# stage 2 (Model/Render): top-level directives of http.conf the render tie may ignore (RenderTie.knownDropped)
RENDER_KNOWN_DROPPED = {"http2", "map", "upstream"}
# clauses of the big judge that the small structural judge Render.wfDirs restates (subject of render_wellformed_fragment)
WF_CLAUSES = {"duplicate-listen-server-name", "duplicate-default-server", "duplicate-location", "match-key-missing",
              "redirect-target-missing", "variable-name-not-lexable", "duplicate-variable-definition", "bad-split-entry",
              "bad-percent", "percent-total", "unknown-variable", "bad-variable-syntax", "bad-listen"}


def _wf_relevant(c, d):
    """restriction of a big-judge issue to what wfDirs looks at (http.conf: servers, locations, split_clients, proxy_pass)"""
    if c not in WF_CLAUSES:
        return False
    if c in ("unknown-variable", "bad-variable-syntax"):
        return d.startswith("proxy_pass ")
    if c == "variable-name-not-lexable":
        return d.startswith("split_clients ")
    if c == "duplicate-variable-definition":
        return d.startswith("http $group_")
    return True


def classify(issue, case, all_issues):
    """Map one judge issue to a finding signature that names the failing input class."""
    c, d = issue["c"], issue["d"]
    if c == "variable-name-not-lexable" and re.match(r"split_clients \$group_[A-Za-z0-9_.]*\.[A-Za-z0-9_.]*_rule\d+$", d):
        return "C03:variable-name-with-dot"
    if c == "unknown-variable":
        m = re.match(r"(?:proxy|grpc)_pass \S*?\$(group_[A-Za-z0-9_.]+_rule\d+)", d)
        if m and "." in m.group(1):
            return "C03:variable-name-with-dot"
        m = re.search(r'unknown "(group_[A-Za-z0-9_]+_rule)\d+" variable$', d)
        if m and m.group(1) in case.get("shared_routes", []):
            return "C03:backend-group-key-shared-by-route-kinds"
    if c == "file-missing" and "_ssl_trusted_certificate /etc/nginx/secrets/cert_bundle_" in d:
        if d.split(" ")[1] in case.get("invalid_tls", []):
            return "C03:trusted-certificate-of-invalid-backend"
        if case.get("shared_routes"):
            return "C03:backend-group-key-shared-by-route-kinds"
    if c == "duplicate-variable-definition":
        m = re.match(r"http \$(group_[A-Za-z0-9_]+_rule\d+)$", d)
        if m and m.group(1) in case.get("colliding", []):
            return "C03:mangle-collision-double-hyphen"
    # the judge expands a file that is included twice in one block only once and reports it as duplicate-include, so a
    # duplicate-directive issue always has two DIFFERENT sources (e.g. two policies that both survived conflict resolution)
    if c == "duplicate-include" and re.match(r"/etc/nginx/includes/(ClientSettingsPolicy|ObservabilityPolicy)_\S+: ", d):
        return "C03:duplicate-policy-include-per-location"
    if c == "duplicate-directive" and d.endswith(" in location") and d.split(" ")[0] in case.get("cross_kind_csp", []):
        return "C03:policy-overlap-check-ignores-route-kind"
    if c == "duplicate-directive" and d.endswith(" in location") and d.split(" ")[0] in case.get("cross_route_csp", []):
        return "C03:policy-overlap-check-compares-hostname-lists"
    if c == "bad-regex":
        m = re.match(r"rewrite \^(\S*?): ", d)
        if m:
            body = m.group(1)
            for suf in REWRITE_SUFFIXES:
                if body.endswith(suf):
                    path = body[: -len(suf)]
                    if path.startswith("/") and re.search(r"[()*+]", path):
                        return "C03:unescaped-regex-metachar-in-rewrite"
    if c == "bad-percent" and d.startswith("-0.00% "):
        return "C03:split-clients-negative-zero-percent"
    if c == "unix-socket-path-too-long" and re.match(r"listen unix:/var/run/nginx/[a-z0-9.*-]+-\d+\.sock$", d):
        return "C03:unix-socket-path-too-long"
    if c == "duplicate-listen-server-name" and d in case.get("dup_ssl_404", []):
        return "C03:duplicate-ssl-server-from-listener-404"
    first = d.split(" ")[0]
    return f"C03:{c}:{first}" if re.fullmatch(r"[a-z_]{2,40}", first) else f"C03:{c}"


def _build_with_own_overlay(ctx):
    """The overlay json of vcheck injects the accessor files of ALL properties. When another property's accessor no longer
    compiles against the tree under test (e.g. it names an unexported identifier that the change removed), every harness
    build fails although harness/c03 itself is fine. Retry with only the accessors c03 needs: its own, C02's and
    C16's (harness/c03 imports harness/c02 and harness/c16)."""
    import subprocess
    import vcheck
    try:
        mod, ov = ctx._harness_mod()
        repl = json.load(open(ov))["Replace"]
        own = {k: v for k, v in repl.items() if re.search(r"/zz_verif_c(02|03|16)[^/]*\.go$", v)}
        ov2 = ov[:-5] + "-c03.json"
        open(ov2, "w").write(json.dumps({"Replace": own}, indent=1, sort_keys=True))
        out_bin = os.path.join(ctx.bindir, "c03")
        p = subprocess.run(["go", "build", "-tags", "verif", "-modfile", mod, "-overlay", ov2, "-o", out_bin, "./cmd/c03"],
                           cwd=os.path.join(vcheck.VERIF, "harness"), env=vcheck.GOENV, stdout=subprocess.PIPE, stderr=subprocess.PIPE, text=True)
        if p.returncode == 0:
            ctx.log("harness c03 rebuilt with its own overlay accessors only (another property's accessor does not compile)")
            ctx.notes.append("harness built without the overlay accessors of other properties: " + "; ".join(ctx.build_errors)[:400])
            ctx.harness_ok = True
            ctx.build_errors = []
            return True
        ctx.log("harness c03 with own overlay only FAILED:\n" + p.stderr[-1500:])
    except Exception as e:  # fall through to the ordinary "does not build" verdict
        ctx.log(f"own-overlay rebuild failed: {e}")
    return False


def run(ctx):
    ctx.prepare()
    if not getattr(ctx, "harness_ok", False):
        _build_with_own_overlay(ctx)
    ctx.obligations("NGF.Props.C03")
    ctx.obligations("NGF.Props.C03Render")
    if ctx.tier == "thorough":
        ctx.leanchecker("NGF.Props.C03")
        ctx.leanchecker("NGF.Props.C03Render")

    n = 1000 if ctx.tier == "quick" else 20000
    lines = ctx.harness(["-seed", ctx.seed, "-n", n])
    if lines is None or not getattr(ctx, "harness_ok", False):
        ctx.broken("harness does not build against the current tree", detail="\n".join(ctx.build_errors))
        lines = []
    if lines and getattr(ctx, "harness_rc", 0) != 0:
        ctx.broken(f"harness exited {ctx.harness_rc}", detail=ctx.harness_err)

    verdicts, models = _drive_parallel(ctx, lines) if lines else ([], [])

    clause_hist, sig_hist, tag_hist = collections.Counter(), collections.Counter(), collections.Counter()
    tokens = names = dirs = clean = evaluated = panics = 0
    lexdiffs, namediffs, xp_only, regex_stats = [], [], [], collections.Counter()
    regex_false_alarm = []
    wf_agree = wf_issues = 0
    wf_disagree = []
    distinct, samples = set(), []
    reported = set()
    for raw, v, m in zip(lines, verdicts, models):
        case = json.loads(raw)
        if case.get("static"):
            continue
        if v == "bad-op" or m == "bad-op":
            ctx.broken(f"driver could not decode case {case.get('id')}")
            continue
        v, m = json.loads(v), json.loads(m)
        evaluated += 1
        for t in case.get("tags", []):
            tag_hist[t] += 1
        if case.get("panic"):
            panics += 1
            ctx.finding(f"C03:panic:{case['panic'][:80]}", f"pipeline panics: {case['panic']}", _replay(ctx, case))
            continue
        if not case.get("files"):
            tag_hist["no-configuration-generated"] += 1
            continue
        issues = v.get("issues", [])
        tokens += v.get("tokens", 0)
        dirs += v.get("dirs", 0)
        names += m.get("n", 0)
        http = next((f["t"] for f in case["files"] if f["p"].endswith("/http.conf")), "")
        if "proxy_pass" in http or "grpc_pass" in http or "return 30" in http or "js_content" in http:
            distinct.add(hashlib.sha1(json.dumps(case["files"], sort_keys=True).encode()).hexdigest())
        if not issues:
            clean += 1
        for i in issues:
            clause_hist[i["c"]] += 1
            if i["c"] == "regex-unsupported":
                continue  # inconclusive: outside the PCRE subset of the judge (counted, never a verdict)
            sig = classify(i, case, issues)
            sig_hist[sig] += 1
            if sig not in reported:
                reported.add(sig)
                ctx.finding(sig, f"generated configuration is not loadable: {i['c']}: {i['d'][:300]}",
                            _replay(ctx, case, i))
        # the small structural judge (subject of render_wellformed_fragment) against the big judge, clause by clause
        big = {(i["c"], i["d"]) for i in issues if _wf_relevant(i["c"], i["d"])}
        small = {(i["c"], i["d"]) for i in v.get("wf", [])}
        wf_issues += len(small)
        # bad-listen: the big judge also sees stream.conf and the static files, wfDirs only http.conf
        if big == small or (small <= big and all(c == "bad-listen" for c, _ in big - small)):
            wf_agree += 1
        else:
            wf_disagree.append({"id": case["id"], "only_big_judge": sorted(big - small)[:3], "only_wfDirs": sorted(small - big)[:3]})
        if len(samples) < 4 and issues == [] and "proxy_pass" in http:
            samples.append({"id": case["id"], "tags": case.get("tags", []), "files": [f["p"] for f in case["files"]]})
        # trusted NGINX model against crossplane (independent implementation)
        lexdiffs += v.get("lexdiff", [])
        xe = [e for e in case.get("xperr", []) if not any(g in e for g in XP_KNOWN_GAPS)]
        if xe and not any(i["c"] in XP_VISIBLE for i in issues):
            xp_only.append({"id": case["id"], "crossplane": xe[:3]})
        # regex subset parser against Go regexp/syntax (Perl flags)
        for rx, go_ok in case.get("regex", {}).items():
            lean_bad = any(i["c"] == "bad-regex" and f"rewrite {rx}: " in i["d"] for i in issues)
            lean_unsup = any(i["c"] == "regex-unsupported" and f"rewrite {rx}: " in i["d"] for i in issues)
            key = ("unsupported" if lean_unsup else "bad" if lean_bad else "ok") + "/" + ("go-ok" if go_ok else "go-bad")
            regex_stats[key] += 1
            if lean_bad and go_ok:
                regex_false_alarm.append(rx)
        if m.get("diffs"):
            namediffs.append({"id": case["id"], "diffs": m["diffs"][:3]})

    for d in lexdiffs[:3]:
        ctx.broken(f"Lean tokeniser and crossplane disagree: {d[:300]}")
    for d in xp_only[:3]:
        ctx.broken(f"crossplane rejects a file set the Lean judge accepts syntactically: {d}", replay=d)
    for rx in regex_false_alarm[:3]:
        ctx.broken(f"Lean PCRE-subset parser rejects a regex Go regexp/syntax accepts: {rx}")
    for d in namediffs[:3]:
        ctx.broken(f"Mangle model and the real naming functions disagree: {d}", replay=d)
    # HTTPS + TLS(passthrough) listener on one port (HTTPS servers behind a unix socket) must occur under every IP family
    share = {f: tag_hist.get("https-tls-share-port-" + f, 0) for f in ("ipv4", "ipv6", "dual")}
    if evaluated >= 500 and min(share.values()) == 0:
        ctx.broken(f"generator coverage: no scenario with an HTTPS and a TLS listener on one port for some IP family: {share}")
    if evaluated and clean == 0:
        ctx.broken("no generated file set passed the judge: generator or judge degenerate")
    for d in wf_disagree[:3]:
        ctx.broken(f"Render.wfDirs and Spec/WellFormedConf disagree on a real http.conf: {d}", replay=d)

    frag = _render_stream(ctx)
    frag_tls = _render_tls_stream(ctx)

    ctx.dependency("C15", "every split_clients percentage the generator prints is a well-formed, non-negative value and each "
                          "block sums to 100 (the arithmetic of createSplitClientDistributions is C15's subject)")

    ctx.finish({
        "evaluations": evaluated,
        "distinct_nontrivial": len(distinct),
        "rule": "cluster states run through the real pipeline and judged by Spec/WellFormedConf; non-trivial = distinct "
                "generated file sets (by content hash) whose http.conf contains at least one proxied, redirecting or "
                "njs-matched location",
        "samples": samples,
        "file_sets_fully_loadable": clean,
        "judge_clause_histogram": dict(clause_hist),
        "finding_signature_histogram": dict(sig_hist),
        "generator_tag_histogram": dict(sorted(tag_hist.items())),
        "tokens_compared_with_crossplane": tokens,
        "lexer_disagreements": len(lexdiffs),
        "crossplane_only_errors": len(xp_only),
        "directives_judged": dirs,
        "traces_validated_against_impl": names + frag.get("equal", 0) + frag_tls.get("equal", 0),
        "name_mangling_observations": names,
        "name_mangling_disagreements": len(namediffs),
        "regex_lean_vs_go": dict(regex_stats),
        "panics": panics,
        "wfDirs_vs_big_judge_file_sets_agreeing": wf_agree,
        "wfDirs_vs_big_judge_disagreements": len(wf_disagree),
        "wfDirs_issues_on_real_files": wf_issues,
        "https_tls_share_port_by_ip_family": share,
        "render_tie": frag,
        "render_tls_tie": frag_tls,
    }, assumptions=[
        "NGINX's configuration-time behaviour is the Lean model Spec/WellFormedConf + Model/NginxLex/NginxParse (no nginx binary "
        "in the sandbox); it is cross-checked against nginx-go-crossplane's lexer on every generated file and its analyser on "
        "every file set",
        "admissibility of generated objects = CRD patterns/CEL rules of gateway-api v1.2.1 and the NGF CRDs, hand-encoded in harness/c03/gen.go",
        "SnippetsFilter bodies are excluded by the property and not generated",
        "NGINX hash-bucket limits and file contents of certificates are not modelled",
    ], trusted=[
        "Spec/WellFormedConf.lean: directive table (context, arity, single-valuedness), duplicate rules, ngx_http_script_compile "
        "variable scanning, PCRE-subset parser, unix socket path limit",
        "nginx-go-crossplane v0.4.71 as second opinion (known gap: Plus R33 mgmt directives license_token/deployment_context)",
    ])


def _render_stream(ctx):
    """Stage 2: translation validation of Model/Render. Scenarios of C02's fragment profile run through the real pipeline;
    the Lean driver (mode render) parses the REAL http.conf / matches.json and compares with render (genR s order)."""
    n = 150 if ctx.tier == "quick" else 4000
    lines = ctx.harness(["-seed", ctx.seed, "-fragment", n]) or []
    frag = collections.Counter()
    outside = collections.Counter()
    if not lines:
        ctx.broken("fragment stream of harness/c03 produced nothing")
        return {}
    res = ctx.driver("render", lines)
    diffs = 0
    seen_sigs = set()
    for raw, r in zip(lines, res):
        case = json.loads(raw)
        frag["scenarios"] += 1
        if case.get("panic"):
            frag["panics"] += 1
            continue
        r = json.loads(r)

        def rep(extra):
            idx = int(case["id"].rsplit("-", 1)[1])
            d = {"id": case["id"], "flat": case.get("flat"), "http": case.get("http"), "matches": case.get("matches"),
                 "how": f"harness/cmd/c03 -seed {ctx.seed} -fragment {idx + 1} -only {idx} regenerates the case with its objects; "
                        "ngfdriver_C03 render reads the line"}
            d.update(extra)
            return d
        if "error" in r:
            ctx.broken(f"render mode could not decode a harness line: {r}", replay=rep({}))
            continue
        if not r.get("inFragment"):
            outside[r.get("why", "")[:70]] += 1
            continue
        frag["in_fragment"] += 1
        frag["names_safe"] += bool(r.get("namesSafe"))
        for k in ("dirs", "servers", "locations", "splits", "keys"):
            frag[k + "_compared"] += r.get(k, 0)
        frag["scenarios_with_several_ports"] += r.get("ports", 0) > 1
        frag["scenarios_with_njs_keys"] += r.get("keys", 0) > 0
        frag["scenarios_with_split_clients"] += r.get("splits", 0) > 0
        unknown = [x for x in r.get("dropped", []) if x not in RENDER_KNOWN_DROPPED]
        if unknown:
            ctx.broken(f"http.conf has top-level directives the render tie neither compares nor lists as ignored: {unknown}",
                       replay=rep({"dropped": unknown}))
        if r.get("equal") and r.get("matchesEqual"):
            frag["equal"] += 1
        else:
            diffs += 1
            frag["differs"] += 1
            if diffs <= 3:
                what = r.get("diff") or r.get("matchesDiff")
                ctx.broken("Model/Render and the real generator disagree (parsed http.conf / matches.json ≠ render (genR s)): "
                           + what[:900], replay=rep({"diff": r.get("diff"), "matchesDiff": r.get("matchesDiff")}))
        # the theorem render_wellformed_fragment, executed; and the same judge on the real file
        frag["ports_ok"] += bool(r.get("portsOK"))
        if r.get("wfModel") and r.get("namesSafe") and r.get("portsOK"):
            frag["theorem_falsified"] += 1
            ctx.broken(f"render_wellformed_fragment is false on a generated input: {r['wfModel'][:3]}", kind="obligation",
                       replay=rep({"issues": r["wfModel"]}))
        for i in r.get("wfReal", []):
            frag["wf_issues_on_real"] += 1
            if (i["c"], "fragment") in seen_sigs:
                continue
            seen_sigs.add((i["c"], "fragment"))
            ctx.finding(f"C03:{i['c']}:fragment", f"generated configuration of a fragment scenario is not loadable: {i['c']}: {i['d'][:300]}",
                        rep({"issue": i}))
    if frag["scenarios"] and frag["in_fragment"] * 2 < frag["scenarios"]:
        ctx.broken(f"render tie nearly vacuous: only {frag['in_fragment']} of {frag['scenarios']} scenarios inside the fragment: {dict(outside)}")
    out = dict(frag)
    out["outside_fragment_reasons"] = dict(outside)
    return out


def _render_tls_stream(ctx):
    """Stage 3: translation validation of Model/RenderTls (SSL servers). Scenarios of C16's TLS fragment generator run through
    the real pipeline; driver mode rendertls compares the parsed REAL http.conf / matches.json with renderT (genTR s …)."""
    n = 120 if ctx.tier == "quick" else 3000
    lines = ctx.harness(["-seed", ctx.seed, "-fragment-tls", n]) or []
    fr = collections.Counter()
    outside = collections.Counter()
    if not lines:
        ctx.broken("TLS fragment stream of harness/c03 produced nothing")
        return {}
    res = ctx.driver("rendertls", lines)
    diffs = 0
    seen = set()
    for raw, r in zip(lines, res):
        case = json.loads(raw)
        fr["scenarios"] += 1
        if case.get("panic"):
            fr["panics"] += 1
            continue
        r = json.loads(r)

        def rep(extra):
            idx = int(case["id"].rsplit("-", 1)[1])
            d = {"id": case["id"], "flat": case.get("flat"), "http": case.get("http"), "matches": case.get("matches"),
                 "sfiles": case.get("sfiles"),
                 "how": f"harness/cmd/c03 -seed {ctx.seed} -fragment-tls {idx + 1} -only {idx} regenerates the case with its objects; "
                        "ngfdriver_C03 rendertls reads the line"}
            d.update(extra)
            return d
        if "error" in r:
            ctx.broken(f"rendertls mode could not decode a harness line: {r}", replay=rep({}))
            continue
        if not r.get("inFragment"):
            outside[r.get("why", "")[:70]] += 1
            continue
        fr["in_fragment"] += 1
        for k in ("dirs", "sslServers", "sslDefaults", "certRefs"):
            fr[k + "_compared"] += r.get(k, 0)
        fr["scenarios_with_ssl_servers"] += r.get("sslServers", 0) > 0
        hyp = bool(r.get("namesSafe")) and bool(r.get("portsOK")) and bool(r.get("noDupSsl")) and bool(r.get("httpsFrag"))
        fr["projections_in_fragment"] += bool(r.get("httpsFrag"))
        fr["inside_theorem_hypotheses"] += hyp
        fr["known_finding_region_dup_ssl_server"] += not r.get("noDupSsl")
        if not r.get("forgetOK"):
            ctx.broken("genTR_projects_to_genT is false on a generated input (forget (genTR s) != genT s)", kind="obligation", replay=rep({}))
        if not r.get("certModelOK"):
            ctx.broken("ssl_cert_files_defined is false on a generated input", kind="obligation", replay=rep({}))
        if r.get("equal") and r.get("matchesEqual"):
            fr["equal"] += 1
        elif r.get("noDupSsl"):
            diffs += 1
            fr["differs"] += 1
            if diffs <= 3:
                what = r.get("diff") or r.get("matchesDiff")
                ctx.broken("Model/RenderTls and the real generator disagree (parsed http.conf / matches.json != renderT (genTR s)): "
                           + what[:900], replay=rep({"diff": r.get("diff"), "matchesDiff": r.get("matchesDiff")}))
        else:
            fr["order_not_determined(dup ssl server names)"] += 1
        if r.get("wfModel") and hyp:
            fr["wf_issue_on_model"] += 1
            ctx.broken(f"renderT_wellformed is false on a generated input: {r['wfModel'][:3]}", kind="obligation",
                       replay=rep({"issues": r["wfModel"]}))
        for m in r.get("certMissing", []):
            if "cert" not in seen:
                seen.add("cert")
                ctx.finding("C03:file-missing:ssl_certificate:fragment", f"ssl_certificate refers to a file that is not generated: {m}", rep({"missing": m}))
        for i in r.get("wfReal", []):
            if i["c"] == "duplicate-listen-server-name" and not r.get("noDupSsl"):
                sig = "C03:duplicate-ssl-server-from-listener-404"
            else:
                sig = f"C03:{i['c']}:fragment"
            if sig in seen:
                continue
            seen.add(sig)
            ctx.finding(sig, f"generated configuration of a TLS fragment scenario is not loadable: {i['c']}: {i['d'][:300]}", rep({"issue": i}))
    if fr["scenarios"] and fr["in_fragment"] * 2 < fr["scenarios"]:
        ctx.broken(f"TLS render tie nearly vacuous: only {fr['in_fragment']} of {fr['scenarios']} scenarios inside the fragment: {dict(outside)}")
    out = dict(fr)
    out["outside_fragment_reasons"] = dict(outside)
    return out


def _drive_parallel(ctx, lines, parts=6):
    """The Lean driver is single-threaded: run it on slices of the cases concurrently (each slice gets the static lines)."""
    import concurrent.futures
    static = [l for l in lines if l.startswith('{"id":"static-')]
    cases = [l for l in lines if not l.startswith('{"id":"static-')]
    size = max(1, (len(cases) + parts - 1) // parts)
    chunks = [cases[i:i + size] for i in range(0, len(cases), size)]

    def one(args):
        mode, chunk = args
        return ctx.driver(mode, static + chunk)[len(static):]

    with concurrent.futures.ThreadPoolExecutor(max_workers=2 * len(chunks) or 1) as ex:
        js = list(ex.map(one, [("judge", ch) for ch in chunks]))
        ms = list(ex.map(one, [("model", ch) for ch in chunks]))
    stat = ['{"static":true}'] * len(static)
    return stat + [v for ch in js for v in ch], stat + [v for ch in ms for v in ch]


def _replay(ctx, case, issue=None):
    """Concrete input: re-run the harness for this case with the objects included."""
    rep = {"id": case["id"], "plus": case.get("plus", False), "issue": issue, "tags": case.get("tags", []),
           "how": f"harness/cmd/c03 -seed <seed of the id> -n <index+1> -only <index> regenerates case {case['id']}"}
    ctx._c03_replays = getattr(ctx, "_c03_replays", 0) + 1
    if ctx._c03_replays > 12:
        return rep
    try:
        cid = case["id"]
        if cid.startswith("corpus-"):
            out = ctx.harness(["-seed", ctx.seed, "-n", 0, "-objs"]) or []
        else:
            idx = int(cid.rsplit("-", 1)[1])
            seed = int(cid[1:].split("-", 1)[0])
            out = ctx.harness(["-seed", seed, "-n", idx + 1, "-only", idx]) or []
        for l in out:
            d = json.loads(l)
            if d.get("id") == cid and d.get("objs") is not None:
                rep["objs"] = d["objs"]
                rep["files"] = [f for f in d.get("files", []) if f["t"]]
                rep["how"] = "harness/cmd/c03 -replay <this file> reruns the pipeline on objs"
    except Exception as e:  # the replay is best effort; the id + seed reproduce the case anyway
        rep["replay_error"] = str(e)
    return rep
