"""C01 — applied configuration and statuses converge to the cluster state for every event history
(DESIGN.md §6 C01, Appendix A.5)."""
import collections
import glob
import json
import os
import time

import vcheck


def _kv(s):
    return dict(f.split("=", 1) for f in s.split(" ") if "=" in f)


# Props modules of C01 beyond NGF.Props.C01 (each: obligations in every tier, leanchecker in the thorough tier).
# Add further modules HERE (the coordinator hooks other builders' C01 modules in through this list).
EXTRA_PROPS = [
    "NGF.Props.C01Handler",    # handler capture step (objectFilters / parseAndCaptureEvent) over the store model
    "NGF.Props.C01Footprint",  # relevance/watch soundness per dependent kind (footprint frames)
    "NGF.Props.C01Refs",       # b-c06: Service relevance over the pipeline model
    "NGF.Props.C01Pipeline",   # the store/handler machine over the concrete pipeline model: convergence for all histories
]


def run(ctx):
    ctx.prepare()
    ctx.log(f"prepared at {time.time() - ctx.t0:.1f}s")
    # mechanisms this property assumes and sibling properties check (run alongside, joined before finish)
    from concurrent.futures import ThreadPoolExecutor
    dep_pool = ThreadPoolExecutor(max_workers=2)  # two at a time
    deps = [dep_pool.submit(ctx.dependency, "C10", "every delivered event reaches the handler exactly once and in order; "
                            "the first batch is complete"),
            dep_pool.submit(ctx.dependency, "C11", "the configuration handed to the file manager is what is on disk afterwards"),
            dep_pool.submit(ctx.dependency, "C12", "histories with failing applies: the result the handler remembers is the truth "
                            "about the last apply, so the statuses last issued are those of a fresh controller"),
            dep_pool.submit(ctx.dependency, "C07", "the statuses last issued tell the truth about the configuration last applied"),
            dep_pool.submit(ctx.dependency, "C13", "endpoint changes applied through the NGINX Plus API leave NGINX with the servers "
                            "a fresh controller's reload would produce")]
    ctx.obligations("NGF.Props.C01")
    for mod in EXTRA_PROPS:
        ctx.obligations(mod)
    ctx.log(f"obligations at {time.time() - ctx.t0:.1f}s")
    if ctx.tier == "thorough":
        ctx.leanchecker("NGF.Props.C01")
        for mod in EXTRA_PROPS:
            ctx.leanchecker(mod)

    watch = ctx.facts.get("StoreFacts.watchSpec")
    if not watch:
        ctx.broken("translator produced no watch table (registerControllers not understood)", kind="obligation")
    nnfilter = ctx.facts.get("StoreFacts.watchNNFilterSpec")
    if nnfilter is None:
        ctx.broken("translator produced no namespaced-name filter table (registerControllers not understood)", kind="obligation")
    n, maxops, maxfail, chunks = (150, 26, 10, 1) if ctx.tier == "quick" else (1100, 60, 120, 8)

    runs = []
    corpus = sorted(glob.glob(os.path.join(vcheck.VERIF, "corpus", "C01", "*.json")))
    wargs = (["-watch", watch] if watch else []) + (["-nnfilter", nnfilter] if nnfilter else [])
    if corpus:
        runs.append(("corpus", ctx.harness(["-replay", ",".join(corpus), "-maxfail", 1000] + wargs)))
    def gen(i):
        return (f"gen{i}", ctx.harness(["-seed", ctx.seed * 64 + i, "-n", n, "-maxops", maxops, "-maxfail", maxfail] + wargs))
    if chunks == 1:
        runs.append(("gen", ctx.harness(["-seed", ctx.seed, "-n", n, "-maxops", maxops, "-maxfail", maxfail] + wargs)))
    else:
        from concurrent.futures import ThreadPoolExecutor
        with ThreadPoolExecutor(max_workers=chunks) as ex:
            runs += list(ex.map(gen, range(chunks)))
    # pipeline stream: in-fragment histories through the real long-lived controller, replayed by the Lean driver in the
    # instantiated store machine of NGF.Model.StorePipeline (modelled predicates, no oracle)
    pn, pmax, pchunks = (40, 14, 1) if ctx.tier == "quick" else (150, 22, 6)
    def pipe(i):
        return ctx.harness(["-pipeline", pn, "-seed", ctx.seed * 64 + i, "-maxops", pmax] + wargs)
    if pchunks == 1:
        pipe_runs = [pipe(0)]
    else:
        from concurrent.futures import ThreadPoolExecutor as _TPE
        with _TPE(max_workers=pchunks) as ex:
            pipe_runs = list(ex.map(pipe, range(pchunks)))
    if not getattr(ctx, "harness_ok", False):
        ctx.broken("harness does not build against the current tree", detail="\n".join(ctx.build_errors))

    model_in, model_obs, judge_in, judge_meta = [], [], [], []
    foot_in, foot_obs = [], []
    watch_in, watch_obs = [], []
    replays, hstats, tags = {}, [], collections.Counter()
    inconclusive, panics = collections.Counter(), collections.Counter()
    capture_panics = []
    for src, lines in runs:
        for l in lines or []:
            typ, _, rest = l.partition(" ")
            hid, _, body = rest.partition(" ")
            hid = f"{src}:{hid}"
            if typ == "H":
                kv = _kv(body)
                hstats.append(kv)
                for t in kv.get("tags", "-").split(","):
                    if ":" in t:
                        k, _, v = t.rpartition(":")
                        tags[k] += int(v)
            elif typ == "M":
                m, _, o = body.partition("\tO ")
                model_in.append(m)
                model_obs.append(o)
            elif typ == "W":
                m, _, o = body.partition("\t")
                watch_in.append(m)
                watch_obs.append("1" if o == "true" else "0")
            elif typ == "G":
                m, _, o = body.partition("\tO ")
                foot_in.append(m)
                foot_obs.append(o)
            elif typ == "J":
                cp, sig, inp = body.split(" ", 2)
                judge_in.append(inp)
                judge_meta.append((hid, cp[3:], sig[4:]))
            elif typ == "R":
                replays[hid] = json.loads(body)
            elif typ == "X":
                inconclusive[body[:80]] += 1
            elif typ == "P":
                panics[body] += 1
            elif typ == "K":
                # the real handler crashed while capturing a delivered event: the controller never converges again
                doc = json.loads(body)
                capture_panics.append((hid, doc))

    ctx.log(f"harness done at {time.time() - ctx.t0:.1f}s")
    # the property itself, evaluated by the Lean judge on what the real controller did
    verdicts = ctx.driver("judge", judge_in)
    fails = collections.defaultdict(list)
    for (hid, cp, sig), v, inp in zip(judge_meta, verdicts, judge_in):
        if v == "bad-op":
            ctx.broken(f"judge could not decode a checkpoint of history {hid}", replay={"judge_input": inp[:2000]})
        elif v != "ok":
            fails[hid].append((cp, sig, v, inp))
        elif sig != "-":
            ctx.broken(f"harness reports a divergence at {hid} cp {cp} ({sig}) that the judge accepts",
                       replay={"judge_input": inp[:2000]})
    for hid, fl in fails.items():
        shrunk = [f for f in fl if f[0] == "shrunk"] or fl
        cp, sig, v, inp = shrunk[0]
        sig = sig.replace("unshrunk:", "")
        if sig == "-":
            sig = v.split(" ")[1]
        ctx.finding(f"C01:{sig}",
                    f"long-lived controller diverges from a fresh one ({v}) after {sig}",
                    {"history": replays.get(hid), "judge_verdict": v, "judge_input": inp[:4000],
                     "how_to_rerun": "save 'history' to a file and run harness cmd c01 -replay <file>"})

    seen_k = set()
    for hid, doc in capture_panics:
        if doc["signature"] in seen_k:
            continue
        seen_k.add(doc["signature"])
        ctx.finding(f"C01:{doc['signature']}",
                    "the real event handler panics while capturing a delivered event (before Process): the controller "
                    f"stops applying configuration ({doc['story'][-1][:200]})",
                    {"history": doc, "how_to_rerun": "save 'history' to a file and run harness cmd c01 -replay <file>"})

    # correspondence: the Lean store model replays the same batches
    outs = ctx.driver("model", model_in)
    diffs = 0
    for m, o, out in zip(model_in, model_obs, outs):
        if out != o:
            diffs += 1
            if diffs <= 3:
                ctx.broken("store model and changeTrackingUpdater disagree on a history "
                           f"(first difference: {_first_diff(o, out)})",
                           replay={"batches": m[:6000], "impl": o[:3000], "model": out[:3000]})
    # footprint correspondence: the referenced sets recomputed by the Lean footprint model from the graph core
    # must be the sets of the real BuildGraph
    fouts = ctx.driver("footprint", foot_in)
    fdiffs, fstats = 0, collections.Counter()
    for m, o, out in zip(foot_in, foot_obs, fouts):
        if out == "bad-op":
            fdiffs += 1
            ctx.broken("footprint model could not decode a graph core", replay={"core": m[:3000]})
            continue
        real, mod = _sets(o), _sets(out)
        bad = [k for k in ("svcs", "nss", "cms", "nprefs", "polrel", "polgraph") if real.get(k) != mod.get(k)]
        if not real["secs"] <= mod["seccand"] or not real["resolved"] <= real["secs"]:
            bad.append("secs")
        for k in ("svcs", "nss", "cms", "secs", "nprefs", "polrel", "polgraph", "secmissing", "cmmissing"):
            fstats[k + "_nonempty"] += bool(real.get(k))
        fstats["scenarios_with_service_read_but_not_referenced"] += bool(mod["unref"])
        # graphs on which the weakened variants (refuted in NGF.Props.C01Footprint) would reference less than the code
        fstats["namespace_referenced_through_invalid_listener_only"] += bool(mod["nss"] - mod["nssvalid"])
        fstats["policy_relevant_but_not_by_first_targetref"] += bool(mod["polrel"] - mod["polfirst"])
        if bad:
            fdiffs += 1
            if fdiffs <= 3:
                ctx.broken(f"footprint model and real BuildGraph disagree on the referenced sets {bad}",
                           replay={"core": m[:3000], "real": o[:1500], "model": out[:1500]})
    # ServicePortsChangedPredicate.Update as modelled (Footprint.watchSvc) vs the real predicate
    wouts = ctx.driver("watchsvc", watch_in)
    wdiffs = 0
    for m, o, out in zip(watch_in, watch_obs, wouts):
        if out != o:
            wdiffs += 1
            if wdiffs <= 2:
                ctx.broken(f"Footprint.watchSvc and the real ServicePortsChangedPredicate disagree (impl {o} / model {out})",
                           replay={"update": m})
    # pipeline stream
    pipe_in, pipe_skip, pstats = [], collections.Counter(), collections.Counter()
    for lines in pipe_runs:
        for l in lines or []:
            typ, _, rest = l.partition(" ")
            _, _, body = rest.partition(" ")
            if typ == "L":
                pipe_in.append(body)
            elif typ == "Q":
                pipe_skip[body.split(" (")[0][:60]] += 1
            elif typ == "X":
                inconclusive[body[:80]] += 1
    pouts = ctx.driver("pipeline", pipe_in)
    pdiffs = 0
    for inp, out in zip(pipe_in, pouts):
        if out.startswith("bad-op"):
            pdiffs += 1
            if pdiffs <= 2:
                ctx.broken(f"pipeline driver could not decode a history ({out[:200]})", replay={"line": inp[:3000]})
            continue
        d = json.loads(out)
        if not d["inFragment"]:
            pstats["outside_fragment:" + d["why"][:50]] += 1
            continue
        pstats["histories_replayed"] += 1
        for k in ("events", "verdicts", "irrelevant", "cuts", "confs", "rebuilds"):
            pstats[k] += d[k]
        if d["errors"]:
            pstats["not_replayable"] += 1
        if d["diffs"] or d["echo"]:
            pdiffs += 1
            if pdiffs <= 3:
                what = ("the store machine over the pipeline model (NGF.Model.StorePipeline: modelled relevance predicates, "
                        "gen/upstreamsOf build) and the real long-lived controller disagree along a history: "
                        if d["diffs"] else
                        "the model's applied output is not the build of the current cluster (contradicts pipeline_config_converges): ")
                ctx.broken(what + "; ".join((d["diffs"] or d["echo"])[:3])[:600],
                           replay={"pipeline_line": inp[:200000], "driver_output": d,
                                   "how_to_rerun": "feed 'pipeline_line' to `ngfdriver_C01 pipeline`"})
    if inconclusive:
        ctx.broken(f"harness could not run some histories: {dict(inconclusive)}")

    nontrivial = len({i for i, h in enumerate(hstats)
                      if int(h.get("filtered", 0)) + int(h.get("dropped", 0)) > 0 and int(h.get("relevant", 0)) > 0})
    disp = collections.Counter()
    for h in hstats:
        for k in ("filtered", "dropped", "relevant", "swallowed", "control", "nondet", "nondetskip", "cps", "batches", "muts"):
            disp[k] += int(h.get(k, 0))
    sizes = collections.Counter(min(int(h.get("muts", 0)) // 5, 12) for h in hstats)
    for d in deps:
        d.result()
    dep_pool.shutdown()
    ctx.log(f"dependencies done at {time.time() - ctx.t0:.1f}s")
    ctx.finish({
        "evaluations": len(judge_in),
        "distinct_nontrivial": nontrivial,
        "rule": "evaluations = checkpoints (drained event queue) at which the real long-lived controller was compared "
                "with a freshly started one by the Lean judge; non-trivial = generated histories in which at least one "
                "mutation was judged irrelevant (watch-filtered or dropped by the relevance predicate) and at least one "
                "led to a rebuild",
        "samples": model_in[:2] + [m[:300] for m in judge_in[-2:]],
        "traces_validated_against_impl": len(model_in) - diffs,
        "correspondence_diffs": diffs,
        "footprint_graphs_compared": len(foot_in),
        "footprint_diffs": fdiffs,
        "footprint_stats": dict(fstats),
        "service_watch_updates_compared": len(watch_in),
        "service_watch_filtered": watch_obs.count("0"),
        "service_watch_diffs": wdiffs,
        "histories": len(hstats),
        "corpus_histories": len(corpus),
        # in-fragment histories replayed in the store machine over the pipeline model: events whose MODELLED relevance verdict
        # was compared with the real predicate's decision, drained points at which applied conf/upstreams/ReferencedServices
        # of the real long-lived controller were compared with the model's applied output
        "pipeline_stream": dict(pstats),
        "pipeline_stream_diffs": pdiffs,
        "pipeline_histories_not_replayable": dict(pipe_skip),
        # handler layer (objectFilters): events of the two special objects handed to HandleEventBatch, by
        # <Kind>-<u|d>-<fwd|kept>; histories in which the special objects take part in ordinary roles
        "handler_filter_events": {k[len("filter:"):]: v for k, v in sorted(tags.items()) if k.startswith("filter:")},
        "histories_with_special_objects": {k[len("special:"):]: v for k, v in sorted(tags.items()) if k.startswith("special:")},
        "directed_special_histories": len([c for c in corpus if "directed-front-svc" in c or "directed-control-config" in c
                                           or "named-like-front-svc" in c]),
        "totals": dict(disp),
        "panics_in_code_under_test": dict(panics),
        "panics_while_capturing_events": len(capture_panics),
        "mutations_per_history_histogram_by_5": {str(k): v for k, v in sorted(sizes.items())},
        "generator_tags": dict(sorted(tags.items())),
        "failing_histories": {h: f[0][1] for h, f in fails.items()},
    }, assumptions=[
        "Kubernetes API server: metadata.generation is bumped on spec changes of custom resources and on spec or label "
        "changes of EndpointSlices; resourceVersion on every write",
        "controller-runtime delivers every create/update/delete that passes the controller's predicates; the reconciler "
        "reads the current object from the cache (the real Reconciler is used)",
        "the informer cache is up to date when a batch is handled (EndpointSlices are read from it at build time)",
        "equality of outputs is modulo directive order inside NGINX blocks, matches.json key numbering, the "
        "config-version file, condition message texts and transition times (DESIGN §8)",
        "BuildGraph/BuildConfiguration read Services, EndpointSlices, Namespaces, Secrets and ConfigMaps only as the "
        "footprint model says (NGF.Model.Footprint, named Go functions); the referenced SETS of the model are checked "
        "against the real graph on every run, the reading discipline itself and the kinds NginxProxy / NGF policies "
        "are decided by the judge on generated histories, not proved",
    ], trusted=[
        "harness/c01: cluster simulator (controller-runtime fake client), recording file manager / runtime manager / "
        "status updater, order-normalisation of files and statuses",
    ])


def _sets(s):
    out = {}
    for f in s.split(" "):
        k, _, v = f.partition("=")
        out[k] = set() if v in ("-", "") else set(v.split(","))
    return out


def _first_diff(a, b):
    fa, fb = _kv(a), _kv(b)
    for k in fa:
        if fa[k] != fb.get(k):
            xa, xb = fa[k].split("|"), fb.get(k, "").split("|")
            for i, (p, q) in enumerate(zip(xa, xb)):
                if p != q:
                    return f"{k} batch {i}: impl {p[:80]} / model {q[:80]}"
            return f"{k}: impl {fa[k][:80]} / model {fb.get(k, '')[:80]}"
    return "?"
