/-
C01 over the CONCRETE pipeline model — the grand composition.

`NGF.Model.StorePipeline` instantiates the store/handler machine (`Model/Store`, `Model/StoreHandler`: the change-tracking
updater, `Process`, the handler's capture step) with
  * the cluster  = GatewayClasses, Gateways, HTTPRoutes (backendRefs as written), Services, ReferenceGrants, EndpointSlices;
  * ONE rebuild  = `Pipeline.gen (PipelineRefs.resolve c)` (C02/C06: servers, locations, proxy_pass targets),
                   `PipelineEndpoints.upstreamsOf c` (C13: upstream blocks), the statuses of `PipelineStatus` (C07), and the
                   graph's `ReferencedServices`;
  * the relevance predicates AS THEY ARE IN THE TREE (`predicate: nil` / `funcPredicate{isReferenced}` for Service and
    EndpointSlice, judged against the LATEST graph, store-then-predicate, delete judges the stored object) — no oracle bit.

  pipeline_rel_sound         an event judged irrelevant leaves the rebuild unchanged (from `service_irrelevant_inert_gen`
                             = `C01Refs.genR_services_congr`, a sharpened `endpointslice_irrelevant_inert`, nil predicates);
  pipeline_config_converges  for ALL histories of upserts/deletes of these kinds, ALL batchings, ALL restart points, through
                             the handler's capture layer: configuration + upstreams applied after the last batch are those
                             of a fresh controller on the final cluster — FULL strength, no exclusion;
  pipeline_converges         the same with the statuses in the output: holds outside ONE explicit decidable region
                             (`svcCovered`), which is the registered known finding
                             `C01:service-dropped:route-of-ignored-gateway`; witness
                             `pipeline_service_of_ignored_gateway_diverges`;
  pipeline_irrelevant_inert  an event judged irrelevant changes neither configuration, upstreams nor statuses;
  pipeline_conf_listing_independent  the configuration does not depend on the listing of the cluster (C14 `gen_perm_equiv`).
-/
import NGF.Props.C01Handler
import NGF.Model.StorePipeline
import NGF.Proofs.StorePipeline
import NGF.Props.C14Pipeline

namespace NGF.StorePipeline
open NGF.Store
open NGF.PipelineRefs (resolve)

/-! ### relevance soundness -/

/-- **pipeline_rel_sound.** For the full output (configuration, upstreams, statuses): an admissible event — any
well-formed event; a Service event only while `svcCovered` — that the predicates of the tree judge irrelevant against the
graph built from the store leaves the rebuild from the store after the event unchanged. -/
theorem pipeline_rel_sound (s : PCl) (e : PEvent) (ha : pAdm true s e = true)
    (hv : verdict pOps pRel (some (pBuild true s)) s e = false) :
    pBuild true (storeAfter pOps s e) = pBuild true s :=
  (pSound true).rel_sound s s e rfl ha rfl hv

/-- … and for configuration + upstreams (+ `ReferencedServices`) it holds for EVERY well-formed event: no exclusion. -/
theorem pipeline_rel_sound_config (s : PCl) (e : PEvent) (hw : wfEvent e = true)
    (hv : verdict pOps pRel (some (pBuild false s)) s e = false) :
    pBuild false (storeAfter pOps s e) = pBuild false s :=
  (pSound false).rel_sound s s e rfl (by simp [pAdm, hw]) rfl hv

/-! ### histories -/

/-- every mutation of a history is a well-formed event -/
theorem admissible_config : ∀ (hist : List PStep) (w : PCl), Admissible pOps (pAdm false) w (steps hist)
  | [], _ => trivial
  | .mut m :: hist, w => by
      refine ⟨?_, admissible_config hist _⟩
      cases m <;> simp [pAdm, wfEvent, PMut.event]
  | .cut :: hist, w => admissible_config hist w
  | .restart :: hist, w => admissible_config hist w

theorem admissible_of_covered : ∀ (hist : List PStep) (w : PCl), CoveredAlong w hist = true →
    Admissible pOps (pAdm true) w (steps hist)
  | [], _, _ => trivial
  | .mut m :: hist, w, h => by
      simp only [CoveredAlong, Bool.and_eq_true] at h
      refine ⟨?_, admissible_of_covered hist _ h.2⟩
      have hwf : wfEvent m.event = true := by cases m <;> simp [wfEvent, PMut.event]
      simp only [pAdm, hwf, Bool.true_and]
      simpa using h.1
  | .cut :: hist, w, h => admissible_of_covered hist w h
  | .restart :: hist, w, h => admissible_of_covered hist w h

theorem pHandler_swallowOK (front : Key) (st : Bool) : SwallowOK (pHandler front) pOps (pBuild st) Eq (pAdm st) := by
  apply swallowOK_of_all_capture _ rfl
  intro k key f hf
  simp only [pHandler] at hf
  split at hf
  · cases hf; rfl
  · cases hf

/-- **pipeline_config_converges.** For EVERY initial cluster and EVERY finite history of upserts and deletes of
GatewayClasses, Gateways, HTTPRoutes, Services, ReferenceGrants and EndpointSlices — any batching, any restart points —
running through the handler's capture layer (the front Service of NGF matching an object filter): once the queue is
drained, the configuration (`gen (resolve c)`), the upstreams (`upstreamsOf c`) and `ReferencedServices` last applied are
those a freshly started controller derives from the final cluster. No oracle, no exclusion. -/
theorem pipeline_config_converges (front : Key) (w₀ : PCl) (hist : List PStep) :
    (runH (pHandler front) pOps (pBuild false) pRel pWatch (start (pBuild false) w₀) (steps hist ++ [.cut])).applied
      = fresh (pBuild false) (finalWorld pOps w₀ (steps hist)) :=
  converges_through_handler_partial (pHandler front) pOps (pBuild false) pRel pWatch Eq (pAdm false) (pSound false)
    (pHandler_swallowOK front false) w₀ (steps hist) (admissible_config hist w₀)

/-- **pipeline_converges.** The same with the statuses (`routeParentStatuses` of every HTTPRoute, `gatewayStatus`, the
ignored Gateways) in the output, for every history that stays outside the excluded region `CoveredAlong`. -/
theorem pipeline_converges (front : Key) (w₀ : PCl) (hist : List PStep) (hc : CoveredAlong w₀ hist = true) :
    (runH (pHandler front) pOps (pBuild true) pRel pWatch (start (pBuild true) w₀) (steps hist ++ [.cut])).applied
      = fresh (pBuild true) (finalWorld pOps w₀ (steps hist)) :=
  converges_through_handler_partial (pHandler front) pOps (pBuild true) pRel pWatch Eq (pAdm true) (pSound true)
    (pHandler_swallowOK front true) w₀ (steps hist) (admissible_of_covered hist w₀ hc)

/-- … at every instant at which nothing is pending, not only at the end. -/
theorem pipeline_drained_is_fresh (w₀ : PCl) (hist : List PStep) (hc : CoveredAlong w₀ hist = true) :
    let σ := run pOps (pBuild true) pRel pWatch (start (pBuild true) w₀) (steps hist)
    σ.proc.ct = .none → σ.applied = fresh (pBuild true) σ.world := by
  intro σ h
  exact (inv_run pOps (pSound true) (steps hist) _ (inv_start pOps (pSound true) w₀)
    (admissible_of_covered hist w₀ hc)).drained h

/-- **pipeline_irrelevant_inert.** The processor holds an up-to-date graph. An admissible event that the handler
forwards and the predicates judge irrelevant leaves the pending change type as it is (no rebuild will be triggered by it)
and a rebuild from the store after the event would derive the configuration, the upstreams AND the statuses already
applied. -/
theorem pipeline_irrelevant_inert (front : Key) (p : Proc PCl PBuilt) (hsync : p.latest = some (pBuild true p.store))
    (e : PEvent) (ha : pAdm true p.store e = true) (hirr : verdict pOps pRel p.latest p.store e = false) :
    let p' := (parseAndCapture (pHandler front) pOps pRel p e).1
    p'.ct = p.ct ∧ (pBuild true p'.store).conf = (pBuild true p.store).conf ∧
    (pBuild true p'.store).ups = (pBuild true p.store).ups ∧
    (pBuild true p'.store).routeSt = (pBuild true p.store).routeSt ∧
    (pBuild true p'.store).gwSt = (pBuild true p.store).gwSt := by
  intro p'
  have hp' : p' = capture pOps pRel p e := by
    show (parseAndCapture (pHandler front) pOps pRel p e).1 = _
    rw [parseAndCapture_fst, forwards_of_all_capture (pHandler front) rfl]
    · simp
    · intro k key f hf
      simp only [pHandler] at hf
      split at hf
      · cases hf; rfl
      · cases hf
  have hb : pBuild true p'.store = pBuild true p.store := by
    rw [hp']
    exact pipeline_rel_sound p.store e ha (by rw [← hsync]; exact hirr)
  refine ⟨?_, by rw [hb], by rw [hb], by rw [hb], by rw [hb]⟩
  rw [hp']
  exact irrelevant_event_inert pOps pRel p e hirr

/-! ### non-vacuity: a history with relevant and irrelevant events of every predicate kind, two batches and a restart -/

def yGw : Pipeline.Gateway :=
  { ns := "default".toList, name := "gw".toList, cls := "nginx".toList, age := 1,
    listeners := [{ name := "http".toList, port := 80, host := [], fromAll := true }] }

def yRoute (svc : String) : PipelineRefs.RouteR :=
  { ns := "app", name := "hr", age := 2, parents := [{ ns := "default".toList, name := "gw".toList, sectionName := none }],
    hostnames := [],
    rules := [{ ms := [{ exact := false, path := "/".toList, method := [], headers := [], query := [] }],
                action := .forward [⟨none, none, none, svc, some 80, none, 0⟩] }],
    valid := true }

def ySvc (name : String) (target : Nat) : SvcObj := { ns := "app", name := name, ports := [⟨"http", 80, .int target⟩] }

def ySlice (obj svc addr : String) : SliceObj :=
  { name := obj, slice := { ns := "app", svcLabel := some svc, addrType := .ipv4, ports := [⟨some "http", some 8080⟩],
                             endpoints := [⟨[addr], some true⟩] } }

/-- class, Gateway, HTTPRoute app/hr → app/web:80; Services web and idle; one slice of each -/
def yCluster : PCl :=
  { cls := "nginx".toList, ctlr := "ctl".toList, classes := [⟨"nginx".toList, "ctl".toList⟩], gateways := [yGw],
    routes := [yRoute "web"], svcs := [ySvc "web" 8080, ySvc "idle" 8080], grants := [],
    slices := [ySlice "web-1" "web" "10.0.0.1", ySlice "idle-1" "idle" "10.0.0.9"] }

def yHist : List PStep :=
  [.mut (.upsert (.slice (ySlice "idle-2" "idle" "10.0.0.8"))),     -- slice of an unreferenced Service: irrelevant
   .mut (.upsert (.svc (ySvc "idle" 9090))), .cut,                   -- unreferenced Service: irrelevant ⇒ NoChange batch
   .mut (.upsert (.slice (ySlice "web-2" "web" "10.0.0.2"))), .cut,  -- slice of the referenced Service: EndpointsOnly
   .restart,
   .mut (.delete .endpointSlice ("app", "web-1")),                    -- judged by the STORED object's owner: relevant
   .mut (.upsert (.route (yRoute "idle"))),                           -- nil predicate: rebuild; now idle is referenced
   .mut (.delete .service ("app", "web"))]                            -- judged against the STALE graph: still "referenced"

/-- the hypothesis of `pipeline_converges` holds on this history, the judged verdicts are as annotated, and the output
really moves: in the end the route resolves `app/idle`, whose upstream holds the two idle endpoints -/
example :
    CoveredAlong yCluster yHist = true ∧
    let σ := runH (pHandler ("nginx-gateway", "ngf-svc")) pOps (pBuild true) pRel pWatch (start (pBuild true) yCluster)
    (σ (steps (yHist.take 3))).proc.ct = .none ∧ (σ (steps (yHist.take 4))).proc.ct = .endpoints ∧
    (σ (steps yHist)).proc.ct = .cluster ∧
    ((σ (steps yHist ++ [.cut])).applied.map fun b => (b.referenced, b.ups.map fun u => (u.name, u.eps.map (·.address)))) =
      some ([("app", "idle")], [("app_idle_80", ["10.0.0.8", "10.0.0.9"])]) ∧
    ((σ (steps yHist ++ [.cut])).applied.map fun b =>
        b.routeSt.map fun x => x.2.map fun ps => ps.map fun e => (PipelineStatus.acceptedTrue e, PipelineStatus.resolvedFalse e)) =
      some [some [(true, false)]] := by
  decide

/-! ### the listing of the cluster does not matter (C14) -/

open NGF.Props.C14Pipeline in
/-- **pipeline_conf_listing_independent.** Two listings of the same cluster — GatewayClasses, Gateways and HTTPRoutes in
another order (arrival order of the long-lived controller vs. the start-up listing of a fresh one) — give the same
configuration up to the order of default-server ports, servers and locations (`Conf.equiv`: what the judge's
order-normalisation identifies). `KeyInj`, `RouteKeysNodup` (decidable): Gateways / routes have distinct keys. -/
theorem pipeline_conf_listing_independent (st : Bool) (c c' : PCl) (hcls : c'.cls = c.cls) (hctlr : c'.ctlr = c.ctlr)
    (h1 : c.classes.Perm c'.classes) (h2 : c.gateways.Perm c'.gateways) (h3 : c.routes.Perm c'.routes)
    (hs : c'.svcs = c.svcs) (hg : c'.grants = c.grants)
    (hk : Pipeline.KeyInj c.gateways) (hn : Pipeline.RouteKeysNodup (resolve c.toR).routes) :
    Pipeline.Conf.equiv (pBuild st c).conf (pBuild st c').conf := by
  apply gen_perm_equiv (resolve c.toR) (resolve c'.toR) _ hk hn
  refine ⟨hcls, hctlr, h1, h2, ?_⟩
  show (c.routes.map _).Perm (c'.routes.map _)
  simp only [PCl.toR, hs, hg]
  exact h3.map _

/-! ### the known finding that lives inside this model -/

def xGw (name : String) (age : Int) : Pipeline.Gateway :=
  { ns := "default".toList, name := name.toList, cls := "nginx".toList, age := age,
    listeners := [{ name := "http".toList, port := 80, host := [], fromAll := true }] }

def xRoute (name gw svc : String) : PipelineRefs.RouteR :=
  { ns := "default", name := name, age := 3, parents := [{ ns := "default".toList, name := gw.toList, sectionName := none }],
    hostnames := [],
    rules := [{ ms := [{ exact := false, path := "/".toList, method := [], headers := [], query := [] }],
                action := .forward [⟨none, none, none, svc, some 80, none, 0⟩] }],
    valid := true }

/-- Gateways gw-old (older: wins) and gw0 (ignored); HTTPRoute hr-ign → gw0 with backend svc1; no Service yet -/
def xIgnored : PCl :=
  { cls := "nginx".toList, ctlr := "ctl".toList, classes := [⟨"nginx".toList, "ctl".toList⟩],
    gateways := [xGw "gw-old" 1, xGw "gw0" 2], routes := [xRoute "hr-ign" "gw0" "svc1"], svcs := [], grants := [], slices := [] }

def xSvc1 : SvcObj := { ns := "default", name := "svc1", ports := [⟨"p80", 80, .int 8080⟩] }

/-- **Witness (known finding `C01:service-dropped:route-of-ignored-gateway`).** The route is attached only to a Gateway
that lost the election: `createBackendRef` resolves its backendRef (the status carries ResolvedRefs=False while the
Service is missing) but `buildReferencedServices` skips the route, so the creation of Service svc1 is judged irrelevant:
the long-lived controller keeps ResolvedRefs=False, a fresh one has no such condition. `svcCovered` is false exactly
here, and the configuration part is unaffected (`pipeline_config_converges`). -/
theorem pipeline_service_of_ignored_gateway_diverges :
    let hist : List PStep := [.mut (.upsert (.svc xSvc1)), .cut]
    let σ := runH (pHandler ("nginx-gateway", "ngf-svc")) pOps (pBuild true) pRel pWatch (start (pBuild true) xIgnored) (steps hist)
    svcCovered xIgnored = false ∧ CoveredAlong xIgnored hist = false ∧
    referencedSvcs xIgnored.toR = [] ∧
    (σ.applied.map fun b => b.routeSt.map fun x => x.2.map fun ps => ps.map fun e => PipelineStatus.resolvedFalse e)
      = some [some [true]] ∧
    ((fresh (pBuild true) σ.world).map fun b => b.routeSt.map fun x => x.2.map fun ps => ps.map fun e => PipelineStatus.resolvedFalse e)
      = some [some [false]] := by
  decide

end NGF.StorePipeline
