/-
C01 — the handler's capture step (`eventHandlerImpl.parseAndCaptureEvent` with the `objectFilters` table of
`newEventHandlerImpl`) between the event loop and the change processor.

`NGF.Model.StoreHandler` models the step branch by branch; here:
  * `capture_forwards_all`            every event without a filter, or whose filter says `captureChangeInGraph`, reaches
                                      `CaptureUpsertChange` / `CaptureDeleteChange` — upserts AND deletes;
  * `tree_forwards_every_registered`  with the filter table of the tree, every event of a kind that is registered with
                                      the change processor is captured; the only events the handler keeps to itself are those
                                      of the control-plane configuration object (`tree_swallows_iff`), whose kind the
                                      processor does not know (`tree_swallows_only_unregistered`);
  * `converges_through_handler`       `converges_of_sound` restated for histories that run THROUGH the handler
                                      (`…_untracked`: for handlers that keep only kinds the cluster state does not track);
  * `handler_swallowing_delete_diverges` / `handler_swallowing_upsert_diverges`
                                      the variants in which one branch returns after the callback whatever the flag says
                                      (pre-image of seeded change C01-r3m3) are refuted by witness histories.
-/
import NGF.Props.C01
import NGF.Model.StoreHandler
import NGF.Proofs.StoreHandler
import NGF.Generated.StoreFacts

namespace NGF.Store

variable {K Key Obj C G : Type}

/-! ### The capture step -/

/-- **capture_forwards_all.** With the branches as they are in the tree, an event that matches no filter, or a
filter with `captureChangeInGraph = true`, is handed to the change processor — whichever branch (upsert or delete)
it takes; the processor state after `parseAndCaptureEvent` is the state after `Capture…Change`. -/
theorem capture_forwards_all (H : Handler K Key) (hb : H.branches = treeBranches) (O : Ops K Key Obj C)
    (rel : Option G → Option Obj → Event K Key Obj → Bool) (p : Proc C G) (e : Event K Key Obj)
    (h : ∀ f, H.filterOf e = some f → f.captureChangeInGraph = true) :
    (parseAndCapture H O rel p e).1 = capture O rel p e := by
  rw [parseAndCapture_fst]
  have : H.forwards e = true := by
    simp only [Handler.forwards]
    cases hf : H.filterOf e with
    | none => rfl
    | some f => cases e.obj <;> simp [hb, treeBranches, h f hf]
  simp [this]

/-- … and an event whose filter does NOT say `captureChangeInGraph` leaves the processor untouched. -/
theorem capture_keeps_noncapturing (H : Handler K Key) (hb : H.branches = treeBranches) (O : Ops K Key Obj C)
    (rel : Option G → Option Obj → Event K Key Obj → Bool) (p : Proc C G) (e : Event K Key Obj)
    (f : Filter) (hf : H.filterOf e = some f) (hc : f.captureChangeInGraph = false) :
    (parseAndCapture H O rel p e).1 = p := by
  rw [parseAndCapture_fst]
  have : H.forwards e = false := by
    simp only [Handler.forwards, hf]
    cases e.obj <;> simp [hb, treeBranches, hc]
  simp [this]

/-- The callback runs exactly for the events that match a filter: the upsert callback in the upsert branch, the
delete callback in the delete branch, whatever `captureChangeInGraph` says. -/
theorem callback_iff_filter (H : Handler K Key) (O : Ops K Key Obj C)
    (rel : Option G → Option Obj → Event K Key Obj → Bool) (p : Proc C G) (e : Event K Key Obj) :
    (parseAndCapture H O rel p e).2 =
      (H.filterOf e).map fun f => if e.obj.isSome then Callback.upsert f.name else Callback.delete f.name := by
  rw [parseAndCapture_snd]
  simp only [Handler.callback]
  cases H.filterOf e with
  | none => rfl
  | some f => cases e.obj <;> rfl

/-! ### The filter table of the tree -/

/-- The handler of the tree keeps an event to itself iff it is an event of the NginxGateway object with the
configured name (`controlConfigNSName`) — create, update or delete. -/
theorem tree_swallows_iff (e : TEvent) :
    treeHandler.forwards e = false ↔ (e.kind = "NginxGateway" ∧ e.key = specialKey) := by
  obtain ⟨kind, key, obj, orc⟩ := e
  simp only [Handler.forwards, Handler.filterOf, treeHandler, treeFilters]
  constructor
  · intro h
    by_cases hk : key = specialKey
    · by_cases hn : kind = "NginxGateway"
      · exact ⟨hn, hk⟩
      · by_cases hsv : kind = "Service"
        · cases obj <;> simp [hk, hsv, treeBranches] at h
        · simp [hk, hn, hsv] at h
    · simp [hk] at h
  · rintro ⟨rfl, rfl⟩
    cases obj <;> rfl

/-- What the handler keeps to itself is of a kind the change processor has no table entry for (no store, no
predicate: `assertSupportedGVK` would panic) — so nothing the graph is built from is withheld. -/
theorem tree_swallows_only_unregistered (e : TEvent) (h : treeHandler.forwards e = false) :
    allKinds.contains e.kind = false ∧ handlerOnlyKinds.contains e.kind = true := by
  rw [(tree_swallows_iff e).1 h |>.1]
  decide

/-- **Every event of a registered kind is captured** — in particular upserts AND deletes of the Service that
fronts NGF (`Service`, key `specialKey`), which matches a filter. -/
theorem tree_forwards_every_registered (rel : Option Unit → Option Unit → TEvent → Bool) (p : TProc) (e : TEvent)
    (hk : allKinds.contains e.kind = true) :
    (parseAndCapture treeHandler traceOps rel p e).1 = capture traceOps rel p e := by
  rw [parseAndCapture_fst]
  cases hf : treeHandler.forwards e with
  | true => rfl
  | false => rw [(tree_swallows_only_unregistered e hf).1] at hk; cases hk

/-- The special Service is forwarded in both branches, and its callbacks run (non-vacuity of the theorem above on the
filtered key): delete of the front Service while present in the store ⇒ the store loses it and a rebuild is pending. -/
example :
    let p : TProc := { store := [("Service", 0)], latest := some (), ct := .none }
    let del : TEvent := { kind := "Service", key := 0, obj := none, oracle := true }
    let ups : TEvent := { kind := "Service", key := 0, obj := some (), oracle := false }
    treeHandler.filterOf del = some { name := "nginxGatewayService", captureChangeInGraph := true, needsGraph := true } ∧
    ((parseAndCapture treeHandler traceOps traceRel p del).1.store, (parseAndCapture treeHandler traceOps traceRel p del).1.ct)
      = ([], ChangeType.cluster) ∧
    (parseAndCapture treeHandler traceOps traceRel p del).2 = some (.delete "nginxGatewayService") ∧
    (parseAndCapture treeHandler traceOps traceRel p ups).2 = some (.upsert "nginxGatewayService") ∧
    (parseAndCapture treeHandler traceOps traceRel p ups).1.store = (capture traceOps traceRel p ups).store := by
  decide

/-! ### Convergence through the handler -/

/-- A history through the handler is a history of the store machine whose watch predicate is
"delivered by the controller AND forwarded by the handler". -/
theorem run_through_handler (H : Handler K Key) (O : Ops K Key Obj C) (build : C → G)
    (rel : Option G → Option Obj → Event K Key Obj → Bool) (watch : C → Event K Key Obj → Bool)
    (σ : Sim C G) (hist : List (Step K Key Obj)) :
    runH H O build rel watch σ hist = run O build rel (watchH H watch) σ hist :=
  runH_eq_run H O build rel watch hist σ

/-- **converges_through_handler.** `converges_of_sound` for histories that pass through `parseAndCaptureEvent`:
if the watch and relevance predicates are sound (`Sound`, every mutation admissible) and what the handler keeps to
itself is invisible to the build (`SwallowOK`), then for every initial cluster and every history the output applied
after the queue is drained is what a fresh controller derives from the final cluster. -/
theorem converges_through_handler (H : Handler K Key) (O : Ops K Key Obj C) (build : C → G)
    (rel : Option G → Option Obj → Event K Key Obj → Bool) (watch : C → Event K Key Obj → Bool)
    (R : C → C → Prop) (hs : Sound O build rel watch R (fun _ _ => true))
    (hw : SwallowOK H O build R (fun _ _ => true))
    (w₀ : C) (hist : List (Step K Key Obj)) :
    (runH H O build rel watch (start build w₀) (hist ++ [.cut])).applied
      = fresh build (finalWorld O w₀ hist) := by
  rw [run_through_handler]
  exact converges_of_sound O build rel (watchH H watch) R (sound_through_handler H O build rel watch R _ hs hw) w₀ hist

/-- `_partial` form with an explicit decidable exclusion. -/
theorem converges_through_handler_partial (H : Handler K Key) (O : Ops K Key Obj C) (build : C → G)
    (rel : Option G → Option Obj → Event K Key Obj → Bool) (watch : C → Event K Key Obj → Bool)
    (R : C → C → Prop) (adm : C → Event K Key Obj → Bool) (hs : Sound O build rel watch R adm)
    (hw : SwallowOK H O build R adm)
    (w₀ : C) (hist : List (Step K Key Obj)) (ha : Admissible O adm w₀ hist) :
    (runH H O build rel watch (start build w₀) (hist ++ [.cut])).applied
      = fresh build (finalWorld O w₀ hist) := by
  rw [run_through_handler]
  exact converges_of_sound_partial O build rel (watchH H watch) R adm
    (sound_through_handler H O build rel watch R adm hs hw) w₀ hist ha

/-- **The shape of the tree's handler**: what it keeps to itself is of kinds the cluster state has no component for
(`store`/`cache` do nothing for them — NginxGateway has no entry in `NewChangeProcessorImpl` and `BuildGraph` never sees
it). Then `Sound` for the store machine alone gives convergence through the handler, for every history. -/
theorem converges_through_handler_untracked (H : Handler K Key) (O : Ops K Key Obj C) (build : C → G)
    (rel : Option G → Option Obj → Event K Key Obj → Bool) (watch : C → Event K Key Obj → Bool)
    (R : C → C → Prop) (hs : Sound O build rel watch R (fun _ _ => true))
    (hu : ∀ (e : Event K Key Obj) (c : C), H.forwards e = false → O.store e c = c ∧ O.cache e c = c)
    (w₀ : C) (hist : List (Step K Key Obj)) :
    (runH H O build rel watch (start build w₀) (hist ++ [.cut])).applied
      = fresh build (finalWorld O w₀ hist) :=
  converges_through_handler H O build rel watch R hs (swallowOK_of_untracked H O build R _ hu) w₀ hist

/-- Non-vacuity of `hu`: a cluster state that tracks kind `true` only, a handler that keeps kind `false` (key 0) to itself. -/
example :
    let H : Handler Bool Nat := { filters := fun k key => if k = false ∧ key = 0 then some ⟨"control", false, false⟩ else none }
    let O : Ops Bool Nat Nat Nat := { persisted := id, hasPred := fun _ => false, isEndpoints := fun _ => false,
                                      get := fun c k _ => if k then some c else none,
                                      store := fun e c => if e.kind then e.obj.getD 0 else c, cache := fun _ c => c }
    (∀ (e : Event Bool Nat Nat) (c : Nat), H.forwards e = false → O.store e c = c ∧ O.cache e c = c) ∧
    H.forwards (⟨false, 0, some 5, false⟩ : Event Bool Nat Nat) = false ∧
    H.forwards (⟨true, 0, some 5, false⟩ : Event Bool Nat Nat) = true := by
  refine ⟨?_, by decide, by decide⟩
  intro e c hf
  obtain ⟨kind, key, obj, orc⟩ := e
  cases kind
  · exact ⟨rfl, rfl⟩
  · simp [Handler.forwards, Handler.filterOf] at hf

/-- A handler all of whose filters say `captureChangeInGraph` (branches as in the tree) needs no extra hypothesis:
it forwards everything. -/
theorem swallowOK_of_all_capture (H : Handler K Key) (hb : H.branches = treeBranches)
    (hall : ∀ k key f, H.filters k key = some f → f.captureChangeInGraph = true)
    (O : Ops K Key Obj C) (build : C → G) (R : C → C → Prop) (adm : C → Event K Key Obj → Bool) :
    SwallowOK H O build R adm where
  inert _ e _ hf := by rw [forwards_of_all_capture H hb hall e] at hf; cases hf
  sim _ _ e _ _ hf := by rw [forwards_of_all_capture H hb hall e] at hf; cases hf

/-! ### Concrete instance: the mini build with the front Service also used as a Route backend -/

/-- the front Service of the mini instance is Service 7 — the one the route points to -/
def miniHandler (B : Branches) : Handler Mini.Kind Nat where
  filters k key := if k = .svc ∧ key = 7 then
      some { name := "nginxGatewayService", captureChangeInGraph := true, needsGraph := true } else none
  branches := B

open Mini in
/-- The code in the tree: convergence for EVERY history through the handler, the filtered Service taking part in
the ordinary role of a Route backend. -/
theorem mini_converges_through_handler (w₀ : Cl) (hist : List (Step Mini.Kind Nat Mini.Obj)) :
    (runH (miniHandler treeBranches) opsR build relR watchAll (start build w₀) (hist ++ [.cut])).applied
      = fresh build (finalWorld opsR w₀ hist) := by
  apply converges_through_handler _ opsR build relR watchAll Eq sound_repaired
  apply swallowOK_of_all_capture _ rfl
  intro k key f hf
  simp only [miniHandler] at hf
  split at hf
  · cases hf; rfl
  · cases hf

open Mini in
/-- **Pre-image of seeded change C01-r3m3 refuted**: with a DeleteEvent branch that returns after the callback, deleting
the front Service while a route uses it as backend never reaches the processor: the applied output keeps the resolved
backend and the endpoint, a fresh controller has neither. The tree's branches converge on the same history. -/
theorem handler_swallowing_delete_diverges :
    let w₀ : Cl := { routes := [(0, 7)], svcs := upd (fun _ => none) 7 (some 80),
                     slices := upd (fun _ => none) 3 (some (7, 55)) }
    let hist : List (Step Mini.Kind Nat Mini.Obj) := [.mutate ⟨.svc, 7, none, false⟩, .cut]
    let bad := runH (miniHandler swallowingDelete) opsR build relR watchAll (start build w₀) hist
    let good := runH (miniHandler treeBranches) opsR build relR watchAll (start build w₀) hist
    (miniHandler swallowingDelete).forwards (⟨.svc, 7, none, false⟩ : Mini.Ev) = false ∧
    (bad.applied.map fun g => g.rv 0) = some (some (7, some 80)) ∧
    ((fresh build bad.world).map fun g => g.rv 0) = some (some (7, none)) ∧
    (good.applied.map fun g => g.rv 0) = some (some (7, none)) := by
  decide

open Mini in
/-- … and it is not healed by a later re-creation with another port when that upsert is judged on the stale store:
here the re-created Service is captured (upsert branch intact), so only the window between delete and re-creation
diverges — the witness above is the whole defect. The mirror variant (upsert branch swallowing) loses updates: -/
theorem handler_swallowing_upsert_diverges :
    let w₀ : Cl := { routes := [(0, 7)], svcs := upd (fun _ => none) 7 (some 80), slices := fun _ => none }
    let hist : List (Step Mini.Kind Nat Mini.Obj) := [.mutate ⟨.svc, 7, some ⟨0, 81⟩, false⟩, .cut]
    let bad := runH (miniHandler swallowingUpsert) opsR build relR watchAll (start build w₀) hist
    (bad.applied.map fun g => g.rv 0) = some (some (7, some 80)) ∧
    ((fresh build bad.world).map fun g => g.rv 0) = some (some (7, some 81)) := by
  decide

open Mini in
/-- Non-vacuity of `mini_converges_through_handler`: the front Service is deleted, re-created with another port, a
slice of it changes — several batches and a restart; the applied output follows. -/
example :
    let w₀ : Cl := { routes := [(0, 7)], svcs := upd (fun _ => none) 7 (some 80),
                     slices := upd (fun _ => none) 3 (some (7, 55)) }
    let hist : List (Step Mini.Kind Nat Mini.Obj) :=
      [.mutate ⟨.svc, 7, none, false⟩, .cut,
       .mutate ⟨.svc, 7, some ⟨0, 81⟩, false⟩, .mutate ⟨.slice, 3, some ⟨7, 56⟩, false⟩, .cut, .restart,
       .mutate ⟨.svc, 8, some ⟨0, 1⟩, false⟩]
    ((runH (miniHandler treeBranches) opsR build relR watchAll (start build w₀) (hist ++ [.cut])).applied.map
        fun g => (g.rv 0, g.ep 0 3)) = some (some (7, some 81), some 56) ∧
    callbacksOf (miniHandler treeBranches) opsR watchAll w₀ hist
      = [.delete "nginxGatewayService", .upsert "nginxGatewayService"] := by
  decide

/-! ### Tie to the source: facts regenerated by the translator -/

/-- The `objectFilters` table of `newEventHandlerImpl` is the one the model's `treeFilters` encodes: two filters —
the NginxGateway object named `controlConfigNSName` (no `captureChangeInGraph`: zero value false) and the Service
named `gatewayPodConfig.Namespace/ServiceName` (`captureChangeInGraph: true`); keys are `%T_namespace_name`. -/
theorem handler_filters_as_modelled :
    Generated.Store.filterTypes = ["&ngfAPI.NginxGateway{}", "&v1.Service{}"] ∧
    Generated.Store.filterNames =
      ["handler.cfg.controlConfigNSName",
       "types.NamespacedName{ Name: handler.cfg.gatewayPodConfig.ServiceName, Namespace: handler.cfg.gatewayPodConfig.Namespace, }"] ∧
    Generated.Store.filterUpserts = ["handler.nginxGatewayCRDUpsert", "handler.nginxGatewayServiceUpsert"] ∧
    Generated.Store.filterDeletes = ["handler.nginxGatewayCRDDelete", "handler.nginxGatewayServiceDelete"] ∧
    Generated.Store.filterCapture = ["false", "true"] ∧
    Generated.Store.filterOtherFields = ["", ""] ∧
    Generated.Store.objectFilterFields =
      ["upsert func(context.Context, logr.Logger, client.Object)",
       "delete func(context.Context, logr.Logger, types.NamespacedName)",
       "captureChangeInGraph bool"] ∧
    Generated.Store.objectFilterKeyBody =
      ["return filterKey(fmt.Sprintf(\"%T_%s_%s\", obj, nsName.Namespace, nsName.Name))"] ∧
    -- the model's table says the same
    (treeFilters "NginxGateway" specialKey).map (·.captureChangeInGraph) = some false ∧
    (treeFilters "Service" specialKey).map (·.captureChangeInGraph) = some true := by
  decide +kernel

/-- Both branches of `parseAndCaptureEvent` are the statements `parseAndCapture` follows: look the filter up by
(type, name); if found run the branch's callback and return unless `captureChangeInGraph`; then capture. -/
theorem parse_and_capture_as_modelled :
    Generated.Store.parseAndCaptureSwitch = "e := event.(type)" ∧
    Generated.Store.parseAndCaptureTopLevelStmts = 1 ∧
    Generated.Store.parseAndCaptureCases = ["*events.UpsertEvent", "*events.DeleteEvent", "default"] ∧
    Generated.Store.parseAndCaptureBodies =
      ["upFilterKey := objectFilterKey(e.Resource, client.ObjectKeyFromObject(e.Resource)) ; if filter, ok := h.objectFilters[upFilterKey]; ok { filter.upsert(ctx, logger, e.Resource) if !filter.captureChangeInGraph { return } } ; h.cfg.processor.CaptureUpsertChange(e.Resource)",
       "delFilterKey := objectFilterKey(e.Type, e.NamespacedName) ; if filter, ok := h.objectFilters[delFilterKey]; ok { filter.delete(ctx, logger, e.NamespacedName) if !filter.captureChangeInGraph { return } } ; h.cfg.processor.CaptureDeleteChange(e.Type, e.NamespacedName)",
       "panic(fmt.Errorf(\"unknown event type %T\", e))"] := by
  decide +kernel

/-- The callbacks: the NginxGateway pair always issues the control-plane status group; the Service pair issues the
Gateway statuses from the LATEST graph and returns before that when there is none (`needsGraph`). -/
theorem callbacks_as_modelled :
    Generated.Store.callback_nginxGatewayCRDUpsert.getLast? = some "h.updateControlPlaneAndSetStatus(ctx, logger, cfg)" ∧
    Generated.Store.callback_nginxGatewayCRDDelete = ["h.updateControlPlaneAndSetStatus(ctx, logger, nil)"] ∧
    Generated.Store.callback_nginxGatewayServiceUpsert.drop 2 =
      ["gwAddresses, err := getGatewayAddresses(ctx, h.cfg.k8sClient, svc, h.cfg.gatewayPodConfig)",
       "if err != nil { logger.Error(err, \"Setting GatewayStatusAddress to Pod IP Address\") }",
       "gr := h.cfg.processor.GetLatestGraph()",
       "if gr == nil { return }",
       "transitionTime := metav1.Now()",
       "gatewayStatuses := status.PrepareGatewayRequests( gr.Gateway, gr.IgnoredGateways, transitionTime, gwAddresses, h.latestReloadResult, )",
       "h.cfg.statusUpdater.UpdateGroup(ctx, groupGateways, gatewayStatuses...)"] ∧
    Generated.Store.callback_nginxGatewayServiceDelete =
      ["gwAddresses, err := getGatewayAddresses(ctx, h.cfg.k8sClient, nil, h.cfg.gatewayPodConfig)",
       "if err != nil { logger.Error(err, \"Setting GatewayStatusAddress to Pod IP Address\") }",
       "gr := h.cfg.processor.GetLatestGraph()",
       "if gr == nil { return }",
       "transitionTime := metav1.Now()",
       "gatewayStatuses := status.PrepareGatewayRequests( gr.Gateway, gr.IgnoredGateways, transitionTime, gwAddresses, h.latestReloadResult, )",
       "h.cfg.statusUpdater.UpdateGroup(ctx, groupGateways, gatewayStatuses...)"] ∧
    (treeFilters "NginxGateway" specialKey).map (·.needsGraph) = some false ∧
    (treeFilters "Service" specialKey).map (·.needsGraph) = some true := by
  decide +kernel

end NGF.Store
