/-
C01 — applied configuration and statuses converge to the cluster state for every event history.

`NGF.Model.Store` models the change-tracking store, `Process` and the handler's dispatch, for an
arbitrary `build` (BuildGraph ∘ BuildConfiguration ∘ Generate ∘ Prepare*Requests) and arbitrary
relevance / watch predicates. The theorems quantify over ALL histories: any list of cluster mutations,
batch cuts and restarts.
-/
import NGF.Model.Store
import NGF.Model.StoreMini
import NGF.Proofs.Store
import NGF.Proofs.StoreMini
import NGF.Generated.StoreFacts

namespace NGF.Store

variable {K Key Obj C G : Type}

/-! ### The property, for every history -/

/-- **Convergence.** If the watch predicates and the relevance predicates are sound for `build`
(`Sound`, with every mutation admissible), then for every initial cluster and every history — any
mutations, any batching, any restart points — once the queue is drained (`cut`) the output last
applied is what a freshly started controller derives from the final cluster. -/
theorem converges_of_sound (O : Ops K Key Obj C) (build : C → G)
    (rel : Option G → Option Obj → Event K Key Obj → Bool) (watch : C → Event K Key Obj → Bool)
    (R : C → C → Prop) (hs : Sound O build rel watch R (fun _ _ => true))
    (w₀ : C) (hist : List (Step K Key Obj)) :
    (run O build rel watch (start build w₀) (hist ++ [.cut])).applied
      = fresh build (finalWorld O w₀ hist) := by
  rw [run_append]
  have hi := inv_run O hs hist _ (inv_start O hs w₀) (admissible_true O hist w₀)
  have hc := inv_step O hs hi .cut (fun _ h => by cases h)
  have hd := hc.drained (cut_drains O build rel watch _)
  simp only [run]
  rw [hd, cut_world, world_run O build rel watch hist]
  rfl

/-- The same with an explicit decidable exclusion `adm` (used where the current predicates are unsound). -/
theorem converges_of_sound_partial (O : Ops K Key Obj C) (build : C → G)
    (rel : Option G → Option Obj → Event K Key Obj → Bool) (watch : C → Event K Key Obj → Bool)
    (R : C → C → Prop) (adm : C → Event K Key Obj → Bool) (hs : Sound O build rel watch R adm)
    (w₀ : C) (hist : List (Step K Key Obj)) (ha : Admissible O adm w₀ hist) :
    (run O build rel watch (start build w₀) (hist ++ [.cut])).applied
      = fresh build (finalWorld O w₀ hist) := by
  rw [run_append]
  have hi := inv_run O hs hist _ (inv_start O hs w₀) ha
  have hc := inv_step O hs hi .cut (fun _ h => by cases h)
  have hd := hc.drained (cut_drains O build rel watch _)
  simp only [run]
  rw [hd, cut_world, world_run O build rel watch hist]
  rfl

/-- At EVERY instant at which nothing is pending — not only at the end — the applied output is the fresh one. -/
theorem drained_applied_is_fresh (O : Ops K Key Obj C) (build : C → G)
    (rel : Option G → Option Obj → Event K Key Obj → Bool) (watch : C → Event K Key Obj → Bool)
    (R : C → C → Prop) (hs : Sound O build rel watch R (fun _ _ => true))
    (w₀ : C) (hist : List (Step K Key Obj)) :
    let σ := run O build rel watch (start build w₀) hist
    σ.proc.ct = .none → σ.applied = fresh build σ.world := by
  intro σ h
  exact (inv_run O hs hist _ (inv_start O hs w₀) (admissible_true O hist w₀)).drained h

/-- A batch without a relevant event (NoChange) emits nothing and leaves the processor as it is. -/
theorem nochange_emits_nothing (build : C → G) (p : Proc C G) (h : p.ct = .none) :
    process build p = (p, .none, none) := by
  simp [process, h]

/-- … so the applied output is untouched by such a batch. -/
theorem nochange_batch_inert (O : Ops K Key Obj C) (build : C → G) (rel watch) (σ : Sim C G)
    (h : σ.proc.ct = .none) : (step O build rel watch σ .cut).applied = σ.applied := by
  simp [step, process, h]

/-- No event by itself alters the applied output: only `Process` of a batch with a change does. -/
theorem mutation_never_alters_applied (O : Ops K Key Obj C) (build : C → G) (rel watch) (σ : Sim C G)
    (e : Event K Key Obj) : (step O build rel watch σ (.mutate e)).applied = σ.applied := rfl

/-- An event judged irrelevant (or filtered by the watch predicates) leaves the pending change type as it is. -/
theorem irrelevant_event_inert (O : Ops K Key Obj C) (rel) (p : Proc C G) (e : Event K Key Obj)
    (h : verdict O rel p.latest p.store e = false) : (capture O rel p e).ct = p.ct := by
  simp [capture, h, setCT_unchanged]

/-- A relevant event always leaves a rebuild pending. -/
theorem relevant_event_pending (O : Ops K Key Obj C) (rel) (p : Proc C G) (e : Event K Key Obj)
    (h : verdict O rel p.latest p.store e = true) : (capture O rel p e).ct ≠ .none := by
  intro hn
  have := (setCT_none (by simpa [capture] using hn)).2
  rw [h] at this; cases this

/-- Persisted kinds are stored whatever the predicate says (store-then-predicate). -/
theorem store_independent_of_verdict (O : Ops K Key Obj C) (rel rel' : Option G → Option Obj → Event K Key Obj → Bool)
    (p : Proc C G) (e : Event K Key Obj) : (capture O rel p e).store = (capture O rel' p e).store := rfl

/-- The change type of a batch is `EndpointsOnlyChange` only if no non-EndpointSlice event was relevant. -/
theorem endpoints_only_lattice (ct : ChangeType) (ep v : Bool) :
    setCT ct ep v = .endpoints → (ct = .endpoints ∧ (v = false ∨ ep = true)) ∨ (ct = .none ∧ v = true ∧ ep = true) := by
  cases ct <;> cases ep <;> cases v <;> simp [setCT]

theorem change_type_monotone (ct : ChangeType) (ep v : Bool) : ct.toNat ≤ (setCT ct ep v).toNat :=
  setCT_mono ct ep v

/-- `Process` resets the change type (`getAndResetChangedStatus`). -/
theorem process_resets (build : C → G) (p : Proc C G) : (process build p).1.ct = .none := by
  by_cases h : p.ct = .none <;> simp [process, h]

/-! ### A concrete instance: Route → Service → EndpointSlice with predicates of the shape of `Graph.IsReferenced` -/

open Mini in
/-- PRE-FIX code (before /repo ecaa5d2; regression detector): the full-strength statement is FALSE: deleting a slice of a referenced Service is judged
irrelevant (bare type, no label), the applied upstream keeps the endpoint, a fresh controller has none. -/
theorem mini_current_diverges_on_slice_delete :
    let w₀ : Cl := { routes := [(0, 7)], svcs := upd (fun _ => none) 7 (some 80),
                     slices := upd (fun _ => none) 3 (some (7, 55)) }
    let σ := run ops build rel watchAll (start build w₀) [.mutate ⟨.slice, 3, none, false⟩, .cut]
    (σ.applied.map fun g => g.ep 0 3) = some (some 55) ∧
    ((fresh build σ.world).map fun g => g.ep 0 3) = some none := by
  decide

open Mini in
/-- … and so is moving a slice to an unreferenced Service (the predicate reads the NEW label only). -/
theorem mini_current_diverges_on_owner_relabel :
    let w₀ : Cl := { routes := [(0, 7)], svcs := upd (fun _ => none) 7 (some 80),
                     slices := upd (fun _ => none) 3 (some (7, 55)) }
    let σ := run ops build rel watchAll (start build w₀) [.mutate ⟨.slice, 3, some ⟨9, 55⟩, false⟩, .cut]
    (σ.applied.map fun g => g.ep 0 3) = some (some 55) ∧
    ((fresh build σ.world).map fun g => g.ep 0 3) = some none := by
  decide

open Mini in
/-- PRE-FIX code, `_partial`: convergence for every history in which no slice is taken away from a
referenced Service (`Mini.adm`). -/
theorem mini_current_converges_partial (w₀ : Cl) (hist : List (Step Mini.Kind Nat Mini.Obj))
    (ha : Admissible ops adm w₀ hist) :
    (run ops build rel watchAll (start build w₀) (hist ++ [.cut])).applied
      = fresh build (finalWorld ops w₀ hist) :=
  converges_of_sound_partial ops build rel watchAll Eq adm sound_current w₀ hist ha

open Mini in
/-- **The code in the tree** (since ecaa5d2: slices persisted; predicate sees the stored and the new object):
convergence for EVERY history — full strength, no exclusion. -/
theorem mini_repaired_converges (w₀ : Cl) (hist : List (Step Mini.Kind Nat Mini.Obj)) :
    (run opsR build relR watchAll (start build w₀) (hist ++ [.cut])).applied
      = fresh build (finalWorld opsR w₀ hist) :=
  converges_of_sound opsR build relR watchAll Eq sound_repaired w₀ hist

open Mini in
/-- The code in the tree: no change that affects the derived output is discarded as irrelevant. -/
theorem mini_repaired_no_relevant_change_discarded (s : Cl) (e : Ev)
    (h : build (storeAfter opsR s e) ≠ build s) :
    verdict opsR relR (some (build s)) s e = true := by
  cases hv : verdict opsR relR (some (build s)) s e with
  | true => rfl
  | false => exact absurd (sound_repaired.rel_sound s s e rfl rfl rfl hv) h

open Mini in
/-- Non-vacuity of the admissibility hypothesis and of the theorems: a history with relevant and
irrelevant events, several batches and a restart, in which the applied output really changes. -/
example :
    let w₀ : Cl := { routes := [], svcs := fun _ => none, slices := fun _ => none }
    let hist : List (Step Mini.Kind Nat Mini.Obj) :=
      [.mutate ⟨.svc, 7, some ⟨0, 80⟩, false⟩,        -- unreferenced Service: irrelevant, but stored
       .cut,
       .mutate ⟨.route, 0, some ⟨7, 0⟩, false⟩,        -- route referencing it: relevant
       .mutate ⟨.slice, 3, some ⟨7, 55⟩, false⟩,       -- slice of the (not yet rebuilt) Service: judged on the stale graph
       .cut, .restart,
       .mutate ⟨.slice, 4, some ⟨7, 56⟩, false⟩, .cut,
       .mutate ⟨.svc, 7, some ⟨0, 81⟩, false⟩]
    Admissible ops adm w₀ hist ∧
    ((run ops build rel watchAll (start build w₀) (hist ++ [.cut])).applied.map
        fun g => (g.rv 0, g.ep 0 3, g.ep 0 4)) = some (some (7, some 81), some 55, some 56) := by
  intro w₀ hist
  refine ⟨?_, by decide⟩
  simp only [hist, Admissible]
  decide

/-! ### Tie to the source: facts regenerated by the translator -/

/-- Which kinds have a store and which a predicate in `NewChangeProcessorImpl` — as in the model's table. -/
theorem store_table_as_modelled :
    ((Generated.Store.cfgKinds.zip Generated.Store.cfgStores).filter (·.2 != "none")).map (·.1) = persistedKinds ∧
    ((Generated.Store.cfgKinds.zip Generated.Store.cfgStores).filter (·.2 == "none")).map (·.1) = [] ∧
    ((Generated.Store.cfgKinds.zip Generated.Store.cfgPredicates).filter (·.2 != "nil")).map (·.1) = predKinds ∧
    Generated.Store.cfgKinds.length = Generated.Store.cfgStores.length ∧
    Generated.Store.cfgKinds.length = Generated.Store.cfgPredicates.length ∧
    Generated.Store.changeTypes = ["NoChange", "EndpointsOnlyChange", "ClusterStateChange"] := by
  decide +kernel

/-- `upsert`/`delete`/`setChangeType`/`getAndResetChangedStatus`/`Process` are the statements the model follows. -/
theorem updater_as_modelled :
    Generated.Store.updater_upsert =
      ["objTypeGVK := s.extractGVK(obj)",
       "var oldObj client.Object",
       "if s.store.persists(objTypeGVK) { oldObj = s.store.get(obj, client.ObjectKeyFromObject(obj)) s.store.upsert(obj) }",
       "stateChanged, ok := s.stateChangedPredicates[objTypeGVK]",
       "if !ok { return true }",
       "return stateChanged.upsert(oldObj, obj)"] ∧
    Generated.Store.updater_delete =
      ["objTypeGVK := s.extractGVK(objType)",
       "subject := client.Object(objType)",
       "if s.store.persists(objTypeGVK) { old := s.store.get(objType, nsname) if old == nil { return false } subject = old s.store.delete(objType, nsname) }",
       "stateChanged, ok := s.stateChangedPredicates[objTypeGVK]",
       "if !ok { return true }",
       "return stateChanged.delete(subject, nsname)"] ∧
    Generated.Store.updater_Upsert =
      ["s.assertSupportedGVK(s.extractGVK(obj))", "changingUpsert := s.upsert(obj)", "s.setChangeType(obj, changingUpsert)"] ∧
    Generated.Store.updater_Delete =
      ["s.assertSupportedGVK(s.extractGVK(objType))", "changingDelete := s.delete(objType, nsname)",
       "s.setChangeType(objType, changingDelete)"] ∧
    Generated.Store.updater_setChangeType =
      ["if changed && s.changeType != ClusterStateChange { if _, ok := obj.(*discoveryV1.EndpointSlice); ok { s.changeType = EndpointsOnlyChange } else { s.changeType = ClusterStateChange } }"] ∧
    Generated.Store.updater_getAndResetChangedStatus =
      ["changeType := s.changeType", "s.changeType = NoChange", "return changeType"] ∧
    Generated.Store.processBody =
      ["c.lock.Lock()", "defer c.lock.Unlock()", "changeType := c.getAndResetClusterStateChanged()",
       "if changeType == NoChange { return NoChange, nil }",
       "c.latestGraph = graph.BuildGraph( c.clusterState, c.cfg.GatewayCtlrName, c.cfg.GatewayClassName, c.cfg.PlusSecrets, c.cfg.Validators, c.cfg.ProtectedPorts, )",
       "return changeType, c.latestGraph"] := by
  decide +kernel

/-- The predicates are evaluated against the LATEST graph; a funcPredicate judges the new AND the stored object
on upsert; on delete the updater hands it the stored object (the Reconciler puts nothing but the bare registered
type and the name into a DeleteEvent). -/
theorem predicates_as_modelled :
    Generated.Store.isReferencedBody =
      ["return processor.latestGraph != nil && processor.latestGraph.IsReferenced(obj, nsname)"] ∧
    Generated.Store.funcPredicate_upsert =
      ["if newObject == nil { panic(\"new object cannot be nil\") }",
       "nsname := client.ObjectKeyFromObject(newObject)",
       "return f.stateChanged(newObject, nsname) || (oldObject != nil && f.stateChanged(oldObject, nsname))"] ∧
    Generated.Store.funcPredicate_delete = ["return f.stateChanged(object, nsname)"] ∧
    Generated.Store.annotationPredicate_delete = ["return true"] ∧
    Generated.Store.reconcilerDeleteEvent =
      "events.DeleteEvent{ Type: r.cfg.ObjectType, NamespacedName: req.NamespacedName, }" ∧
    Generated.Store.reconcilerUpsertEvent = "events.UpsertEvent{ Resource: obj, }" := by
  decide +kernel

/-- `HandleEventBatch`: capture every event, `Process`, NoChange ⇒ return before any file, reload or status
call; both other change types rebuild the configuration and fall through to the status update. (Since /repo c94173a the
NGINX Plus arm of EndpointsOnlyChange uses the API alone only while the remembered reload result is clean; the store model
has no Plus flag — the harness runs OSS, where both arms are `updateNginxConf` — so this is a re-pin of the text.) -/
theorem handler_dispatch_as_modelled :
    Generated.Store.handlerBeforeSwitch =
      ["for _, event := range batch { h.parseAndCaptureEvent(ctx, logger, event) }",
       "changeType, gr := h.cfg.processor.Process()", "var err error"] ∧
    Generated.Store.handlerCases = ["state.NoChange", "state.EndpointsOnlyChange", "state.ClusterStateChange"] ∧
    Generated.Store.handlerBodies.head? =
      some "if !h.cfg.nginxConfiguredOnStartChecker.ready && h.cfg.nginxConfiguredOnStartChecker.firstBatchError == nil { h.cfg.nginxConfiguredOnStartChecker.setAsReady() } ; return" ∧
    Generated.Store.handlerBodies.tail =
      ["h.version++ ; cfg := dataplane.BuildConfiguration(ctx, gr, h.cfg.serviceResolver, h.version) ; depCtx, getErr := h.getDeploymentContext(ctx) ; if getErr != nil { logger.Error(getErr, \"error getting deployment context for usage reporting\") } ; cfg.DeploymentContext = depCtx ; h.setLatestConfiguration(&cfg) ; if h.cfg.plus && h.latestReloadResult.Error == nil { err = h.updateUpstreamServers(cfg) } else { err = h.updateNginxConf(ctx, cfg) }",
       "h.version++ ; cfg := dataplane.BuildConfiguration(ctx, gr, h.cfg.serviceResolver, h.version) ; depCtx, getErr := h.getDeploymentContext(ctx) ; if getErr != nil { logger.Error(getErr, \"error getting deployment context for usage reporting\") } ; cfg.DeploymentContext = depCtx ; h.setLatestConfiguration(&cfg) ; err = h.updateNginxConf(ctx, cfg)"] ∧
    Generated.Store.handlerAfterSwitch.getLast? = some "h.updateStatuses(ctx, logger, gr)" := by
  decide +kernel

end NGF.Store
