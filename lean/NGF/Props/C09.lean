/-
C09 — property theorems for the leader-aware status updater model (`NGF.Model.Leader`).
-/
import NGF.Model.Leader
import NGF.Model.LeaderJudge
import NGF.Generated.LeaderFacts

namespace NGF.Leader

/-- Tie to the source: what the model assumes about the code, regenerated on every run. -/
theorem updater_structure_as_modelled :
    Generated.Leader.updateGroupBody =
      ["u.lock.Lock()", "defer u.lock.Unlock()",
       "if !u.enabled { if len(reqs) == 0 { delete(u.groupReqs, name) return } u.groupReqs[name] = reqs return }",
       "u.updater.Update(ctx, reqs...)"] ∧
    Generated.Leader.enableBody =
      ["u.lock.Lock()", "defer u.lock.Unlock()",
       "if u.enabled { panic(errors.New(\"LeaderAwareGroupUpdater can only be enabled once\")) }",
       "u.enabled = true",
       "for name, reqs := range u.groupReqs { u.updater.Update(ctx, reqs...) delete(u.groupReqs, name) }"] := by
  decide

end NGF.Leader
