/-
C09 — only the leader writes status; the newest status survives a leadership change.

Property theorems for the leader-aware status updater model (`NGF.Model.Leader`, the functions the
driver runs and the correspondence compares with the real `LeaderAwareGroupUpdater`).  Every theorem
quantifies over ALL operation lists: because both Go methods hold the mutex for their whole body
(`updater_structure_as_modelled` below), every interleaving of per-group submissions with the
enable-on-leadership call, overlapping or not, is one such list.

Vocabulary (defined in the model file without reference to the state machine):
`latest pre` = the submissions of `pre` that are the last one of their group and not empty;
`after op`   = one immediate write of exactly the submitted requests (a second `Enable` panics).
-/
import NGF.Model.Leader
import NGF.Model.LeaderJudge
import NGF.Proofs.Leader
import NGF.Proofs.LeaderJudge
import NGF.Generated.LeaderFacts
import NGF.Props.C09Wiring
import NGF.Props.C09Faults

namespace NGF.Leader

/-- The whole behaviour in one equation: for every history `pre ++ [Enable] ++ post` in which `pre`
contains no `Enable`, nothing is written during `pre`, `Enable` flushes the saved map, and every
operation of `post` is performed immediately. -/
theorem run_decompose (pre : List Op) (o : List Group) (post : List Op) (h : NoEnable pre) :
    run init (pre ++ .enable o :: post) =
      pre.map (fun _ => Out.writes []) ++
        Out.writes (flush o (exec init pre).saved) :: post.map after := by
  obtain ⟨he, _, hr, _⟩ := disabled_exec pre init rfl h (by simp [init, keys])
  rw [run_append, hr]
  congr 1
  have hs : step (exec init pre) (.enable o) =
      ({ enabled := true, saved := [] }, Out.writes (flush o (exec init pre).saved)) := by
    simp [step, he]
  simp only [run, hs]
  rw [enabled_run rfl]

/-- what `Enable` writes is, up to the map iteration order, exactly `latest pre` -/
theorem flush_perm_latest (pre : List Op) (o : List Group) (h : NoEnable pre) :
    (flush o (exec init pre).saved).Perm (latest pre) := by
  obtain ⟨_, hn, _, hp⟩ := disabled_exec pre init rfl h (by simp [init, keys])
  exact (flush_perm o _ hn).trans (by simpa [init] using hp)

/-! ### Clause 1 — a replica that is not the leader never writes any status -/

/-- No operation performed before `Enable` writes anything, whatever follows. -/
theorem no_write_before_enable (pre rest : List Op) (h : NoEnable pre) :
    (run init (pre ++ rest)).take pre.length = pre.map (fun _ => Out.writes []) := by
  obtain ⟨_, _, hr, _⟩ := disabled_exec pre init rfl h (by simp [init, keys])
  rw [run_append, hr, List.take_left' (by simp)]

/-- A replica that never becomes leader never writes. -/
theorem never_leader_never_writes (ops : List Op) (h : NoEnable ops) :
    ∀ out ∈ run init ops, out = Out.writes [] := by
  obtain ⟨_, _, hr, _⟩ := disabled_exec ops init rfl h (by simp [init, keys])
  intro out hm
  rw [hr] at hm
  obtain ⟨_, _, e⟩ := List.mem_map.1 hm
  exact e.symm

/-! ### Clause 2 — at `Enable`: for each group the most recently computed statuses, nothing older -/

/-- The operation at the position of `Enable` writes a permutation of `latest pre`. -/
theorem flush_is_latest_per_group (pre : List Op) (o : List Group) (post : List Op)
    (h : NoEnable pre) :
    ∃ ws, (run init (pre ++ .enable o :: post))[pre.length]? = some (Out.writes ws) ∧
      ws.Perm (latest pre) := by
  refine ⟨flush o (exec init pre).saved, ?_, flush_perm_latest pre o h⟩
  rw [run_decompose pre o post h]
  rw [List.getElem?_append_right (by simp)]
  simp

/-- `latest` is what the statement says: `(g, r)` is in it iff `r` is a non-empty submission to `g`
after which `pre` contains no further submission to `g`. -/
theorem mem_latest_iff (g : Group) (r : List Req) : ∀ (pre : List Op),
    (g, r) ∈ latest pre ↔
      ∃ a b, pre = a ++ .update g r :: b ∧ superseded g b = false ∧ r ≠ []
  | [] => by simp [latest]
  | .enable o :: ops => by
    rw [show latest (.enable o :: ops) = latest ops from rfl, mem_latest_iff g r ops]
    constructor
    · rintro ⟨a, b, e, hs, hr⟩
      exact ⟨.enable o :: a, b, by simp [e], hs, hr⟩
    · rintro ⟨a, b, e, hs, hr⟩
      cases a with
      | nil => simp at e
      | cons x a =>
        simp only [List.cons_append, List.cons.injEq] at e
        exact ⟨a, b, e.2, hs, hr⟩
  | .update g' r' :: ops => by
    have ih := mem_latest_iff g r ops
    constructor
    · intro hm
      simp only [latest] at hm
      split at hm
      · obtain ⟨a, b, e, hs, hr⟩ := ih.1 hm
        exact ⟨.update g' r' :: a, b, by simp [e], hs, hr⟩
      · next hc =>
        simp only [Bool.or_eq_true, not_or] at hc
        rcases List.mem_cons.1 hm with hm | hm
        · simp only [Prod.mk.injEq] at hm
          obtain ⟨rfl, rfl⟩ := hm
          refine ⟨[], ops, rfl, by simp [hc.1], ?_⟩
          intro e
          exact hc.2 (by simp [e])
        · obtain ⟨a, b, e, hs, hr⟩ := ih.1 hm
          exact ⟨.update g' r' :: a, b, by simp [e], hs, hr⟩
    · rintro ⟨a, b, e, hs, hr⟩
      cases a with
      | nil =>
        simp only [List.nil_append, List.cons.injEq, Op.update.injEq] at e
        obtain ⟨⟨rfl, rfl⟩, rfl⟩ := e
        have hne : r'.isEmpty = false := by
          cases r' with
          | nil => exact absurd rfl hr
          | cons _ _ => rfl
        simp [latest, hs, hne]
      | cons x a =>
        simp only [List.cons_append, List.cons.injEq] at e
        have hm : (g, r) ∈ latest ops := ih.2 ⟨a, b, e.2, hs, hr⟩
        simp only [latest]
        split
        · exact hm
        · exact List.mem_cons_of_mem _ hm

/-- "Nothing older": whatever `Enable` writes for a group is that group's last submission before
`Enable` — never a superseded one, and never the requests of a group whose last submission was
empty. -/
theorem flush_nothing_older (pre : List Op) (o : List Group) (h : NoEnable pre)
    (g : Group) (r : List Req) (hm : (g, r) ∈ flush o (exec init pre).saved) :
    ∃ a b, pre = a ++ .update g r :: b ∧ superseded g b = false ∧ r ≠ [] :=
  (mem_latest_iff g r pre).1 ((flush_perm_latest pre o h).mem_iff.1 hm)

/-- "The most recently computed statuses": every group's last submission, if it carries requests, is
written by `Enable`. -/
theorem flush_contains_latest (pre : List Op) (o : List Group) (h : NoEnable pre)
    (a b : List Op) (g : Group) (r : List Req) (hpre : pre = a ++ .update g r :: b)
    (hlast : superseded g b = false) (hr : r ≠ []) :
    (g, r) ∈ flush o (exec init pre).saved :=
  (flush_perm_latest pre o h).mem_iff.2 ((mem_latest_iff g r pre).2 ⟨a, b, hpre, hlast, hr⟩)

/-- At most one write per group at `Enable`. -/
theorem flush_one_write_per_group (pre : List Op) (o : List Group) (h : NoEnable pre) :
    (keys (flush o (exec init pre).saved)).Nodup := by
  have hp : (keys (flush o (exec init pre).saved)).Perm (keys (latest pre)) :=
    (flush_perm_latest pre o h).map _
  exact hp.nodup_iff.2 (latest_keys_nodup pre)

/-- The Go map iteration order does not matter: two flush orders write the same multiset. -/
theorem flush_order_irrelevant (pre : List Op) (o₁ o₂ : List Group) (h : NoEnable pre) :
    (flush o₁ (exec init pre).saved).Perm (flush o₂ (exec init pre).saved) :=
  (flush_perm_latest pre o₁ h).trans (flush_perm_latest pre o₂ h).symm

/-! ### Clause 3 — from then on it writes immediately -/

/-- After `Enable` every submission is written at once, exactly as submitted, exactly once; nothing
that was saved earlier is written again. -/
theorem immediate_after_enable (pre : List Op) (o : List Group) (post : List Op)
    (h : NoEnable pre) :
    (run init (pre ++ .enable o :: post)).drop (pre.length + 1) = post.map after := by
  rw [run_decompose pre o post h]
  simp [List.drop_append]

/-- `Enable` can only be called once: a second call panics before touching anything, and the updater
keeps writing immediately afterwards. -/
theorem enable_twice_panics (pre : List Op) (o o' : List Group) (mid post : List Op)
    (h : NoEnable pre) :
    (run init (pre ++ .enable o :: (mid ++ .enable o' :: post))).drop (pre.length + 1) =
      mid.map after ++ Out.panic :: post.map after := by
  rw [immediate_after_enable pre o _ h]
  simp [after]

/-! ### Exactly once over the whole history -/

/-- Over a whole history the writes are, as a multiset, the latest-per-group submissions made before
`Enable` plus every submission made after it: superseded and cleared statuses are never written, and
nothing is written twice. -/
theorem writes_exactly_once (pre : List Op) (o : List Group) (post : List Op) (h : NoEnable pre) :
    (allWrites (run init (pre ++ .enable o :: post))).Perm (latest pre ++ submissions post) := by
  rw [run_decompose pre o post h]
  have e : allWrites (pre.map (fun _ => Out.writes []) ++
      Out.writes (flush o (exec init pre).saved) :: post.map after) =
      allWrites (pre.map (fun _ => Out.writes [])) ++
        (flush o (exec init pre).saved ++ allWrites (post.map after)) := by
    simp [allWrites]
  rw [e, allWrites_nothing, allWrites_after]
  exact (flush_perm_latest pre o h).append_right _

/-! ### The judge's sequential specification accepts what the model does

`okAt pre c obs` is what the linearisation search of the judge asks of every operation.  For every
run of the model it holds (for the flush under the harness's convention that the first request tags
of the flushed groups are distinct), so the judge demands nothing the theorems above do not give. -/

theorem judge_accepts_model_before_enable (pre : List Op) (h : NoEnable pre)
    (g : Group) (r : List Req) (call ret : Nat) :
    okAt pre ⟨false, g, r, call, ret, false⟩ [] = true := by
  unfold NoEnable at h
  simp [okAt, h]

theorem judge_accepts_model_flush (pre : List Op) (o : List Group) (h : NoEnable pre)
    (hd : ((latest pre).map (fun w => w.2.head?)).Nodup) (call ret : Nat) :
    okAt pre ⟨true, 0, [], call, ret, false⟩
      (((flush o (exec init pre).saved).map (·.2)).flatten) = true := by
  have hm := chunksMatch_of_perm _ _ ((latest pre).length + 1) (flush_perm_latest pre o h)
    (latest_nonempty pre) hd (Nat.lt_succ_self _)
  unfold NoEnable at h
  simp [okAt, h, hm]

theorem judge_accepts_model_after_enable (pre : List Op) (h : pre.any Op.isEnable = true)
    (g : Group) (r : List Req) (call ret : Nat) :
    okAt pre ⟨false, g, r, call, ret, false⟩
      (((allWrites [after (.update g r)]).map (·.2)).flatten) = true := by
  simp [okAt, h, allWrites, after]

/-! ### Non-vacuity -/

example : NoEnable [.update 1 [5, 6], .update 0 [3], .update 0 [], .update 1 [7]] := by decide

example :
    run init [.update 1 [5, 6], .update 0 [3], .update 0 [], .update 1 [7], .update 2 [9],
              .enable [2, 1], .update 1 [8], .update 0 [], .enable []] =
      [.writes [], .writes [], .writes [], .writes [], .writes [],
       .writes [(2, [9]), (1, [7])], .writes [(1, [8])], .writes [(0, [])], .panic] := by decide

example : latest [.update 1 [5, 6], .update 0 [3], .update 0 [], .update 1 [7], .update 2 [9]] =
    [(1, [7]), (2, [9])] := by decide

example : ((latest [.update 1 [5, 6], .update 0 [3], .update 0 [], .update 1 [7], .update 2 [9]]).map
    (fun w => w.2.head?)).Nodup := by decide

/-- the judge accepts a correct concurrent history (submission 1 overlaps `Enable`) … -/
example : judge { elected := some 10,
                  ops := [⟨false, 1, [5, 6], 1, 3, false⟩, ⟨false, 1, [7], 4, 16, false⟩,
                          ⟨true, 0, [], 11, 20, false⟩, ⟨false, 1, [8], 21, 25, false⟩],
                  writes := [⟨2, 5, 12⟩, ⟨2, 6, 13⟩, ⟨1, 7, 14⟩, ⟨3, 8, 22⟩] } = none := by decide

/-- … and rejects a stale flush, a write by a non-leader, a lost submission. -/
example : judge { elected := some 10,
                  ops := [⟨false, 1, [5, 6], 1, 3, false⟩, ⟨false, 1, [7], 4, 6, false⟩,
                          ⟨true, 0, [], 11, 20, false⟩],
                  writes := [⟨2, 5, 12⟩, ⟨2, 6, 13⟩] } = some "stale_flush" := by decide

/-- an old status flushed after a newer one was written immediately (flush outside the lock) -/
example : judge { elected := some 5,
                  ops := [⟨false, 0, [1], 1, 2, false⟩, ⟨true, 0, [], 6, 14, false⟩,
                          ⟨false, 0, [2], 7, 10, false⟩],
                  writes := [⟨2, 2, 8⟩, ⟨1, 1, 12⟩] } = some "older_overwrites_newer" := by decide

example : judge { elected := none, ops := [⟨false, 1, [5], 1, 4, false⟩],
                  writes := [⟨0, 5, 2⟩] } = some "nonleader_write" := by decide

example : judge { elected := some 5,
                  ops := [⟨false, 1, [5], 1, 3, false⟩, ⟨false, 1, [7], 6, 16, false⟩,
                          ⟨true, 0, [], 7, 12, false⟩],
                  writes := [⟨2, 5, 9⟩] } = some "no_linearisation" := by decide

/-! ### Tie to the source: structural facts regenerated by the translator -/

/-- `UpdateGroup` and `Enable` hold the mutex for their whole body and consist of exactly the
statements the model's `step` transcribes; no other method exists, `enabled` is only ever set by
`Enable`, the map and the lock are touched nowhere else; `Updater.Update` writes the requests in
order. -/
theorem updater_structure_as_modelled :
    Generated.Leader.updateGroupBody =
      ["u.lock.Lock()", "defer u.lock.Unlock()",
       "if !u.enabled { if len(reqs) == 0 { delete(u.groupReqs, name) return } u.groupReqs[name] = reqs return }",
       "u.updater.Update(ctx, reqs...)"] ∧
    Generated.Leader.enableBody =
      ["u.lock.Lock()", "defer u.lock.Unlock()",
       "if u.enabled { panic(errors.New(\"LeaderAwareGroupUpdater can only be enabled once\")) }",
       "u.enabled = true",
       "for name, reqs := range u.groupReqs { u.updater.Update(ctx, reqs...) delete(u.groupReqs, name) }"] ∧
    Generated.Leader.constructorBody =
      ["return &LeaderAwareGroupUpdater{ updater: updater, lock: &sync.Mutex{}, groupReqs: make(map[string][]UpdateRequest), }"] ∧
    Generated.Leader.structFields =
      ["updater *Updater", "lock *sync.Mutex", "groupReqs map[string][]UpdateRequest", "enabled bool"] ∧
    Generated.Leader.methods = ["Enable", "UpdateGroup"] ∧
    Generated.Leader.enabledWrites = ["Enable: u.enabled = true"] ∧
    Generated.Leader.lockUses = ["UpdateGroup", "UpdateGroup", "Enable", "Enable"] ∧
    Generated.Leader.groupReqsUses = ["UpdateGroup", "UpdateGroup", "Enable", "Enable"] ∧
    Generated.Leader.updaterUpdateShape =
      ["for range reqs", "select { case <-ctx.Done(): return default: }",
       "u.writeStatuses(ctx, r.NsName, r.ResourceType, r.Setter)"] := by
  decide

/-- The leader-election runnable asks for leader election and calls the enable function once. -/
theorem runnable_as_modelled :
    Generated.Leader.runnableNeedLeaderElectionBody = ["return true"] ∧
    Generated.Leader.runnableStartBody = ["j.enable(ctx)", "return nil"] ∧
    Generated.Leader.runnableConstructorBody = ["return &EnableAfterBecameLeader{ enable: enable, }"] := by
  decide

/-- Static mode: the only `status.Updater` goes into the leader-aware wrapper and nowhere else; the
handler receives the wrapper (as a `GroupUpdater`) and only calls `UpdateGroup` on it, with the three
distinct group names; `Enable` is referenced once, by the leader-election runnable that is added to
the manager directly; nothing else in static mode or the framework touches a status subresource. -/
theorem static_mode_wiring_as_modelled :
    Generated.Leader.rawUpdaterVars = ["statusUpdater"] ∧
    Generated.Leader.wrapperVars = ["groupStatusUpdater"] ∧
    Generated.Leader.rawUpdaterUses = ["status.NewLeaderAwareGroupUpdater(statusUpdater)"] ∧
    Generated.Leader.wrapperUses =
      ["statusUpdater: groupStatusUpdater",
       "runnables.NewEnableAfterBecameLeader(groupStatusUpdater.Enable)"] ∧
    Generated.Leader.enableRegistrations =
      ["mgr.Add(runnables.NewEnableAfterBecameLeader(groupStatusUpdater.Enable))"] ∧
    Generated.Leader.enableSelectors = ["manager.go: groupStatusUpdater.Enable"] ∧
    Generated.Leader.newUpdaterSites = ["manager.go"] ∧
    Generated.Leader.handlerStatusUpdaterType = "frameworkStatus.GroupUpdater" ∧
    Generated.Leader.handlerStatusCalls =
      ["h.cfg.statusUpdater.UpdateGroup(groupAllExceptGateways)",
       "h.cfg.statusUpdater.UpdateGroup(groupGateways)",
       "h.cfg.statusUpdater.UpdateGroup(groupControlPlane)",
       "h.cfg.statusUpdater.UpdateGroup(groupGateways)",
       "h.cfg.statusUpdater.UpdateGroup(groupGateways)"] ∧
    Generated.Leader.handlerStatusOtherRefs = [] ∧
    Generated.Leader.groupNames.length = 3 ∧ Generated.Leader.groupNames.Nodup ∧
    Generated.Leader.statusSubresourceSites =
      ["internal/framework/status/updater.go: writeStatuses: u.client.Status()"] := by
  decide

end NGF.Leader
