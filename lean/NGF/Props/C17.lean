import NGF.Model.Ownership
import NGF.Model.OwnershipJudge
import NGF.Proofs.Ownership
import NGF.Generated.OwnershipFacts
import NGF.Props.C17Leader
import NGF.Proofs.PipelineForeign
/-
C17 — resources owned by other controllers are neither configured nor written to.

All theorems are about `NGF.Ownership.buildGraph` / `targets` (Model/Ownership.lean), the functions the
driver runs and the correspondence compares with the real `graph.Graph` and UpdateRequests; the notion of
"foreign" (`foreignClass/Gw/Route/Policy/Btp`, `Droppable`) is the one the judge applies to the real outputs.
-/
namespace NGF.Ownership
namespace G
export NGF.Generated.OwnershipFacts (processGatewayClassesBody buildGraphHead processGatewaysArgs buildRoutesArgs
  buildL4RoutesArgs processPoliciesArgs buildReferencedServicesArgs graphLiteralFields gatewayExistsBody
  processGatewaysBody getAllNsNamesBody findGatewayForParentRefBody buildSectionNameRefsBody
  buildRoutesForGatewaysBody buildL4RoutesForGatewaysBody buildHTTPRouteHead buildGRPCRouteHead buildTLSRouteHead
  buildReferencedServicesBody processPoliciesBody attachPoliciesBody attachPolicyToGatewayBody refGroupKindBody
  gatewayGroupKindExpr hrGroupKindExpr grpcGroupKindExpr serviceGroupKindExpr kindGateway kindHTTPRoute
  kindGRPCRoute kindService maxAncestors ngfPolicyAncestorsFullBody processBackendTLSPoliciesGuard
  gatewayClassPredicateCreate gatewayClassPredicateUpdate gatewayClassPredicateDelete updateStatusesPrepareCalls
  prepareRequestsLoops setterKeepLoops buildHTTPRouteBody buildGRPCRouteBody snippetsFilterResolverBody
  snippetsFilterReferencedWrites processRouteRuleFiltersBody snippetsFilterResolverCalls buildSnippetsForContextBody
  updateStatusesGroupCalls groupAllExceptGateways groupGateways)
end G

/-! ## The property -/

/-- **Non-interference.** Let `t` be ANY cluster state and remove from it any set of foreign objects
(`Droppable`: GatewayClasses naming another controller and another name, Gateways of other classes, Routes
none of whose parentRefs resolves to one of our Gateways, policies and BackendTLSPolicies targeting nothing of
ours). The ownership core of the graph — winner/ignored classes and Gateways, the Routes and policies that
enter the graph with their resolved parentRefs/targetRefs, the referenced Services — and therefore the set of
status-request targets are the same with and without them (`t = s ∪ X`, `t.restrict k = s`, any interleaving). -/
theorem noninterference_foreign (cfg : Cfg) (t : State) (k : Keep) (h : Droppable cfg t k) :
    buildGraph cfg (t.restrict k) = buildGraph cfg t ∧
    targets (buildGraph cfg (t.restrict k)) = targets (buildGraph cfg t) := by
  have := buildGraph_restrict cfg t k h
  exact ⟨this, by rw [this]⟩

/-- **No request for foreign objects.** Every UpdateRequest target is the key of an object of the state that
is not foreign: a class naming our controller, a Gateway of the configured class, a Route with a parentRef
resolving to such a Gateway, a policy with a target among those (or a Service such a Route resolves to). -/
theorem no_request_for_foreign (cfg : Cfg) (s : State) :
    ∀ tg ∈ targets (buildGraph cfg s), tg.OwnIn cfg s :=
  targets_own cfg s

/-- With unique object keys (Kubernetes), the targets are disjoint from the foreign objects — in particular
from every removable set `X` of `noninterference_foreign`. -/
theorem foreign_objects_get_no_request (cfg : Cfg) (s : State) (hu : KeysUnique s) :
    (∀ c ∈ s.classes, foreignClass cfg c = true → Target.cls c.name ∉ targets (buildGraph cfg s)) ∧
    (∀ g ∈ s.gws, foreignGw cfg g = true → Target.gw g.nn ∉ targets (buildGraph cfg s)) ∧
    (∀ r ∈ s.routes, foreignRoute cfg s r = true → Target.route r.kind r.nn ∉ targets (buildGraph cfg s)) ∧
    (∀ p ∈ s.policies, foreignPolicy cfg s p = true → Target.policy p.gvk p.nn ∉ targets (buildGraph cfg s)) ∧
    (∀ b ∈ s.btps, foreignBtp cfg s b = true → Target.btp b.nn ∉ targets (buildGraph cfg s)) := by
  obtain ⟨u1, u2, u3, u4, u5⟩ := hu
  refine ⟨?_, ?_, ?_, ?_, ?_⟩
  · intro c hc hf hin
    obtain ⟨c', hc', hn, hf'⟩ := targets_own cfg s _ hin
    have := unique_of_pairwise (fun c : GwClass => c.name) _ u1 c' hc' c hc hn
    subst this; simp [hf] at hf'
  · intro g hg hf hin
    obtain ⟨g', hg', hn, hf'⟩ := targets_own cfg s _ hin
    have := unique_of_pairwise (fun g : Gw => g.nn) _ u2 g' hg' g hg hn
    subst this; simp [hf] at hf'
  · intro r hr hf hin
    obtain ⟨r', hr', hk, hn, hf'⟩ := targets_own cfg s _ hin
    have := unique_of_pairwise (fun r : Route => (r.kind, r.nn)) _ u3 r' hr' r hr (by simp [hk, hn])
    subst this; simp [hf] at hf'
  · intro p hp hf hin
    obtain ⟨p', hp', hk, hn, hf'⟩ := targets_own cfg s _ hin
    have := unique_of_pairwise (fun p : Policy => (p.gvk, p.nn)) _ u4 p' hp' p hp (by simp [hk, hn])
    subst this; simp [hf] at hf'
  · intro b hb hf hin
    obtain ⟨b', hb', hn, hf'⟩ := targets_own cfg s _ hin
    have := unique_of_pairwise (fun b : Btp => b.nn) _ u5 b' hb' b hb hn
    subst this; simp [hf] at hf'

/-- **A foreign-controlled configured-name class disables everything.** If a GatewayClass with the configured
name exists and no class of that name names our controller, the graph is `&Graph{}` (no class, no Gateway,
no Route, no policy, not even our other classes) and NO UpdateRequest is issued. -/
theorem foreign_class_disables_all (cfg : Cfg) (s : State)
    (hex : ∃ c ∈ s.classes, c.name = cfg.gcName)
    (hfor : ∀ c ∈ s.classes, c.name = cfg.gcName → c.ctlr ≠ cfg.ctlr) :
    buildGraph cfg s = Core.empty ∧ targets (buildGraph cfg s) = [] := by
  have hd : disabled cfg s = true :=
    (disabled_iff cfg s).mpr ⟨hex, fun ⟨c, hc, hn, ho⟩ => hfor c hc hn ho⟩
  rw [buildGraph_disabled cfg s hd]
  exact ⟨rfl, rfl⟩

/-- … and only then: the early return is taken exactly in that situation. -/
theorem disabled_exactly (cfg : Cfg) (s : State) : disabled cfg s = true ↔
    (∃ c ∈ s.classes, c.name = cfg.gcName) ∧ ¬ ∃ c ∈ s.classes, c.name = cfg.gcName ∧ c.ctlr = cfg.ctlr :=
  disabled_iff cfg s

/-- **What is ours is written to even when it loses**: every class naming our controller (the winner gets its
conditions, the others `Conflict`), every Gateway of the configured class (winner or ignored), every Route
with a parentRef resolving to one of them, every SnippetsFilter. -/
theorem ignored_but_ours_get_status (cfg : Cfg) (s : State) (hd : disabled cfg s = false) :
    (∀ c ∈ s.classes, c.ctlr = cfg.ctlr → Target.cls c.name ∈ targets (buildGraph cfg s)) ∧
    (∀ g ∈ s.gws, g.cls = cfg.gcName → Target.gw g.nn ∈ targets (buildGraph cfg s)) ∧
    (∀ r ∈ s.routes, refsOwnGw cfg s r = true → Target.route r.kind r.nn ∈ targets (buildGraph cfg s)) ∧
    (∀ n ∈ s.snippets, Target.snippet n ∈ targets (buildGraph cfg s)) := by
  refine ⟨fun c hc ho => own_class_target cfg s hd c hc ho, fun g hg ho => own_gw_target cfg s hd g hg ho,
    fun r hr ho => own_route_target cfg s hd r hr ho, ?_⟩
  intro n hn
  rw [buildGraph_unfold]; simp only [hd]
  rw [mem_targets]
  exact Or.inr (Or.inr (Or.inr (Or.inr (Or.inr ⟨n, hn, rfl⟩))))

/-- A Route enters the graph exactly when one of its parentRefs resolves to a Gateway of the configured class
(winner or ignored) — the mechanism of route_common.go:254-324. -/
theorem route_in_graph_iff (cfg : Cfg) (s : State) (r : Route) :
    (buildRoute (allNsNames (processGateways s.gws cfg.gcName)) r).isSome = true ↔ refsOwnGw cfg s r = true := by
  constructor
  · intro h
    cases hb : buildRoute (allNsNames (processGateways s.gws cfg.gcName)) r with
    | none => simp [hb] at h
    | some rg => exact resolvesSome_refsOwn cfg s r (buildRoute_some _ r rg hb).1
  · intro h
    obtain ⟨rg, hb, _⟩ := buildRoute_isSome _ r (refsOwn_resolvesSome cfg s r h)
    simp [hb]

/-- Gateways are selected by class NAME alone: the controller of their class plays no role (a Gateway of the
configured class is ours even when that class object is absent). -/
theorem gateways_by_class_name (cfg : Cfg) (s : State) (cs : List GwClass) :
    processGateways s.gws cfg.gcName = processGateways ({ s with classes := cs }).gws cfg.gcName := rfl

/-! ## SnippetsFilters: `Referenced` — and with it the main/http/server/location snippets — only through OUR routes

A SnippetsFilter is NGF's own CRD: every one of them gets a status request (`ignored_but_ours_get_status`). What
must not happen is that a Route of another controller switches its snippets on. -/

/-- A SnippetsFilter is `Referenced` only if an HTTPRoute/GRPCRoute of ITS namespace that references one of our
Gateways names it in an ExtensionRef filter. -/
theorem referenced_snippet_has_own_route (cfg : Cfg) (s : State) (sf : NN)
    (h : sf ∈ (buildGraph cfg s).refSnippets) :
    sf ∈ s.snippets ∧ ∃ r ∈ s.routes, foreignRoute cfg s r = false ∧ r.kind ≠ .tls ∧ r.nn.ns = sf.ns ∧
      sf.name ∈ r.sfRefs := by
  rw [buildGraph_unfold] at h
  split at h
  · simp [Core.empty] at h
  · simp only [referencedSnippets, List.mem_filter] at h
    refine ⟨h.1, ?_⟩
    rcases List.any_eq_true.mp h.2 with ⟨r, hr, hm⟩
    obtain ⟨h1, h2, h3, h4⟩ := marksSnippet_resolves _ r sf hm
    exact ⟨r, hr, by simp [foreignRoute, resolvesSome_refsOwn cfg s r h1], h2, h3, h4⟩

/-- **A SnippetsFilter referenced only by foreign (or unattached) Routes is not `Referenced`** — whatever those
routes' rules, hostnames and filters are, and whatever else the cluster holds. -/
theorem snippet_referenced_only_by_foreign_not_referenced (cfg : Cfg) (s : State) (sf : NN)
    (h : ∀ r ∈ s.routes, r.nn.ns = sf.ns → sf.name ∈ r.sfRefs → foreignRoute cfg s r = true) :
    sf ∉ (buildGraph cfg s).refSnippets := by
  intro hin
  obtain ⟨_, r, hr, hf, _, hns, hname⟩ := referenced_snippet_has_own_route cfg s sf hin
  simp [h r hr hns hname] at hf

/-- Removing any set of SnippetsFilters that are not `Referenced` (e.g. referenced by foreign routes only) changes
nothing in the graph but their own entries: every other `Referenced` flag, the routes, the policies and all
other request targets stay. -/
theorem unreferenced_snippets_removable (cfg : Cfg) (t : State) (k : NN → Bool)
    (h : ∀ sf ∈ t.snippets, k sf = false → sf ∉ (buildGraph cfg t).refSnippets) :
    buildGraph cfg { t with snippets := t.snippets.filter k } =
      { buildGraph cfg t with snippets := (buildGraph cfg t).snippets.filter k } := by
  rw [buildGraph_unfold] at h
  rw [buildGraph_unfold, buildGraph_unfold]
  have hd : disabled cfg { t with snippets := t.snippets.filter k } = disabled cfg t := rfl
  rw [hd]
  split
  · rfl
  · rename_i hdis
    simp only [hdis] at h
    have e : referencedSnippets (allNsNames (gPg cfg t)) t.routes (t.snippets.filter k) =
        referencedSnippets (allNsNames (gPg cfg t)) t.routes t.snippets := by
      unfold referencedSnippets
      apply filter_filter_of_imp
      intro sf hsf hq
      cases hk : k sf with
      | true => rfl
      | false =>
        exact absurd (by simp only [referencedSnippets]; exact List.mem_filter.mpr ⟨hsf, hq⟩) (h sf hsf hk)
    show Core.mk _ _ _ _ _ _ _ _ _ _ = Core.mk _ _ _ _ _ _ _ _ _ _
    congr 1

/-- **Witness against the order-of-checks variant** (seeded change C17-r3m1: the rules — and with them the
ExtensionRef resolver — are processed before the route is checked for a parentRef to one of our Gateways):
`default/xsf` is named only by `xr`, a Route of the other controller's Gateway; the variant marks it
`Referenced` (its main/http snippets would enter OUR nginx.conf), the model of the code does not. -/
theorem early_rule_processing_marks_foreign_snippet :
    (⟨"default", "xsf"⟩ : NN) ∈ referencedSnippetsEarly (allNsNames (processGateways exState.gws exCfg.gcName))
      exState.routes exState.snippets ∧
    (⟨"default", "xsf"⟩ : NN) ∉ (buildGraph exCfg exState).refSnippets ∧
    (∀ r ∈ exState.routes, "xsf" ∈ r.sfRefs → foreignRoute exCfg exState r = true) := by decide

/-- `sf` is referenced by our `hr0` (and by the foreign `xr`): Referenced; `team-a/sf` has the same name in another
namespace: not Referenced -/
example : (buildGraph exCfg exState).refSnippets = [⟨"default", "sf"⟩] := by decide
example : ∀ r ∈ exState.routes, r.nn.ns = "default" → "xsf" ∈ r.sfRefs → foreignRoute exCfg exState r = true := by decide
example : (buildGraph exCfg { exState with snippets := exState.snippets.filter (fun n => n.name != "xsf") }).snippets.length = 2 := by
  decide

/-! ## Policy relevance: API group AND kind of every targetRef (`switch refGroupKind(ref.Group, ref.Kind)`) -/

/-- A targetRef is kept by `processPolicies` only if its (group, kind) — `refGroupKind`, the empty group read as
`core` — is one of the four the controller serves: Gateway API Gateway / HTTPRoute / GRPCRoute or core Service. For EVERY
kind the group takes part in the comparison. -/
theorem policy_target_needs_group_and_kind (pg : PGws) (routes : List RouteG) (svcs : List NN) (ns : String) (t : TRef)
    (h : targetOk pg routes svcs ns t = true) :
    refGroupKind t = gatewayGroupKind ∨ refGroupKind t = hrGroupKind ∨ refGroupKind t = grpcGroupKind ∨
      refGroupKind t = serviceGroupKind := by
  unfold targetOk at h
  simp only at h
  by_cases h1 : refGroupKind t = gatewayGroupKind
  · exact .inl h1
  · by_cases h2 : refGroupKind t = hrGroupKind
    · exact .inr (.inl h2)
    · by_cases h3 : refGroupKind t = grpcGroupKind
      · exact .inr (.inr (.inl h3))
      · by_cases h4 : refGroupKind t = serviceGroupKind
        · exact .inr (.inr (.inr h4))
        · simp [h1, h2, h3, h4] at h

/-- … hence a policy ALL of whose targetRefs carry another (group, kind) stays out of the graph and gets no status
request — whatever names its refs collide with (`foreignPolicy`: the specification side agrees). -/
theorem foreign_group_policy_not_in_graph (cfg : Cfg) (s : State) (p : Policy)
    (h : ∀ t ∈ p.targets, refGroupKind t ≠ gatewayGroupKind ∧ refGroupKind t ≠ hrGroupKind ∧
      refGroupKind t ≠ grpcGroupKind ∧ refGroupKind t ≠ serviceGroupKind) :
    foreignPolicy cfg s p = true ∧ ∀ pg routes svcs, processPolicy pg routes svcs p = none := by
  constructor
  · unfold foreignPolicy
    simp only [Bool.not_eq_true', List.any_eq_false]
    intro t ht
    obtain ⟨h1, h2, h3, h4⟩ := h t ht
    simp [ownTarget, h1, h2, h3, h4]
  · intro pg routes svcs
    unfold processPolicy
    have : p.targets.filter (targetOk pg routes svcs p.nn.ns) = [] := by
      rw [List.filter_eq_nil_iff]
      intro t ht hok
      obtain ⟨h1, h2, h3, h4⟩ := h t ht
      rcases policy_target_needs_group_and_kind pg routes svcs p.nn.ns t hok with e | e | e | e
      · exact h1 e
      · exact h2 e
      · exact h3 e
      · exact h4 e
    simp [this]

/-- a Knative `Service`, another project's `HTTPRoute` and `Gateway`, a group differing in case only, each named like an
object of ours (`svc0` is the backend of our `hr0`), alone or next to a core ref to an absent Service -/
def exForeignGroupPolicies : List Policy :=
  [⟨"UpstreamSettingsPolicy", ⟨"default", "xusp-grp"⟩, [⟨"serving.knative.dev", "Service", "svc0"⟩], 0⟩,
   ⟨"UpstreamSettingsPolicy", ⟨"default", "xusp-mixed"⟩, [⟨"serving.knative.dev", "Service", "svc0"⟩, ⟨"core", "Service", "absent"⟩], 0⟩,
   ⟨"UpstreamSettingsPolicy", ⟨"default", "xusp-case"⟩, [⟨"Core", "Service", "svc0"⟩], 0⟩,
   ⟨"ObservabilityPolicy", ⟨"default", "xobs-grp"⟩, [⟨"example.com", "HTTPRoute", "hr0"⟩], 0⟩,
   ⟨"ClientSettingsPolicy", ⟨"default", "xcsp-grp"⟩, [⟨"networking.istio.io", "Gateway", "gw0"⟩], 0⟩]

example : exForeignGroupPolicies.all (fun p =>
    let s := { exState with policies := exState.policies ++ exForeignGroupPolicies }
    foreignPolicy exCfg s p && !(targets (buildGraph exCfg s)).contains (Target.policy p.gvk p.nn)) = true := by decide
example : buildGraph exCfg { exState with policies := exState.policies ++ exForeignGroupPolicies } = buildGraph exCfg exState := by
  decide
example : (exForeignGroupPolicies.take 1).all (fun p => p.targets.all fun t =>
    decide (refGroupKind t ≠ gatewayGroupKind ∧ refGroupKind t ≠ hrGroupKind ∧ refGroupKind t ≠ grpcGroupKind ∧
      refGroupKind t ≠ serviceGroupKind)) = true := by decide

/-- **Witness against the kind-only variant** (seeded change C17-r4m1): `targetOkKindOnly` keeps the Knative-group
`Service` ref named like the backend `default/svc0` of our `hr0` — the UpstreamSettingsPolicy would enter the graph, be
attached to OUR upstream and get its status written — while the model of the code (`targetOk`) drops it; for the Gateway
and HTTPRoute kinds the variant still compares the group. -/
theorem kind_only_dispatch_admits_foreign_group_service :
    let pg := processGateways exState.gws exCfg.gcName
    let routes := exState.routes.filterMap (buildRoute (allNsNames pg))
    let svcs := referencedServices pg.winner routes
    targetOkKindOnly pg routes svcs "default" ⟨"serving.knative.dev", "Service", "svc0"⟩ = true ∧
    targetOk pg routes svcs "default" ⟨"serving.knative.dev", "Service", "svc0"⟩ = false ∧
    targetOkKindOnly pg routes svcs "default" ⟨"example.com", "HTTPRoute", "hr0"⟩ = false ∧
    targetOkKindOnly pg routes svcs "default" ⟨"networking.istio.io", "Gateway", "gw0"⟩ = false ∧
    (∀ t ∈ [(⟨gatewayGroup, "Gateway", "gw0"⟩ : TRef), ⟨gatewayGroup, "HTTPRoute", "hr0"⟩, ⟨"core", "Service", "svc0"⟩, ⟨"", "Service", "svc0"⟩],
      targetOkKindOnly pg routes svcs "default" t = targetOk pg routes svcs "default" t) := by decide

/-! ## Histories: the class store of a long-lived controller (`GatewayClassPredicate`)

`BuildGraph` is a function of the controller's current store, so over a history the theorems above hold for
every batch with `s` = the store. The store of GatewayClasses, however, is fed through
`GatewayClassPredicate`, and differs from the cluster. `runClasses` replays any history of class events
(create/update/delete) through the predicate. -/

/-- For every history of class events, store and cluster hold the same classes of OUR controller: the winner
and the ignored-but-ours classes are always what a fresh start would see. -/
theorem long_lived_store_agrees_on_our_classes (ctlr : String) (start : List GwClass) (es : List ClsEv)
    (hu : NamesUnique start) (c : GwClass) (hc : c.ctlr = ctlr) :
    c ∈ (runClasses ctlr (start, start) es).2 ↔ c ∈ (runClasses ctlr (start, start) es).1 :=
  (run_agree ctlr es start start hu (fun _ _ => Iff.rfl)).2 c hc

/-- **Witness that `foreign_class_disables_all` fails over histories** (DESIGN §7 row 23, known finding
`C17:foreign-configured-class-created-while-running`): the configured-name class is created with a foreign
controller while the controller runs. The Create event is filtered, the store never learns of the class, the
early return is not taken, and status requests keep going to the Gateways and Routes of that class — while the
cluster state is one in which a fresh controller issues none. -/
theorem long_lived_misses_foreign_configured_class :
    let start : List GwClass := [⟨"nginx-2", exCfg.ctlr⟩]
    let r := runClasses exCfg.ctlr (start, start) [.put ⟨"nginx", "example.com/other"⟩]
    disabled exCfg { exState with classes := r.1 } = true ∧
    targets (buildGraph exCfg { exState with classes := r.1 }) = [] ∧
    disabled exCfg { exState with classes := r.2 } = false ∧
    Target.gw ⟨"default", "gw0"⟩ ∈ targets (buildGraph exCfg { exState with classes := r.2 }) ∧
    Target.route .http ⟨"default", "hr0"⟩ ∈ targets (buildGraph exCfg { exState with classes := r.2 }) := by
  decide

/-- **`foreign_class_disables_all` over histories, partial**: for every history of class events, if store and
cluster agree on whether the configured name is taken (the excluded region is exactly a configured-name class
of a foreign controller created — or left behind by a filtered delete — while the controller runs), the
long-lived controller takes the early return exactly when a fresh one would. -/
theorem foreign_class_disables_all_long_lived_partial (cfg : Cfg) (s : State) (start : List GwClass)
    (es : List ClsEv) (hu : NamesUnique start)
    (hname : (∃ c ∈ (runClasses cfg.ctlr (start, start) es).2, c.name = cfg.gcName) ↔
             (∃ c ∈ (runClasses cfg.ctlr (start, start) es).1, c.name = cfg.gcName)) :
    disabled cfg { s with classes := (runClasses cfg.ctlr (start, start) es).2 } =
    disabled cfg { s with classes := (runClasses cfg.ctlr (start, start) es).1 } := by
  apply disabled_congr
  · intro x hx
    exact ((run_agree cfg.ctlr es start start hu (fun _ _ => Iff.rfl)).2 x hx).symm
  · exact hname

/-- flips of the configured-name class between our controller and another one ARE delivered (Update passes
when the old or the new object names us): the store follows the cluster -/
example : (runClasses exCfg.ctlr ([⟨"nginx", exCfg.ctlr⟩], [⟨"nginx", exCfg.ctlr⟩])
    [.put ⟨"nginx", "example.com/other"⟩, .put ⟨"nginx", exCfg.ctlr⟩, .put ⟨"nginx", "example.com/other"⟩]) =
    ([⟨"nginx", "example.com/other"⟩], [⟨"nginx", "example.com/other"⟩]) := by decide
/-- … but a delete of the class while it names another controller is not: the store keeps it (the controller
stays disabled although a fresh one would not be; no foreign write results, this one is C01's) -/
example : (runClasses exCfg.ctlr ([⟨"nginx", exCfg.ctlr⟩], [⟨"nginx", exCfg.ctlr⟩])
    [.put ⟨"nginx", "example.com/other"⟩, .del "nginx"]) = ([], [⟨"nginx", "example.com/other"⟩]) := by decide
example : NamesUnique [⟨"nginx-2", exCfg.ctlr⟩] := by unfold NamesUnique; decide

/-! ## Non-vacuity: a concrete mixed cluster (`exState`, Proofs/Ownership.lean) -/

example : Droppable exCfg exState exKeep := by unfold Droppable; decide
example : (exState.restrict exKeep).routes.length = 3 ∧ exState.routes.length = 5 := by decide
example : buildGraph exCfg exState ≠ Core.empty := by decide
example : (targets (buildGraph exCfg exState)).map Target.key =
    ["cls/nginx", "cls/nginx-2", "gw/default/gw0", "gw/default/gw1", "HTTPRoute/default/hr0", "HTTPRoute/default/hr1",
     "GRPCRoute/default/shared", "pol:ClientSettingsPolicy/default/csp", "pol:ObservabilityPolicy/default/obs",
     "btp/default/btp", "snip/default/sf", "snip/default/xsf", "snip/team-a/sf"] := by decide
example : KeysUnique exState := by unfold KeysUnique; decide
example : foreignRoute exCfg exState ⟨.http, ⟨"default", "xr"⟩, [⟨none, none, none, "fgw", none⟩], true, [⟨"default", "xsvc"⟩], true, []⟩ = true := by
  decide
/-- a parentRef with an explicit EMPTY group (the core API group), or group "core", is not a reference to a
Gateway API Gateway even when kind/namespace/name are those of our Gateway: such a Route is foreign, stays out
of the graph and gets no request -/
example : [some "", some "core", some "example.com"].all (fun g =>
    let r : Route := ⟨.http, ⟨"default", "xr2"⟩, [⟨g, some "Gateway", some "default", "gw0", none⟩], true, [], true, []⟩
    foreignRoute exCfg { exState with routes := r :: exState.routes } r &&
    (buildRoute (allNsNames (processGateways exState.gws exCfg.gcName)) r).isNone &&
    !(targets (buildGraph exCfg { exState with routes := r :: exState.routes })).contains (Target.route .http ⟨"default", "xr2"⟩)) = true := by
  decide
/-- a BackendTLSPolicy targeting a Service none of our routes resolves to is not ours to write, whatever its spec -/
example : foreignBtp exCfg exState ⟨⟨"default", "xbtp"⟩, ["xsvc"], false⟩ = true ∧
    Target.btp ⟨"default", "xbtp"⟩ ∉ targets (buildGraph exCfg exState) := by decide
/-- the ObservabilityPolicy keeps only its target that is in the graph -/
example : ((buildGraph exCfg exState).policies.map (·.targets.length)) = [1, 1, 1] := by decide
example : disabled exCfg exDisabled = true ∧ targets (buildGraph exCfg exDisabled) = [] := by decide
example : disabled exCfg exState = false := by decide
/-- without the early return the same cluster would be configured: the guard is what disables it -/
example : (processGateways exDisabled.gws exCfg.gcName).winner.isSome = true := by decide

/-! ## The judge agrees with the theorems on the example -/

example : foreignKeys exCfg exState =
    ["cls/other", "gw/default/fgw", "HTTPRoute/default/xr", "TLSRoute/team-a/tr", "pol:ClientSettingsPolicy/default/xcsp",
     "pol:UpstreamSettingsPolicy/default/xusp", "btp/default/xbtp"] := by decide

/-! ## Expectation lemmas over the facts regenerated from /repo (any textual change of the anchored
statements breaks the corresponding lemma) -/

theorem facts_constants :
    G.kindGateway = gatewayKind ∧
    G.gatewayGroupKindExpr = "v1.GroupName + \"/\" + kinds.Gateway" ∧ gatewayGroupKind = gatewayGroup ++ "/" ++ G.kindGateway ∧
    hrGroupKind = gatewayGroup ++ "/" ++ G.kindHTTPRoute ∧ grpcGroupKind = gatewayGroup ++ "/" ++ G.kindGRPCRoute ∧
    serviceGroupKind = "core" ++ "/" ++ G.kindService ∧ G.maxAncestors = maxAncestors := by decide

theorem facts_processGatewayClassesBody : G.processGatewayClassesBody =
  ["processedGwClasses := processedGatewayClasses{}",
   "var gcExists bool",
   "for _, gc := range gcs { if gc.Name == gcName { gcExists = true if string(gc.Spec.ControllerName) == controllerName { processedGwClasses.Winner = gc } } else if string(gc.Spec.ControllerName) == controllerName { if processedGwClasses.Ignored == nil { processedGwClasses.Ignored = make(map[types.NamespacedName]*v1.GatewayClass) } processedGwClasses.Ignored[client.ObjectKeyFromObject(gc)] = gc } }",
   "return processedGwClasses, gcExists"] := rfl

theorem facts_buildGraphHead : G.buildGraphHead =
  ["var globalSettings *policies.GlobalSettings",
   "processedGwClasses, gcExists := processGatewayClasses(state.GatewayClasses, gcName, controllerName)",
   "if gcExists && processedGwClasses.Winner == nil { return &Graph{} }"] := rfl

theorem facts_processGatewaysArgs : G.processGatewaysArgs =
  ["state.Gateways",
   "gcName"] := rfl

theorem facts_buildRoutesArgs : G.buildRoutesArgs =
  ["validators.HTTPFieldsValidator",
   "state.HTTPRoutes",
   "state.GRPCRoutes",
   "processedGws.GetAllNsNames()",
   "npCfg",
   "processedSnippetsFilters"] := rfl

theorem facts_buildL4RoutesArgs : G.buildL4RoutesArgs =
  ["state.TLSRoutes",
   "processedGws.GetAllNsNames()",
   "state.Services",
   "npCfg",
   "refGrantResolver"] := rfl

theorem facts_processPoliciesArgs : G.processPoliciesArgs =
  ["state.NGFPolicies",
   "validators.PolicyValidator",
   "processedGws",
   "routes",
   "referencedServices",
   "globalSettings"] := rfl

theorem facts_buildReferencedServicesArgs : G.buildReferencedServicesArgs =
  ["routes",
   "l4routes",
   "gw"] := rfl

theorem facts_graphLiteralFields : G.graphLiteralFields =
  ["GatewayClass: gc",
   "Gateway: gw",
   "Routes: routes",
   "L4Routes: l4routes",
   "IgnoredGatewayClasses: processedGwClasses.Ignored",
   "IgnoredGateways: processedGws.Ignored",
   "ReferencedServices: referencedServices",
   "BackendTLSPolicies: processedBackendTLSPolicies",
   "NGFPolicies: processedPolicies",
   "SnippetsFilters: processedSnippetsFilters"] := rfl

theorem facts_gatewayExistsBody : G.gatewayExistsBody =
  ["if winner == nil { return false }",
   "if client.ObjectKeyFromObject(winner) == gwNsName { return true }",
   "_, exists := ignored[gwNsName]",
   "return exists"] := rfl

theorem facts_processGatewaysBody : G.processGatewaysBody =
  ["referencedGws := make([]*v1.Gateway, 0, len(gws))",
   "for _, gw := range gws { if string(gw.Spec.GatewayClassName) != gcName { continue } referencedGws = append(referencedGws, gw) }",
   "if len(referencedGws) == 0 { return processedGateways{} }",
   "sort.Slice(referencedGws, func(i, j int) bool { return ngfsort.LessClientObject(referencedGws[i], referencedGws[j]) })",
   "ignoredGws := make(map[types.NamespacedName]*v1.Gateway)",
   "for _, gw := range referencedGws[1:] { ignoredGws[client.ObjectKeyFromObject(gw)] = gw }",
   "return processedGateways{ Winner: referencedGws[0], Ignored: ignoredGws, }"] := rfl

theorem facts_getAllNsNamesBody : G.getAllNsNamesBody =
  ["winnerCnt := 0",
   "if gws.Winner != nil { winnerCnt = 1 }",
   "length := winnerCnt + len(gws.Ignored)",
   "if length == 0 { return nil }",
   "allNsNames := make([]types.NamespacedName, 0, length)",
   "if gws.Winner != nil { allNsNames = append(allNsNames, client.ObjectKeyFromObject(gws.Winner)) }",
   "for nsName := range gws.Ignored { allNsNames = append(allNsNames, nsName) }",
   "return allNsNames"] := rfl

theorem facts_findGatewayForParentRefBody : G.findGatewayForParentRefBody =
  ["if ref.Kind != nil && *ref.Kind != kinds.Gateway { return types.NamespacedName{}, false }",
   "if ref.Group != nil && *ref.Group != v1.GroupName { return types.NamespacedName{}, false }",
   "ns := routeNamespace",
   "if ref.Namespace != nil { ns = string(*ref.Namespace) }",
   "for _, gw := range gatewayNsNames { if gw.Namespace == ns && gw.Name == string(ref.Name) { return gw, true } }",
   "return types.NamespacedName{}, false"] := rfl

theorem facts_buildSectionNameRefsBody : G.buildSectionNameRefsBody =
  ["sectionNameRefs := make([]ParentRef, 0, len(parentRefs))",
   "type key struct { gwNsName types.NamespacedName sectionName string }",
   "uniqueSectionsPerGateway := make(map[key]struct{})",
   "for i, p := range parentRefs { gw, found := findGatewayForParentRef(p, routeNamespace, gatewayNsNames) if !found { continue } var sectionName string if p.SectionName != nil { sectionName = string(*p.SectionName) } k := key{ gwNsName: gw, sectionName: sectionName, } if _, exist := uniqueSectionsPerGateway[k]; exist { return nil, fmt.Errorf(\"duplicate section name %q for Gateway %s\", sectionName, gw.String()) } uniqueSectionsPerGateway[k] = struct{}{} sectionNameRefs = append(sectionNameRefs, ParentRef{ Idx: i, Gateway: gw, SectionName: p.SectionName, Port: p.Port, }) }",
   "return sectionNameRefs, nil"] := rfl

theorem facts_buildRoutesForGatewaysBody : G.buildRoutesForGatewaysBody =
  ["if len(gatewayNsNames) == 0 { return nil }",
   "routes := make(map[RouteKey]*L7Route)",
   "http2disabled := isHTTP2Disabled(npCfg)",
   "for _, route := range httpRoutes { r := buildHTTPRoute(validator, route, gatewayNsNames, snippetsFilters) if r != nil { routes[CreateRouteKey(route)] = r } }",
   "for _, route := range grpcRoutes { r := buildGRPCRoute(validator, route, gatewayNsNames, http2disabled, snippetsFilters) if r != nil { routes[CreateRouteKey(route)] = r } }",
   "return routes"] := rfl

theorem facts_buildL4RoutesForGatewaysBody : G.buildL4RoutesForGatewaysBody =
  ["if len(gatewayNsNames) == 0 { return nil }",
   "routes := make(map[L4RouteKey]*L4Route)",
   "for _, route := range tlsRoutes { r := buildTLSRoute( route, gatewayNsNames, services, npCfg, resolver.refAllowedFrom(fromTLSRoute(route.Namespace)), ) if r != nil { routes[CreateRouteKeyL4(route)] = r } }",
   "return routes"] := rfl

theorem facts_buildHTTPRouteHead : G.buildHTTPRouteHead =
  ["r := &L7Route{ Source: ghr, RouteType: RouteTypeHTTP, }",
   "sectionNameRefs, err := buildSectionNameRefs(ghr.Spec.ParentRefs, ghr.Namespace, gatewayNsNames)",
   "if err != nil { r.Valid = false return r }",
   "if len(sectionNameRefs) == 0 { return nil }",
   "r.ParentRefs = sectionNameRefs"] := rfl

theorem facts_buildGRPCRouteHead : G.buildGRPCRouteHead =
  ["r := &L7Route{ Source: ghr, RouteType: RouteTypeGRPC, }",
   "sectionNameRefs, err := buildSectionNameRefs(ghr.Spec.ParentRefs, ghr.Namespace, gatewayNsNames)",
   "if err != nil { r.Valid = false return r }",
   "if len(sectionNameRefs) == 0 { return nil }",
   "r.ParentRefs = sectionNameRefs"] := rfl

theorem facts_buildTLSRouteHead : G.buildTLSRouteHead =
  ["r := &L4Route{ Source: gtr, }",
   "sectionNameRefs, err := buildSectionNameRefs(gtr.Spec.ParentRefs, gtr.Namespace, gatewayNsNames)",
   "if err != nil { r.Valid = false return r }",
   "if len(sectionNameRefs) == 0 { return nil }",
   "r.ParentRefs = sectionNameRefs"] := rfl

theorem facts_buildReferencedServicesBody : G.buildReferencedServicesBody =
  ["if gw == nil { return nil }",
   "referencedServices := make(map[types.NamespacedName]*ReferencedService)",
   "belongsToWinningGw := func(refs []ParentRef) bool { for _, ref := range refs { if ref.Gateway == client.ObjectKeyFromObject(gw.Source) { return true } } return false }",
   "addServicesForL7Routes := func(routeRules []RouteRule) { for _, rule := range routeRules { for _, ref := range rule.BackendRefs { if ref.SvcNsName != (types.NamespacedName{}) { referencedServices[ref.SvcNsName] = &ReferencedService{ Policies: nil, } } } } }",
   "addServicesForL4Routes := func(route *L4Route) { nsname := route.Spec.BackendRef.SvcNsName if nsname != (types.NamespacedName{}) { referencedServices[nsname] = &ReferencedService{ Policies: nil, } } }",
   "for _, route := range l7routes { if !route.Valid { continue } if !belongsToWinningGw(route.ParentRefs) { continue } addServicesForL7Routes(route.Spec.Rules) }",
   "for _, route := range l4Routes { if !route.Valid { continue } if !belongsToWinningGw(route.ParentRefs) { continue } addServicesForL4Routes(route) }",
   "if len(referencedServices) == 0 { return nil }",
   "return referencedServices"] := rfl

theorem facts_processPoliciesBody : G.processPoliciesBody =
  ["if len(pols) == 0 || gateways.Winner == nil { return nil }",
   "processedPolicies := make(map[PolicyKey]*Policy)",
   "for key, policy := range pols { var conds []conditions.Condition targetRefs := make([]PolicyTargetRef, 0, len(policy.GetTargetRefs())) targetedRoutes := make(map[types.NamespacedName]*L7Route) for _, ref := range policy.GetTargetRefs() { refNsName := types.NamespacedName{Name: string(ref.Name), Namespace: policy.GetNamespace()} switch refGroupKind(ref.Group, ref.Kind) { case gatewayGroupKind: if !gatewayExists(refNsName, gateways.Winner, gateways.Ignored) { continue } case hrGroupKind, grpcGroupKind: if route, exists := routes[routeKeyForKind(ref.Kind, refNsName)]; !exists { continue } else { targetedRoutes[client.ObjectKeyFromObject(route.Source)] = route } case serviceGroupKind: if _, exists := services[refNsName]; !exists { continue } default: continue } targetRefs = append(targetRefs, PolicyTargetRef{ Kind: ref.Kind, Group: ref.Group, Nsname: refNsName, }) } if len(targetRefs) == 0 { continue } overlapConds := checkTargetRoutesForOverlap(targetedRoutes, routes) conds = append(conds, overlapConds...) conds = append(conds, validator.Validate(policy, globalSettings)...) processedPolicies[key] = &Policy{ Source: policy, Valid: len(conds) == 0, Conditions: conds, TargetRefs: targetRefs, Ancestors: make([]PolicyAncestor, 0, len(targetRefs)), } }",
   "markConflictedPolicies(processedPolicies, validator)",
   "return processedPolicies"] := rfl

theorem facts_attachPoliciesBody : G.attachPoliciesBody =
  ["if g.Gateway == nil { return }",
   "for _, policy := range g.NGFPolicies { for _, ref := range policy.TargetRefs { switch ref.Kind { case kinds.Gateway: attachPolicyToGateway(policy, ref, g.Gateway, g.IgnoredGateways, ctlrName) case kinds.HTTPRoute, kinds.GRPCRoute: route, exists := g.Routes[routeKeyForKind(ref.Kind, ref.Nsname)] if !exists { continue } attachPolicyToRoute(policy, route, ctlrName) case kinds.Service: svc, exists := g.ReferencedServices[ref.Nsname] if !exists { continue } attachPolicyToService(policy, svc, g.Gateway, ctlrName) } } }"] := rfl

theorem facts_attachPolicyToGatewayBody : G.attachPolicyToGatewayBody =
  ["_, ignored := ignoredGateways[ref.Nsname]",
   "if !ignored && ref.Nsname != client.ObjectKeyFromObject(gw.Source) { return }",
   "ancestor := PolicyAncestor{ Ancestor: createParentReference(v1.GroupName, kinds.Gateway, ref.Nsname), }",
   "if ngfPolicyAncestorsFull(policy, ctlrName) { return }",
   "if ignored { ancestor.Conditions = []conditions.Condition{staticConds.NewPolicyTargetNotFound(\"TargetRef is ignored\")} policy.Ancestors = append(policy.Ancestors, ancestor) return }",
   "if !gw.Valid { ancestor.Conditions = []conditions.Condition{staticConds.NewPolicyTargetNotFound(\"TargetRef is invalid\")} policy.Ancestors = append(policy.Ancestors, ancestor) return }",
   "policy.Ancestors = append(policy.Ancestors, ancestor)",
   "gw.Policies = append(gw.Policies, policy)"] := rfl

theorem facts_refGroupKindBody : G.refGroupKindBody =
  ["if group == \"\" { return fmt.Sprintf(\"core/%s\", kind) }",
   "return fmt.Sprintf(\"%s/%s\", group, kind)"] := rfl

theorem facts_gatewayGroupKindExpr : G.gatewayGroupKindExpr =
  "v1.GroupName + \"/\" + kinds.Gateway" := rfl

theorem facts_hrGroupKindExpr : G.hrGroupKindExpr =
  "v1.GroupName + \"/\" + kinds.HTTPRoute" := rfl

theorem facts_grpcGroupKindExpr : G.grpcGroupKindExpr =
  "v1.GroupName + \"/\" + kinds.GRPCRoute" := rfl

theorem facts_serviceGroupKindExpr : G.serviceGroupKindExpr =
  "\"core\" + \"/\" + kinds.Service" := rfl

theorem facts_kindGateway : G.kindGateway =
  "Gateway" := rfl

theorem facts_kindHTTPRoute : G.kindHTTPRoute =
  "HTTPRoute" := rfl

theorem facts_kindGRPCRoute : G.kindGRPCRoute =
  "GRPCRoute" := rfl

theorem facts_kindService : G.kindService =
  "Service" := rfl

theorem facts_maxAncestors : G.maxAncestors =
  16 := rfl

theorem facts_ngfPolicyAncestorsFullBody : G.ngfPolicyAncestorsFullBody =
  ["currAncestors := policy.Source.GetPolicyStatus().Ancestors",
   "var nonNGFControllerCount int",
   "for _, ancestor := range currAncestors { if ancestor.ControllerName != v1.GatewayController(ctlrName) { nonNGFControllerCount++ } }",
   "return nonNGFControllerCount+len(policy.Ancestors) >= maxAncestors"] := rfl

theorem facts_processBackendTLSPoliciesGuard : G.processBackendTLSPoliciesGuard =
  ["if len(backendTLSPolicies) == 0 || gateway == nil { return nil }"] := rfl

theorem facts_gatewayClassPredicateCreate : G.gatewayClassPredicateCreate =
  ["if e.Object == nil { return false }",
   "gc, ok := e.Object.(*v1.GatewayClass)",
   "if !ok { return false }",
   "return string(gc.Spec.ControllerName) == gcp.ControllerName"] := rfl

theorem facts_gatewayClassPredicateUpdate : G.gatewayClassPredicateUpdate =
  ["if e.ObjectOld != nil { gcOld, ok := e.ObjectOld.(*v1.GatewayClass) if ok && string(gcOld.Spec.ControllerName) == gcp.ControllerName { return true } }",
   "if e.ObjectNew != nil { gcNew, ok := e.ObjectNew.(*v1.GatewayClass) if ok && string(gcNew.Spec.ControllerName) == gcp.ControllerName { return true } }",
   "return false"] := rfl

theorem facts_gatewayClassPredicateDelete : G.gatewayClassPredicateDelete =
  ["if e.Object == nil { return false }",
   "gc, ok := e.Object.(*v1.GatewayClass)",
   "if !ok { return false }",
   "return string(gc.Spec.ControllerName) == gcp.ControllerName"] := rfl

theorem facts_updateStatusesPrepareCalls : G.updateStatusesPrepareCalls =
  ["status.PrepareGatewayClassRequests(gr.GatewayClass, gr.IgnoredGatewayClasses)",
   "status.PrepareRouteRequests(gr.L4Routes, gr.Routes)",
   "status.PrepareBackendTLSPolicyRequests(gr.BackendTLSPolicies)",
   "status.PrepareNGFPolicyRequests(gr.NGFPolicies)",
   "status.PrepareSnippetsFilterRequests(gr.SnippetsFilters)",
   "status.PrepareGatewayRequests(gr.Gateway, gr.IgnoredGateways)"] := rfl

theorem facts_prepareRequestsLoops : G.prepareRequestsLoops =
  ["PrepareRouteRequests: range l4routes",
   "PrepareRouteRequests: range routes",
   "PrepareGatewayClassRequests: if gc != nil",
   "PrepareGatewayClassRequests: range ignoredGwClasses",
   "PrepareGatewayRequests: if gateway != nil",
   "PrepareGatewayRequests: range ignoredGateways",
   "PrepareNGFPolicyRequests: range policies",
   "PrepareNGFPolicyRequests: skip if len(pol.Ancestors) == 0",
   "PrepareBackendTLSPolicyRequests: range policies",
   "PrepareBackendTLSPolicyRequests: skip if !pol.IsReferenced || pol.Ignored",
   "PrepareSnippetsFilterRequests: range snippetsFilters"] := rfl

theorem facts_setterKeepLoops : G.setterKeepLoops =
  ["newHTTPRouteStatusSetter: range hr.Status.Parents if string(os.ControllerName) != gatewayCtlrName newStatus.Parents = append(newStatus.Parents, os)",
   "newTLSRouteStatusSetter: range tr.Status.Parents if string(os.ControllerName) != gatewayCtlrName newStatus.Parents = append(newStatus.Parents, os)",
   "newGRPCRouteStatusSetter: range gr.Status.Parents if string(os.ControllerName) != gatewayCtlrName newStatus.Parents = append(newStatus.Parents, os)",
   "newBackendTLSPolicyStatusSetter: range btp.Status.Ancestors if string(os.ControllerName) != gatewayCtlrName ancestors = append(ancestors, os)",
   "newNGFPolicyStatusSetter: range prevStatus.Ancestors if string(as.ControllerName) != gatewayCtlrName ancestors = append(ancestors, as)",
   "newSnippetsFilterStatusSetter: range sf.Status.Controllers if string(status.ControllerName) != gatewayCtlrName controllerStatuses = append(controllerStatuses, status)"] := rfl

/-! ### facts behind the SnippetsFilter `Referenced` model and the leadership composition

`sf.Referenced = true` is the ONLY write of the flag (`facts_snippetsFilterReferencedWrites`), inside the resolver
closure, which is called from `processRouteRuleFilters` only, reached from `buildHTTPRoute`/`buildGRPCRoute` through
`process*RouteRules` — in both AFTER `if len(sectionNameRefs) == 0 { return nil }` (`facts_build{HTTP,GRPC}RouteBody`:
the statement order is pinned, which is what the seeded change C17-r3m1 alters). `updateStatuses` makes exactly the
two `UpdateGroup` calls `opsOf` models, Gateway requests in the second. -/

theorem facts_buildHTTPRouteBody : G.buildHTTPRouteBody =
  ["r := &L7Route{ Source: ghr, RouteType: RouteTypeHTTP, }",
   "sectionNameRefs, err := buildSectionNameRefs(ghr.Spec.ParentRefs, ghr.Namespace, gatewayNsNames)",
   "if err != nil { r.Valid = false return r }",
   "if len(sectionNameRefs) == 0 { return nil }",
   "r.ParentRefs = sectionNameRefs",
   "if err := validateHostnames( ghr.Spec.Hostnames, field.NewPath(\"spec\").Child(\"hostnames\"), ); err != nil { r.Valid = false r.Conditions = append(r.Conditions, staticConds.NewRouteUnsupportedValue(err.Error())) return r }",
   "r.Spec.Hostnames = ghr.Spec.Hostnames",
   "r.Attachable = true",
   "rules, valid, conds := processHTTPRouteRules( ghr.Spec.Rules, validator, getSnippetsFilterResolverForNamespace(snippetsFilters, r.Source.GetNamespace()), )",
   "r.Spec.Rules = rules",
   "r.Conditions = append(r.Conditions, conds...)",
   "r.Valid = valid",
   "return r"] := rfl

theorem facts_buildGRPCRouteBody : G.buildGRPCRouteBody =
  ["r := &L7Route{ Source: ghr, RouteType: RouteTypeGRPC, }",
   "sectionNameRefs, err := buildSectionNameRefs(ghr.Spec.ParentRefs, ghr.Namespace, gatewayNsNames)",
   "if err != nil { r.Valid = false return r }",
   "if len(sectionNameRefs) == 0 { return nil }",
   "r.ParentRefs = sectionNameRefs",
   "if http2disabled { r.Valid = false msg := \"HTTP2 is disabled - cannot configure GRPCRoutes\" r.Conditions = append(r.Conditions, staticConds.NewRouteUnsupportedConfiguration(msg)) return r }",
   "if err := validateHostnames( ghr.Spec.Hostnames, field.NewPath(\"spec\").Child(\"hostnames\"), ); err != nil { r.Valid = false r.Conditions = append(r.Conditions, staticConds.NewRouteUnsupportedValue(err.Error())) return r }",
   "r.Spec.Hostnames = ghr.Spec.Hostnames",
   "r.Attachable = true",
   "rules, valid, conds := processGRPCRouteRules( ghr.Spec.Rules, validator, getSnippetsFilterResolverForNamespace(snippetsFilters, r.Source.GetNamespace()), )",
   "r.Spec.Rules = rules",
   "r.Valid = valid",
   "r.Conditions = append(r.Conditions, conds...)",
   "return r"] := rfl

theorem facts_snippetsFilterResolverBody : G.snippetsFilterResolverBody =
  ["if len(snippetsFilters) == 0 { return nil }",
   "if ref.Group != ngfAPI.GroupName || ref.Kind != kinds.SnippetsFilter { return nil }",
   "sf := snippetsFilters[types.NamespacedName{Namespace: ns, Name: string(ref.Name)}]",
   "if sf == nil { return nil }",
   "sf.Referenced = true",
   "return &ExtensionRefFilter{SnippetsFilter: sf, Valid: sf.Valid}"] := rfl

theorem facts_snippetsFilterReferencedWrites : G.snippetsFilterReferencedWrites =
  ["snippets_filter.go: sf.Referenced = true"] := rfl

theorem facts_processRouteRuleFiltersBody : G.processRouteRuleFiltersBody =
  ["errors := routeRuleErrors{}",
   "valid := true",
   "for i, f := range filters { filterPath := path.Index(i) validateErrs := validateFilter(validator, f, filterPath) if len(validateErrs) > 0 { errors.invalid = append(errors.invalid, validateErrs...) valid = false continue } if f.FilterType == FilterExtensionRef && f.ExtensionRef != nil { resolved := resolveExtRefFunc(*f.ExtensionRef) if resolved == nil { err := field.NotFound(filterPath.Child(\"extensionRef\"), f.ExtensionRef) errors.resolve = append(errors.resolve, err) valid = false continue } if !resolved.Valid { err := field.Invalid( filterPath.Child(\"extensionRef\"), f.ExtensionRef, \"referenced filter is invalid. See filter status for more details.\", ) errors.resolve = append(errors.resolve, err) valid = false continue } filters[i].ResolvedExtensionRef = resolved } }",
   "return RouteRuleFilters{Valid: valid, Filters: filters}, errors"] := rfl

theorem facts_snippetsFilterResolverCalls : G.snippetsFilterResolverCalls =
  ["httproute.go buildHTTPRoute: getSnippetsFilterResolverForNamespace(snippetsFilters, r.Source.GetNamespace())",
   "grpcroute.go buildGRPCRoute: getSnippetsFilterResolverForNamespace(snippetsFilters, r.Source.GetNamespace())",
   "common_filter.go processRouteRuleFilters: resolveExtRefFunc(*f.ExtensionRef)"] := rfl

theorem facts_buildSnippetsForContextBody : G.buildSnippetsForContextBody =
  ["if len(snippetFilters) == 0 { return nil }",
   "snippetsForContext := make([]Snippet, 0)",
   "for _, filter := range snippetFilters { if !filter.Valid || !filter.Referenced { continue } snippetValue, ok := filter.Snippets[nc] if !ok { continue } snippetsForContext = append(snippetsForContext, Snippet{ Name: createSnippetName(nc, client.ObjectKeyFromObject(filter.Source)), Contents: snippetValue, }) }",
   "return snippetsForContext"] := rfl

theorem facts_updateStatusesGroupCalls : G.updateStatusesGroupCalls =
  ["append(reqs, gcReqs...)",
   "append(reqs, routeReqs...)",
   "append(reqs, polReqs...)",
   "append(reqs, ngfPolReqs...)",
   "append(reqs, snippetsFilterReqs...)",
   "h.cfg.statusUpdater.UpdateGroup(ctx, groupAllExceptGateways, reqs...)",
   "h.cfg.statusUpdater.UpdateGroup(ctx, groupGateways, gwReqs...)"] := rfl

theorem facts_groupAllExceptGateways : G.groupAllExceptGateways =
  "all-graphs-except-gateways" := rfl

theorem facts_groupGateways : G.groupGateways =
  "gateways" := rfl

/-- the position of the resolver inside build{HTTP,GRPC}Route: after the parentRef check (`rulesProcessed`) -/
theorem facts_resolver_after_parentref_check :
    (G.buildHTTPRouteBody.idxOf "if len(sectionNameRefs) == 0 { return nil }" <
      G.buildHTTPRouteBody.idxOf "rules, valid, conds := processHTTPRouteRules( ghr.Spec.Rules, validator, getSnippetsFilterResolverForNamespace(snippetsFilters, r.Source.GetNamespace()), )") ∧
    (G.buildGRPCRouteBody.idxOf "if len(sectionNameRefs) == 0 { return nil }" <
      G.buildGRPCRouteBody.idxOf "rules, valid, conds := processGRPCRouteRules( ghr.Spec.Rules, validator, getSnippetsFilterResolverForNamespace(snippetsFilters, r.Source.GetNamespace()), )") ∧
    G.buildHTTPRouteBody.idxOf "rules, valid, conds := processHTTPRouteRules( ghr.Spec.Rules, validator, getSnippetsFilterResolverForNamespace(snippetsFilters, r.Source.GetNamespace()), )" < G.buildHTTPRouteBody.length ∧
    G.buildGRPCRouteBody.idxOf "rules, valid, conds := processGRPCRouteRules( ghr.Spec.Rules, validator, getSnippetsFilterResolverForNamespace(snippetsFilters, r.Source.GetNamespace()), )" < G.buildGRPCRouteBody.length := by
  decide +kernel


end NGF.Ownership

/-! ## Foreign non-interference over the PIPELINE model with references (`genR = gen ∘ resolve`)

`NGF.Pipeline.gen` (Model/Pipeline.lean, C02) is the model of graph → dataplane → NGINX configuration for the HTTP
fragment, `NGF.PipelineRefs.resolve` (Model/PipelineRefs.lean, C06) the model of backendRef resolution with Services
and ReferenceGrants; `genR c` is compared with the REAL http.conf on every in-fragment case (C02 `pipeline`, C06 `refs`,
and this property's `frag` stream on both sides of every pair). The theorems below are the SET form of C02's
`noninterference_foreign_fragment`: a whole foreign set X mixed into the cluster in ANY arrival order
(`Mixed`: `List.Perm` of the concatenations, per kind). Helper lemmas: Proofs/PipelineForeign.lean. -/
namespace NGF.Props.C17Pipeline
open NGF.Pipeline NGF.PipelineRefs NGF.PipelineForeign

/-- **Set form, meaning.** For ALL clusters `c` and ALL foreign sets X (`Foreign c x`: GatewayClasses of other names,
Gateways of other classes, Routes attached to no listener of the served Gateway — every parentRef names another or an
unknown Gateway or an unknown section, or the namespace is not allowed, or the route is invalid —, Services no
backendRef of a route of ours names, ReferenceGrants that permit no backendRef of a route of ours), with `c'` = the
objects of `c` and X in ANY order: NGINX answers every request under the configuration of `c'` as under that of `c`.
Hypotheses: Kubernetes key uniqueness in `c'` (Gateways, Routes, Services) and no empty match path in `c`. -/
theorem noninterference_foreign_set (c : ScenarioR) (x : XSet) (c' : ScenarioR) (hm : Mixed c x c')
    (hf : Foreign c x) (hk : KeyInj c'.gateways) (hrk : RouteKeysNodup (resolve c').routes)
    (hsk : SvcKeysNodup c'.services) (hp : PathsOKR c) :
    ∀ q, nginxEvalConf (genR c') q = nginxEvalConf (genR c) q :=
  genR_mixed_meaning hm hf hk hrk hsk hp

/-- **Set form, configuration.** … and the two configurations are equal up to the order of the default-server ports, of
the servers and of the locations of each server. -/
theorem noninterference_foreign_set_equiv (c : ScenarioR) (x : XSet) (c' : ScenarioR) (hm : Mixed c x c')
    (hf : Foreign c x) (hk : KeyInj c'.gateways) (hrk : RouteKeysNodup (resolve c').routes)
    (hsk : SvcKeysNodup c'.services) : Conf.equiv (genR c) (genR c') :=
  genR_mixed_equiv hm hf hk hrk hsk

/-- When the foreign objects arrive after ours (X appended) the configuration is literally the same. -/
theorem noninterference_foreign_set_appended (c : ScenarioR) (x : XSet) (hf : Foreign c x)
    (hn : SvcKeysNodup (c.services ++ x.services)) : genR (ext c x) = genR c :=
  genR_ext c x hf hn

/-- **Referenced Services.** `Graph.ReferencedServices` (the relevance filter of Service/EndpointSlice events) of `c ∪ X`
is that of `c` up to order — provided no Route of X is in the graph on behalf of the served Gateway. -/
theorem referencedServices_foreign_set (c : ScenarioR) (x : XSet) (c' : ScenarioR) (hm : Mixed c x c')
    (hf : Foreign c x) (hk : KeyInj c'.gateways)
    (hx : ∀ g, winner (resolve c) = some g → ∀ r ∈ x.routes, inGraph g r = false) :
    (referencedServices c').Perm (referencedServices c) :=
  referencedServices_mixed hm hf hk hx

/-- the served Gateway of `c ∪ X` is the served Gateway of `c` -/
theorem served_gateway_foreign_set (c : ScenarioR) (x : XSet) (c' : ScenarioR) (hm : Mixed c x c')
    (hf : Foreign c x) (hk : KeyInj c'.gateways) : winner (resolve c') = winner (resolve c) :=
  winner_mixed hm hf hk

/-- **A foreign-controlled configured class disables all configuration**: if no GatewayClass with the configured name
names our controller — in particular when the class with that name names another controller — the generated
configuration is empty (no default server, no server), whatever Gateways, Routes, Services and grants exist. -/
theorem foreign_class_disables_all_gen (c : ScenarioR)
    (h : ∀ k ∈ c.classes, (k.name == c.cls) = true → (k.ctlr == c.ctlr) = false) :
    genR c = { ports := [], servers := [] } ∧ ∀ q, nginxEvalConf (genR c) q = .refused := by
  have hw : winner (resolve c) = none := by
    unfold winner classOurs
    have : (resolve c).classes.any (fun k => k.name == (resolve c).cls && k.ctlr == (resolve c).ctlr) = false := by
      rw [List.any_eq_false]
      intro k hk
      have hk' : k ∈ c.classes := hk
      cases hn : (k.name == c.cls) with
      | false => simp [show (k.name == (resolve c).cls) = false from hn]
      | true =>
        have := h k hk' hn
        simp [show (k.ctlr == (resolve c).ctlr) = false from this]
    simp [this]
  have e : genR c = { ports := [], servers := [] } := by
    unfold genR gen; rw [hw]
  refine ⟨e, fun q => ?_⟩
  rw [e]; simp [nginxEvalConf]

/-- the executable check of the hypothesis `Foreign` (evaluated by `ngfdriver_C17 fragx` on every generated pair) is sound -/
theorem foreignB_sound (c : ScenarioR) (x : XSet) (h : foreignB c x = true) : Foreign c x :=
  foreign_of_foreignB h

/-- **The form the driver evaluates** (`ngfdriver_C17 fragx`, on every pair (s, s ∪ X) the harness runs through the real
pipeline): when the executable check `hypsB` — `Mixed`, `Foreign`, key uniqueness, non-empty paths — accepts the decoded
pair, NGINX cannot tell the two model configurations apart, and they are equal up to order. -/
theorem noninterference_foreign_set_checked (c : ScenarioR) (x : XSet) (c' : ScenarioR) (h : hypsB c x c' = true) :
    (∀ q, nginxEvalConf (genR c') q = nginxEvalConf (genR c) q) ∧ Conf.equiv (genR c) (genR c') :=
  genR_meaning_of_hypsB h

/-- which Routes are foreign, syntactically: every parentRef names another (or an unknown) Gateway or an unknown section;
or the Route lives in a namespace no listener of the served Gateway admits -/
theorem foreign_route_syntactic (g : Gateway) (r : RouteR) :
    ((∀ p ∈ r.parents, (p.ns == g.ns && p.name == g.name) = false ∨
        ∃ sn, p.sectionName = some sn ∧ ∀ l ∈ g.listeners, (sn == l.name) = false) → attached g r = false) ∧
    ((r.ns.toList == g.ns) = false → (∀ l ∈ g.listeners, l.fromAll = false) → attached g r = false) :=
  ⟨unattached_of_parents_elsewhere, unattached_of_namespace⟩

/-! ### non-vacuity: a cluster, a foreign set of every kind, and a mixed arrival order -/

def lis0 : Listener := ⟨"l0".toList, 80, [], true⟩
def lisSame : Listener := ⟨"l1".toList, 8080, "*.example.com".toList, false⟩
def gwOurs : Gateway := ⟨"default".toList, "gw".toList, "nginx".toList, 5, [lis0, lisSame]⟩
def gwForeign : Gateway := ⟨"default".toList, "fgw".toList, "other".toList, 1, [lis0]⟩
def mP (p : String) : Match := ⟨false, p.toList, [], [], []⟩
def ref (ns : Option String) (name : String) : RefGrant.BackendRef := ⟨none, none, ns, name, some 80, none, 0⟩
def par (name : String) (sect : Option String) : Parent := ⟨"default".toList, name.toList, sect.map (·.toList)⟩
def r1 : RouteR := ⟨"default", "r1", 7, [par "gw" none], ["cafe.example.com".toList],
  [⟨[mP "/coffee"], .forward [ref none "svc0"]⟩, ⟨[mP "/tea"], .forward [ref (some "team-b") "svc1"]⟩], true⟩
/-- foreign: its only parentRef names the other controller's Gateway; it names a Service and needs a grant of its own -/
def xr : RouteR := ⟨"default", "xr", 1, [par "fgw" none], ["cafe.example.com".toList],
  [⟨[mP "/coffee"], .forward [ref (some "team-b") "xsvc"]⟩], true⟩
/-- foreign for the configuration: names OUR Gateway but a section it does not have -/
def xr2 : RouteR := ⟨"default", "xr2", 2, [par "gw" (some "nope")], [], [⟨[mP "/"], .forward [ref none "xsvc2"]⟩], true⟩
/-- foreign: another namespace, and the only listener it names admits its own namespace only -/
def xr3 : RouteR := ⟨"team-a", "xr3", 3, [par "gw" (some "l1")], [], [⟨[mP "/"], .forward [ref none "svc0"]⟩], true⟩
def grantB (name svc : String) : RefGrant.Grant :=
  ⟨"team-b", name, [⟨RefGrant.gatewayGroup, "HTTPRoute", "default"⟩], [⟨"", "Service", some svc⟩]⟩
def exC : ScenarioR :=
  { cls := "nginx".toList, ctlr := "ctl".toList, classes := [⟨"nginx".toList, "ctl".toList⟩], gateways := [gwOurs],
    routes := [r1], services := [⟨"default", "svc0", [80]⟩, ⟨"team-b", "svc1", [80]⟩], grants := [grantB "g1" "svc1"] }
def exX : XSet :=
  { classes := [⟨"other".toList, "x".toList⟩, ⟨"nginx-2".toList, "ctl".toList⟩], gateways := [gwForeign],
    routes := [xr, xr2, xr3], services := [⟨"team-b", "xsvc", [80]⟩, ⟨"default", "xsvc2", [80]⟩],
    grants := [grantB "gx" "xsvc"] }
def exC' : ScenarioR :=
  { cls := exC.cls, ctlr := exC.ctlr, classes := (exC.classes ++ exX.classes).reverse,
    gateways := (exC.gateways ++ exX.gateways).reverse, routes := (exC.routes ++ exX.routes).reverse,
    services := (exC.services ++ exX.services).reverse, grants := (exC.grants ++ exX.grants).reverse }

example : Mixed exC exX exC' :=
  ⟨rfl, rfl, (List.reverse_perm _).symm, (List.reverse_perm _).symm, (List.reverse_perm _).symm,
    (List.reverse_perm _).symm, (List.reverse_perm _).symm⟩
#guard foreignB exC exX
#guard hypsB exC exX exC'
#guard hypsB exC (diffX exC exC') exC' && (diffX exC exC').routes.length == 3 && (diffX exC exC').grants.length == 1
#guard winner (resolve exC) == some gwOurs && winner (resolve exC') == some gwOurs
example : KeyInj exC'.gateways := by decide
example : RouteKeysNodup (resolve exC').routes := by unfold RouteKeysNodup; decide
example : SvcKeysNodup exC'.services := by unfold SvcKeysNodup; decide
example : PathsOKR exC := by unfold PathsOKR; decide

def rq (port : Nat) (host path : String) : Req :=
  { port := port, host := host.toList, path := path.toList, method := "GET".toList, headers := [], query := [] }
#guard nginxEvalConf (genR exC) (rq 80 "cafe.example.com" "/coffee") == .proxy [("default_svc0_80".toList, 10000)]
#guard nginxEvalConf (genR exC') (rq 80 "cafe.example.com" "/tea/x") == .proxy [("team-b_svc1_80".toList, 10000)]
#guard [rq 80 "cafe.example.com" "/coffee", rq 80 "cafe.example.com" "/tea", rq 80 "cafe.example.com" "/", rq 80 "x.org" "/coffee",
        rq 8080 "a.example.com" "/", rq 81 "cafe.example.com" "/coffee"].all fun q =>
  nginxEvalConf (genR exC') q == nginxEvalConf (genR exC) q
-- the hypothesis matters: the same route `xr` naming OUR Gateway (older than r1, same host and path) takes `/coffee` over
#guard nginxEvalConf (genR { exC' with routes := { xr with parents := [par "gw" none] } :: exC'.routes })
    (rq 80 "cafe.example.com" "/coffee") == .proxy [("team-b_xsvc_80".toList, 10000)]
#guard !foreignB exC { exX with routes := [{ xr with parents := [par "gw" none] }] }
-- … and so do the Services / grants clauses: a Service of X that a route of ours names, a grant of X that permits a
-- reference of ours, are not foreign
#guard !foreignB exC { services := [⟨"default", "svc0", [81]⟩] }
#guard !foreignB exC { grants := [grantB "g2" "svc1"] }
#guard (referencedServices exC').isPerm (("default", "xsvc2") :: ("team-a", "svc0") :: referencedServices exC)
#guard (referencedServices (ext exC { exX with routes := [xr] })).isPerm (referencedServices exC)

/-- **Why `referencedServices_foreign_set` asks for more than `Foreign`**: a Route that names OUR Gateway with a section
it does not have attaches nowhere (`attached = false`: foreign for the configuration) but IS in the graph on behalf of the
Gateway, and the code (`buildReferencedServices`) tracks its backend Services. -/
theorem unknown_section_route_is_tracked :
    attached gwOurs xr2 = false ∧ inGraph gwOurs xr2 = true ∧
    ("default", "xsvc2") ∈ referencedServices (ext exC { routes := [xr2] }) ∧
    ("default", "xsvc2") ∉ referencedServices exC := by decide

end NGF.Props.C17Pipeline
