/-
C19 (task C19-truth) — "counts equal the numbers of resources ACTUALLY IN EFFECT", the platform string, comment termination.

§A  `telemetry_snapshot_consistent`: whatever the history of event batches and whatever NGINX did with each update, the
    graph the collector reads from the change processor and the configuration it reads from the event handler belong
    to ONE snapshot (the configuration is the one built from that graph), so every reported count is a set size of one
    snapshot (`telemetry_counts_are_set_sizes`, via `counts_eq`).  The variant that stores the configuration only after a
    successful update (seeded change C19-r4m2) is refuted by a witness history.
§B  `platform_value_closed`: for ALL node label sets, namespace lists and providerID strings the reported platform is one of
    eight constants or `other_<scheme>`, `<scheme>` = the white-space-trimmed text before the FIRST `://` of a providerID
    that contains `://`; nothing after that `://` influences the report (`platform_hides_node_id`), a providerID without
    `://` is never reported (`platform_without_scheme_is_constant`).  This clause follows from the word ONLY in the
    property's title ("discloses only counts, flag usage and directive names"): the platform field is allowed because it
    is a closed-form value, not user text.
§C  `comment_ends_at_lf_only`: a `#` comment of a snippet ends at LF and nowhere else (CR, `;`, `{`, quotes, tabs are comment
    text) — for the code's tokenizer and for the reference lexer.
§D  expectation lemmas over `NGF.Generated.TelemetryTruth`.
-/
import NGF.Model.TelemetryTruth
import NGF.Proofs.TelemetryTruth
import NGF.Generated.TelemetryTruthFacts

namespace NGF.Telemetry
open NGF.SnippetLex

/-! ## A. one consistent snapshot -/

/-- FOR ALL histories of event batches (any change types, any snapshots, any outcome of each NGINX update, Plus or OSS):
the counts the collector reports are the counts of the snapshot of the last batch that changed something — graph and
configuration of the SAME batch — and nothing is reported before the first such batch. -/
theorem telemetry_snapshot_consistent (plus : Bool) (bs : List Batch) :
    telemetryCounts (runBatches plus bs) = (lastSnapshot bs).map countResources ∧
    (runBatches plus bs).graph = lastSnapshot bs ∧
    (runBatches plus bs).conf = (lastSnapshot bs).map (fun g => buildConf g (runBatches plus bs).version) := by
  have hinv := inv_foldl plus bs .init inv_init
  have hg : (runBatches plus bs).graph = lastSnapshot bs := by
    have := graph_foldl plus bs .init
    simp only [runBatches, this]
    cases lastSnapshot bs <;> rfl
  refine ⟨?_, hg, ?_⟩
  · rw [← hg]; exact telemetryCounts_of_inv _ hinv
  · rw [← hg]; exact hinv

/-- the outcome of the NGINX updates has no influence on what is counted -/
theorem telemetry_counts_ignore_outcomes (plus plus' : Bool) (bs bs' : List Batch)
    (h : bs.map (fun b => (b.change, b.snap)) = bs'.map (fun b => (b.change, b.snap))) :
    telemetryCounts (runBatches plus bs) = telemetryCounts (runBatches plus' bs') := by
  rw [(telemetry_snapshot_consistent plus bs).1, (telemetry_snapshot_consistent plus' bs').1]
  congr 1
  clear plus plus'
  induction bs generalizing bs' with
  | nil => cases bs' with
    | nil => rfl
    | cons _ _ => simp at h
  | cons b bs ih =>
    cases bs' with
    | nil => simp at h
    | cons b' bs' =>
      simp only [List.map_cons, List.cons.injEq, Prod.mk.injEq] at h
      obtain ⟨⟨hc, hs⟩, ht⟩ := h
      simp only [lastSnapshot, ih bs' ht, hc, hs]

/-- every reported count is a set size of that ONE snapshot (`counts_eq` of Props/C19 applied to it) -/
theorem telemetry_counts_are_set_sizes (plus : Bool) (bs : List Batch) (s : Summary) (h : lastSnapshot bs = some s) :
    telemetryCounts (runBatches plus bs) = some
      { gatewayClass := s.ignoredGatewayClasses + (if s.hasGatewayClass then 1 else 0)
        gateway := s.ignoredGateways + (if s.hasGateway then 1 else 0)
        httpRoute := (s.routes.filter (· == .http)).length
        grpcRoute := (s.routes.filter (· == .grpc)).length
        tlsRoute := s.l4Routes
        secret := s.secrets
        service := s.services
        endpoint := ((s.upstreams.filter (fun u => !u.hasError)).map (·.endpoints)).sum
        backendTLSPolicy := s.backendTLSPolicies
        gwClientSettings := (s.policies.filter isGwCSP).length
        routeClientSettings := (s.policies.filter isRouteCSP).length
        observability := (s.policies.filter (·.kind == .observability)).length
        upstreamSettings := (s.policies.filter (·.kind == .upstreamSettings)).length
        nginxProxy := if s.hasNginxProxy then 1 else 0
        snippetsFilter := s.snippetsFilters.length } := by
  rw [(telemetry_snapshot_consistent plus bs).1, h]
  simp [countResources, routeLoop_spec, endpointLoop_spec, policyLoop_spec, b2n]

/-- nothing is reported before the first batch that changes something -/
theorem telemetry_silent_before_first_change (plus : Bool) (bs : List Batch) (h : ∀ b ∈ bs, b.change = .noChange) :
    telemetryCounts (runBatches plus bs) = none := by
  rw [(telemetry_snapshot_consistent plus bs).1]
  suffices lastSnapshot bs = none by rw [this]; rfl
  induction bs with
  | nil => rfl
  | cons b bs ih =>
    simp only [lastSnapshot, ih (fun b' hb' => h b' (List.mem_cons_of_mem _ hb')), h b List.mem_cons_self, if_true]

/-- a snapshot with nothing in it -/
def emptySummary : Summary :=
  { hasGatewayClass := true, ignoredGatewayClasses := 0, hasGateway := true, ignoredGateways := 0, routes := [], l4Routes := 0,
    secrets := 0, services := 0, upstreams := [], backendTLSPolicies := 0, policies := [], hasNginxProxy := false,
    snippetsFilters := [] }

/-- one HTTPRoute to one Service with three endpoints -/
def oneRouteSummary : Summary :=
  { emptySummary with routes := [.http], services := 1, upstreams := [⟨false, 3⟩] }

/-- the history of seeded change C19-r4m2: a batch that applies fine, then the route is deleted and the reload fails -/
def witnessHistory : List Batch :=
  [⟨.clusterState, oneRouteSummary, .ok⟩, ⟨.clusterState, emptySummary, .reloadFails⟩]

-- non-vacuity: the current code on the witness history reports the counts of the second snapshot only …
example : telemetryCounts (runBatches false witnessHistory) = some (countResources emptySummary) := by decide
example : (telemetryCounts (runBatches false witnessHistory)).map (fun c => (c.httpRoute, c.service, c.endpoint)) = some (0, 0, 0) := by
  decide
example : (runBatches false witnessHistory).lastError = true ∧ (runBatches false witnessHistory).version = 2 := by decide
-- … and on a history with no-change and endpoints-only batches, Plus, failing API
example : (telemetryCounts (runBatches true
      [⟨.noChange, emptySummary, .ok⟩, ⟨.clusterState, emptySummary, .writeFails⟩, ⟨.noChange, oneRouteSummary, .ok⟩,
       ⟨.endpointsOnly, oneRouteSummary, .apiFails⟩, ⟨.noChange, emptySummary, .reloadFails⟩])).map
      (fun c => (c.httpRoute, c.service, c.endpoint)) = some (1, 1, 3) := by decide

/-- REFUTATION of the success-only variant (C19-r4m2): storing the configuration only after a successful update breaks the
statement — after the failed reload the report has the NEW graph's counts (0 routes, 0 services) and the OLD
configuration's 3 endpoints, which is the count of no snapshot at all. -/
theorem telemetry_snapshot_consistent_false_for_success_only :
    ¬ ∀ (plus : Bool) (bs : List Batch),
        telemetryCounts (runBatchesSuccessOnly plus bs) = (lastSnapshot bs).map countResources := by
  intro h
  exact absurd (h false witnessHistory) (by decide)

theorem witness_success_only_mixes_snapshots :
    (telemetryCounts (runBatchesSuccessOnly false witnessHistory)).map (fun c => (c.httpRoute, c.service, c.endpoint)) =
      some (0, 0, 3) ∧
    (telemetryCounts (runBatches false witnessHistory)).map (fun c => (c.httpRoute, c.service, c.endpoint)) =
      some (0, 0, 0) := by decide

/-- … and a failed FIRST update would leave the success-only variant without any report although a graph exists -/
theorem witness_success_only_first_batch :
    telemetryCounts (runBatchesSuccessOnly false [⟨.clusterState, oneRouteSummary, .writeFails⟩]) = none ∧
    telemetryCounts (runBatches false [⟨.clusterState, oneRouteSummary, .writeFails⟩]) =
      some (countResources oneRouteSummary) := by decide

/-- the error bit the handler remembers (`updateFails`, since fix c94173a): on Plus an endpoints-only change after a failed
write/reload goes through files + reload again, so a failing reload is recorded; the PRE-FIX arm (API alone) recorded success.
It never had any influence on the counts (`telemetry_counts_ignore_outcomes`). -/
theorem witness_plus_endpoints_only_after_failure :
    (runBatches true [⟨.clusterState, oneRouteSummary, .reloadFails⟩, ⟨.endpointsOnly, oneRouteSummary, .reloadFails⟩]).lastError = true ∧
    updateFails true true .endpointsOnly .reloadFails = true ∧ updateFailsPreFix true .endpointsOnly .reloadFails = false ∧
    (∀ ct o, updateFails true false ct o = updateFailsPreFix true ct o) ∧
    (∀ pe ct o, updateFails false pe ct o = updateFailsPreFix false ct o) := by
  refine ⟨by decide, by decide, by decide, ?_, ?_⟩
  · intro ct o; cases ct <;> cases o <;> rfl
  · intro pe ct o; cases pe <;> cases ct <;> cases o <;> rfl

/-! ## B. the platform string is a closed-form value -/

/-- FOR ALL node label sets, namespace lists and providerID strings: the reported platform is one of the eight constants, or
`other_<scheme>` where the providerID contains `://`, `<scheme>` is the (non-empty) white-space-trimmed text before its
first `://`. -/
theorem platform_value_closed (s : K8sState) :
    getPlatform s ∈ platformConstants ∨
    ∃ pre rest, cutScheme s.providerID = some (pre, rest) ∧ s.providerID = pre ++ schemeSep ++ rest ∧
      trimSpace pre ≠ [] ∧ getPlatform s = "other_".toList ++ trimSpace pre := by
  unfold getPlatform
  cases hf : firstPlatform platformExtractors s with
  | some p =>
    left
    obtain ⟨e, he, rfl, hne⟩ := firstPlatform_some _ _ _ hf
    rcases extractor_closed s e he with h | h
    · exact absurd h hne
    · exact h
  | none =>
    simp only [unknownProviderIDExtractor]
    cases hc : cutScheme s.providerID with
    | none => left; decide
    | some pr =>
      obtain ⟨pre, rest⟩ := pr
      by_cases ht : trimSpace pre = []
      · left; simp only [ht]; decide
      · right
        refine ⟨pre, rest, rfl, cutScheme_some _ _ _ hc, ht, ?_⟩
        simp [ht, platformOther]

/-- what `<scheme>` can be: a contiguous piece of the providerID that lies entirely before its first `://` (so it contains no
`://` itself), cut off from the rest of that prefix at white space only -/
theorem platform_scheme_origin (pid pre rest : Str) (h : cutScheme pid = some (pre, rest)) :
    cutScheme pre = none ∧ (∀ a b, pre ≠ a ++ schemeSep ++ b) ∧
    ∃ a b, pre = a ++ trimSpace pre ++ b ∧ (∀ c ∈ a, isGoSpace c = true) ∧ (∀ c ∈ b, isGoSpace c = true) :=
  ⟨cutScheme_pre_none _ _ _ h, (cutScheme_none_iff pre).mp (cutScheme_pre_none _ _ _ h), trimSpace_spec pre⟩

/-- a providerID WITHOUT `://` (bare instance OCIDs, host ids, `openstack:/uuid`, the empty string) is never reported: the
platform is then one of the eight constants (seeded change C19-r4m3 reported `other_<providerID>`) -/
theorem platform_without_scheme_is_constant (s : K8sState) (h : ∀ a b, s.providerID ≠ a ++ schemeSep ++ b) :
    getPlatform s ∈ platformConstants := by
  rcases platform_value_closed s with hc | ⟨pre, rest, _, hs, _⟩
  · exact hc
  · exact absurd hs (h pre rest)

/-- nothing after the first `://` (the provider-specific node id: instance ids, zones, host names) influences the report -/
theorem platform_hides_node_id (s : K8sState) (pre rest : Str) (h : cutScheme s.providerID = some (pre, rest)) (rest' : Str) :
    getPlatform { s with providerID := pre ++ schemeSep ++ rest' } = getPlatform s := by
  have hs := cutScheme_some _ _ _ h
  have hagree : ∀ e ∈ platformExtractors,
      e { s with providerID := pre ++ schemeSep ++ rest' } = e s := by
    intro e he
    have := extractors_agree s pre ('/' :: '/' :: rest') ('/' :: '/' :: rest) e he
    have e1 : pre ++ ':' :: '/' :: '/' :: rest' = pre ++ schemeSep ++ rest' := by simp [schemeSep]
    have e2 : ({ s with providerID := pre ++ ':' :: '/' :: '/' :: rest } : K8sState) = s := by
      cases s; simp only [K8sState.mk.injEq, true_and] at *; rw [hs]; simp [schemeSep]
    rw [e1, e2] at this
    exact this
  unfold getPlatform
  rw [firstPlatform_congr _ _ _ hagree]
  cases firstPlatform platformExtractors s with
  | some p => rfl
  | none =>
    simp only [unknownProviderIDExtractor, cutScheme_rest_irrelevant _ _ _ h rest', h]

-- non-vacuity / the shapes of the task
example : getPlatform ⟨[], "kind://docker/kind/kind-control-plane".toList, ["default".toList]⟩ = "kind".toList := by decide
example : getPlatform ⟨[], "gce://my-project/us-central1-a/gke-node-1".toList, []⟩ = "gke".toList := by decide
example : getPlatform ⟨[("node.openshift.io/os_id".toList, "rhcos".toList)], "aws:///us-east-1a/i-0abc".toList, []⟩ =
    "openshift".toList := by decide
example : getPlatform ⟨[("node.openshift.io/os_id".toList, [])], "aws:///us-east-1a/i-0abc".toList, ["cattle-system".toList]⟩ =
    "rancher".toList := by decide
example : getPlatform ⟨[], " oci ://ocid1.instance.oc1.phx.SECRET".toList, []⟩ = "other_oci".toList := by decide
example : getPlatform ⟨[], "ocid1.instance.oc1.phx.anyhqljt".toList, []⟩ = "other".toList := by decide
example : getPlatform ⟨[], "openstack:/6f1a-uuid".toList, []⟩ = "other".toList := by decide
example : getPlatform ⟨[], "host-17.internal.corp.example.com".toList, []⟩ = "other".toList := by decide
example : getPlatform ⟨[], "  ://x".toList, []⟩ = "other".toList := by decide
example : getPlatform ⟨[], [], []⟩ = "other".toList := by decide
example : getPlatform ⟨[], "a/b://c://d".toList, []⟩ = "other_a/b".toList := by decide
example : cutScheme "vsphere://4230-uuid://x".toList = some ("vsphere".toList, "4230-uuid://x".toList) := by decide

/-! ## C. a comment ends at LF only -/

/-- FOR ALL comment bodies without LF — whatever else they contain: CR (lone, CRLF, at the end), tabs, `;`, `{`, `}`, quotes,
backslashes — and all continuations: the code's tokenizer, in the gap state at `#`, is after `#body LF` in exactly the
state it was in before the `#`; the reference lexer yields ONE comment token and the LF.  At the end of the text (no
LF) the comment swallows everything. -/
theorem comment_ends_at_lf_only (body rest : Str) (h : '\n' ∉ body) :
    (∀ (d : Nat) (a : Bool) (ds : List Str),
        tokRun ⟨.gap, d, a, ds⟩ ('#' :: body ++ '\n' :: rest) = tokRun ⟨.gap, d, a, ds⟩ rest ∧
        tokRun ⟨.gap, d, a, ds⟩ ('#' :: body) = ⟨.comment, d, a, ds⟩) ∧
    lex ('#' :: body ++ '\n' :: rest) = .comment ('#' :: body) :: .ws '\n' :: lex rest ∧
    lex ('#' :: body) = [.comment ('#' :: body)] ∧
    parseSnippet ('#' :: body ++ '\n' :: rest) = parseSnippet rest ∧
    parseSnippet ('#' :: body) = [] ∧
    directiveNames ('#' :: body ++ '\n' :: rest) = directiveNames rest := by
  have htok : ∀ (d : Nat) (a : Bool) (ds : List Str),
      tokRun ⟨.gap, d, a, ds⟩ ('#' :: body ++ '\n' :: rest) = tokRun ⟨.gap, d, a, ds⟩ rest ∧
      tokRun ⟨.gap, d, a, ds⟩ ('#' :: body) = ⟨.comment, d, a, ds⟩ := by
    intro d a ds
    constructor
    · show tokRun (tokStep ⟨.gap, d, a, ds⟩ '#') (body ++ '\n' :: rest) = _
      rw [tokStep_gap_hash, tokRun_comment body rest d a ds h]
    · show tokRun (tokStep ⟨.gap, d, a, ds⟩ '#') body = _
      rw [tokStep_gap_hash, tokRun_comment_end body d a ds h]
  have hlex : lex ('#' :: body ++ '\n' :: rest) = .comment ('#' :: body) :: .ws '\n' :: lex rest := by
    show run (step .gap '#').1 (body ++ '\n' :: rest) = _
    have : step .gap '#' = (.comment ['#'], []) := by decide
    simp only [this]
    rw [run_comment body rest ['#'] h]
    rfl
  have hlexEnd : lex ('#' :: body) = [.comment ('#' :: body)] := by
    have : step .gap '#' = (.comment ['#'], []) := by decide
    simp only [lex, run, this, List.nil_append]
    rw [run_comment_end body ['#'] h]
    rfl
  have hp : parseSnippet ('#' :: body ++ '\n' :: rest) = parseSnippet rest := by
    simp only [parseSnippet, tokInit]
    rw [(htok 0 true []).1]
  refine ⟨htok, hlex, hlexEnd, hp, ?_, ?_⟩
  · simp only [parseSnippet, tokInit]
    rw [(htok 0 true []).2]
  · rw [← parseSnippet_eq_directiveNames, ← parseSnippet_eq_directiveNames]
    exact hp

/-- … at any place of a snippet where the tokenizer is between tokens (after `;`, `{`, `}`, white space, a closed quote): the
whole comment, CRs included, can be deleted without changing what is reported -/
theorem comment_removable (pre body rest : Str) (h : '\n' ∉ body) (hgap : (pre.foldl tokStep tokInit).st = .gap) :
    parseSnippet (pre ++ ('#' :: body ++ '\n' :: rest)) = parseSnippet (pre ++ rest) := by
  unfold parseSnippet
  rw [tokRun_append pre, tokRun_append pre]
  generalize pre.foldl tokStep tokInit = s at hgap
  obtain ⟨st, d, a, ds⟩ := s
  simp only at hgap
  subst hgap
  rw [((comment_ends_at_lf_only body rest h).1 d a ds).1]

-- non-vacuity: the snippet of seeded change C19-r4m1 (a lone CR inside a comment) and its neighbours
example : parseSnippet "# previously:\rinternal-billing.corp.example.com/v1/ledger token=x;\nproxy_buffering off;".toList =
    ["proxy_buffering".toList] := by decide +kernel
example : directiveNames "aio on; # c\r\n# d\re { \"q ;\r\tf;\r\nallow all;# end\r".toList = ["aio".toList, "allow".toList] := by
  decide +kernel
example : ("aio on; ".toList.foldl tokStep tokInit).st = .gap := by decide +kernel
example : '\n' ∉ " previously:\rinternal-billing.corp.example.com/v1/ledger token=x;".toList := by decide

/-! ## D. facts regenerated from the source -/

/-- platform.go is the code `getPlatform` / `platformExtractors` / `unknownProviderIDExtractor` were modelled from; its
constants are the model's -/
theorem facts_platform :
    Generated.TelemetryTruth.platformConsts =
      ["gkeIdentifier=gce", "awsIdentifier=aws", "azureIdentifier=azure", "kindIdentifier=kind", "k3sIdentifier=k3s",
       "openshiftIdentifier=node.openshift.io/os_id", "rancherIdentifier=cattle-system", "platformGKE=gke", "platformAWS=eks",
       "platformAzure=aks", "platformKind=kind", "platformK3S=k3s", "platformOpenShift=openshift", "platformRancher=rancher",
       "platformOther=other"] ∧
    Generated.TelemetryTruth.platformExtractors =
      ["openShiftExtractor", "rancherExtractor"] ++
        providerIDTable.map (fun p => "prefix:" ++ String.ofList p.1 ++ "=" ++ String.ofList p.2) ∧
    Generated.TelemetryTruth.getPlatformBody =
      ["state := k8sState{ node: node, namespaces: namespaces, }",
       "for _, extractor := range platformExtractors { if platform := extractor(state); platform != \"\" { return platform } }",
       "return unknownProviderIDExtractor(state)"] ∧
    Generated.TelemetryTruth.providerIDExtractorBody =
      ["return func(state k8sState) string { if strings.HasPrefix(state.node.Spec.ProviderID, id) { return platform } return \"\" }"] ∧
    Generated.TelemetryTruth.openShiftExtractorBody =
      ["if state.node.Labels[openshiftIdentifier] != \"\" { return platformOpenShift }", "return \"\""] ∧
    Generated.TelemetryTruth.rancherExtractorBody =
      ["for _, ns := range state.namespaces.Items { if ns.Name == rancherIdentifier { return platformRancher } }", "return \"\""] ∧
    Generated.TelemetryTruth.unknownProviderIDExtractorBody =
      ["var providerName string",
       "if prefix, _, found := strings.Cut(state.node.Spec.ProviderID, \"://\"); found { providerName = strings.TrimSpace(prefix) }",
       "if providerName == \"\" { return platformOther }",
       "return platformOther + \"_\" + providerName"] ∧
    Generated.TelemetryTruth.platformFlow =
      ["node := nodes.Items[0]", "clusterInfo.Platform = getPlatform(node, namespaces)", "ClusterPlatform: clusterInfo.Platform"] ∧
    openshiftIdentifier = "node.openshift.io/os_id".toList ∧ rancherIdentifier = "cattle-system".toList ∧
    String.ofList schemeSep = "://" := by
  refine ⟨rfl, by decide, rfl, rfl, rfl, rfl, rfl, rfl, rfl, rfl, by decide⟩

/-- the comment branch of the tokenizer is `if ch == '\n' { state = gap }` and nothing else; the function defines no
closure besides `endWord`, `punct`, `isSpace`; the switch of `case bare:` has no case for quotes (a quote inside a bare
word goes to `default`: appended to the word) -/
theorem facts_comment_branch :
    Generated.TelemetryTruth.commentBranch = ["if ch == '\\n' { state = gap }"] ∧
    Generated.TelemetryTruth.tokenizerClosures = ["endWord", "punct", "isSpace"] ∧
    Generated.TelemetryTruth.bareBranchCases =
      ["escaped", "ch == '{' && variable", "ch == '\\\\'", "ch == '$'", "isSpace(ch)", "ch == ';' || ch == '{'", "default"] :=
  ⟨rfl, rfl, rfl⟩

/-- manager.go gives the collector the change processor as GraphGetter and the event handler as ConfigurationGetter, and
the handler that same processor -/
theorem facts_collector_wiring :
    Generated.TelemetryTruth.collectorWiring =
      ["processor := state.NewChangeProcessorImpl", "eventHandler := newEventHandlerImpl", "processor: processor",
       "dataCollector := telemetry.NewDataCollectorImpl", "GraphGetter: processor", "ConfigurationGetter: eventHandler"] ∧
    Generated.TelemetryTruth.getLatestConfigurationBody =
      ["h.lock.Lock()", "defer h.lock.Unlock()", "return h.latestConfiguration"] ∧
    Generated.TelemetryTruth.getLatestGraphBody = ["c.lock.Lock()", "defer c.lock.Unlock()", "return c.latestGraph"] :=
  ⟨rfl, rfl, rfl⟩

/-- `HandleEventBatch` stores the configuration built from the batch's graph BEFORE it updates NGINX, in both changing cases,
and nowhere else; `Process` stores the graph it returns (`handleBatch` of the model) -/
theorem facts_handle_batch :
    Generated.TelemetryTruth.handleBatchCases =
      ["state.NoChange => if !h.cfg.nginxConfiguredOnStartChecker.ready && h.cfg.nginxConfiguredOnStartChecker.firstBatchError == nil { h.cfg.nginxConfiguredOnStartChecker.setAsReady() } ;; return",
       "state.EndpointsOnlyChange => h.version++ ;; cfg := dataplane.BuildConfiguration(ctx, gr, h.cfg.serviceResolver, h.version) ;; h.setLatestConfiguration(&cfg) ;; if h.cfg.plus && h.latestReloadResult.Error == nil { err = h.updateUpstreamServers(cfg) } else { err = h.updateNginxConf(ctx, cfg) }",
       "state.ClusterStateChange => h.version++ ;; cfg := dataplane.BuildConfiguration(ctx, gr, h.cfg.serviceResolver, h.version) ;; h.setLatestConfiguration(&cfg) ;; err = h.updateNginxConf(ctx, cfg)"] ∧
    Generated.TelemetryTruth.handleBatchAfterSwitch =
      ["var nginxReloadRes status.NginxReloadResult",
       "if err != nil { logger.Error(err, \"Failed to update NGINX configuration\") nginxReloadRes.Error = err if !h.cfg.nginxConfiguredOnStartChecker.ready { h.cfg.nginxConfiguredOnStartChecker.firstBatchError = err } } else { logger.Info(\"NGINX configuration was successfully updated\") if !h.cfg.nginxConfiguredOnStartChecker.ready { h.cfg.nginxConfiguredOnStartChecker.setAsReady() } }",
       "h.latestReloadResult = nginxReloadRes",
       "h.updateStatuses(ctx, logger, gr)"] ∧
    Generated.TelemetryTruth.setLatestConfigurationBody =
      ["h.lock.Lock()", "defer h.lock.Unlock()", "h.latestConfiguration = cfg"] ∧
    Generated.TelemetryTruth.latestConfigurationWrites = ["h.latestConfiguration = cfg"] ∧
    Generated.TelemetryTruth.setLatestConfigurationCalls = 2 ∧
    Generated.TelemetryTruth.processBody =
      ["c.lock.Lock()", "defer c.lock.Unlock()", "changeType := c.getAndResetClusterStateChanged()",
       "if changeType == NoChange { return NoChange, nil }",
       "c.latestGraph = graph.BuildGraph( c.clusterState, c.cfg.GatewayCtlrName, c.cfg.GatewayClassName, c.cfg.PlusSecrets, c.cfg.Validators, c.cfg.ProtectedPorts, )",
       "return changeType, c.latestGraph"] := ⟨rfl, rfl, rfl, rfl, rfl, rfl⟩

end NGF.Telemetry
