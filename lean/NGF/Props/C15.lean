/-
C15 — property theorems for split_clients generation (`NGF.SplitClients`, float64 model `NGF.F64`).
-/
import NGF.Model.SplitClients
import NGF.Generated.SplitFacts

namespace NGF.SplitClients
open NGF.F64

/-! ### witnesses: the property is FALSE for the current algorithm -/

/-- weights 83,42,0: the float remainder is −2⁻⁴⁷ and prints `-0.00`, which the template's
`eq "0.00"` test does not comment out (NGINX rejects the file) -/
theorem witness_last_share_negative_zero :
    (shares [83, 42, 0]).map Dec2.render = ["66.40", "33.60", "-0.00"] ∧
    (Pct.dec (shares [83, 42, 0])[2]!).commentedOut = false := by decide +kernel

/-- weights 1,1,1,0: the zero-weight last backend receives the rounding remainder 0.01% -/
theorem witness_zero_weight_last_gets_remainder :
    (shares [1, 1, 1, 0]).map Dec2.render = ["33.33", "33.33", "33.33", "0.01"] := by decide +kernel

/-- 23/125 = 18.40% exactly, float64 floor gives 18.39 (still within the 0.01 tolerance) -/
theorem witness_float_floor_one_low :
    (fmt2 (percentOf 23 125)).render = "18.39" := by decide +kernel

end NGF.SplitClients
