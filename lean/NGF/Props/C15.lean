/-
C15 — property theorems for split_clients generation.
PRIMARY model: `NGF.SplitClients.intCents`/`shares`/`distributions` — the integer algorithm of
createSplitClientDistributions since commit 286dc83. The property at full strength (`Holds`) is proved for EVERY
weight vector with a positive total (`holds`; no bound on the number of backends or on the weights is needed),
and NGINX reads every printed share as exactly its hundredths (`shares_read_by_nginx`).
PRE-FIX variant (`floatShares`, float64 model `NGF.F64`; theorems `prefix_*`): what the code did before the fix,
with the full float error analysis (`NGF.Proofs.SplitClients`), the two witnesses on which `Holds` FAILED
(`prefix_not_holds_*`, reproduced on the real generator before the fix) and the `_partial` theorem
(`prefix_holds_of_last_weight_pos`). It is kept so that a regression to the float algorithm is recognised and
reported with the old signatures.
-/
import NGF.Proofs.SplitClients
import NGF.Proofs.SplitClientsInt
import NGF.Proofs.SplitClientsPrint
import NGF.Generated.SplitFacts

namespace NGF.SplitClients
open NGF.F64

/-! ### the property -/

/-- The property of C15 for one rule (total weight > 0), on the list of printed shares `ds`:
non-negative, sum exactly 100, zero weight ⇒ the entry is `0.00` (commented out by the template),
every backend within its budget: at most 0.01 below and at most 0.01·(n−1) above `100·w/T`. -/
structure Holds (ws : List Nat) (ds : List Dec2) : Prop where
  len : ds.length = ws.length
  nonneg : ∀ d ∈ ds, d.neg = false
  sum : (ds.map (·.cents)).sum = 10000
  zero : ∀ (i : Nat) (hi : i < ws.length), ws[i] = 0 → ds[i]? = some ⟨false, 0⟩
  tol : ∀ (i : Nat) (hi : i < ws.length), ∃ d, ds[i]? = some d ∧
    10000 * ws[i] ≤ (d.cents + 1) * ws.sum ∧ d.cents * ws.sum ≤ 10000 * ws[i] + (ws.length - 1) * ws.sum

/-- MAIN THEOREM: the integer algorithm satisfies the property for every weight vector with positive total. -/
theorem holds (ws : List Nat) (hpos : 0 < ws.sum) : Holds ws (shares ws) := by
  obtain ⟨h1, h2, h3⟩ := intCents_main ws hpos
  have hs : shares ws = (intCents ws).map (fun F => (⟨false, F⟩ : Dec2)) := rfl
  rw [hs]
  refine ⟨by simp [h1], ?_, by rw [cents_sum_map]; exact h2, ?_, ?_⟩
  · intro d hd
    simp only [List.mem_map] at hd
    obtain ⟨c, _, rfl⟩ := hd
    rfl
  · intro i hi hz
    obtain ⟨c, g1, g2, _⟩ := h3 i hi
    have := g2 hz
    subst this
    simp [g1]
  · intro i hi
    obtain ⟨c, g1, _, g3, g4⟩ := h3 i hi
    exact ⟨⟨false, c⟩, by simp [g1], Nat.le_of_lt g3, g4⟩

/-- every backend: share printed without sign, at most 0.01 below and 0.01·(n−1) above `100·w/T`; strictly
more than `100·w/T − 0.01` -/
theorem share_within_tolerance (ws : List Nat) (hpos : 0 < ws.sum) (i : Nat) (hi : i < ws.length) :
    ∃ c : Nat, (shares ws)[i]? = some ⟨false, c⟩ ∧ (ws[i] = 0 → c = 0) ∧
      10000 * ws[i] < (c + 1) * ws.sum ∧ c * ws.sum ≤ 10000 * ws[i] + (ws.length - 1) * ws.sum := by
  obtain ⟨c, g1, g2, g3, g4⟩ := (intCents_main ws hpos).2.2 i hi
  exact ⟨c, by simp [shares, centsDec, g1], g2, g3, g4⟩

/-- the shares sum to exactly 100 -/
theorem shares_sum_exactly_100 (ws : List Nat) (hpos : 0 < ws.sum) :
    ((shares ws).map (·.cents)).sum = 10000 := (holds ws hpos).sum

/-- a zero-weight backend, at ANY position, is printed `0.00`, which the template comments out: no traffic -/
theorem zero_weight_commented_out (ws : List Nat) (hpos : 0 < ws.sum) (i : Nat) (hi : i < ws.length)
    (hz : ws[i] = 0) : ∃ d, (shares ws)[i]? = some d ∧ (Pct.dec d).commentedOut = true :=
  ⟨_, (holds ws hpos).zero i hi hz, (commentedOut_iff _).mpr rfl⟩

/-- an entry that is not commented out has a positive share (NGINX rejects a percentage of 0) -/
theorem active_share_positive (ws : List Nat) (d : Dec2) (hd : d ∈ shares ws)
    (hc : (Pct.dec d).commentedOut = false) : d.neg = false ∧ 1 ≤ d.cents := by
  simp only [shares, List.mem_map] at hd
  obtain ⟨c, _, rfl⟩ := hd
  refine ⟨rfl, ?_⟩
  by_cases h0 : c = 0
  · subst h0
    have := (commentedOut_iff (centsDec 0)).mpr rfl
    rw [this] at hc; exact absurd hc (by simp)
  · exact Nat.pos_of_ne_zero h0

/-- every printed share is read by NGINX (`ngx_atofp(…,2)`) as exactly its hundredths -/
theorem shares_read_by_nginx (ws : List Nat) (d : Dec2) (hd : d ∈ shares ws) :
    SplitClientsJudge.atofp2 d.chars = some d.cents := by
  simp only [shares, List.mem_map] at hd
  obtain ⟨c, _, rfl⟩ := hd
  exact SplitClientsJudge.atofp2_chars _ rfl

/-- the template's `eq $d.Percent "0.00"` comments out exactly the value `+0.00` (so not `-0.00`) -/
theorem commented_out_iff_plus_zero (d : Dec2) : (Pct.dec d).commentedOut = true ↔ d = ⟨false, 0⟩ :=
  commentedOut_iff d

/-- printed shares are two-decimal strings: NGINX (`ngx_atofp(…,2)`) reads an unsigned one as exactly its
hundredths, and rejects a signed one -/
theorem printed_share_read_by_nginx (d : Dec2) :
    (d.neg = false → SplitClientsJudge.atofp2 d.chars = some d.cents) ∧
    (d.neg = true → SplitClientsJudge.atofp2 d.chars = none) :=
  ⟨SplitClientsJudge.atofp2_chars d, SplitClientsJudge.atofp2_neg d⟩

/-- no int64 overflow in `int64(b.Weight) * hundredPercent` and no int32 wrap of the total -/
theorem total_no_wrap (ws : List Nat) (h : Admissible ws) :
    ws.sum ≤ 16000000 ∧ 16000000 < 2 ^ 31 ∧ ∀ w ∈ ws, 10000 * w < 2 ^ 63 := by
  have := sum_le_length_mul h.range
  have : ws.length * 1000000 ≤ 16 * 1000000 := Nat.mul_le_mul_right _ h.sixteen
  exact ⟨by omega, by decide, fun w hw => by have := h.range w hw; omega⟩

/-- the algorithm on the two vectors on which the pre-fix code failed -/
theorem shares_on_old_witnesses :
    (shares [83, 42, 0]).map Dec2.render = ["66.40", "33.60", "0.00"] ∧
    (shares [83, 42, 0]).map (fun d => (Pct.dec d).commentedOut) = [false, false, true] ∧
    (shares [1, 1, 1, 0]).map Dec2.render = ["33.33", "33.33", "33.34", "0.00"] ∧
    (shares [23, 102]).map Dec2.render = ["18.40", "81.60"] := by
  decide +kernel

/-! ### validity, the 500 upstream, the all-zero case, weight defaulting -/

/-- invalid backends keep their share: percentages do not depend on validity or upstream names, and the
target of an invalid backend is the upstream that answers 500 -/
theorem invalid_keeps_share_and_answers_500 (bs : List Backend) (h2 : 2 ≤ bs.length) (hT : total bs ≠ 0) :
    ∃ ds, distributions bs = some ds ∧
      ds.map (·.pct) = (shares (bs.map (·.weight))).map Pct.dec ∧
      ds.map (·.value) = bs.map (fun b => if b.valid then b.upstream else invalidBackendRef) := by
  have hlen : ¬ bs.length ≤ 1 := by omega
  have hpos : 0 < (bs.map (·.weight)).sum := by rw [← total_eq_sum]; omega
  have hl := (intCents_main (bs.map (·.weight)) hpos).1
  have sp := mkDists_spec bs (intCents (bs.map (·.weight))) (by rw [hl]; simp)
  refine ⟨mkDists bs (intCents (bs.map (·.weight))), by simp [distributions, hlen, hT], ?_, ?_⟩
  · rw [sp.2]; rfl
  · rw [sp.1]; rfl

/-- all weights zero ⇒ a single `100%` entry to the 500 upstream -/
theorem all_zero_gives_500 (bs : List Backend) (h2 : 2 ≤ bs.length) (hT : total bs = 0) :
    distributions bs = some [⟨.hundred, invalidBackendRef⟩] ∧
    Dist.line ⟨.hundred, invalidBackendRef⟩ = "\n    100% invalid-backend-ref;" := by
  have hlen : ¬ bs.length ≤ 1 := by omega
  exact ⟨by simp [distributions, hlen, hT], by decide +kernel⟩

/-- weights that reach the generator are in `[0, maxWeight]` (createBackendRef: absent ⇒ 1, out of range ⇒ 0),
with `maxWeight` the constant regenerated from validateWeight -/
theorem effective_weight_in_range (o : Option Int) :
    0 ≤ effectiveWeight o ∧ effectiveWeight o ≤ (Generated.SplitClients.maxWeight : Int) ∧
    (o = none → effectiveWeight o = 1) ∧
    (∀ w, o = some w → 0 ≤ w → w ≤ 1000000 → effectiveWeight o = w) := by
  have hm : (Generated.SplitClients.maxWeight : Int) = 1000000 := rfl
  rw [hm]
  cases o with
  | none => simp [effectiveWeight]
  | some w =>
    simp only [effectiveWeight]
    split <;> simp <;> omega

/-! ### from the route spec to the block (graph `createBackendRef`, dataplane `newBackendGroup`) -/

/-- `newBackendGroup` keeps every backendRef: length, order, weights and validity are preserved; a valid ref
targets its Service port, an invalid one the 500 upstream -/
theorem new_backend_group_preserves (refs : List GraphRef) :
    (newBackendGroup refs).length = refs.length ∧
    (newBackendGroup refs).map (·.weight) = refs.map (·.weight.toNat) ∧
    (newBackendGroup refs).map (·.valid) = refs.map (·.valid) ∧
    (newBackendGroup refs).map value = refs.map (fun g => if g.valid then g.svcPort else invalidBackendRef) :=
  newBackendGroup_preserves refs

/-- END TO END: a rule whose backendRefs have admissible weights (unset or 0..10⁶, not all zero) gets one
distribution line per backendRef, in order; the shares are those of the spec weights (unset = 1) and satisfy
`Holds`; a ref that does not resolve keeps its share and targets the 500 upstream -/
theorem route_rule_holds (spec : List SpecRef) (hadm : ∀ s ∈ spec, s.admissible) (h2 : 2 ≤ spec.length)
    (hpos : 0 < (spec.map (·.specWeight)).sum) :
    ∃ ds, distributions (ruleBackends spec) = some ds ∧
      ds.length = spec.length ∧
      ds.map (·.pct) = (shares (spec.map (·.specWeight))).map Pct.dec ∧
      Holds (spec.map (·.specWeight)) (shares (spec.map (·.specWeight))) ∧
      ds.map (·.value) = spec.map (fun s => if s.resolves then s.target else invalidBackendRef) := by
  obtain ⟨r1, r2, _, r4⟩ := ruleBackends_spec spec hadm
  have hT : total (ruleBackends spec) ≠ 0 := by rw [total_eq_sum, r2]; omega
  obtain ⟨ds, d1, d2, d3⟩ := invalid_keeps_share_and_answers_500 (ruleBackends spec) (by omega) hT
  rw [r2] at d2
  have hv : (ruleBackends spec).map (fun b => if b.valid then b.upstream else invalidBackendRef) =
      (ruleBackends spec).map value := rfl
  rw [hv, r4] at d3
  have hl : ds.length = spec.length := by
    have := congrArg List.length d3; simpa using this
  exact ⟨ds, d1, hl, d2, holds _ hpos, d3⟩

example : ∃ spec : List SpecRef, (∀ s ∈ spec, s.admissible) ∧ 2 ≤ spec.length ∧ 0 < (spec.map (·.specWeight)).sum ∧
    (ruleBackends spec).map (·.weight) = [1, 1, 2] ∧ (ruleBackends spec).map value =
      [invalidBackendRef, invalidBackendRef, "app_svc-a_80"] :=
  ⟨[⟨none, false, "app_nosuch_80"⟩, ⟨some 1, false, "app_nosuch_80"⟩, ⟨some 2, true, "app_svc-a_80"⟩],
   by simp [SpecRef.admissible], by decide, by decide, by decide, by decide⟩

/-! ### non-vacuity -/

example : Admissible [1, 1, 1] := ⟨by decide, by decide, by decide, by decide⟩
example : Admissible [1000000, 999983, 0, 7, 1000000, 1, 1, 1, 1, 1, 1, 1, 1, 1, 1, 1000000] :=
  ⟨by decide, by decide, by decide, by decide⟩
example : Holds [2, 1] (shares [2, 1]) := holds [2, 1] (by decide)
example : (shares [2, 1]).map Dec2.render = ["66.66", "33.34"] := by decide +kernel
example : ∃ bs : List Backend, 2 ≤ bs.length ∧ total bs = 0 := ⟨[⟨"a", 0, true⟩, ⟨"b", 0, false⟩], by decide, rfl⟩

/-! ### the model is the code: facts regenerated from /repo on every run -/

/-- format verb, constants, no float64 in the generator, `percentOf` (pre-fix, tests only) unchanged, weight range and defaulting -/
theorem facts_pinned :
    Generated.SplitClients.percentOfBody =
      ["p := (float64(weight) * 100) / float64(totalWeight)", "return math.Floor(p*100) / 100"] ∧
    Generated.SplitClients.percentOfParams = ["weight int32", "totalWeight int32"] ∧
    Generated.SplitClients.percentOfResult = "float64" ∧
    Generated.SplitClients.sprintfCalls = ["%d.%02d <- cents[i] / 100, cents[i] % 100"] ∧
    Generated.SplitClients.percentOfCallsInGenerator = 0 ∧
    Generated.SplitClients.floatMentionsInDistributions = 0 ∧
    Generated.SplitClients.distributionsConsts = ["hundredPercent = int64(10000)"] ∧
    Generated.SplitClients.templateEqLiterals = ["0.00"] ∧
    Generated.SplitClients.invalidBackendRef = invalidBackendRef ∧
    Generated.SplitClients.nginx500Server = "unix:/var/run/nginx/nginx-500-server.sock" ∧
    Generated.SplitClients.minWeight = 0 ∧ Generated.SplitClients.maxWeight = 1000000 ∧
    Generated.SplitClients.backendRefLiterals = Generated.SplitClients.backendRefLiteralsWithWeight ∧
    Generated.SplitClients.weightDefaulting =
      ["weight := int32(1)",
       "if ref.Weight != nil { if validateWeight(*ref.Weight) != nil { weight = 0 } else { weight = *ref.Weight } }"] ∧
    Generated.SplitClients.validateWeightBody =
      ["if weight < minWeight || weight > maxWeight { return fmt.Errorf(\"must be in the range [%d, %d]\", minWeight, maxWeight) }",
       "return nil"] := by
  repeat' constructor

/-- the statements of createSplitClientDistributions and of the helpers, as modelled by `intCents`/`mkDists`/`value`/`backendGroupName` -/
theorem facts_algorithm_pinned :
    Generated.SplitClients.distributionsBody =
      ["if !backendGroupNeedsSplit(group) { return nil }",
       "backends := group.Backends",
       "totalWeight := int32(0)",
       "for _, b := range backends { totalWeight += b.Weight }",
       "if totalWeight == 0 { return []http.SplitClientDistribution{ { Percent: \"100\", Value: invalidBackendRef, }, } }",
       "const hundredPercent = int64(10000)",
       "cents := make([]int64, len(backends))",
       "remaining := hundredPercent",
       "lastNonZero := 0",
       "for i, b := range backends { cents[i] = int64(b.Weight) * hundredPercent / int64(totalWeight) remaining -= cents[i] if b.Weight != 0 { lastNonZero = i } }",
       "cents[lastNonZero] += remaining",
       "distributions := make([]http.SplitClientDistribution, 0, len(backends))",
       "for i, b := range backends { distributions = append(distributions, http.SplitClientDistribution{ Percent: fmt.Sprintf(\"%d.%02d\", cents[i]/100, cents[i]%100), Value: getSplitClientValue(b), }) }",
       "return distributions"] ∧
    Generated.SplitClients.getSplitClientValueBody = ["if b.Valid { return b.UpstreamName }", "return invalidBackendRef"] ∧
    Generated.SplitClients.needsSplitBody = ["return len(group.Backends) > 1"] ∧
    Generated.SplitClients.backendGroupNameBody =
      ["switch len(group.Backends) { case 0: return invalidBackendRef case 1: b := group.Backends[0] if b.Weight == 0 || !b.Valid { return invalidBackendRef } return b.UpstreamName default: return group.Name() }"] ∧
    Generated.SplitClients.safeVariableNameBody = ["return strings.ReplaceAll(s, \"-\", \"_\")"] ∧
    Generated.SplitClients.groupNameBody =
      ["return fmt.Sprintf(\"group_%s__%s_rule%d\", bg.Source.Namespace, bg.Source.Name, bg.RuleIdx)"] ∧
    Generated.SplitClients.createProxyPassBody =
      ["var requestURI string",
       "if !grpc { if filter == nil || filter.Path == nil { requestURI = \"$request_uri\" } }",
       "backendName := backendGroupName(backendGroup)",
       "if backendGroupNeedsSplit(backendGroup) { return protocol + \"://$\" + convertStringToSafeVariableName(backendName) + requestURI }",
       "return protocol + \"://\" + backendName + requestURI"] ∧
    Generated.SplitClients.newBackendGroupLoop =
      ["for _, ref := range refs { backends = append(backends, Backend{ UpstreamName: ref.ServicePortReference(), Weight: ref.Weight, Valid: ref.Valid, VerifyTLS: convertBackendTLS(ref.BackendTLSPolicy), }) }"] ∧
    Generated.SplitClients.servicePortReferenceBody =
      ["if !b.Valid { return \"\" }", "return fmt.Sprintf(\"%s_%s_%d\", b.SvcNsName.Namespace, b.SvcNsName.Name, b.ServicePort.Port)"] ∧
    Generated.SplitClients.invalidUpstreamBody =
      ["return http.Upstream{ Name: invalidBackendRef, Servers: []http.UpstreamServer{ { Address: nginx500Server, }, }, }"] := by
  repeat' constructor

/-- the template text, and the model's rendering of a block agrees with it on a concrete instance -/
theorem facts_template_pinned :
    Generated.SplitClients.templateText =
      "\n{{ range $sc := . }}\nsplit_clients $request_id ${{ $sc.VariableName }} {\n    {{- range $d := $sc.Distributions }}\n        {{- if eq $d.Percent \"0.00\" }}\n    # {{ $d.Percent }}% {{ $d.Value }};\n        {{- else }}\n    {{ $d.Percent }}% {{ $d.Value }};\n        {{- end }}\n    {{- end }}\n}\n{{ end }}\n" ∧
    Generated.SplitClients.templateActions =
      ["range $sc := .", "$sc.VariableName", "range $d := $sc.Distributions", "if eq $d.Percent \"0.00\"",
       "$d.Percent", "$d.Value", "$d.Percent", "$d.Value"] ∧
    block "v" [⟨.dec ⟨false, 0⟩, "a"⟩, ⟨.dec ⟨false, 10000⟩, "b"⟩] =
      "\nsplit_clients $request_id $v {\n    # 0.00% a;\n    100.00% b;\n}\n" := by
  refine ⟨rfl, rfl, ?_⟩
  decide +kernel


/-! ## PRE-FIX variant (before commit 286dc83): float64 floor-then-subtract -/

/-! ### the binary64 model -/

/-- `binade a = 2^⌊log₂ a⌋`: the rounding below really has 53 significant bits -/
theorem f64_binade (a : Rat) (ha : 0 < a) : 0 < binade a ∧ binade a ≤ a ∧ a < 2 * binade a :=
  binade_spec a ha

/-- `rn_rel_err`: one rounding errs by at most `|q|·2⁻⁵³` -/
theorem f64_rn_rel_err (q : Rat) :
    rn q - q ≤ F64.abs q / 9007199254740992 ∧ q - rn q ≤ F64.abs q / 9007199254740992 := rn_err q

/-- `rn_exact_on_repr` for integers: `float64(n)` is exact below 2⁵³ -/
theorem f64_rn_exact_int (n : Nat) (h : n < 2 ^ 53) : rn (n : Rat) = (n : Rat) := rn_natCast h



/-- `floor_hundredths`: the non-last share is `F/100` with `F = ⌊10⁴w/T⌋`, or one less when `10⁴w/T` is an
integer (e.g. 23/125 ↦ 18.39) -/
theorem prefix_floor_hundredths (w T : Nat) (hT : 0 < T) (hT' : T ≤ 16000000) (hw : w ≤ T) :
    ∃ F : Nat, percentOf w T = rn ((F : Rat) / 100) ∧ fmt2 (percentOf w T) = ⟨false, F⟩ ∧
      (F = 10000 * w / T ∨ ((10000 * w) % T = 0 ∧ F + 1 = 10000 * w / T)) := by
  obtain ⟨F, h1, h2⟩ := percentOf_floor w T hT hT' hw
  have hb := floor_bracket hT h2
  have hF : F ≤ 10000 := by
    have : F * T ≤ 10000 * T := Nat.le_trans hb.1 (by omega)
    exact Nat.le_of_mul_le_mul_right this hT
  exact ⟨F, h1, by rw [h1]; exact (fmt2_cents F hF).1, h2⟩

/-- Everything `createSplitClientDistributions` prints (total > 0): non-last backends get
`F/100` with `F·T ≤ 10⁴·w ≤ (F+1)·T` (`AllFloors`: within 0.01 below the exact share, zero weight ⇒ 0.00),
the last one gets exactly `100 − ΣF/100` (float error never reaches the second decimal), which is at least
its exact share and exceeds it by at most 0.01·(n−1); its sign can be wrong only when it prints as 0.00. -/
theorem prefix_shares_characterised (ws : List Nat) (h : Admissible ws) :
    ∃ (Fs : List Nat) (last : Dec2),
      floatShares ws = Fs.map (fun F => (⟨false, F⟩ : Dec2)) ++ [last] ∧
      AllFloors ws.sum ws.dropLast Fs ∧
      last.cents + Fs.sum = 10000 ∧
      (1 ≤ last.cents → last.neg = false) ∧
      10000 * ws.getLast h.ne_nil ≤ last.cents * ws.sum ∧
      last.cents * ws.sum ≤ 10000 * ws.getLast h.ne_nil + (ws.length - 1) * ws.sum :=
  floatShares_main ws h

/-- the floatShares sum to exactly 100 (as numbers; a `-0.00` counts as 0) -/
theorem prefix_shares_sum_exactly_100 (ws : List Nat) (h : Admissible ws) :
    ((floatShares ws).map (·.cents)).sum = 10000 := by
  obtain ⟨Fs, last, e, _, hsum, _⟩ := floatShares_main ws h
  rw [e, List.map_append, List.sum_append, cents_sum_map]; simp; omega

/-- tolerance for every non-last backend: `0 ≤ 100·w/T − share ≤ 0.01`, and the share is printed without sign -/
theorem prefix_nonlast_share_within_tolerance (ws : List Nat) (h : Admissible ws) (i : Nat) (hi : i + 1 < ws.length) :
    ∃ F : Nat, (floatShares ws)[i]? = some ⟨false, F⟩ ∧
      F * ws.sum ≤ 10000 * ws[i] ∧ 10000 * ws[i] ≤ (F + 1) * ws.sum ∧ (ws[i] = 0 → F = 0) := by
  obtain ⟨Fs, last, e, hF, _⟩ := floatShares_main ws h
  obtain ⟨_, _, s3⟩ := allFloors_sum hF
  obtain ⟨F, g1, g2⟩ := allFloors_get hF i (by simp; omega)
  have : ws.dropLast[i]'(by simp; omega) = ws[i] := by simp
  rw [this] at g2
  refine ⟨F, ?_, g2.1, g2.2.1, g2.2.2⟩
  rw [e, getElem?_append_single]
  have hlt : i < Fs.length := by rw [s3]; simp; omega
  simp only [List.length_map, hlt, if_true, List.getElem?_map, g1, Option.map_some]

/-- a zero-weight backend that is not the last one is printed `0.00`, which the template comments out -/
theorem prefix_nonlast_zero_weight_commented_out (ws : List Nat) (h : Admissible ws) (i : Nat)
    (hi : i + 1 < ws.length) (hz : ws[i] = 0) :
    ∃ d, (floatShares ws)[i]? = some d ∧ (Pct.dec d).commentedOut = true := by
  obtain ⟨F, h1, _, _, h4⟩ := prefix_nonlast_share_within_tolerance ws h i hi
  have := h4 hz
  subst this
  exact ⟨_, h1, (commentedOut_iff _).mpr rfl⟩

/-- `_partial` (pre-fix): the float algorithm satisfies the property whenever the LAST backend has a non-zero weight -/
theorem prefix_holds_of_last_weight_pos (ws : List Nat) (h : Admissible ws) (hl : 1 ≤ ws.getLast h.ne_nil) :
    Holds ws (floatShares ws) := by
  obtain ⟨Fs, last, e, hF, hsum, hneg, hl1, hl2⟩ := floatShares_main ws h
  obtain ⟨s1, s2, s3⟩ := allFloors_sum hF
  have hlen : Fs.length = ws.length - 1 := by rw [s3]; simp
  have htwo := h.two
  have hc1 : 1 ≤ last.cents := by
    have : 10000 ≤ last.cents * ws.sum := Nat.le_trans (by omega) hl1
    by_cases h0 : last.cents = 0
    · rw [h0] at this; omega
    · omega
  refine ⟨?_, ?_, ?_, ?_, ?_⟩
  · rw [e]; simp; omega
  · intro d hd
    rw [e] at hd
    simp only [List.mem_append, List.mem_map, List.mem_singleton] at hd
    rcases hd with ⟨F, _, rfl⟩ | rfl
    · rfl
    · exact hneg hc1
  · rw [e, List.map_append, List.sum_append, cents_sum_map]; simp; omega
  · intro i hi hz
    rw [e, getElem?_append_single]
    simp only [List.length_map]
    by_cases hlt : i < Fs.length
    · simp only [hlt, if_true]
      obtain ⟨F, g1, g2⟩ := allFloors_get hF i (by simp; omega)
      have : ws.dropLast[i]'(by simp; omega) = ws[i] := by simp
      rw [this] at g2
      have := g2.2.2 hz
      subst this
      simp [g1]
    · have : i = ws.length - 1 := by omega
      have hw : ws[i] = ws.getLast h.ne_nil := by
        rw [List.getLast_eq_getElem]; congr 1
      omega
  · intro i hi
    rw [e, getElem?_append_single]
    simp only [List.length_map]
    by_cases hlt : i < Fs.length
    · simp only [hlt, if_true]
      obtain ⟨F, g1, g2⟩ := allFloors_get hF i (by simp; omega)
      have : ws.dropLast[i]'(by simp; omega) = ws[i] := by simp
      rw [this] at g2
      refine ⟨⟨false, F⟩, by simp [g1], g2.2.1, ?_⟩
      have := g2.1
      show F * ws.sum ≤ _
      omega
    · have hi' : i = Fs.length := by omega
      have hw : ws[i] = ws.getLast h.ne_nil := by
        rw [List.getLast_eq_getElem]; congr 1; omega
      subst hi'
      simp only [Nat.lt_irrefl, if_false, if_true]
      refine ⟨last, rfl, ?_, ?_⟩
      · rw [hw, Nat.add_mul]; omega
      · rw [hw]; exact hl2

/-- witness 1 (reproduced on the real generator): weights 83,42,0 print `66.40 33.60 -0.00`; the last entry is
negative (remainder −2⁻⁴⁷), is not commented out, and NGINX rejects it -/
theorem prefix_witness_last_share_negative_zero :
    floatShares [83, 42, 0] = [⟨false, 6640⟩, ⟨false, 3360⟩, ⟨true, 0⟩] ∧
    (floatShares [83, 42, 0]).map Dec2.render = ["66.40", "33.60", "-0.00"] ∧
    (floatShares [83, 42, 0]).map (fun d => (Pct.dec d).commentedOut) = [false, false, false] ∧
    (shareVals 125 (ofNat 100) [83, 42, 0]).getLast? = some (-1 / 140737488355328 : Rat) := by
  decide +kernel

theorem prefix_not_holds_negative_zero : Admissible [83, 42, 0] ∧ ¬ Holds [83, 42, 0] (floatShares [83, 42, 0]) := by
  refine ⟨⟨by decide, by decide, by decide, by decide⟩, fun h => ?_⟩
  have := h.nonneg ⟨true, 0⟩ (by rw [prefix_witness_last_share_negative_zero.1]; simp)
  simp at this

/-- witness 2 (reproduced on the real generator): weights 1,1,1,0 give the zero-weight last backend 0.01% -/
theorem prefix_witness_zero_weight_last_gets_remainder :
    floatShares [1, 1, 1, 0] = [⟨false, 3333⟩, ⟨false, 3333⟩, ⟨false, 3333⟩, ⟨false, 1⟩] ∧
    (floatShares [1, 1, 1, 0]).map Dec2.render = ["33.33", "33.33", "33.33", "0.01"] := by
  decide +kernel

theorem prefix_not_holds_zero_weight_last : Admissible [1, 1, 1, 0] ∧ ¬ Holds [1, 1, 1, 0] (floatShares [1, 1, 1, 0]) := by
  refine ⟨⟨by decide, by decide, by decide, by decide⟩, fun h => ?_⟩
  have := h.zero 3 (by decide) rfl
  rw [prefix_witness_zero_weight_last_gets_remainder.1] at this
  simp at this

/-- 23/125 = 18.40% exactly; float64 `Floor` yields 18.39 (still within the 0.01 tolerance) -/
theorem prefix_witness_float_floor_one_low :
    (fmt2 (percentOf 23 125)).render = "18.39" ∧ 10000 * 23 / 125 = 1840 := by decide +kernel


end NGF.SplitClients
