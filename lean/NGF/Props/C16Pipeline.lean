/-
C16 at pipeline level — certificate binding as theorems over the GENERATED CONFIGURATION `PipelineTls.genT s`, for ALL
scenarios `s : ScenarioT` (Pipeline scenario + protocol / certificate reference per listener + Secrets + ReferenceGrants).
`genT` is the function the driver runs (`ngfdriver_C16 pipeline`) and the correspondence compares with the real
http.conf and the real secret files (Model/PipelineTlsTie.lean). Helper lemmas: NGF/Proofs/PipelineTls.lean.

  ssl_server_cert_is_attaching_listeners_secret (+ `_any_ns` without the namespace hypothesis)
  owner_listener_cert_partial + witness owner_listener_cert_false (the known finding, on the generated configuration)
  port_conflict_resolver_exact (the stateful Go resolver = the declarative `conflicted`)
  invalid_secret_no_ssl_server, unresolved_listeners_contribute_nothing, resolution_failures_T
  http_part_unchanged, http_part_ignores_tls_objects, ssl_part_ignores_free_http_listeners
  keypairs_exact, keypair_ids_nodup
  ssl_server_for_sni, presented_cert_covers_sni, uncovered_sni_rejected (what NGINX presents for an SNI name)
-/
import NGF.Model.PipelineTls
import NGF.Proofs.PipelineTls
import NGF.Generated.TlsFacts

namespace NGF.PipelineTls
open NGF.Pipeline

/-! ### facts regenerated from the source: the Go statements the pipeline-level model mirrors -/

/-- closes a conjunction of definitional equalities between regenerated facts and their expected text -/
macro "factsT" : tactic => `(tactic| ((repeat' apply And.intro) <;> rfl))

/-- `configure`: a listener whose validators failed returns before any resolver runs; the port conflict resolver runs
BEFORE the Secret is resolved (`ListenerT.fieldsOK`, `conflicted`, `resolution`) -/
theorem fact_listener_validity_order : Generated.Tls.configureBody.drop 8 =
    ["if !l.Valid { return l }", "for _, resolver := range c.conflictResolvers { resolver(l) }",
     "for _, resolver := range c.externalReferenceResolvers { resolver(l) }", "return l"] ∧
    Generated.Tls.configureBody[3]? = some "valid := len(conds) == 0" := by factsT

/-- createPortConflictResolver: HTTP is one protocol group, HTTPS (and TLS) the other; a port owned by one group that
sees the other becomes conflicted, together with every listener seen before (`conflicted`) -/
theorem fact_port_conflict :
    Generated.Tls.portConflictGroups =
      "protocolGroups := map[v1.ProtocolType]int{ v1.TLSProtocolType: secureProtocolGroup, v1.HTTPProtocolType: insecureProtocolGroup, v1.HTTPSProtocolType: secureProtocolGroup, }" ∧
    Generated.Tls.portConflictConditions =
      ["conflictedPorts[port]", "!ok", "protocolGroup != protocolGroups[l.Source.Protocol]",
       "listener.Source.Protocol != l.Source.Protocol && haveOverlap(l.Source.Hostname, listener.Source.Hostname)",
       "foundConflict"] := by factsT

/-- createHTTPSListenerValidator: which certificate references are well-formed (`ListenerT.cert = some _`) -/
theorem fact_https_validator_refs : Generated.Tls.httpsValidatorConditions =
    ["err != nil", "listener.TLS == nil", "*listener.TLS.Mode != v1.TLSModeTerminate", "len(listener.TLS.Options) > 0",
     "len(listener.TLS.CertificateRefs) == 0", "certRef.Kind != nil && *certRef.Kind != \"Secret\"",
     "certRef.Group != nil && *certRef.Group != \"\"", "l > 1"] := by factsT

/-- createExternalReferencesForTLSSecretsResolver: namespace defaulting, ReferenceGrant only for a foreign namespace,
then `secretResolver.resolve`; `ResolvedSecret` is set only on success (`resolution`, `kpOf`) -/
theorem fact_tls_secret_resolver : Generated.Tls.tlsSecretsResolverBody =
    ["certRef := l.Source.TLS.CertificateRefs[0]", "certRefNs := gwNs",
     "if certRef.Namespace != nil { certRefNs = string(*certRef.Namespace) }",
     "certRefNsName := types.NamespacedName{ Namespace: certRefNs, Name: string(certRef.Name), }",
     "if certRefNs != gwNs { if !refGrantResolver.refAllowed(toSecret(certRefNsName), fromGateway(gwNs)) { msg := fmt.Sprintf(\"Certificate ref to secret %s not permitted by any ReferenceGrant\", certRefNsName) l.Conditions = append(l.Conditions, staticConds.NewListenerRefNotPermitted(msg)...) l.Valid = false return } }",
     "if err := secretResolver.resolve(certRefNsName); err != nil { path := field.NewPath(\"tls\", \"certificateRefs\").Index(0) valErr := field.Invalid(path, certRefNsName, err.Error()) l.Conditions = append(l.Conditions, staticConds.NewListenerInvalidCertificateRef(valErr.Error())...) l.Valid = false } else { l.ResolvedSecret = &certRefNsName }"] := by
  factsT

/-- dataplane.buildServers: one `hostPathRules` per (protocol, port), fed only with VALID listeners (`httpPart`,
`httpsPart`); upsertListener: every valid listener makes the port's default server exist, HTTPS listeners are kept for
their own servers, only valid routes are upserted (`genT.sslPorts`, `listenerOnly`, `accHosts`) -/
theorem fact_protocol_halves :
    Generated.Tls.buildServersDistribution =
      ["for _, l := range g.Gateway.Listeners", "if l.Source.Protocol == v1.TLSProtocolType { continue }",
       "if l.Valid { rules := rulesForProtocol[l.Source.Protocol][l.Source.Port] if rules == nil { rules = newHostPathRules() rulesForProtocol[l.Source.Protocol][l.Source.Port] = rules } rules.upsertListener(l) }"] ∧
    Generated.Tls.upsertListenerBody =
      ["hpr.listenersExist = true", "hpr.port = int32(l.Source.Port)",
       "if l.Source.Protocol == v1.HTTPSProtocolType { hpr.httpsListeners = append(hpr.httpsListeners, l) }",
       "for _, r := range l.Routes { if !r.Valid { continue } hpr.upsertRoute(r, l) }"] := by factsT

/-- createSSLServer: the default server carries nothing; a named server's certificate and key are the PEM file of
its key pair id (compared as `Tls.pemFileName` in the tie) -/
theorem fact_ssl_server : Generated.Tls.createSSLServerBody.take 4 =
    ["listen := fmt.Sprint(virtualServer.Port)",
     "if virtualServer.IsDefault { return http.Server{ IsDefaultSSL: true, Listen: listen, }, nil }",
     "locs, matchPairs, grpc := createLocations(&virtualServer, serverID, generator, keepAliveCheck)",
     "server := http.Server{ ServerName: virtualServer.Hostname, SSL: &http.SSL{ Certificate: generatePEMFileName(virtualServer.SSL.KeyPairID), CertificateKey: generatePEMFileName(virtualServer.SSL.KeyPairID), }, Locations: locs, GRPC: grpc, Listen: listen, }"] := by
  factsT

/-! ### example scenarios (non-vacuity; the witness of the known finding) -/

def exSecrets : List Tls.SecretObj :=
  [⟨"default".toList, "tls-a".toList, true, true, "CERT-A".toList, "KEY-A".toList⟩,
   ⟨"default".toList, "tls-b".toList, true, true, "CERT-B".toList, "KEY-B".toList⟩,
   ⟨"default".toList, "tls-opaque".toList, false, true, "CERT-O".toList, "KEY-O".toList⟩,
   ⟨"team-b".toList, "tls-x".toList, true, true, "CERT-X".toList, "KEY-X".toList⟩]

def exGrant : Tls.Grant :=
  { ns := "team-b".toList, froms := [⟨Tls.gatewayGroup, Tls.kGateway, "default".toList⟩],
    tos := [⟨[], Tls.kSecret, "tls-x".toList⟩] }

def exRule : Rule :=
  { ms := [{ exact := false, path := "/".toList, method := [], headers := [], query := [] }],
    action := .forward [{ target := "default_svc0_80".toList, weight := 1, valid := true }] }

def mkL (name : String) (port : Nat) (host : String) (https : Bool) (cert : Option (String × String)) : ListenerT :=
  { base := { name := name.toList, port := port, host := host.toList, fromAll := true }, https := https,
    cert := cert.map fun c => (c.1.toList, c.2.toList) }

def mkRoute (name : String) (section_ : Option String) (hosts : List String) : Route :=
  { ns := "default".toList, name := name.toList, age := 3,
    parents := [{ ns := "default".toList, name := "gw".toList, sectionName := section_.map String.toList }],
    hostnames := hosts.map String.toList, rules := [exRule], valid := true }

def mkScen (ls : List ListenerT) (routes : List Route) (grants : List Tls.Grant) : ScenarioT :=
  { cls := "nginx".toList, ctlr := "ctl".toList, classes := [⟨"nginx".toList, "ctl".toList⟩],
    gateways := [{ ns := "default".toList, name := "gw".toList, cls := "nginx".toList, age := 2, listeners := ls }],
    routes := routes, secrets := exSecrets, grants := grants }

def exWild : ListenerT := mkL "wild" 443 "*.example.com" true (some ("default", "tls-a"))
def exFoo : ListenerT := mkL "foo" 443 "foo.example.com" true (some ("default", "tls-b"))

/-- wildcard + specific listener on 443 with distinct Secrets; a listener whose Secret has the wrong type; a listener
on 8443 with a Secret of another namespace (granted); an HTTP listener on 80 and an HTTP listener sharing port 8080
with an HTTPS listener whose Secret is missing (both out); one route on the whole Gateway -/
def exListeners : List ListenerT :=
  [exWild, exFoo, mkL "bad" 443 "bar.org" true (some ("default", "tls-opaque")),
   mkL "cross" 8443 "" true (some ("team-b", "tls-x")), mkL "http" 80 "" false none,
   mkL "h8080" 8080 "" false none, mkL "s8080" 8080 "cafe.example.com" true (some ("default", "tls-missing"))]

def exScen : ScenarioT := mkScen exListeners [mkRoute "hr0" none ["foo.example.com", "cafe.example.com"]] [exGrant]

/-- the same cluster without the ReferenceGrant -/
def exScenNoGrant : ScenarioT := mkScen exListeners [mkRoute "hr0" none ["foo.example.com", "cafe.example.com"]] []

/-- the known finding: the route is attached to the wildcard listener only -/
def witScen : ScenarioT := mkScen [exWild, exFoo] [mkRoute "hr0" (some "wild") ["foo.example.com"]] []

/-- (port, server name, key pair id) of the SSL servers -/
def view (c : ConfT) : List (Nat × String × Option String) :=
  c.ssl.map fun p => (p.1.port, String.ofList p.1.name, p.2.map String.ofList)

example : view (genT exScen) =
    [(443, "foo.example.com", some "ssl_keypair_default_tls-b"), (443, "cafe.example.com", some "ssl_keypair_default_tls-a"),
     (8443, "foo.example.com", some "ssl_keypair_team-b_tls-x"), (8443, "cafe.example.com", some "ssl_keypair_team-b_tls-x"),
     (8443, "~^", some "ssl_keypair_team-b_tls-x")] ∧
    (genT exScen).sslPorts = [443, 8443] ∧ (genT exScen).http.ports = [80] ∧
    (genT exScen).keyPairs.map (fun k => (String.ofList k.id, String.ofList k.cert, String.ofList k.key)) =
      [("ssl_keypair_team-b_tls-x", "CERT-X", "KEY-X"), ("ssl_keypair_default_tls-b", "CERT-B", "KEY-B"),
       ("ssl_keypair_default_tls-a", "CERT-A", "KEY-A")] := by decide +kernel

/-! ### which listener's Secret an SSL server presents -/

/-- what binds the server name `h` to listener `l`: a valid route attached to `l` accepted `h` there, or it is the
server generated for the listener itself (no routes attached, or no hostname) -/
def Binds (s : ScenarioT) (gT : GatewayT) (l : ListenerT) (h : Str) : Prop :=
  (∃ r ∈ s.routes, r.valid = true ∧ h ∈ acceptedAt (projGw (validHttps s) gT) l.base r) ∨
  (h = serverName l.base.host ∧
    (nroutes (projGw (validHttps s) gT) s.routes l.base = 0 ∨ serverName l.base.host = Hostname.wildcardHostname))

/-- `ssl_server_cert_is_attaching_listeners_secret`, without any hypothesis on namespaces: every SSL server of `genT s`
(name `sv.name`, port `sv.port`) carries the key pair id of a VALID HTTPS listener `l` of the served Gateway on that
port, whose hostname covers the server name and to which the name is bound (a valid attached route accepted it there,
or it is the listener's own server); that key pair is among the emitted files, with the bytes of a Secret of the same
id referenced by a valid listener. -/
theorem ssl_server_cert_any_ns (s : ScenarioT) (sv : CServer) (kp : Option (List Char)) (h : (sv, kp) ∈ (genT s).ssl) :
    ∃ gT, winnerT s = some gT ∧ ∃ l ∈ gT.listeners, validHttps s gT l = true ∧ l.base.port = sv.port ∧
      Tls.covers l.base.host sv.name = true ∧ Binds s gT l sv.name ∧
      ∃ c sec, l.cert = some c ∧ kp = some (Tls.keyPairId c) ∧ Tls.findSecret s.secrets c.1 c.2 = some sec ∧
        ∃ k ∈ (genT s).keyPairs, k.id = Tls.keyPairId c ∧
          ∃ l' ∈ sslListeners s gT, ∃ c' sec', l'.cert = some c' ∧ Tls.findSecret s.secrets c'.1 c'.2 = some sec' ∧
            Tls.keyPairId c' = Tls.keyPairId c ∧ k.cert = sec'.cert ∧ k.key = sec'.key := by
  cases hw : winnerT s with
  | none => rw [genT_none hw] at h; simp at h
  | some gT =>
    refine ⟨gT, rfl, ?_⟩
    have hkps : (genT s).keyPairs = keyPairsFrom s.secrets [] (sslListeners s gT) := by rw [genT_some hw]
    rcases mem_ssl hw h with ⟨hsv, hkp⟩ | ⟨l, hl, hc, rfl, rfl⟩
    · -- a server of the HTTPS projection
      rw [gen_httpsPart hw] at hsv
      simp only [List.mem_map] at hsv
      obtain ⟨ph, hph, rfl⟩ := hsv
      obtain ⟨l0, hl0, hp0, r, hr, hv, hacc⟩ := mem_hostsOf hph
      obtain ⟨lT, hlT, hvalid, rfl⟩ := mem_projGw_listeners hl0
      have hcar : carries (projGw (validHttps s) gT) s.routes ph.2 lT = true := carries_iff.mpr ⟨r, hr, hv, hacc⟩
      have hmem : lT ∈ (sslListeners s gT).filter (·.base.port == ph.1) := by
        simp [mem_sslListeners, hlT, hvalid, hp0]
      have hsome := ownerOf_isSome hmem hcar
      cases ho : ownerOf (projGw (validHttps s) gT) s.routes ((sslListeners s gT).filter (·.base.port == ph.1)) ph.2 with
      | none => simp [ho] at hsome
      | some w =>
        obtain ⟨hwm, hwc, _⟩ := ownerOf_spec ho
        have hwm' := List.mem_filter.mp hwm
        have hwl := mem_sslListeners.mp hwm'.1
        obtain ⟨c, sec, hc, hk, hs, k, hkm, hid, rest⟩ := valid_listener_keypair hwm'.1
        obtain ⟨r', hr', hv', hacc'⟩ := carries_iff.mp hwc
        have hport : w.base.port = ph.1 := by simpa using hwm'.2
        refine ⟨w, hwl.1, hwl.2, hport, carries_covers hwc, Or.inl ⟨r', hr', hv', hacc'⟩,
          c, sec, hc, ?_, hs, k, by rw [hkps]; exact hkm, hid, rest⟩
        change kp = _ at hkp
        rw [hkp]
        have : (serverOf (entries (projGw (validHttps s) gT) s.routes) ph.1 ph.2).port = ph.1 := rfl
        have hn : (serverOf (entries (projGw (validHttps s) gT) s.routes) ph.1 ph.2).name = ph.2 := rfl
        simp only [this, hn, ho, Option.bind_some, hk]
    · -- the listener's own server
      have hwl := mem_sslListeners.mp hl
      obtain ⟨c, sec, hcc, hk, hs, k, hkm, hid, rest⟩ := valid_listener_keypair hl
      exact ⟨l, hwl.1, hwl.2, rfl, covers_serverName _, Or.inr ⟨rfl, hc⟩, c, sec, hcc, hk, hs, k,
        by rw [hkps]; exact hkm, hid, rest⟩

/-- certificate namespaces are DNS labels (no `_`): makes `generateSSLKeyPairID` injective (`keypair_id_injective`) -/
def CertNsPlain (s : ScenarioT) : Prop := ∀ g ∈ s.gateways, ∀ l ∈ g.listeners, ∀ c, l.cert = some c → '_' ∉ c.1

/-- `ssl_server_cert_is_attaching_listeners_secret`: every SSL server of `genT s` for hostname `sv.name` on port `sv.port`
carries the key pair of a VALID HTTPS listener of the served Gateway on that port, covering the name, to which the name
is bound (a valid attached route accepted it there, or it is the listener's own server); and the emitted key-pair file
of that id holds the bytes of THAT listener's Secret. -/
theorem ssl_server_cert_is_attaching_listeners_secret (s : ScenarioT) (hns : CertNsPlain s)
    (sv : CServer) (kp : Option (List Char)) (h : (sv, kp) ∈ (genT s).ssl) :
    ∃ gT, winnerT s = some gT ∧ ∃ l ∈ gT.listeners, validHttps s gT l = true ∧ l.base.port = sv.port ∧
      Tls.covers l.base.host sv.name = true ∧ Binds s gT l sv.name ∧
      ∃ c sec, l.cert = some c ∧ kp = some (Tls.keyPairId c) ∧ Tls.findSecret s.secrets c.1 c.2 = some sec ∧
        sec.isTLS = true ∧ sec.pairOK = true ∧
        ∃ k ∈ (genT s).keyPairs, k.id = Tls.keyPairId c ∧ k.cert = sec.cert ∧ k.key = sec.key := by
  obtain ⟨gT, hw, l, hl, hv, hp, hcov, hb, c, sec, hc, hkp, hs, k, hk, hid, l', hl', c', sec', hc', hs', hidc, hkc, hkk⟩ :=
    ssl_server_cert_any_ns s sv kp h
  have hg := winnerT_mem hw
  have hcc : c' = c :=
    Tls.keyPairId_inj (hns gT hg l' (mem_sslListeners.mp hl').1 c' hc') (hns gT hg l hl c hc) hidc
  subst hcc
  rw [hs] at hs'; cases hs'
  obtain ⟨c2, hc2, _, sec2, hs2, ht, hpo⟩ := valid_cert hv
  rw [hc] at hc2; cases hc2
  rw [hs] at hs2; cases hs2
  exact ⟨gT, hw, l, hl, hv, hp, hcov, hb, c', sec, hc, hkp, hs, ht, hpo, k, hk, hid, hkc, hkk⟩

/-- the owner of server name `h` on port `p` as the property reads it: a valid HTTPS listener of the port covering `h`
such that no other one is more specific -/
def IsOwner (s : ScenarioT) (gT : GatewayT) (p : Nat) (h : Str) (o : ListenerT) : Prop :=
  o ∈ gT.listeners ∧ validHttps s gT o = true ∧ o.base.port = p ∧ Tls.covers o.base.host h = true ∧
  ∀ l' ∈ gT.listeners, validHttps s gT l' = true → l'.base.port = p → Tls.covers l'.base.host h = true →
    Tls.rank l'.base.host ≤ Tls.rank o.base.host

/-- a Gateway does not repeat a (port, hostname) pair (API server CEL rule; part of `Pipeline.gatewayOK`) -/
def PortHostInj (gT : GatewayT) : Prop :=
  ∀ a ∈ gT.listeners, ∀ b ∈ gT.listeners, a.base.port = b.base.port → a.base.host = b.base.host → a = b

/-- `owner_listener_cert_partial`: under the hypothesis that excludes the known finding
`C16:hostname-of-more-specific-listener-served-with-less-specific-listeners-cert` — a valid route attached to the OWNER
itself carries the server name (always so when routes attach to the whole Gateway and the owner admits them) — every
SSL server presents the key pair of the MOST SPECIFIC valid HTTPS listener of its port covering its name. -/
theorem owner_listener_cert_partial (s : ScenarioT) (gT : GatewayT) (hw : winnerT s = some gT) (hinj : PortHostInj gT)
    (sv : CServer) (kp : Option (List Char)) (h : (sv, kp) ∈ (genT s).ssl)
    (o : ListenerT) (ho : IsOwner s gT sv.port sv.name o)
    (hacc : ∃ r ∈ s.routes, r.valid = true ∧ sv.name ∈ acceptedAt (projGw (validHttps s) gT) o.base r)
    (hwf : o.base.host ≠ Hostname.wildcardHostname) :
    kp = kpOf o := by
  obtain ⟨hom, hov, hop, hoc, homax⟩ := ho
  have hcar : carries (projGw (validHttps s) gT) s.routes sv.name o = true := carries_iff.mpr hacc
  rcases mem_ssl hw h with ⟨hsv, hkp⟩ | ⟨l, hl, hc, hsv, hkp⟩
  · have hmem : o ∈ (sslListeners s gT).filter (·.base.port == sv.port) := by
      simp [mem_sslListeners, hom, hov, hop]
    have hsome := ownerOf_isSome hmem hcar
    cases hown : ownerOf (projGw (validHttps s) gT) s.routes ((sslListeners s gT).filter (·.base.port == sv.port)) sv.name with
    | none => simp [hown] at hsome
    | some w =>
      obtain ⟨hwm, hwc, hmax⟩ := ownerOf_spec hown
      have hwm' := List.mem_filter.mp hwm
      have hwl := mem_sslListeners.mp hwm'.1
      have hwp : w.base.port = sv.port := by simpa using hwm'.2
      have h1 := hmax o hmem hcar
      have h2 := homax w hwl.1 hwl.2 hwp (carries_covers hwc)
      have hh := host_eq_of_rank_eq (carries_covers hwc) hoc (by omega)
      have : w = o := hinj w hwl.1 o hom (by rw [hwp, hop]) hh
      rw [hkp, hown, this]; rfl
  · -- the server generated for listener `l` itself
    have hwl := mem_sslListeners.mp hl
    have hname : sv.name = serverName l.base.host := by rw [hsv]; rfl
    have hport : sv.port = l.base.port := by rw [hsv]; rfl
    have hlc : Tls.covers l.base.host sv.name = true := by rw [hname]; exact covers_serverName _
    have h2 := homax l hwl.1 hwl.2 hport.symm hlc
    have h1 : Tls.rank o.base.host ≤ Tls.rank l.base.host := by
      by_cases e : l.base.host = []
      · -- the name is "~^": only a listener without hostname (or one literally named "~^") covers it
        have hn : sv.name = Hostname.wildcardHostname := by rw [hname]; simp [serverName, e]
        rw [hn] at hoc
        rcases Tls.covers_iff.mp hoc with h3 | h3 | ⟨t, _, s3⟩
        · simp [Tls.rank, h3]
        · exact absurd h3 hwf
        · exfalso
          have hh : ∀ x y : Char, ('.' :: t) <:+ [x, y] → x ≠ '.' → y ≠ '.' → False := by
            intro x y hsuf hx hy
            rcases List.suffix_cons_iff.mp hsuf with h4 | h4
            · simp at h4; exact hx h4.1.symm
            · rcases List.suffix_cons_iff.mp h4 with h5 | h5
              · simp at h5; exact hy h5.1.symm
              · simp at h5
          exact hh '~' '^' s3 (by decide) (by decide)
      · have : sv.name = l.base.host := by
          rw [hname]; unfold serverName
          have : l.base.host.isEmpty = false := by cases hx : l.base.host <;> simp_all
          simp [this]
        rw [this] at hoc
        exact Tls.covers_rank_le hoc e
    have hh := host_eq_of_rank_eq hlc hoc (by omega)
    have : l = o := hinj l hwl.1 o hom (by rw [← hport, hop]) hh
    rw [hkp, this]


/-- non-vacuity of `ssl_server_cert_is_attaching_listeners_secret`: the example has five SSL servers and plain namespaces -/
example : CertNsPlain exScen ∧ (genT exScen).ssl.length = 5 := by
  refine ⟨?_, by decide +kernel⟩
  intro g hg l hl c hc
  simp only [exScen, mkScen, List.mem_singleton] at hg
  subst hg
  simp only [exListeners, exWild, exFoo, mkL, List.mem_cons, List.not_mem_nil, or_false] at hl
  rcases hl with rfl | rfl | rfl | rfl | rfl | rfl | rfl <;> simp at hc <;> (try (subst hc; decide))

/-- FULL STRENGTH IS FALSE on the current code (known finding
`C16:hostname-of-more-specific-listener-served-with-less-specific-listeners-cert`), now ON THE GENERATED
CONFIGURATION: with the route attached to the wildcard listener only, `genT` emits a server `foo.example.com:443`
presenting tls-a (the wildcard listener's Secret) — and NGINX presents it for SNI `foo.example.com` — although listener
`foo` (tls-b) is the valid HTTPS listener of port 443 with the most specific hostname covering that name. -/
theorem owner_listener_cert_false :
    view (genT witScen) = [(443, "foo.example.com", some "ssl_keypair_default_tls-a"),
                           (443, "foo.example.com", some "ssl_keypair_default_tls-b")] ∧
    presented (genT witScen) 443 "foo.example.com".toList = some (some "ssl_keypair_default_tls-a".toList) ∧
    winnerT witScen = some ⟨"default".toList, "gw".toList, "nginx".toList, 2, [exWild, exFoo]⟩ ∧
    validHttps witScen ⟨"default".toList, "gw".toList, "nginx".toList, 2, [exWild, exFoo]⟩ exFoo = true ∧
    Tls.covers exFoo.base.host "foo.example.com".toList = true ∧
    Tls.rank exWild.base.host < Tls.rank exFoo.base.host ∧
    kpOf exFoo = some "ssl_keypair_default_tls-b".toList := by decide +kernel

/-- non-vacuity of `owner_listener_cert_partial`: in `exScen` (route on the whole Gateway) listener `foo` is the owner of
`foo.example.com` on 443, has the name accepted, and the server presents its key pair -/
example : ∃ gT, winnerT exScen = some gT ∧ PortHostInj gT ∧ IsOwner exScen gT 443 "foo.example.com".toList exFoo ∧
    (∃ r ∈ exScen.routes, r.valid = true ∧ "foo.example.com".toList ∈ acceptedAt (projGw (validHttps exScen) gT) exFoo.base r) ∧
    exFoo.base.host ≠ Hostname.wildcardHostname := by
  refine ⟨⟨"default".toList, "gw".toList, "nginx".toList, 2, exListeners⟩, by decide +kernel, ?_, ⟨?_, by decide +kernel, rfl, by decide +kernel, ?_⟩,
    ⟨mkRoute "hr0" none ["foo.example.com", "cafe.example.com"], by simp [exScen, mkScen], rfl, by decide +kernel⟩, by decide⟩
  · intro a ha b hb hp hh
    simp only [exListeners, List.mem_cons, List.not_mem_nil, or_false] at ha hb
    rcases ha with rfl | rfl | rfl | rfl | rfl | rfl | rfl <;> rcases hb with rfl | rfl | rfl | rfl | rfl | rfl | rfl <;>
      first | rfl | (exfalso; revert hp hh; decide)
  · simp [exListeners]
  · intro l' hl' _ _ _
    simp only [exListeners, List.mem_cons, List.not_mem_nil, or_false] at hl'
    rcases hl' with rfl | rfl | rfl | rfl | rfl | rfl | rfl <;> decide +kernel

/-! ### listener validity: the port conflict resolver -/

/-- `port_conflict_resolver_exact`: the stateful resolver of the Go code (`pcRun`: conflictedPorts / portProtocolOwner /
listenersByPort, called in listener order) invalidates EXACTLY the listeners `conflicted` names: a listener whose
validators passed is set invalid by createPortConflictResolver iff a validator-passing listener of the other protocol
group shares its port — whatever the order of the listeners -/
theorem port_conflict_resolver_exact (g : GatewayT) (l : ListenerT) (hl : l ∈ g.listeners) (hf : l.fieldsOK = true) :
    l ∈ (pcRun g.listeners).invalid ↔ conflicted g l = true := by
  have hi := pcInv_run g.listeners
  have hld : l ∈ g.listeners.filter (·.fieldsOK) := List.mem_filter.mpr ⟨hl, hf⟩
  rw [hi.invalid l, hi.conf]
  simp only [conflicted, List.any_eq_true, Bool.and_eq_true, beq_iff_eq, bne_iff_ne, ne_eq, List.mem_filter]
  constructor
  · rintro ⟨_, a, ⟨ha, haf⟩, b, ⟨hb, hbf⟩, h1, h2, h3⟩
    by_cases e : a.https = l.https
    · exact ⟨b, hb, ⟨hbf, h2⟩, fun x => h3 (e.trans x.symm)⟩
    · exact ⟨a, ha, ⟨haf, h1⟩, e⟩
  · rintro ⟨o, ho, ⟨hof, hp⟩, hne⟩
    exact ⟨⟨hl, hf⟩, o, ⟨ho, hof⟩, l, ⟨hl, hf⟩, hp, rfl, hne⟩

/-- in the example Gateway the resolver marks exactly the HTTP and the HTTPS listener sharing port 8080 — although the
HTTPS one refers to a missing Secret -/
example : (pcRun exListeners).invalid.map (fun l => String.ofList l.base.name) = ["s8080", "h8080"] ∧
    (pcRun exListeners).conflictedPorts = [8080] := by decide +kernel

/-! ### a listener whose Secret is missing / invalid / not permitted contributes nothing -/

/-- each way the certificate reference of an HTTPS listener can fail makes the listener invalid: malformed reference
(none / several / not a Secret), Secret of another namespace without a ReferenceGrant, missing Secret, Secret of the
wrong type or with an unloadable pair -/
theorem resolution_failures_T (s : ScenarioT) (g : GatewayT) (l : ListenerT) :
    (l.cert = none → validHttps s g l = false) ∧
    (∀ c, l.cert = some c → c.1 ≠ g.ns → Tls.secretRefAllowed s.grants g.ns c.1 c.2 = false → validHttps s g l = false) ∧
    (∀ c, l.cert = some c → Tls.findSecret s.secrets c.1 c.2 = none → validHttps s g l = false) ∧
    (∀ c sec, l.cert = some c → Tls.findSecret s.secrets c.1 c.2 = some sec → (sec.isTLS = false ∨ sec.pairOK = false) →
      validHttps s g l = false) := by
  have key : ∀ P : Prop, (validHttps s g l = true → P → False) → P → validHttps s g l = false := by
    intro P h hp
    cases hv : validHttps s g l
    · rfl
    · exact absurd hp (fun x => h hv x)
  refine ⟨key _ ?_, fun c hc h1 => key _ ?_ , fun c hc => key _ ?_, fun c sec hc hs => key _ ?_⟩
  · intro hv hc
    obtain ⟨c, hc', _⟩ := valid_cert hv
    rw [hc] at hc'; cases hc'
  · intro hv h2
    obtain ⟨c', hc', hp, _⟩ := valid_cert hv
    rw [hc] at hc'; cases hc'
    rcases hp with e | e
    · exact h1 e
    · rw [h2] at e; cases e
  · intro hv h2
    obtain ⟨c', hc', _, sec, hs, _⟩ := valid_cert hv
    rw [hc] at hc'; cases hc'
    rw [h2] at hs; cases hs
  · intro hv h2
    obtain ⟨c', hc', _, sec', hs', h3, h4⟩ := valid_cert hv
    rw [hc] at hc'; cases hc'
    rw [hs] at hs'; cases hs'
    rcases h2 with e | e
    · rw [e] at h3; cases h3
    · rw [e] at h4; cases h4

example : (exListeners.map fun l => resolution exScenNoGrant ⟨"default".toList, "gw".toList, "nginx".toList, 2, exListeners⟩ l) =
    [.ok, .ok, .wrongType, .notPermitted, .badRef, .badRef, .missing] := by decide +kernel

/-- `invalid_secret_no_ssl_server`, removal form: the HTTPS listeners whose Secret did not resolve contribute NOTHING
to the SSL part — removing all of them leaves the SSL servers, the SSL default ports and the key-pair files unchanged. -/
theorem unresolved_listeners_contribute_nothing (s : ScenarioT) :
    (genT (dropUnresolved s)).ssl = (genT s).ssl ∧ (genT (dropUnresolved s)).sslPorts = (genT s).sslPorts ∧
    (genT (dropUnresolved s)).keyPairs = (genT s).keyPairs :=
  ssl_part_dropUnresolved s

example : ((dropUnresolved exScenNoGrant).gateways.map fun g => g.listeners.map fun l => String.ofList l.base.name) =
    [["wild", "foo", "http", "h8080"]] := by decide +kernel

/-- `invalid_secret_no_ssl_server`, port form: when every HTTPS listener of port `p` fails to resolve its Secret, the
port has no SSL server and not even a default server — nothing listens with TLS there, and NGINX presents no
certificate whatever the SNI. (In the Go code an invalid listener is never upserted, so no `hostPathRules` exists.) -/
theorem invalid_secret_no_ssl_server (s : ScenarioT) (gT : GatewayT) (hw : winnerT s = some gT) (p : Nat)
    (hall : ∀ l ∈ gT.listeners, l.https = true → l.base.port = p → resolution s gT l ≠ .ok) :
    p ∉ (genT s).sslPorts ∧ (∀ sv kp, (sv, kp) ∈ (genT s).ssl → sv.port ≠ p) ∧
    ∀ sni, presented (genT s) p sni = none := by
  have hp : p ∉ (genT s).sslPorts := by
    intro hin
    obtain ⟨l, hl, hv, hpl⟩ := (ssl_port_iff hw p).mp hin
    have h3 := validHttps_iff.mp hv
    exact hall l hl h3.1 hpl h3.2.2
  refine ⟨hp, ?_, ?_⟩
  · intro sv kp hm hsp
    obtain ⟨gT', hw', l, hl, hv, hpl, _⟩ := ssl_server_cert_any_ns s sv kp hm
    rw [hw] at hw'; cases hw'
    have h3 := validHttps_iff.mp hv
    exact hall l hl h3.1 (hpl.trans hsp) h3.2.2
  · intro sni
    unfold presented
    have : (genT s).sslPorts.contains p = false := by simpa using hp
    simp only [this, Bool.not_false, ↓reduceIte]

/-- in `exScenNoGrant` the only HTTPS listener of 8443 refers to a Secret of another namespace without a grant -/
example : presented (genT exScenNoGrant) 8443 "foo.example.com".toList = none ∧
    presented (genT exScen) 8443 "foo.example.com".toList = some (some "ssl_keypair_team-b_tls-x".toList) := by
  decide +kernel

/-! ### non-interference between the plain-HTTP part and the TLS objects -/

/-- `http_part_unchanged`: the plain-HTTP configuration is `Pipeline.gen` of the HTTP projection -/
theorem http_part_unchanged (s : ScenarioT) : (genT s).http = gen (httpPart s) := genT_http s

/-- TLS OBJECTS never influence the plain-HTTP configuration: two cluster states that differ only in their Secrets,
their ReferenceGrants and in WHICH Secret each (well-formed) certificate reference names generate the same plain-HTTP
servers. (What does matter, as in the Go code: an HTTPS listener with a well-formed reference on the port of an HTTP
listener makes the port conflicted — whether or not its Secret exists.) -/
theorem http_part_ignores_tls_objects (s s' : ScenarioT) (h : eraseTls s = eraseTls s') :
    (genT s).http = (genT s').http := by
  rw [← genT_http_eraseTls s, ← genT_http_eraseTls s', h]

example : eraseTls exScen = eraseTls exScenNoGrant ∧ exScen.grants ≠ exScenNoGrant.grants := by
  refine ⟨rfl, ?_⟩
  simp [exScen, exScenNoGrant, mkScen]

/-- symmetrically: HTTP listeners that share no port with an HTTPS listener (with a well-formed reference) never
influence the SSL servers, the SSL default ports or the key-pair files -/
theorem ssl_part_ignores_free_http_listeners (s : ScenarioT) :
    (genT (dropFreeHttp s)).ssl = (genT s).ssl ∧ (genT (dropFreeHttp s)).sslPorts = (genT s).sslPorts ∧
    (genT (dropFreeHttp s)).keyPairs = (genT s).keyPairs :=
  ssl_part_dropFreeHttp s

example : ((dropFreeHttp exScen).gateways.map fun g => g.listeners.map fun l => String.ofList l.base.name) =
    [["wild", "foo", "bad", "cross", "h8080", "s8080"]] := by decide +kernel

/-! ### the key-pair files -/

/-- `keypairs_exact`: the emitted key-pair files are EXACTLY those of the valid HTTPS listeners of the served Gateway —
id of the listener's Secret, its certificate and key bytes; no key material of unused, invalid or foreign listeners. -/
theorem keypairs_exact (s : ScenarioT) (hns : CertNsPlain s) (gT : GatewayT) (hw : winnerT s = some gT) (k : Tls.KeyPair) :
    k ∈ (genT s).keyPairs ↔
      ∃ l ∈ gT.listeners, validHttps s gT l = true ∧ ∃ c sec, l.cert = some c ∧
        Tls.findSecret s.secrets c.1 c.2 = some sec ∧ k = ⟨Tls.keyPairId c, sec.cert, sec.key⟩ := by
  have hkps : (genT s).keyPairs = keyPairsFrom s.secrets [] (sslListeners s gT) := by rw [genT_some hw]
  rw [hkps]
  constructor
  · intro hk
    rcases keyPairsFrom_sound s.secrets _ [] k hk with h0 | ⟨l, hl, c, sec, hc, hs, e⟩
    · simp at h0
    · have := mem_sslListeners.mp hl
      exact ⟨l, this.1, this.2, c, sec, hc, hs, e⟩
  · rintro ⟨l, hl, hv, c, sec, hc, hs, rfl⟩
    have hl' : l ∈ sslListeners s gT := mem_sslListeners.mpr ⟨hl, hv⟩
    obtain ⟨x, hx, hid⟩ := keyPairsFrom_complete s.secrets _ [] l hl' c sec hc hs
    rcases keyPairsFrom_sound s.secrets _ [] x hx with h0 | ⟨l2, hl2, c2, sec2, hc2, hs2, e⟩
    · simp at h0
    · have hg := winnerT_mem hw
      have hid' : Tls.keyPairId c2 = Tls.keyPairId c := by rw [← hid, e]
      have hcc : c2 = c :=
        Tls.keyPairId_inj (hns gT hg l2 (mem_sslListeners.mp hl2).1 c2 hc2) (hns gT hg l hl c hc) hid'
      subst hcc
      rw [hs] at hs2; cases hs2
      rw [← e]; exact hx

/-- without a served Gateway no key material is written; and no two key-pair files share an id -/
theorem keypair_ids_nodup (s : ScenarioT) :
    ((genT s).keyPairs.map (·.id)).Nodup ∧ (winnerT s = none → (genT s).keyPairs = []) := by
  constructor
  · cases hw : winnerT s with
    | none => rw [genT_none hw]; simp
    | some gT =>
      rw [genT_some hw]
      exact keyPairsFrom_nodup s.secrets _ [] (by simp [idsNodup])
  · intro hw; rw [genT_none hw]

/-! ### what NGINX presents for an SNI name -/

/-- no listener hostname is literally `~^` (it is not a DNS name; `validateListenerHostname` rejects it) -/
def HostsNotCatchAll (s : ScenarioT) : Prop :=
  ∀ g ∈ s.gateways, ∀ l ∈ g.listeners, l.base.host ≠ Hostname.wildcardHostname

/-- `ssl_server_for_sni`: ANY SSL server of `genT s` on port `p` whose server name stands for the SNI name `sni` (NGINX's
`server_name` matching: exact, `*.suffix`, the catch-all `~^`) — so whichever of several equally named servers NGINX
keeps — carries the key pair of a VALID HTTPS listener of the served Gateway on `p` whose hostname COVERS `sni`, and
the key-pair file of that id holds that listener's Secret. -/
theorem ssl_server_for_sni (s : ScenarioT) (hns : CertNsPlain s) (hnc : HostsNotCatchAll s) (sni : Str) (hne : sni ≠ [])
    (sv : CServer) (kp : Option (List Char)) (hm : (sv, kp) ∈ (genT s).ssl) (hcov : nameCovers sv.name sni = true) :
    ∃ gT, winnerT s = some gT ∧ ∃ l ∈ gT.listeners, validHttps s gT l = true ∧ l.base.port = sv.port ∧
      Tls.covers l.base.host sni = true ∧
      ∃ c sec, l.cert = some c ∧ kp = some (Tls.keyPairId c) ∧ Tls.findSecret s.secrets c.1 c.2 = some sec ∧
        ∃ k ∈ (genT s).keyPairs, k.id = Tls.keyPairId c ∧ k.cert = sec.cert ∧ k.key = sec.key := by
  obtain ⟨gT, hw, l, hl, hv, hpl, hlc, _, c, sec, hc, hkp, hs, _, _, k, hk, hid, hkc, hkk⟩ :=
    ssl_server_cert_is_attaching_listeners_secret s hns sv kp hm
  refine ⟨gT, hw, l, hl, hv, hpl, ?_, c, sec, hc, hkp, hs, k, hk, hid, hkc, hkk⟩
  -- the listener hostname covers the server name, the server name covers the SNI name
  by_cases hca : sv.name = NGF.NginxEval.catchAll
  · -- the catch-all server: only a listener without hostname covers `~^`
    rw [hca] at hlc
    rcases Tls.covers_iff.mp hlc with e | e | ⟨t, _, s3⟩
    · simp [Tls.covers, e]
    · exact absurd e (hnc gT (winnerT_mem hw) l hl)
    · exfalso
      have hh : ∀ x y : Char, ('.' :: t) <:+ [x, y] → x ≠ '.' → y ≠ '.' → False := by
        intro x y hsuf hx hy
        rcases List.suffix_cons_iff.mp hsuf with h4 | h4
        · simp at h4; exact hx h4.1.symm
        · rcases List.suffix_cons_iff.mp h4 with h5 | h5
          · simp at h5; exact hy h5.1.symm
          · simp at h5
      exact hh '~' '^' s3 (by decide) (by decide)
  · have hnn : sv.name ≠ [] := by
      intro e
      rw [e] at hcov
      simp only [nameCovers, Bool.or_eq_true, beq_iff_eq] at hcov
      rcases hcov with (e1 | e1) | e1
      · exact absurd e1.symm (by decide)
      · exact hne e1.symm
      · simp [NGF.NginxEval.wildCovers, NGF.NginxEval.isWildName] at e1
    exact covers_trans hnn hlc (nameCovers_covers hca hcov)

/-- `presented_cert_covers_sni`: the certificate NGINX presents for the SNI name `sni` on port `p` under `genT s` is the
key pair of a VALID HTTPS listener of the served Gateway on port `p` whose hostname COVERS `sni`, and the key-pair
file of that id holds that listener's Secret. -/
theorem presented_cert_covers_sni (s : ScenarioT) (hns : CertNsPlain s) (hnc : HostsNotCatchAll s) (p : Nat) (sni : Str)
    (hne : sni ≠ []) (hq : NGF.NginxEval.isWildName sni = false ∧ sni ≠ NGF.NginxEval.catchAll) (hlen : sni.length < 100000)
    (kp : List Char) (h : presented (genT s) p sni = some (some kp)) :
    ∃ gT, winnerT s = some gT ∧ ∃ l ∈ gT.listeners, validHttps s gT l = true ∧ l.base.port = p ∧
      Tls.covers l.base.host sni = true ∧
      ∃ c sec, l.cert = some c ∧ kp = Tls.keyPairId c ∧ Tls.findSecret s.secrets c.1 c.2 = some sec ∧
        ∃ k ∈ (genT s).keyPairs, k.id = kp ∧ k.cert = sec.cert ∧ k.key = sec.key := by
  obtain ⟨_, sv, hm, hport, hcov⟩ := presented_some hq hlen h (by simp)
  obtain ⟨gT, hw, l, hl, hv, hpl, hlc, c, sec, hc, hkp, hs, k, hk, hid, hkc, hkk⟩ :=
    ssl_server_for_sni s hns hnc sni hne sv (some kp) hm hcov
  have hkp' : kp = Tls.keyPairId c := by simpa using hkp
  exact ⟨gT, hw, l, hl, hv, hpl.trans hport, hlc, c, sec, hc, hkp', hs, k, hk, by rw [hid, hkp'], hkc, hkk⟩

/-- `uncovered_sni_rejected`: an SNI name that no valid HTTPS listener of the port covers — in particular a name that
only a listener with a missing / invalid / not permitted Secret covers — gets no certificate: nothing listens, or the
default server rejects the handshake. -/
theorem uncovered_sni_rejected (s : ScenarioT) (hns : CertNsPlain s) (hnc : HostsNotCatchAll s) (gT : GatewayT)
    (hw : winnerT s = some gT) (p : Nat) (sni : Str)
    (hne : sni ≠ []) (hq : NGF.NginxEval.isWildName sni = false ∧ sni ≠ NGF.NginxEval.catchAll) (hlen : sni.length < 100000)
    (hnone : ∀ l ∈ gT.listeners, validHttps s gT l = true → l.base.port = p → Tls.covers l.base.host sni = false) :
    presented (genT s) p sni = none ∨ presented (genT s) p sni = some none := by
  cases h : presented (genT s) p sni with
  | none => exact Or.inl rfl
  | some x =>
    cases x with
    | none => exact Or.inr rfl
    | some kp =>
      exfalso
      obtain ⟨gT', hw', l, hl, hv, hpl, hc, _⟩ := presented_cert_covers_sni s hns hnc p sni hne hq hlen kp h
      rw [hw] at hw'; cases hw'
      rw [hnone l hl hv hpl] at hc; cases hc

/-- non-vacuity of the hypotheses of the three SNI theorems on the example -/
example : HostsNotCatchAll exScen ∧ "foo.example.com".toList ≠ [] ∧
    (NGF.NginxEval.isWildName "foo.example.com".toList = false ∧ "foo.example.com".toList ≠ NGF.NginxEval.catchAll) := by
  refine ⟨?_, by decide, by decide, by decide⟩
  intro g hg l hl
  simp only [exScen, mkScen, List.mem_singleton] at hg
  subst hg
  simp only [exListeners, exWild, exFoo, mkL, List.mem_cons, List.not_mem_nil, or_false] at hl
  rcases hl with rfl | rfl | rfl | rfl | rfl | rfl | rfl <;> decide

/-- `bar.org` on 443 is covered only by listener `bad` (Secret of the wrong type): the default server rejects the
handshake; `foo.example.com` gets listener foo's certificate -/
example : presented (genT exScen) 443 "bar.org".toList = some none ∧
    presented (genT exScen) 443 "foo.example.com".toList = some (some "ssl_keypair_default_tls-b".toList) ∧
    presented (genT exScen) 443 "x.example.com".toList = some none ∧
    presented (genT exScen) 443 "cafe.example.com".toList = some (some "ssl_keypair_default_tls-a".toList) := by
  decide +kernel

end NGF.PipelineTls
