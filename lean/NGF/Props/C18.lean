/-
C18 — property theorems for the provisioner model (`NGF.Model.Provisioner`): exactly one NGF
Deployment per Gateway of the configured class.

Every theorem quantifies over ALL histories `hist : List (batch × order)`: any sequence of
upsert/delete events of Gateways (with any gatewayClassName, so class changes are included) and
GatewayClasses, cut into batches in any way, and any order in which Go ranges over its maps.
Because `hist` is arbitrary, a statement about `run cfg init hist` is a statement about the state
after every batch of every history.

`run` is the code in the tree (removal loop of commit bb91ad6); `runPreFix` is the code before
that commit, kept with its witness and `_partial` theorems as the regression detector: the check
compares the real handler with both and reports a tree that behaves like `runPreFix`.

`crashed = none` is the explicit precondition "the configured GatewayClass was in the store after
every batch so far" (`panic_iff_gc_absent`); without it the real handler panics (`panic_reachable`).
-/
import NGF.Proofs.ProvisionerRun
import NGF.Proofs.ProvisionerStable
import NGF.Proofs.ProvisionerArgs
import NGF.Generated.ProvisionerFacts

namespace NGF.Prov

/-! ### concrete data for witnesses and non-vacuity -/

def kA : Key := ⟨['n','s','1'], ['g','w','-','a']⟩
def kB : Key := ⟨['n','s','2'], ['g','w','-','a']⟩
def kC : Key := ⟨['n','s','2'], ['g','w','-','c']⟩
def cN : Str := ['n','g','i','n','x']
def cO : Str := ['o','t','h','e','r']
def cfg0 : Cfg := ⟨cN, [['s','t','a','t','i','c','-','m','o','d','e'], lockFlag ++ ['x']]⟩
/-- create class + two Gateways; re-point one away; delete the other and re-create it; a conflicting class -/
def hist0 : Hist :=
  [([.upsertGC cN, .upsertGw kA cN, .upsertGw kB cN, .crd], [kB, kA]),
   ([.upsertGw kA cO, .upsertGC cO], []),
   ([.deleteGw kB, .upsertGw kB cN, .upsertGw kC cN], [kC])]
/-- the same without the class change -/
def hist1 : Hist :=
  [([.upsertGC cN, .upsertGw kA cN, .upsertGw kB cO], []),
   ([.deleteGw kA, .upsertGC cO], []),
   ([.upsertGw kA cN, .upsertGw kC cN], [kC, kA])]

/-! ### Deployments = Gateways of the configured class (the code in the tree, commit bb91ad6) -/

/-- `provisions_match`, FULL STRENGTH: after every batch of every history (any batching, any map
order) that has not panicked, a Gateway has a Deployment exactly when it is stored with the
configured class. -/
theorem provisions_match (cfg : Cfg) (hist : Hist) (hc : (run cfg init hist).crashed = none) (k : Key) :
    hasKey (run cfg init hist).prov k = true ↔ get? (run cfg init hist).gws k = some cfg.gcName := by
  rw [run_exact cfg hist hc k]
  simp

/-- Every stored Gateway of the configured class has a Deployment. -/
theorem every_class_gateway_has_deployment (cfg : Cfg) (hist : Hist)
    (hc : (run cfg init hist).crashed = none) (k : Key)
    (hk : get? (run cfg init hist).gws k = some cfg.gcName) : hasKey (run cfg init hist).prov k = true :=
  (provisions_match cfg hist hc k).mpr hk

/-- Every Deployment belongs to a Gateway that is still stored — and still of the configured class. -/
theorem every_deployment_has_gateway (cfg : Cfg) (hist : Hist)
    (hc : (run cfg init hist).crashed = none) (k : Key)
    (hk : hasKey (run cfg init hist).prov k = true) :
    hasKey (run cfg init hist).gws k = true ∧ get? (run cfg init hist).gws k = some cfg.gcName :=
  ⟨hasKey_of_get?_some ((provisions_match cfg hist hc k).mp hk), (provisions_match cfg hist hc k).mp hk⟩

example : (run cfg0 init hist0).crashed = none ∧ hasKey (run cfg0 init hist0).prov kA = false ∧
    hasKey (run cfg0 init hist0).prov kB = true ∧ (run cfg0 init hist0).cluster.length = 2 := by decide

/-- The Deployments held by the API server are exactly the values of `provisions`, one per key:
`provisions` has no duplicate Gateway and the cluster lists the same Deployments in the same order. -/
theorem cluster_is_provisions (cfg : Cfg) (hist : Hist) :
    (run cfg init hist).cluster = (run cfg init hist).prov.map (·.2) ∧
    ((run cfg init hist).prov.map (·.1)).Nodup :=
  ⟨(run_wf cfg hist).cluster_eq, (run_wf cfg hist).provKeys⟩

/-- A Gateway that stays in the store with the configured class keeps the Deployment it has (no
re-creation, no renaming). -/
theorem deployment_retained (cfg : Cfg) (hist : Hist) (b : List Ev) (o : List Key) (k : Key)
    (hc : (run cfg init (hist ++ [(b, o)])).crashed = none)
    (hk : hasKey (run cfg init hist).prov k = true)
    (hg : get? (run cfg init (hist ++ [(b, o)])).gws k = some cfg.gcName) :
    get? (run cfg init (hist ++ [(b, o)])).prov k = get? (run cfg init hist).prov k := by
  obtain ⟨hc0, e, hgc⟩ := runWith_snoc_ok removedGwsWithDeps hc
  have hw := run_wf cfg hist
  obtain ⟨_, _, g, _, _, _, r, _⟩ := stepWith_spec removedGwsWithDeps cfg _ b o hw hc0 hgc
  obtain ⟨_, _, _, pg, _, _⟩ := pre_wf hw hc0 b
  show get? (runWith removedGwsWithDeps cfg init (hist ++ [(b, o)])).prov k = _
  rw [e]
  apply r k hk
  rw [mem_removedGwsWithDeps, pg]
  intro hx
  apply hx.2
  have : get? (runWith removedGwsWithDeps cfg init (hist ++ [(b, o)])).gws k = some cfg.gcName := hg
  rw [e, g] at this
  exact this

/-! ### names, selectors -/

/-- Deployment names are pairwise distinct (the counter only grows and `%d` is injective). -/
theorem names_unique (cfg : Cfg) (hist : Hist) : ((run cfg init hist).cluster.map (·.name)).Nodup := by
  have h := run_wf cfg hist
  rw [h.cluster_eq, List.map_map]
  exact h.names

/-- Every Deployment is `prepareDeployment` of an id below the counter and of its own Gateway. -/
theorem deployment_is_prepared (cfg : Cfg) (hist : Hist) (p : Key × Dep) (hp : p ∈ (run cfg init hist).prov) :
    ∃ i, i < (run cfg init hist).nextID ∧ p.2 = prepare cfg.tmpl i p.1 :=
  (run_wf cfg hist).prepared p hp

/-- `app` selectors are pairwise distinct and equal the pod template label. -/
theorem selectors_unique (cfg : Cfg) (hist : Hist) :
    ((run cfg init hist).cluster.map (·.selApp)).Nodup ∧
    ∀ d ∈ (run cfg init hist).cluster, d.selApp = d.podApp ∧ d.selApp = d.name := by
  have h := run_wf cfg hist
  have hsel : ∀ d ∈ (run cfg init hist).cluster, d.selApp = d.podApp ∧ d.selApp = d.name := by
    intro d hd
    rw [h.cluster_eq] at hd
    obtain ⟨p, hp, rfl⟩ := List.mem_map.mp hd
    obtain ⟨i, _, e⟩ := h.prepared p hp
    rw [e]; exact ⟨rfl, rfl⟩
  refine ⟨?_, hsel⟩
  have : (run cfg init hist).cluster.map (·.selApp) = (run cfg init hist).cluster.map (·.name) :=
    List.map_congr_left (fun d hd => (hsel d hd).2)
  rw [this]; exact names_unique cfg hist

/-- Names are never re-used: a name in use is `nginx-gateway-<i>` for an `i` below the counter, and
the next name handed out is different from all of them. -/
theorem next_name_fresh (cfg : Cfg) (hist : Hist) :
    ∀ d ∈ (run cfg init hist).cluster, d.name ≠ idName (run cfg init hist).nextID := by
  have h := run_wf cfg hist
  intro d hd
  rw [h.cluster_eq] at hd
  obtain ⟨p, hp, rfl⟩ := List.mem_map.mp hd
  obtain ⟨i, hi, e⟩ := h.prepared p hp
  rw [e]
  intro e'
  have := idName_inj (show idName i = idName _ from e')
  omega

example : (run cfg0 init hist0).cluster.map (·.name) = [idName 1, idName 3] ∧
    (run cfg0 init hist0).nextID = 4 := by decide

/-! ### configured for precisely its Gateway -/

/-- Each Deployment carries `--gateway=<ns>/<name>` of its own Gateway and
`--update-gatewayclass-status=false`; if the manifest has no `--gateway=` arg of its own
(`TmplOK`, proved below for the manifest in the tree) it carries no other `--gateway=` arg. -/
theorem configured_for_its_gateway (cfg : Cfg) (hist : Hist) (p : Key × Dep) (hp : p ∈ (run cfg init hist).prov) :
    gwFlag ++ gwString p.1 ∈ p.2.args ∧ updFlag ∈ p.2.args ∧
    (TmplOK cfg.tmpl → ∀ a ∈ p.2.args, gwFlag.isPrefixOf a = true → a = gwFlag ++ gwString p.1) := by
  obtain ⟨i, _, e⟩ := deployment_is_prepared cfg hist p hp
  rw [e]
  exact ⟨gwFlag_mem_prepare _ _ _, updFlag_mem_prepare _ _ _,
    fun ht a ha hpre => gwFlag_prefix_mem_prepare ht i p.1 a ha hpre⟩

/-- … and nothing of another Gateway: the `--gateway=` flag of a different Gateway (namespaces are
DNS labels, so contain no '/') does not occur among its args. -/
theorem not_configured_for_another_gateway (cfg : Cfg) (hist : Hist) (ht : TmplOK cfg.tmpl) (p q : Key × Dep)
    (hp : p ∈ (run cfg init hist).prov) (hne : p.1 ≠ q.1) (h1 : '/' ∉ p.1.ns) (h2 : '/' ∉ q.1.ns) :
    gwFlag ++ gwString q.1 ∉ p.2.args := by
  intro hmem
  have := (configured_for_its_gateway cfg hist p hp).2.2 ht _ hmem
    (List.isPrefixOf_iff_prefix.mpr (List.prefix_append _ _))
  exact hne (gwString_inj h2 h1 (List.append_cancel_left this)).symm

/-- The leader-election lock is named after the Gateway (its name only — two Gateways with one
name in different namespaces share it, see `lock_name_shared_across_namespaces`). -/
theorem lock_name_of_its_gateway (cfg : Cfg) (hist : Hist) (p : Key × Dep) (hp : p ∈ (run cfg init hist).prov)
    (a : Str) (ha : a ∈ cfg.tmpl) (hl : isInfix lockNeedle a = true) : lockFlag ++ p.1.name ∈ p.2.args := by
  obtain ⟨i, _, e⟩ := deployment_is_prepared cfg hist p hp
  rw [e]
  simp only [prepare_args, List.mem_cons, List.mem_map]
  exact Or.inr (Or.inr ⟨a, ha, by simp [rewriteArg, hl]⟩)

/-- OBSERVATION (outside the letter of C18): Gateways `ns1/gw-a` and `ns2/gw-a` get Deployments with
the same `--leader-election-lock-name`. -/
theorem lock_name_shared_across_namespaces :
    let s := run cfg0 init [([.upsertGC cN, .upsertGw kA cN, .upsertGw kB cN], [])]
    s.cluster.length = 2 ∧ ∀ d ∈ s.cluster, lockFlag ++ kA.name ∈ d.args := by decide

/-! ### argument rewriting of `prepareDeployment`: `prepareArgs` (the function `prepare` — hence `run` — uses)

For ALL Gateway keys (in particular all DNS-1123 namespace/name pairs, however hostile: a namespace or name may
contain `leader-election-lock-name`, `gateway`, `--`, …) and all template arg lists of the shape of the manifest
in the tree (`manifestShape`, pinned by `manifest_shape_ok`). -/

/-- namespace `leader-election-lock-name`, name `gw`: a legal Gateway key that contains the needle -/
def kH1 : Key := ⟨lockNeedle, ['g','w']⟩
/-- the needle inside a label of the (subdomain) name -/
def kH2 : Key := ⟨['n','s','1'], ['x','-'] ++ lockNeedle ++ ['.','a']⟩
def tmpl0 : List Str := [['s','t','a','t','i','c','-','m','o','d','e'], lockFlag ++ ['x'], ['-','-','y']]

/-- the loop of `prepareDeployment` in closed form: the two fresh args, then the template args with every arg
that CONTAINS the needle replaced -/
theorem prepareArgs_closed_form (tmpl : List Str) (k : Key) (id : Str) :
    prepareArgs tmpl k id = (gwFlag ++ gwString k) :: updFlag :: tmpl.map (rewriteArg k) :=
  prepareArgs_eq tmpl k id

/-- `args_exactly_one_gateway`, FULL STRENGTH: for every key and every template without a `--gateway=` arg of its
own the prepared args carry exactly one `--gateway=` arg, it is `--gateway=<ns>/<name>` of the key, and for a
DNS-1123 key its value decodes (exactly two '/'-separated parts) to that key and to no other. -/
theorem args_exactly_one_gateway (tmpl : List Str) (ht : TmplOK tmpl) (k : Key) (id : Str) :
    (prepareArgs tmpl k id).filter (fun a => gwFlag.isPrefixOf a) = [gwFlag ++ gwString k] ∧
    (dnsKey k = true → parseGwValue (gwString k) = some k) := by
  refine ⟨?_, parseGwValue_of_dnsKey⟩
  rw [prepareArgs_eq]
  simp only [List.filter_cons, gwFlag_isPrefixOf_self, gwFlag_not_prefix_upd, if_true, Bool.false_eq_true, if_false]
  congr 1
  apply filter_eq_nil_of_all_false
  intro a ha
  obtain ⟨b, hb, rfl⟩ := List.mem_map.mp ha
  simp only [rewriteArg]
  split
  · exact gwFlag_not_prefix_lock _
  · exact ht b hb

example : dnsKey kH1 = true ∧ dnsKey kH2 = true ∧ dnsKey kA = true ∧ TmplOK tmpl0 ∧
    isInfix lockNeedle (gwFlag ++ gwString kH1) = true ∧ isInfix lockNeedle (gwFlag ++ gwString kH2) = true ∧
    (prepareArgs tmpl0 kH1 (idName 1)).filter (fun a => gwFlag.isPrefixOf a) = [gwFlag ++ gwString kH1] := by
  decide

/-- `args_exactly_one_lock_name`: for a template of the manifest's shape there is exactly one
`--leader-election-lock-name=` arg and its value is the NAME of the Deployment's Gateway. -/
theorem args_exactly_one_lock_name (tmpl : List Str) (hs : manifestShape tmpl = true) (k : Key) (id : Str) :
    (prepareArgs tmpl k id).filter (fun a => lockFlag.isPrefixOf a) = [lockFlag ++ k.name] := by
  obtain ⟨pre, x, post, e, hx, hpre, hpost⟩ := split_of_filter_length_one _ tmpl (manifestShape_one hs)
  have hsub := manifestShape_sub_eq_prefix hs
  have hpre' : ∀ a ∈ pre, lockFlag.isPrefixOf a = false := fun a ha => by
    rw [← hsub a (by rw [e]; simp [ha])]; exact hpre a ha
  have hpost' : ∀ a ∈ post, lockFlag.isPrefixOf a = false := fun a ha => by
    rw [← hsub a (by rw [e]; simp [ha])]; exact hpost a ha
  rw [prepareArgs_eq, e]
  simp only [List.filter_cons, lockFlag_not_prefix_gw, lockFlag_not_prefix_upd, Bool.false_eq_true, if_false,
    List.map_append, List.map_cons, map_rewriteArg_of_none k pre hpre, map_rewriteArg_of_none k post hpost,
    rewriteArg, hx, if_true, List.filter_append, filter_eq_nil_of_all_false _ pre hpre',
    filter_eq_nil_of_all_false _ post hpost', lockFlag_isPrefixOf_self, List.nil_append]

/-- `args_other_preserved`, FULL STRENGTH (every template, every key): the prepared list is two args longer than the
template; position `j+2` holds template arg `j` unchanged unless it contains the needle (then the lock-name arg);
the template args that do not contain the needle survive unchanged, all of them, in their order, and nothing
else without the needle follows the two fresh args. -/
theorem args_other_preserved (tmpl : List Str) (k : Key) (id : Str) :
    (prepareArgs tmpl k id).length = tmpl.length + 2 ∧
    (∀ j (h : j < tmpl.length), (prepareArgs tmpl k id)[j + 2]? =
      some (if isInfix lockNeedle tmpl[j] then lockFlag ++ k.name else tmpl[j])) ∧
    ((prepareArgs tmpl k id).drop 2).filter (fun a => !isInfix lockNeedle a) =
      tmpl.filter (fun a => !isInfix lockNeedle a) := by
  rw [prepareArgs_eq]
  refine ⟨by simp, ?_, ?_⟩
  · intro j h
    simp [rewriteArg, h]
  · simp only [List.drop_succ_cons, List.drop_zero]
    exact filter_map_rewriteArg k tmpl

/-- … and for a template of the manifest's shape, explicitly: the one lock-name arg is replaced in place. -/
theorem args_manifest_form (tmpl : List Str) (hs : manifestShape tmpl = true) (k : Key) (id : Str) :
    ∃ pre x post, tmpl = pre ++ x :: post ∧ lockFlag.isPrefixOf x = true ∧
      prepareArgs tmpl k id = (gwFlag ++ gwString k) :: updFlag :: (pre ++ (lockFlag ++ k.name) :: post) := by
  obtain ⟨pre, x, post, e, hx, hpre, hpost⟩ := split_of_filter_length_one _ tmpl (manifestShape_one hs)
  refine ⟨pre, x, post, e, ?_, ?_⟩
  · rw [← manifestShape_sub_eq_prefix hs x (by rw [e]; simp)]; exact hx
  · rw [prepareArgs_eq, e]
    simp [map_rewriteArg_of_none k pre hpre, map_rewriteArg_of_none k post hpost, rewriteArg, hx]

example : manifestShape tmpl0 = true ∧
    prepareArgs tmpl0 kH2 (idName 7) = [gwFlag ++ gwString kH2, updFlag, tmpl0[0], lockFlag ++ kH2.name, tmpl0[2]] := by
  decide

/-- exactly one `--update-gatewayclass-status=` arg, with value `false` -/
theorem args_exactly_one_update_status (tmpl : List Str) (hs : manifestShape tmpl = true) (k : Key) (id : Str) :
    (prepareArgs tmpl k id).filter (fun a => updPrefix.isPrefixOf a) = [updFlag] := by
  have hno := manifestShape_noUpd hs
  rw [prepareArgs_eq]
  have h1 : updPrefix.isPrefixOf (gwFlag ++ gwString k) = false := by
    simp [updPrefix, updFlag, gwFlag, List.isPrefixOf]
  have h2 : updPrefix.isPrefixOf updFlag = true := by decide
  simp only [List.filter_cons, h1, h2, if_true, Bool.false_eq_true, if_false]
  congr 1
  apply filter_eq_nil_of_all_false
  intro a ha
  obtain ⟨b, hb, rfl⟩ := List.mem_map.mp ha
  simp only [rewriteArg]
  split
  · simp [updPrefix, updFlag, lockFlag, lockNeedle, List.isPrefixOf]
  · exact hno b hb

/-- the `id` parameter of `prepareDeployment` does not reach the args -/
theorem args_do_not_read_id (tmpl : List Str) (k : Key) (id id' : Str) :
    prepareArgs tmpl k id = prepareArgs tmpl k id' := rfl

/-- `args_lock_name_unique` (distinct Deployments carry distinct lock names) is FALSE for the code in the tree: the
lock name is the Gateway's NAME only. WITNESS (known finding C18:lock-name-shared-across-namespaces): Gateways
`ns1/gw-a` and `ns2/gw-a`, both DNS-1123, get the same `--leader-election-lock-name=gw-a`. -/
theorem args_lock_name_unique_false :
    ¬ ∀ (tmpl : List Str) (k k' : Key) (id id' : Str), manifestShape tmpl = true → dnsKey k = true → dnsKey k' = true →
        k ≠ k' → id ≠ id' →
        (prepareArgs tmpl k id).filter (fun a => lockFlag.isPrefixOf a) ≠
        (prepareArgs tmpl k' id').filter (fun a => lockFlag.isPrefixOf a) := by
  intro h
  exact h tmpl0 kA kB (idName 1) (idName 2) (by decide) (by decide) (by decide) (by decide) (by decide) (by decide)

/-- `args_lock_name_unique`, PARTIAL (what the code does guarantee): the lock-name arg determines the Gateway's
name, so Deployments of Gateways with different NAMES never share a lock (the namespace is not looked at). -/
theorem args_lock_name_unique_partial (tmpl : List Str) (hs : manifestShape tmpl = true) (k k' : Key) (id id' : Str)
    (hn : k.name ≠ k'.name) :
    (prepareArgs tmpl k id).filter (fun a => lockFlag.isPrefixOf a) ≠
    (prepareArgs tmpl k' id').filter (fun a => lockFlag.isPrefixOf a) := by
  rw [args_exactly_one_lock_name tmpl hs, args_exactly_one_lock_name tmpl hs]
  intro e
  exact hn (List.append_cancel_left (List.cons.inj e).1)

example : manifestShape tmpl0 = true ∧ kA.name ≠ kC.name ∧ kA.name = kB.name ∧ kA ≠ kB := by decide

/-- the seeded refactoring (scan the whole list, `prepareArgsScanAll`) is NOT what the code does: for the DNS-1123
key `leader-election-lock-name/gw` it yields a Deployment without any `--gateway=` arg (and two lock-name args),
while the code in the tree keeps the flag. -/
theorem scan_all_variant_loses_gateway_flag :
    dnsKey kH1 = true ∧ manifestShape tmpl0 = true ∧
    (prepareArgsScanAll tmpl0 kH1 (idName 1)).filter (fun a => gwFlag.isPrefixOf a) = [] ∧
    ((prepareArgsScanAll tmpl0 kH1 (idName 1)).filter (fun a => lockFlag.isPrefixOf a)).length = 2 ∧
    (prepareArgs tmpl0 kH1 (idName 1)).filter (fun a => gwFlag.isPrefixOf a) = [gwFlag ++ gwString kH1] := by
  decide

/-- the two variants differ exactly on the keys whose `--gateway=` arg contains the needle: the hostile-name
family of the harness is the set of inputs that tells them apart. -/
theorem scan_all_variant_differs_iff (tmpl : List Str) (k : Key) (id : Str) :
    prepareArgsScanAll tmpl k id ≠ prepareArgs tmpl k id ↔ isInfix lockNeedle (gwFlag ++ gwString k) = true := by
  rw [prepareArgs_eq]
  simp only [prepareArgsScanAll, List.map_cons]
  have hu : rewriteArg k updFlag = updFlag := by simp [rewriteArg, needle_not_in_upd]
  rw [hu]
  constructor
  · intro h
    by_cases hc : isInfix lockNeedle (gwFlag ++ gwString k) = true
    · exact hc
    · exfalso; apply h; simp [rewriteArg, hc]
  · intro hc e
    have := (List.cons.inj e).1
    simp only [rewriteArg, hc, if_true] at this
    have h2 := gwFlag_not_prefix_lock k.name
    rw [this, gwFlag_isPrefixOf_self] at h2
    cases h2

/-! ### … lifted to every Deployment of every history (multi-Gateway batches included) -/

/-- the args of a Deployment are `prepareArgs` of the template, of ITS Gateway and of its own name -/
theorem deployment_args_exact (cfg : Cfg) (hist : Hist) (p : Key × Dep) (hp : p ∈ (run cfg init hist).prov) :
    p.2.args = prepareArgs cfg.tmpl p.1 p.2.name := by
  obtain ⟨i, _, e⟩ := deployment_is_prepared cfg hist p hp
  rw [e]; rfl

/-- `args_independent_across_deployments`: the args of a Deployment are a function of its own Gateway (and the
template) only — whatever else was provisioned before it or in the same batch, in whatever map order, in whichever
history: the same Gateway gets the same args in any two runs, and with the same id the same Deployment. -/
theorem args_independent_across_deployments (cfg : Cfg) (hist hist' : Hist) (p q : Key × Dep)
    (hp : p ∈ (run cfg init hist).prov) (hq : q ∈ (run cfg init hist').prov) (hk : p.1 = q.1) :
    p.2.args = q.2.args ∧ (p.2.name = q.2.name → p.2 = q.2) := by
  obtain ⟨i, _, e⟩ := deployment_is_prepared cfg hist p hp
  obtain ⟨j, _, e'⟩ := deployment_is_prepared cfg hist' q hq
  rw [e, e', hk]
  refine ⟨rfl, fun hn => ?_⟩
  have : i = j := idName_inj hn
  rw [this]

/-- two Gateways created in ONE batch (the situation of seeded change C18-r3m1, template aliasing) -/
example : let s := run cfg0 init [([.upsertGC cN, .upsertGw kA cN, .upsertGw kH1 cN, .upsertGw kC cN], [kH1, kC, kA])]
    s.cluster.map (·.args) = [prepareArgs cfg0.tmpl kH1 [], prepareArgs cfg0.tmpl kC [], prepareArgs cfg0.tmpl kA []] ∧
    s.cluster.map (·.name) = [idName 1, idName 2, idName 3] := by decide

/-- every Deployment of every history: exactly one `--gateway=` arg, the one of its own Gateway (which decodes to
that Gateway for DNS-1123 keys); exactly one lock-name arg, named after its Gateway; exactly one
`--update-gatewayclass-status=false`; all other manifest args unchanged and in order. -/
theorem every_deployment_args (cfg : Cfg) (hs : manifestShape cfg.tmpl = true) (hist : Hist) (p : Key × Dep)
    (hp : p ∈ (run cfg init hist).prov) :
    p.2.args.filter (fun a => gwFlag.isPrefixOf a) = [gwFlag ++ gwString p.1] ∧
    (dnsKey p.1 = true → parseGwValue (gwString p.1) = some p.1) ∧
    p.2.args.filter (fun a => lockFlag.isPrefixOf a) = [lockFlag ++ p.1.name] ∧
    p.2.args.filter (fun a => updPrefix.isPrefixOf a) = [updFlag] ∧
    (p.2.args.drop 2).filter (fun a => !isInfix lockNeedle a) = cfg.tmpl.filter (fun a => !isInfix lockNeedle a) := by
  rw [deployment_args_exact cfg hist p hp]
  exact ⟨(args_exactly_one_gateway _ (manifestShape_tmplOK hs) _ _).1,
    (args_exactly_one_gateway _ (manifestShape_tmplOK hs) _ []).2,
    args_exactly_one_lock_name _ hs _ _, args_exactly_one_update_status _ hs _ _,
    (args_other_preserved _ _ _).2.2⟩

/-- WITNESS on the batch model (known finding C18:lock-name-shared-across-namespaces) together with what a lock
name taken from the Deployment id would give: ids — hence such lock names — are pairwise distinct in every history. -/
theorem lock_name_from_id_would_be_unique (cfg : Cfg) (hist : Hist) :
    ((run cfg init hist).cluster.map (fun d => lockFlag ++ d.name)).Nodup := by
  have h := names_unique cfg hist
  have e : (run cfg init hist).cluster.map (fun d => lockFlag ++ d.name) =
      ((run cfg init hist).cluster.map (·.name)).map (fun n => lockFlag ++ n) := by simp [List.map_map]
  rw [e]
  exact nodup_map_of_injective (fun a b e => List.append_cancel_left e) h

/-! ### GatewayClass statuses -/

def acceptedConds (cs : List Cond) : List Cond := cs.filter (fun c => c.type == tAccepted)

/-- After every non-panicking batch: every stored GatewayClass got a status, the configured class
is among them with the single condition Accepted=True, every other one has the single Accepted
condition False/GatewayClassConflict. -/
theorem gc_status_exact (cfg : Cfg) (hist : Hist) (b : List Ev) (o : List Key)
    (hc : (run cfg init (hist ++ [(b, o)])).crashed = none) :
    let s := run cfg init (hist ++ [(b, o)])
    s.statuses.map (·.1) = s.gcs ∧ cfg.gcName ∈ s.gcs ∧
    ∀ p ∈ s.statuses,
      (p.1 = cfg.gcName → acceptedConds p.2 = [⟨tAccepted, true, tAccepted⟩]) ∧
      (p.1 ≠ cfg.gcName → acceptedConds p.2 = [conflictCond]) := by
  intro s
  show s.statuses.map (·.1) = s.gcs ∧ _
  obtain ⟨hc0, e, hgc⟩ := runWith_snoc_ok removedGwsWithDeps hc
  have hs : s = stepWith removedGwsWithDeps cfg (run cfg init hist) b o := e
  obtain ⟨_, _, _, g, st, _, _, _⟩ := stepWith_spec removedGwsWithDeps cfg _ b o (run_wf cfg hist) hc0 hgc
  rw [hs, st, g]
  refine ⟨by simp [List.map_map, Function.comp_def], hgc, ?_⟩
  intro p hp
  obtain ⟨n, _, rfl⟩ := List.mem_map.mp hp
  simp only [gcConds_eq]
  constructor
  · intro e; simp only [e, if_true]; decide
  · intro e; simp only [e, if_false]; decide

example : (run cfg0 init hist0).statuses.map (·.1) = [cN, cO] := by decide

/-! ### the panic -/

/-- The only panic any history can cause is "GatewayClass must exist": creating a Deployment never
collides with an existing name and deleting one never misses (every history, every order). -/
theorem panic_only_gc_absent (cfg : Cfg) (hist : Hist) :
    (run cfg init hist).crashed = none ∨ (run cfg init hist).crashed = some .gcAbsent :=
  (run_wf cfg hist).crash

/-- The handler panics on a batch exactly when the configured GatewayClass is not in the store
after the batch's `store.update`. -/
theorem panic_iff_gc_absent (cfg : Cfg) (hist : Hist) (b : List Ev) (o : List Key)
    (hc : (run cfg init hist).crashed = none) :
    (run cfg init (hist ++ [(b, o)])).crashed = none ↔ cfg.gcName ∈ (storeUpdate (run cfg init hist) b).gcs := by
  show (runWith removedGwsWithDeps cfg init (hist ++ [(b, o)])).crashed = none ↔ _
  simp only [runWith_append, runWith]
  exact stepWith_crashed_iff removedGwsWithDeps (run_wf cfg hist) hc b o

/-- WITNESS (known finding C18:panic-configured-gatewayclass-deleted): an admissible history —
the configured class exists at start-up and is deleted later — panics the handler. -/
theorem panic_reachable :
    (run cfg0 init [([.upsertGC cN, .upsertGw kA cN], []), ([.deleteGC cN], [])]).crashed = some .gcAbsent := by
  decide

/-- Start-up without the configured class (precondition violated) panics on the first batch. -/
theorem panic_at_startup_without_class :
    (run cfg0 init [([.upsertGw kA cN, .crd], [])]).crashed = some .gcAbsent := by decide

/-! ### regression detector: the removal loop before commit bb91ad6 (`runPreFix`)
A tree whose handler matches `runPreFix` but not `run` is reported by the check as
`C18:deployment-kept-after-class-change` with the concrete history. -/

/-- For the pre-fix code `provisions_match` is FALSE. WITNESS: after a Gateway of the class is
re-pointed to another class its Deployment is still there. -/
theorem prefix_provisions_match_false :
    ¬ ∀ (cfg : Cfg) (hist : Hist), (runPreFix cfg init hist).crashed = none →
      ∀ k, hasKey (runPreFix cfg init hist).prov k = true ↔
        get? (runPreFix cfg init hist).gws k = some cfg.gcName := by
  intro h
  have := h cfg0 [([.upsertGC cN, .upsertGw kA cN], []), ([.upsertGw kA cO], [])] (by decide) kA
  revert this
  decide

/-- the two variants differ on that history and the current code gets it right -/
theorem prefix_differs_on_class_change :
    let hist : Hist := [([.upsertGC cN, .upsertGw kA cN], []), ([.upsertGw kA cO], [])]
    hasKey (runPreFix cfg0 init hist).prov kA = true ∧ (runPreFix cfg0 init hist).cluster.length = 1 ∧
    hasKey (run cfg0 init hist).prov kA = false ∧ (run cfg0 init hist).cluster = [] := by decide

/-- what the pre-fix code did maintain, for every history: both inclusions except "of the class" -/
theorem prefix_inclusions (cfg : Cfg) (hist : Hist) (hc : (runPreFix cfg init hist).crashed = none) (k : Key) :
    (get? (runPreFix cfg init hist).gws k = some cfg.gcName → hasKey (runPreFix cfg init hist).prov k = true) ∧
    (hasKey (runPreFix cfg init hist).prov k = true → hasKey (runPreFix cfg init hist).gws k = true) :=
  ⟨(runPreFix_sem cfg hist hc).class_has_dep k, (runPreFix_sem cfg hist hc).dep_has_gateway k⟩

/-- pre-fix `provisions_match`, partial: on histories in which no Gateway that has a Deployment is
re-stored with another class (`noAwayHist`, decidable, evaluated along the run). -/
theorem prefix_provisions_match_partial (cfg : Cfg) (hist : Hist) (hna : noAwayHist cfg init hist = true)
    (hc : (runPreFix cfg init hist).crashed = none) (k : Key) :
    hasKey (runPreFix cfg init hist).prov k = true ↔ get? (runPreFix cfg init hist).gws k = some cfg.gcName :=
  ⟨runPreFix_match cfg hist init (wf_init cfg) (by intro k hk; simp [init] at hk) hna hc k,
   (prefix_inclusions cfg hist hc k).1⟩

/-- pre-fix `provisions_match`, partial, syntactic hypothesis: no Gateway is ever upserted with two
different class names (`ClassStable`; deletes, re-creations and any batching allowed). -/
theorem prefix_provisions_match_partial_class_stable (cfg : Cfg) (hist : Hist) (hs : ClassStable hist)
    (hc : (runPreFix cfg init hist).crashed = none) (k : Key) :
    hasKey (runPreFix cfg init hist).prov k = true ↔ get? (runPreFix cfg init hist).gws k = some cfg.gcName :=
  prefix_provisions_match_partial cfg hist (noAwayHist_of_classStable cfg hist hs) hc k

example : ClassStable hist1 := by
  have : ∀ p ∈ upserts hist1, ∀ q ∈ upserts hist1, p.1 = q.1 → p.2 = q.2 := by decide
  intro k c c' h1 h2
  exact this _ h1 _ h2 rfl

example : noAwayHist cfg0 init hist1 = true ∧ (runPreFix cfg0 init hist1).crashed = none ∧
    (runPreFix cfg0 init hist1).prov.length = 2 ∧ noAwayHist cfg0 init hist0 = false := by decide

/-! ### Go's map order: every order is covered by the `order` parameter -/

/-- Whatever permutation of the Gateways without Deployments Go's `range` produces, passing that
permutation as `order` makes the model create the Deployments in exactly that order. -/
theorem every_map_order_is_modelled (cfg : Cfg) (s : State) (perm : List Key) (hp : perm.Nodup)
    (hm : ∀ k, k ∈ perm ↔ k ∈ gwsWithoutDeps cfg s) (hg : (s.gws.map (·.1)).Nodup) :
    arrange perm (gwsWithoutDeps cfg s) = perm :=
  arrange_self perm _ hp hm (nodup_gwsWithoutDeps hg)

/-! ### tie to the source: facts regenerated by the translator on every run -/

/-- the handler runs store.update, setGatewayClassStatuses, ensureDeploymentsMatchGateways in this
order; the four loops of `ensureDeploymentsMatchGateways` with their conditions; the panic guard -/
theorem handler_structure_as_modelled :
    Generated.Provisioner.handleEventBatchBody =
      ["h.store.update(batch)", "h.setGatewayClassStatuses(ctx)", "h.ensureDeploymentsMatchGateways(ctx, logger)"] ∧
    Generated.Provisioner.ensureLoopHeads =
      ["for nsname, gw := range h.store.gateways", "for nsname := range h.provisions",
       "for _, nsname := range gwsWithoutDeps", "for _, nsname := range removedGwsWithDeps"] ∧
    Generated.Provisioner.ensureLoopBody0 =
      ["if string(gw.Spec.GatewayClassName) != h.gcName { continue }",
       "if _, exist := h.provisions[nsname]; exist { continue }",
       "gwsWithoutDeps = append(gwsWithoutDeps, nsname)"] ∧
    Generated.Provisioner.ensureLoopBody1 =
      ["if gw, exist := h.store.gateways[nsname]; exist && string(gw.Spec.GatewayClassName) == h.gcName { continue }",
       "removedGwsWithDeps = append(removedGwsWithDeps, nsname)"] ∧
    Generated.Provisioner.ensureLoopBody2 =
      ["deployment, err := prepareDeployment(h.staticModeDeploymentYAML, h.generateDeploymentID(), nsname)",
       "if err != nil { panic(fmt.Errorf(\"failed to prepare deployment: %w\", err)) }",
       "if err = h.k8sClient.Create(ctx, deployment); err != nil { panic(fmt.Errorf(\"failed to create deployment: %w\", err)) }",
       "h.provisions[nsname] = deployment"] ∧
    Generated.Provisioner.ensureLoopBody3 =
      ["deployment := h.provisions[nsname]",
       "if err := h.k8sClient.Delete(ctx, deployment); err != nil { panic(fmt.Errorf(\"failed to delete deployment: %w\", err)) }",
       "delete(h.provisions, nsname)"] ∧
    Generated.Provisioner.gcExistsStatements =
      ["if gc.Name == h.gcName { gcExists = true } else { conds = append(conds, conditions.NewGatewayClassConflict()) }",
       "if !gcExists { panic(fmt.Errorf(\"GatewayClass %s must exist\", h.gcName)) }"] ∧
    Generated.Provisioner.setStatusesLastStatement = "h.statusUpdater.Update(ctx, reqs...)" ∧
    Generated.Provisioner.condsInit = "conds := conditions.NewDefaultGatewayClassConditions()" := by
  decide

/-- the id counter starts at 1, is post-incremented, and is rendered with `nginx-gateway-%d` -/
theorem id_generation_as_modelled :
    Generated.Provisioner.gatewayNextIDInit = init.nextID ∧
    Generated.Provisioner.deploymentIDFormat = String.ofList idPrefix ++ "%d" ∧
    Generated.Provisioner.generateDeploymentIDBody =
      ["id := h.gatewayNextID", "h.gatewayNextID++", "return fmt.Sprintf(\"nginx-gateway-%d\", id)"] := by
  decide

set_option maxRecDepth 100000 in
/-- `prepareDeployment` sets name, selector label and pod label to the id, prepends the two flags and
rewrites the lock-name arg, exactly as `prepare` does -/
theorem prepare_as_modelled :
    Generated.Provisioner.prepareAssignments =
      ["dep.ObjectMeta.Name = id", "dep.Spec.Selector.MatchLabels[\"app\"] = id",
       "dep.Spec.Template.ObjectMeta.Labels[\"app\"] = id",
       "dep.Spec.Template.Spec.Containers[0].Args = finalArgs"] ∧
    Generated.Provisioner.finalArgsInit =
      ["\"--gateway=\" + gwNsName.String()", "\"--update-gatewayclass-status=false\""] ∧
    Generated.Provisioner.argRewriteLoop =
      ["for _, arg := range dep.Spec.Template.Spec.Containers[0].Args",
       "if strings.Contains(arg, \"leader-election-lock-name\") { lockNameArg := \"--leader-election-lock-name=\" + gwNsName.Name finalArgs = append(finalArgs, lockNameArg) } else { finalArgs = append(finalArgs, arg) }"] ∧
    String.ofList gwFlag = "--gateway=" ∧ String.ofList updFlag = "--update-gatewayclass-status=false" ∧
    String.ofList lockNeedle = "leader-election-lock-name" ∧ String.ofList lockFlag = "--leader-election-lock-name=" := by
  decide

/-- the store accepts exactly GatewayClass, Gateway and CRD metadata, keyed by namespaced name -/
theorem store_kinds_as_modelled :
    Generated.Provisioner.storeUpsertKinds = ["*v1.GatewayClass", "*v1.Gateway", "*metav1.PartialObjectMetadata"] ∧
    Generated.Provisioner.storeDeleteKinds = ["*v1.GatewayClass", "*v1.Gateway", "*metav1.PartialObjectMetadata"] ∧
    Generated.Provisioner.storeActions =
      ["s.gatewayClasses[client.ObjectKeyFromObject(obj)] = obj", "s.gateways[client.ObjectKeyFromObject(obj)] = obj",
       "s.crdMetadata[client.ObjectKeyFromObject(obj)] = obj", "delete(s.gatewayClasses, e.NamespacedName)",
       "delete(s.gateways, e.NamespacedName)", "delete(s.crdMetadata, e.NamespacedName)"] := by
  decide

set_option maxRecDepth 100000 in
/-- the static-mode manifest in the tree has the shape the arg theorems assume (`manifestShape`): no `--gateway=` /
`--update-gatewayclass-status=` arg of its own, substring match = prefix match `--leader-election-lock-name=` on
its args, exactly one such arg -/
theorem manifest_shape_ok :
    manifestShape (Generated.Provisioner.templateArgs.map String.toList) = true := by decide +kernel

set_option maxRecDepth 100000 in
/-- (older, weaker form of `manifest_shape_ok`, kept) -/
theorem manifest_args_ok :
    TmplOK (Generated.Provisioner.templateArgs.map String.toList) ∧
    (Generated.Provisioner.templateArgs.map String.toList).any (isInfix lockNeedle) = true := by
  refine ⟨tmplOK_of_all ?_, ?_⟩ <;> decide +kernel

end NGF.Prov
