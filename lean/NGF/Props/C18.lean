/-
C18 — property theorems for the provisioner model (`NGF.Model.Provisioner`).
-/
import NGF.Model.Provisioner
import NGF.Generated.ProvisionerFacts

namespace NGF.Prov

def kA : Key := ⟨['n','s','1'], ['g','w','-','a']⟩
def kB : Key := ⟨['n','s','2'], ['g','w','-','a']⟩
def cN : Str := ['n','g','i','n','x']
def cO : Str := ['o','t','h','e','r']
def cfg0 : Cfg := ⟨cN, [['s','t','a','t','i','c','-','m','o','d','e'], lockFlag ++ ['x']]⟩

/-- WITNESS (known finding C18:deployment-kept-after-class-change): after a Gateway of the class is
re-pointed to another class its Deployment is still there. -/
theorem class_change_away_keeps_deployment :
    let s := run cfg0 init [([.upsertGC cN, .upsertGw kA cN], []), ([.upsertGw kA cO], [])]
    s.crashed = none ∧ get? s.gws kA = some cO ∧ hasKey s.prov kA = true ∧ s.cluster.length = 1 := by
  decide

/-- WITNESS: deleting the configured GatewayClass panics the handler. -/
theorem panic_reachable :
    (run cfg0 init [([.upsertGC cN, .upsertGw kA cN], []), ([.deleteGC cN], [])]).crashed = some .gcAbsent := by
  decide

end NGF.Prov
