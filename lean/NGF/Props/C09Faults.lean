/-
C09 — API failures limited to some resources do not keep the newest statuses of the OTHER resources from being
written when the replica becomes leader (nor afterwards).

`attempt fails` models `Updater.Update`: every request is attempted, a request that cannot be written does not stop
those after it (loop body pinned below).  `outcome fails` applies it to the `Updater.Update` calls the state machine
of `Model/Leader.lean` makes.  Theorems for ALL operation lists and ALL failure sets `fails`.
-/
import NGF.Model.LeaderFaults
import NGF.Proofs.LeaderFaults
import NGF.Generated.LeaderFacts

namespace NGF.Leader

/-- Restricting a history to the healthy resources commutes with running the updater under failures: what
observably reaches the API server (`visible ∘ outcome fails`) is what the updater observably does on the restricted
history.  This is why the judges may evaluate the unchanged property on the restricted history. -/
theorem restriction_commutes_with_run (fails : Req → Bool) (ops : List Op) :
    (run init ops).map (fun o => visible (outcome fails o)) =
      (run init (restrictOps fails ops)).map visible := by
  have key : ∀ (ops : List Op) (s v : LState), FSim fails s v →
      (run s ops).map (fun o => visible (outcome fails o)) = (run v (restrictOps fails ops)).map visible := by
    intro ops
    induction ops with
    | nil => intro s v _; rfl
    | cons op ops ih =>
      intro s v h
      obtain ⟨h', e⟩ := fsim_step h op
      simp only [restrictOps, List.map_cons, run]
      rw [e]
      congr 1
      exact ih _ _ h'
  exact key ops init init ⟨rfl, by simp [init, clean, mapV], by simp [init, keys]⟩

/-- At `Enable`: every request of a group's LAST non-empty submission whose resource does not fail is written,
whatever happens to the failing ones of the same or of other groups. -/
theorem healthy_requests_written_at_enable (fails : Req → Bool) (pre : List Op) (o : List Group)
    (post : List Op) (h : NoEnable pre) (g : Group) (r : List Req) (hl : (g, r) ∈ latest pre)
    (t : Req) (ht : t ∈ r) (hok : fails t = false) :
    ∃ ws, ((run init (pre ++ .enable o :: post)).map (outcome fails))[pre.length]? = some (Out.writes ws) ∧
      ∃ w ∈ ws, w.1 = g ∧ t ∈ w.2 := by
  refine ⟨(flush o (exec init pre).saved).map fun w => (w.1, attempt fails w.2), ?_, ?_⟩
  · rw [run_decompose_aux pre o post h]
    simp [outcome]
  · obtain ⟨_, hnd, _, hp⟩ := disabled_exec pre init rfl h (by simp [init, keys])
    have hperm : (flush o (exec init pre).saved).Perm (latest pre) :=
      (flush_perm o _ hnd).trans (by simpa [init] using hp)
    refine ⟨(g, attempt fails r), List.mem_map.2 ⟨(g, r), hperm.mem_iff.2 hl, rfl⟩, rfl, ?_⟩
    simp [attempt, ht, hok]

/-- … and only requests of that last submission: failures never make an older status appear. -/
theorem nothing_older_written_despite_failures (fails : Req → Bool) (pre : List Op) (o : List Group)
    (h : NoEnable pre) (g : Group) (r' : List Req)
    (hm : (g, r') ∈ (flush o (exec init pre).saved).map fun w => (w.1, attempt fails w.2)) :
    ∃ r, (g, r) ∈ latest pre ∧ r' = attempt fails r := by
  obtain ⟨w, hw, e⟩ := List.mem_map.1 hm
  obtain ⟨_, hnd, _, hp⟩ := disabled_exec pre init rfl h (by simp [init, keys])
  have hperm : (flush o (exec init pre).saved).Perm (latest pre) :=
    (flush_perm o _ hnd).trans (by simpa [init] using hp)
  simp only [Prod.mk.injEq] at e
  refine ⟨w.2, ?_, e.2.symm⟩
  have := hperm.mem_iff.1 hw
  rw [← e.1]
  exact this

/-- After `Enable`: every healthy request of a submission is written at once. -/
theorem healthy_requests_written_immediately (fails : Req → Bool) (g : Group) (r : List Req)
    (t : Req) (ht : t ∈ r) (hok : fails t = false) :
    outcome fails (after (.update g r)) = Out.writes [(g, attempt fails r)] ∧ t ∈ attempt fails r := by
  simp [outcome, after, attempt, ht, hok]

/-- Failures never cause a write before `Enable`. -/
theorem no_write_before_enable_despite_failures (fails : Req → Bool) (pre rest : List Op) (h : NoEnable pre) :
    ((run init (pre ++ rest)).map (outcome fails)).take pre.length = pre.map (fun _ => Out.writes []) := by
  obtain ⟨_, _, hr, _⟩ := disabled_exec pre init rfl h (by simp [init, keys])
  rw [run_append, hr, List.map_append, List.take_left' (by simp)]
  simp [outcome]

/-- The early-return variant ("stop the call at the first request that could not be written") is refuted: the
status of the healthy resource 3, submitted after the failing resource 2, is never written at `Enable`. -/
theorem update_stops_at_failure_false :
    (run init [.update 0 [1, 2, 3], .update 1 [4], .enable [0, 1]]).map (outcomeStop (· == 2)) =
      [.writes [], .writes [], .writes [(0, [1]), (1, [4])]] ∧
    (run init [.update 0 [1, 2, 3], .update 1 [4], .enable [0, 1]]).map (outcome (· == 2)) =
      [.writes [], .writes [], .writes [(0, [1, 3]), (1, [4])]] ∧
    (0, [1, 2, 3]) ∈ latest [.update 0 [1, 2, 3], .update 1 [4]] := by
  decide

/-! ### the judges on restricted histories -/

/-- a history in which resource 6 keeps failing: accepted — the healthy 5 and 7 are written -/
example : judgeF [6] { elected := some 10,
                       ops := [⟨false, 1, [5, 6, 7], 1, 3, false⟩, ⟨true, 0, [], 11, 20, false⟩],
                       writes := [⟨1, 5, 12⟩, ⟨1, 7, 13⟩] } = none := by decide

/-- the early return: 7 is missing -/
example : judgeF [6] { elected := some 10,
                       ops := [⟨false, 1, [5, 6, 7], 1, 3, false⟩, ⟨true, 0, [], 11, 20, false⟩],
                       writes := [⟨1, 5, 12⟩] } = some "flush_not_latest" := by decide

example : judgeWF [(2, 1, 7)]
    [⟨false, [0, 1], some [[⟨0, 0, 0, 1⟩, ⟨2, 1, 7, 3⟩, ⟨3, 1, 7, 5⟩], [⟨1, 1, 7, 2⟩], []], []⟩,
     ⟨true, [], none, [⟨0, 0, 0, 1⟩, ⟨3, 1, 7, 5⟩, ⟨1, 1, 7, 2⟩]⟩] = none := by decide

example : judgeWF [(2, 1, 7)]
    [⟨false, [0, 1], some [[⟨0, 0, 0, 1⟩, ⟨2, 1, 7, 3⟩, ⟨3, 1, 7, 5⟩], [⟨1, 1, 7, 2⟩], []], []⟩,
     ⟨true, [], none, [⟨0, 0, 0, 1⟩, ⟨1, 1, 7, 2⟩]⟩] = some "flush_wrong_requests" := by decide

/-! ### Non-vacuity -/

example : NoEnable [.update 0 [1, 2, 3], .update 1 [4]] ∧ (0, [1, 2, 3]) ∈ latest [.update 0 [1, 2, 3], .update 1 [4]] ∧
    (3 : Req) ∈ [1, 2, 3] ∧ ((· == 2) : Req → Bool) 3 = false := by decide

example : restrictOps (· == 2) [.update 0 [1, 2, 3], .update 1 [2], .enable [0, 1]] =
    [.update 0 [1, 3], .update 1 [], .enable [0, 1]] := by decide

/-! ### Tie to the source -/

/-- `Updater.Update` is one loop over the requests whose body — after the cancelled-context test — calls
`writeStatuses` and looks at nothing it returns (`writeStatuses` has no result): no outcome of one request can end the
loop.  `writeStatuses` retries 4 times with the backoff literal the harness relies on and only logs. -/
theorem updater_update_attempts_every_request :
    Generated.Leader.updaterUpdateBody =
      ["for _, r := range reqs { select { case <-ctx.Done(): return default: } u.logger.V(1).Info( \"Updating status for resource\", \"namespace\", r.NsName.Namespace, \"name\", r.NsName.Name, \"kind\", r.ResourceType.GetObjectKind().GroupVersionKind().Kind, ) u.writeStatuses(ctx, r.NsName, r.ResourceType, r.Setter) }"] ∧
    Generated.Leader.writeStatusesResults = "-" ∧
    Generated.Leader.writeStatusesBody[3]? =
      some "err := wait.ExponentialBackoffWithContext( ctx, wait.Backoff{ Duration: time.Millisecond * 200, Factor: 2, Jitter: 0.5, Steps: 4, Cap: time.Millisecond * 3000, }, NewRetryUpdateFunc(u.client, u.client.Status(), nsname, obj, u.logger, statusSetter), )" ∧
    Generated.Leader.writeStatusesBody.length = 5 := by
  decide +kernel

end NGF.Leader
