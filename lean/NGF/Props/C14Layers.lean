import NGF.Proofs.PipelinePermLayers
/-
C14 on the LAYERED pipeline models (all read-only here): the models other properties stacked on `Pipeline.gen` —
backend references and ReferenceGrants (`PipelineRefs.genR`, C06), EndpointSlices (`PipelineEndpoints.upstreamsOf`, C13),
HTTPS listeners / Secrets (`PipelineTls.genT`, C16), statuses (`PipelineStatus`, C07) and the renderer with its explicit
Go-map port order (`Render.genR s order`, C03) — produce a result that does not depend on the order in which the cluster's
objects arrive / are iterated over. Go maps and informer stores = lists, every theorem quantifies over ALL permutations
(`List.Perm`) of every object list; listener order inside a Gateway is spec order and is not permuted.
Helper lemmas: NGF/Proofs/PipelinePermLayers.lean (on top of Props/C14Pipeline and C17's Proofs/PipelineForeign).
-/
namespace NGF.Props.C14Layers
open NGF.Pipeline NGF.ListPerm NGF.PipelineLayers
open NGF.Props.C14Pipeline (Reordered)

/-! ## 1. references (C06's layer) -/

open NGF.PipelineRefs NGF.PipelineForeign in
/-- `genR_perm_equiv`: permuting Services, ReferenceGrants, HTTPRoutes, Gateways and GatewayClasses (distinct keys per kind)
leaves `gen (resolve c)` unchanged up to the order of ports / servers / locations -/
theorem genR_perm_equiv (c c' : ScenarioR) (h : ReorderedR c c') (hk : KeyInj c.gateways)
    (hr : RouteKeysNodupR c.routes) (hs : SvcKeysNodup c.services) : Conf.equiv (genR c) (genR c') :=
  genR_equiv_of_reordered h hk hr hs

open NGF.PipelineRefs NGF.PipelineForeign in
/-- `genR_perm_meaning`: … and NGINX answers every request the same way -/
theorem genR_perm_meaning (c c' : ScenarioR) (h : ReorderedR c c') (hk : KeyInj c.gateways)
    (hr : RouteKeysNodupR c.routes) (hs : SvcKeysNodup c.services) (hp : PathsOKR c) :
    ∀ q, nginxEvalConf (genR c') q = nginxEvalConf (genR c) q :=
  genR_meaning_of_reordered h hk hr hs hp

open NGF.PipelineRefs in
/-- `Graph.ReferencedServices` is the same collection (even as a multiset) -/
theorem referencedServices_perm (c c' : ScenarioR) (h : ReorderedR c c') (hk : KeyInj c.gateways) :
    (referencedServices c').Perm (referencedServices c) :=
  referencedServices_of_reordered h hk

open NGF.PipelineRefs NGF.PipelineForeign in
/-- every backendRef of every route resolves to the SAME graph route: the resolution (validity, Service port, weight) of a
reference is a function of the cluster state only -/
theorem resolution_perm (c c' : ScenarioR) (h : ReorderedR c c') (hs : SvcKeysNodup c.services) (r : RouteR) :
    resolveRoute c'.grants c'.services r = resolveRoute c.grants c.services r :=
  (resolve_reordered h hs).2 r

/-! ## 2. endpoints (C13's layer) -/

open NGF.PipelineRefs NGF.PipelineEndpoints NGF.PipelineForeign in
/-- `upstreamsOf_perm`: additionally permuting the EndpointSlices (the API server's listing order) and the Service port
entries leaves the SET of upstreams and each upstream's server SET unchanged. The ORDER of the servers inside an upstream is
not a function of the cluster state in the code either (the resolver collects endpoints in a Go map); the model's `dedup`
order stands for the listing order, and the statement is about the set. -/
theorem upstreamsOf_perm (c c' : ScenarioE) (h : ReorderedE c c') (hk : KeyInj c.base.gateways)
    (hs : SvcKeysNodup c.base.services) (hpk : PortKeysNodup c.ports) (hn : namesOK c.base = true) :
    (∀ u ∈ upstreamsOf c, ∃ u' ∈ upstreamsOf c', u'.name = u.name ∧ u.eps.Perm u'.eps) ∧
    (∀ u' ∈ upstreamsOf c', ∃ u ∈ upstreamsOf c, u.name = u'.name ∧ u'.eps.Perm u.eps) := by
  refine ⟨upstreamsOf_sub h hk hs hpk hn, ?_⟩
  have hs' : SvcKeysNodup c'.base.services := by unfold SvcKeysNodup at hs ⊢; exact (h.base.services.map _).nodup hs
  have hpk' : PortKeysNodup c'.ports := by unfold PortKeysNodup at hpk ⊢; exact (h.ports.map _).nodup hpk
  exact upstreamsOf_sub h.symm (hk.perm h.base.gateways) hs' hpk' (namesOK_perm h.base hn)

open NGF.PipelineRefs NGF.PipelineEndpoints NGF.PipelineForeign in
/-- the upstream names are the same list up to order (they are distinct: `nodup_upstreamsOf`) -/
theorem upstream_names_perm (c c' : ScenarioE) (h : ReorderedE c c') (hk : KeyInj c.base.gateways)
    (hs : SvcKeysNodup c.base.services) (hpk : PortKeysNodup c.ports) (hn : namesOK c.base = true) :
    ((upstreamsOf c).map (·.name)).Perm ((upstreamsOf c').map (·.name)) := by
  rw [List.perm_ext_iff_of_nodup (nodup_upstreamsOf c) (nodup_upstreamsOf c')]
  obtain ⟨h1, h2⟩ := upstreamsOf_perm c c' h hk hs hpk hn
  intro n
  constructor
  · intro hm
    obtain ⟨u, hu, rfl⟩ := List.mem_map.mp hm
    obtain ⟨u', hu', e, _⟩ := h1 u hu
    exact List.mem_map.mpr ⟨u', hu', e⟩
  · intro hm
    obtain ⟨u', hu', rfl⟩ := List.mem_map.mp hm
    obtain ⟨u, hu, e, _⟩ := h2 u' hu'
    exact List.mem_map.mpr ⟨u, hu, e⟩

/-- the resolver's answer for one Service port under two listings of the same EndpointSlices -/
theorem endpoints_perm (all all' : List NGF.Resolver.Slice) (hp : all.Perm all') (ns name : String)
    (sp : NGF.Resolver.SvcPort) (fam : NGF.Resolver.IPFamily) :
    (NGF.Resolver.upstreamEndpoints all ns name sp fam).Perm (NGF.Resolver.upstreamEndpoints all' ns name sp fam) :=
  upstreamEndpoints_perm hp ns name sp fam

/-! ## 3. HTTPS listeners and certificates (C16's layer) -/

open NGF.PipelineTls in
/-- `genT_perm`: permuting Secrets, ReferenceGrants, routes, Gateways and classes leaves the HTTP part and the SSL part
unchanged up to the order of servers / locations, every SSL server keeps its key pair, the SSL default-server ports are the
same, and the key-pair files are IDENTICAL -/
theorem genT_perm (s s' : ScenarioT) (h : ReorderedT s s') (hk : KeyInjT s.gateways) (hr : RouteKeysNodup s.routes)
    (hn : SecretKeysNodup s.secrets) : ConfTEquiv (genT s) (genT s') :=
  genT_equiv_of_reordered h hk hr hn

open NGF.PipelineTls in
/-- the served Gateway, which of its HTTPS listeners are valid (Secret resolved, permitted, well-formed) and the key pairs
are functions of the cluster state only -/
theorem tls_decisions_perm (s s' : ScenarioT) (h : ReorderedT s s') (hk : KeyInjT s.gateways)
    (hn : SecretKeysNodup s.secrets) :
    winnerT s' = winnerT s ∧ validHttps s' = validHttps s ∧ (genT s').keyPairs = (genT s).keyPairs :=
  ⟨winnerT_perm h hk, validHttps_perm h hn, by
    have hv := validHttps_perm h hn
    have hw := winnerT_perm h hk
    cases hws : winnerT s with
    | none => rw [genT_none hws, genT_none (hw.trans hws)]
    | some gT =>
      rw [genT_some hws, genT_some (hw.trans hws)]
      have : sslListeners s' gT = sslListeners s gT := by unfold sslListeners; rw [hv]
      simp only [this]
      exact keyPairsFrom_perm h.secrets hn _ _⟩

open NGF.PipelineTls in
/-- listener order inside a Gateway is spec order, and `createPortConflictResolver` is stateful — but which listeners it
invalidates does not depend on that order either (via C16's `port_conflict_resolver_exact`) -/
theorem port_conflict_verdict_perm (g g' : GatewayT) (hp : g.listeners.Perm g'.listeners) (l : ListenerT)
    (hl : l ∈ g.listeners) (hf : l.fieldsOK = true) :
    l ∈ (pcRun g.listeners).invalid ↔ l ∈ (pcRun g'.listeners).invalid :=
  pcRun_verdict_perm g g' hp l hl hf

/-! ## 4. statuses (C07's layer) -/

open NGF.PipelineStatus in
/-- `status_perm` (routes): the status of every route — one entry per parentRef, in parentRef order, with the type, status
and reason of every condition — is a function of the cluster state only -/
theorem route_status_perm (s s' : Scenario) (h : Reordered s s') (hk : KeyInj s.gateways) (reloadErr : Bool) (gen : Int)
    (r : Route) : routeParentStatuses s' reloadErr gen r = routeParentStatuses s reloadErr gen r :=
  routeParentStatuses_perm h hk reloadErr gen r

open NGF.PipelineStatus in
/-- … hence the multiset of (route key, parent statuses) over all routes is invariant -/
theorem route_statuses_multiset_perm (s s' : Scenario) (h : Reordered s s') (hk : KeyInj s.gateways) (reloadErr : Bool)
    (gen : Route → Int) :
    (s.routes.map fun r => (r.ns, r.name, routeParentStatuses s reloadErr (gen r) r)).Perm
      (s'.routes.map fun r => (r.ns, r.name, routeParentStatuses s' reloadErr (gen r) r)) := by
  have : (s'.routes.map fun r => (r.ns, r.name, routeParentStatuses s' reloadErr (gen r) r)) =
      (s'.routes.map fun r => (r.ns, r.name, routeParentStatuses s reloadErr (gen r) r)) :=
    List.map_congr_left fun r _ => by rw [routeParentStatuses_perm h hk]
  rw [this]
  exact h.routes.map _

open NGF.PipelineStatus in
/-- `status_perm` (Gateway): the Gateway status, every listener's conditions and `attachedRoutes` -/
theorem gateway_status_perm (s s' : Scenario) (h : Reordered s s') (hk : KeyInj s.gateways) (reloadErr : Bool) (gen : Int) :
    gatewayStatus s' reloadErr gen = gatewayStatus s reloadErr gen ∧
    listenerStatuses s' reloadErr gen = listenerStatuses s reloadErr gen :=
  ⟨gatewayStatus_perm h hk reloadErr gen, listenerStatuses_perm h hk reloadErr gen⟩

open NGF.PipelineStatus in
/-- the Gateways told `GatewayConflict` are the same set -/
theorem ignored_gateways_perm (s s' : Scenario) (h : Reordered s s') (hk : KeyInj s.gateways) :
    (ignoredGateways s).Perm (ignoredGateways s') := ignoredGateways_perm h hk

/-! ## 5. the renderer's Go-map port order (C03's layer) -/

open NGF.Render in
/-- `render_port_order_irrelevant`: for any two iteration orders of the `portPathRules` map the enriched configurations differ
ONLY in the serverIDs (and thereby in the `$match_key` / matches.json keys `<serverID>_<pathRuleIdx>` and in the order of the
server blocks, which `serverDirs` sorts by serverID): same servers / path rules / actions, same default-server ports, same
BackendGroups and therefore IDENTICAL split_clients blocks, the same abstract configuration (`forget`), the same answer of
NGINX to every request, and — inside the fragment — the same (empty) verdict of the well-formedness judge `wfDirs`. -/
theorem render_port_order_irrelevant (s : Scenario) (o₁ o₂ : List Nat) :
    (Render.genR s o₁).servers.map unsid = (Render.genR s o₂).servers.map unsid ∧
    (Render.genR s o₁).dports.map (·.1) = (Render.genR s o₂).dports.map (·.1) ∧
    splitDirs (Render.genR s o₁) = splitDirs (Render.genR s o₂) ∧
    (Render.genR s o₁).forget = (Render.genR s o₂).forget ∧
    (∀ q, nginxEvalConf (Render.genR s o₁).forget q = nginxEvalConf (Render.genR s o₂).forget q) ∧
    (inFragment s = true → namesSafe s = true → portsOK s = true →
      wfDirs (render (Render.genR s o₁)) (matchKeysOf (Render.genR s o₁)) =
        wfDirs (render (Render.genR s o₂)) (matchKeysOf (Render.genR s o₂))) :=
  ⟨(genR_order_only_sids s o₁ o₂).1, (genR_order_only_sids s o₁ o₂).2.1, splitDirs_order_irrelevant s o₁ o₂,
   forget_order_irrelevant s o₁ o₂, render_meaning_order_irrelevant s o₁ o₂, wfDirs_order_irrelevant s o₁ o₂⟩

open NGF.Render in
/-- the server blocks of http.conf are, up to order, the default servers and the renderings of the servers -/
theorem server_blocks_perm (c : ConfR) :
    (serverDirs c).Perm (c.dports.map (fun d => renderDefault d.1) ++ c.servers.map renderServer) := by
  unfold serverDirs
  refine ((List.mergeSort_perm _ _).map _).trans (List.Perm.of_eq ?_)
  simp [List.map_append, List.map_map, Function.comp_def]

/-! ### non-vacuity -/

section examples
open NGF.PipelineRefs NGF.PipelineForeign NGF.PipelineEndpoints NGF.PipelineTls NGF.PipelineStatus

private def lis0 : Listener := ⟨"l0".toList, 80, [], true⟩
private def lis1 : Listener := ⟨"l1".toList, 8080, "*.example.com".toList, true⟩
private def gw0 : Gateway := ⟨"default".toList, "gw".toList, "nginx".toList, 5, [lis0, lis1]⟩
private def gw1 : Gateway := ⟨"default".toList, "gw-z".toList, "nginx".toList, 5, [lis0]⟩
private def par0 : Parent := ⟨"default".toList, "gw".toList, none⟩
private def mPre (p : String) : Match := ⟨false, p.toList, [], [], []⟩
private def ref (ns : Option String) (name : String) (w : Option Int) : NGF.RefGrant.BackendRef :=
  ⟨none, none, ns, name, some 80, w, 0⟩
private def rA : RouteR := ⟨"default", "ra", 7, [par0], ["cafe.example.com".toList],
  [⟨[mPre "/coffee"], .forward [ref none "svc0" (some 3), ref (some "team-b") "svc1" (some 1)]⟩], true⟩
private def rB : RouteR := ⟨"team-a", "rb", 7, [par0], [], [⟨[mPre "/tea", mPre "/"], .forward [ref none "svc0" none]⟩], true⟩
private def svcs : List Service := [⟨"default", "svc0", [80]⟩, ⟨"team-b", "svc1", [80, 81]⟩, ⟨"team-a", "svc0", [80]⟩]
private def grant : NGF.RefGrant.Grant :=
  ⟨"team-b", "g", [⟨NGF.RefGrant.gatewayGroup, "HTTPRoute", "default"⟩], [⟨"", "Service", none⟩]⟩
private def cA : ScenarioR := ⟨"nginx".toList, "ctl".toList, [⟨"nginx".toList, "ctl".toList⟩, ⟨"x".toList, "y".toList⟩],
  [gw1, gw0], [rA, rB], svcs, [grant, { grant with ns := "other", name := "h" }]⟩
private def cB : ScenarioR :=
  { cA with
    classes := cA.classes.reverse, gateways := cA.gateways.reverse, routes := cA.routes.reverse
    services := cA.services.reverse, grants := cA.grants.reverse }

example : ReorderedR cA cB := ⟨rfl, rfl, (List.reverse_perm _).symm, (List.reverse_perm _).symm, (List.reverse_perm _).symm,
  (List.reverse_perm _).symm, (List.reverse_perm _).symm⟩
example : KeyInj cA.gateways := by decide
example : RouteKeysNodupR cA.routes := by unfold RouteKeysNodupR; decide
example : SvcKeysNodup cA.services := by unfold SvcKeysNodup; decide
#guard (genR cA).servers.length == 4 && (genR cA).servers.map (·.name) != (genR cB).servers.map (·.name)
#guard referencedServices cA == [("default", "svc0"), ("team-b", "svc1"), ("team-a", "svc0")]
private def rq1 : Req :=
  { port := 80, host := "cafe.example.com".toList, path := "/coffee/x".toList, method := "GET".toList, headers := [], query := [] }
#guard nginxEvalConf (genR cB) rq1 == .proxy [("default_svc0_80".toList, 7500), ("team-b_svc1_80".toList, 2500)]

private def sl (ns svc : String) (addrs : List String) : NGF.Resolver.Slice :=
  ⟨ns, some svc, .ipv4, [⟨some "", some 8080⟩], [⟨addrs, some true⟩]⟩
private def eA : ScenarioE := ⟨cA, [⟨"default", "svc0", ⟨"", 80, .int 0⟩⟩, ⟨"team-b", "svc1", ⟨"", 80, .int 0⟩⟩],
  [sl "default" "svc0" ["10.0.0.1", "10.0.0.2"], sl "default" "svc0" ["10.0.0.3"], sl "team-b" "svc1" ["10.0.1.1"]]⟩
private def eB : ScenarioE := ⟨cB, eA.ports.reverse, eA.slices.reverse⟩
example : PortKeysNodup eA.ports := by unfold PortKeysNodup; decide
#guard namesOK cA
#guard (upstreamsOf eA).map (·.name) == ["default_svc0_80", "team-b_svc1_80", "team-a_svc0_80"]
-- the server ORDER inside an upstream follows the listing order of the slices (a set in the statement)
#guard ((upstreamsOf eA).map (·.eps.length)) == [3, 1, 0] &&
  ((upstreamsOf eA).find? (·.name == "default_svc0_80")).map (·.eps.map (·.address)) !=
    ((upstreamsOf eB).find? (·.name == "default_svc0_80")).map (·.eps.map (·.address))

private def sT : ScenarioT :=
  { exScen with
    classes := exScen.classes ++ [⟨"other".toList, "x".toList⟩]
    gateways := exScen.gateways ++ [{ ns := "default".toList, name := "later".toList, cls := "nginx".toList, age := 2, listeners := [exFoo] }]
    routes := exScen.routes ++ [mkRoute "hr1" (some "cross") []] }
private def sT' : ScenarioT :=
  { sT with
    classes := sT.classes.reverse, gateways := sT.gateways.reverse, routes := sT.routes.reverse
    secrets := sT.secrets.reverse, grants := sT.grants.reverse }
example : ReorderedT sT sT' := ⟨rfl, rfl, (List.reverse_perm _).symm, (List.reverse_perm _).symm, (List.reverse_perm _).symm,
  (List.reverse_perm _).symm, (List.reverse_perm _).symm⟩
example : SecretKeysNodup sT.secrets := by unfold SecretKeysNodup; decide
example : RouteKeysNodup sT.routes := by unfold RouteKeysNodup; decide
#guard (genT sT).ssl.length ≥ 3 && (genT sT).keyPairs.length == 3 && (genT sT').keyPairs == (genT sT).keyPairs
#guard (genT sT).ssl.map (·.1.name) != (genT sT').ssl.map (·.1.name) || (genT sT).ssl.length == (genT sT').ssl.length

private def sS : Scenario := resolve cA
private def sS' : Scenario := resolve cB
#guard (routeParentStatuses sS false 1 (resolveRoute cA.grants cA.services rA)).isSome
#guard (sS.routes.all fun r => routeParentStatuses sS false 1 r == routeParentStatuses sS' false 1 r)
#guard gatewayStatus sS false 1 == gatewayStatus sS' false 1 && (listenerStatuses sS false 1).map (·.attachedRoutes) == [2, 2]
#guard (ignoredGateways sS).map (·.name) == ["gw-z".toList]

-- two ports: the port order changes the serverIDs and thereby the rendered text, not the stripped servers
#guard (Render.genR sS [80, 8080]).servers.map (·.sid) != (Render.genR sS [8080, 80]).servers.map (·.sid)
end examples

end NGF.Props.C14Layers
