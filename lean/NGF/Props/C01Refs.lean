/-
C01 (deepening round, built with C06's `Model/PipelineRefs`) — Service relevance soundness over the pipeline model.

`Graph.IsReferenced` answers for a Service with `ReferencedServices` (graph/service.go: `buildReferencedServices` — the
`SvcNsName` of the backendRefs of the VALID routes that belong to the winning Gateway; modelled by
`PipelineRefs.referencedServices`). The change tracker drops a Service event whose key is not referenced
(`funcPredicate{stateChanged: isReferenced}`), i.e. it does not rebuild. `service_irrelevant_inert_gen`: that is sound
for the generated configuration — upserting (any ports) or deleting a Service that is not referenced leaves
`gen (resolve c)` unchanged, for ALL clusters of the fragment. `service_event_skipped_soundly` says the same in the
vocabulary of the store model (`NGF.Model.Store`): a Service event judged irrelevant against an up-to-date graph leaves
the processor in a state whose rebuild would produce the configuration already applied. The converse witness: the
deletion of a referenced Service is judged relevant and does change the configuration.
-/
import NGF.Model.Store
import NGF.Model.PipelineRefs
import NGF.Proofs.PipelineRefs
import NGF.Generated.RefGrantFacts

namespace NGF.PipelineRefs
open NGF.Pipeline
open NGF.RefGrant (Grant BackendRef)

/-- an attached route belongs to the winning Gateway (`belongsToWinningGw`): attachment needs a parentRef naming it -/
theorem attached_belongsTo {g : Gateway} {r : RouteR} (h : attached g r = true) :
    r.valid = true ∧ belongsTo g r = true := by
  unfold attached at h
  simp only [Bool.and_eq_true, List.any_eq_true] at h
  obtain ⟨hv, l, _, hl⟩ := h
  refine ⟨hv, ?_⟩
  have hne : acceptedAtR g l r ≠ [] := by
    intro he; rw [he] at hl; simp at hl
  unfold acceptedAtR acceptedAt at hne
  split at hne
  · rename_i hc
    simp only [Bool.and_eq_true] at hc
    have href := hc.1
    unfold refersTo at href
    obtain ⟨p, hp, hpp⟩ := List.any_eq_true.1 href
    simp only [Bool.and_eq_true] at hpp
    unfold belongsTo
    exact List.any_eq_true.2 ⟨p, hp, by simp only [Bool.and_eq_true]; exact hpp.1⟩
  · exact absurd rfl hne

/-- the Service a backendRef of a valid attached route resolves (once the reference check passed) is referenced -/
theorem mem_referencedServices {c : ScenarioR} {g : Gateway} (hw : winner (resolve c) = some g) {r : RouteR}
    (hr : r ∈ c.routes) (hatt : attached g r = true) {ru : RuleR} (hru : ru ∈ r.rules) {refs : List BackendRef}
    (hact : ru.action = .forward refs) {ref : BackendRef} (href : ref ∈ refs)
    (hok : RefGrant.routeRefVerdict c.grants .http r.ns ref = .ok) :
    (RefGrant.refNs ref r.ns, ref.name) ∈ referencedServices c := by
  obtain ⟨hv, hb⟩ := attached_belongsTo hatt
  unfold referencedServices
  rw [hw]
  simp only [List.mem_flatMap, List.mem_filter, Bool.and_eq_true]
  refine ⟨r, ⟨hr, hv, hb⟩, ?_⟩
  unfold routeSvcNames
  simp only [List.mem_flatMap]
  refine ⟨ru, hru, ?_⟩
  rw [hact]
  simp only [List.mem_filterMap]
  exact ⟨ref, href, by simp [hok]⟩

/-- changing the Service store at an unreferenced key only leaves every resolved action of every attached route as it was -/
theorem genR_services_congr (c : ScenarioR) (svcs' : List Service) (ns name : String)
    (h : (ns, name) ∉ referencedServices c)
    (hlook : ∀ ns' name', ¬ (ns' = ns ∧ name' = name) → lookupSvc svcs' ns' name' = lookupSvc c.services ns' name') :
    genR { c with services := svcs' } = genR c := by
  apply genR_congr c c.grants svcs'
  intro g hw r hr hatt ru hru
  cases hact : ru.action with
  | redirect code sch hst p => rfl
  | forward refs =>
    simp only [resolveAction]
    congr 1
    apply List.map_congr_left
    intro ref href
    rw [resolveRef_congr rfl]
    intro hok
    have hmem := mem_referencedServices hw hr hatt hru hact href hok
    refine (findPort_congr (hlook _ _ ?_)).symm
    rintro ⟨e1, e2⟩
    rw [e1, e2] at hmem
    exact h hmem

/-- `service_irrelevant_inert_gen`: upserting (with ANY ports) or deleting a Service that no backendRef of a valid
route of the winning Gateway names (`ReferencedServices`, the `Graph.IsReferenced` reading) leaves the generated
configuration unchanged — for all clusters, grants, other Services. -/
theorem service_irrelevant_inert_gen (c : ScenarioR) (ns name : String) (h : (ns, name) ∉ referencedServices c) :
    (∀ s : Service, s.ns = ns → s.name = name → genR { c with services := upsertSvc c.services s } = genR c) ∧
    genR { c with services := deleteSvc c.services ns name } = genR c := by
  constructor
  · intro s h1 h2
    apply genR_services_congr c _ ns name h
    intro ns' name' hne
    exact lookupSvc_upsertSvc_other (by rw [h1, h2]; exact hne)
  · apply genR_services_congr c _ ns name h
    intro ns' name' hne
    exact lookupSvc_deleteSvc_other hne

open NGF.Generated in
/-- `buildReferencedServices` as `referencedServices` transcribes it (valid routes, `belongsToWinningGw` by parentRef,
non-empty `SvcNsName` of every graph backendRef — valid or not) -/
theorem referencedServices_as_modelled :
    RefGrant.buildReferencedServicesBody =
      ["if gw == nil { return nil }",
       "referencedServices := make(map[types.NamespacedName]*ReferencedService)",
       "belongsToWinningGw := func(refs []ParentRef) bool { for _, ref := range refs { if ref.Gateway == client.ObjectKeyFromObject(gw.Source) { return true } } return false }",
       "addServicesForL7Routes := func(routeRules []RouteRule) { for _, rule := range routeRules { for _, ref := range rule.BackendRefs { if ref.SvcNsName != (types.NamespacedName{}) { referencedServices[ref.SvcNsName] = &ReferencedService{ Policies: nil, } } } } }",
       "addServicesForL4Routes := func(route *L4Route) { nsname := route.Spec.BackendRef.SvcNsName if nsname != (types.NamespacedName{}) { referencedServices[nsname] = &ReferencedService{ Policies: nil, } } }",
       "for _, route := range l7routes { if !route.Valid { continue } if !belongsToWinningGw(route.ParentRefs) { continue } addServicesForL7Routes(route.Spec.Rules) }",
       "for _, route := range l4Routes { if !route.Valid { continue } if !belongsToWinningGw(route.ParentRefs) { continue } addServicesForL4Routes(route) }",
       "if len(referencedServices) == 0 { return nil }",
       "return referencedServices"] := rfl

/-! ### in the vocabulary of the store model -/

open NGF.Store in
/-- the Service arm of `NewChangeProcessorImpl`: persisted, with `funcPredicate{stateChanged: isReferenced}` -/
def svcOps : Ops Unit (String × String) Service ScenarioR where
  persisted _ := true
  hasPred _ := true
  isEndpoints _ := false
  get c _ k := lookupSvc c.services k.1 k.2
  store e c := match e.obj with
    | some s => { c with services := upsertSvc c.services s }
    | none => { c with services := deleteSvc c.services e.key.1 e.key.2 }
  cache _ c := c
  delSeesOld := true

/-- what one rebuild derives, as far as this statement needs it: the configuration and `ReferencedServices` -/
structure Built where
  conf : Conf
  referenced : List (String × String)

def buildR (c : ScenarioR) : Built := ⟨genR c, referencedServices c⟩

open NGF.Store in
/-- `isReferenced` for a Service: `latestGraph != nil && latestGraph.IsReferenced(obj, nsname)` — new and stored
object have the same namespace/name, so `upsert(old, new)` and `delete(old)` ask the same question -/
def svcRel (latest : Option Built) (_old : Option Service) (e : Event Unit (String × String) Service) : Bool :=
  match latest with
  | none => false
  | some b => b.referenced.contains e.key

open NGF.Store in
/-- `service_event_skipped_soundly`: the processor holds an up-to-date graph (`latest` was built from its store). A
Service event that the relevance predicate judges irrelevant does not mark the state changed, and rightly so: a rebuild
from the store after the event would generate the configuration that is already applied. -/
theorem service_event_skipped_soundly (p : Proc ScenarioR Built) (hsync : p.latest = some (buildR p.store))
    (e : Event Unit (String × String) Service) (hkey : ∀ s, e.obj = some s → (s.ns, s.name) = e.key)
    (hirr : verdict svcOps svcRel p.latest p.store e = false) :
    (capture svcOps svcRel p e).ct = p.ct ∧ genR (capture svcOps svcRel p e).store = genR p.store := by
  constructor
  · simp [capture, hirr, setCT]
  · show genR (storeAfter svcOps p.store e) = genR p.store
    unfold verdict at hirr
    unfold storeAfter
    simp only [svcOps, if_true] at hirr ⊢
    cases hobj : e.obj with
    | some s =>
      simp only [hobj, hsync, svcRel, buildR] at hirr
      have hk := hkey s hobj
      have hnot : (s.ns, s.name) ∉ referencedServices p.store := by
        rw [hk]; intro hm; rw [List.contains_iff_mem.2 hm] at hirr; exact absurd hirr (by decide)
      exact (service_irrelevant_inert_gen p.store s.ns s.name hnot).1 s rfl rfl
    | none =>
      simp only [hobj] at hirr ⊢
      by_cases hnone : (lookupSvc p.store.services e.key.1 e.key.2).isNone = true
      · simp only [hnone, if_true]
      · simp only [hnone, Bool.and_false, Bool.false_eq_true, if_false, hsync, svcRel, buildR] at hirr ⊢
        have hnot : (e.key.1, e.key.2) ∉ referencedServices p.store := by
          intro hm; rw [List.contains_iff_mem.2 hm] at hirr; exact absurd hirr (by decide)
        exact (service_irrelevant_inert_gen p.store e.key.1 e.key.2 hnot).2

/-! ### non-vacuity and the converse witness (by evaluation: `gen` sorts by well-founded recursion) -/

def wGw : Gateway :=
  { ns := "default".toList, name := "gw".toList, cls := "nginx".toList, age := 1,
    listeners := [{ name := "http".toList, port := 80, host := [], fromAll := true }] }

def wRoute (name : String) (gw : String) (svc : String) : RouteR :=
  { ns := "app", name := name, age := 2, parents := [{ ns := "default".toList, name := gw.toList, sectionName := none }],
    hostnames := [],
    rules := [{ ms := [{ exact := false, path := "/".toList, method := [], headers := [], query := [] }],
                action := .forward [⟨none, none, none, svc, some 80, none, 0⟩] }],
    valid := true }

/-- `app/web` is referenced by the attached route; `app/idle` exists but nobody names it; `app/elsewhere` is named only
by a route of a Gateway that does not exist -/
def wC : ScenarioR :=
  { cls := "nginx".toList, ctlr := "ctl".toList, classes := [⟨"nginx".toList, "ctl".toList⟩], gateways := [wGw],
    routes := [wRoute "hr" "gw" "web", wRoute "other" "no-such-gw" "elsewhere"],
    services := [⟨"app", "web", [80]⟩, ⟨"app", "idle", [80]⟩, ⟨"app", "elsewhere", [80]⟩], grants := [] }

#guard referencedServices wC == [("app", "web")]
#guard confTargets (genR wC) == [("app_web_80".toList, 10000)]
-- unreferenced Services (never named / named by an unattached route only): delete or re-port them, nothing changes
#guard confTargets (genR { wC with services := deleteSvc wC.services "app" "idle" }) == confTargets (genR wC)
#guard confTargets (genR { wC with services := upsertSvc wC.services ⟨"app", "elsewhere", [9090]⟩ }) == confTargets (genR wC)
-- CONVERSE WITNESS: the referenced Service's deletion (or losing the port) is judged relevant and changes the configuration
#guard confTargets (genR { wC with services := deleteSvc wC.services "app" "web" }) == [(invalidBackendRef, 10000)]
#guard confTargets (genR { wC with services := upsertSvc wC.services ⟨"app", "web", [8080]⟩ }) == [(invalidBackendRef, 10000)]
#guard NGF.Store.verdict svcOps svcRel (some (buildR wC)) wC { kind := (), key := ("app", "web"), obj := none } == true
#guard NGF.Store.verdict svcOps svcRel (some (buildR wC)) wC { kind := (), key := ("app", "idle"), obj := none } == false
#guard NGF.Store.verdict svcOps svcRel (some (buildR wC)) wC
    { kind := (), key := ("app", "elsewhere"), obj := some ⟨"app", "elsewhere", [9090]⟩ } == false

/-- the witness at the level `decide` reaches: the resolved backend of the attached route flips from valid to invalid -/
theorem referenced_service_deletion_changes_backend :
    (resolveRef wC.grants wC.services "app" ⟨none, none, none, "web", some 80, none, 0⟩).valid = true ∧
    (resolveRef wC.grants (deleteSvc wC.services "app" "web") "app" ⟨none, none, none, "web", some 80, none, 0⟩).valid = false := by
  decide

end NGF.PipelineRefs
