/-
C20 — property theorems for the command-line validation model (`NGF.Model.Cli`), instantiated with
the constants the translator reads from the current sources (`genCfg`).  The same definitions are run
by the driver (`NGF.Driver.C20`) against the real validators.

  accepts every documented value : `endpoint_accepts_*`, `endpointopt_accepts_*`, `ipv4_quad_is_host`,
      `dns_labels_is_host`, `ipv6_full_is_host`, `ipv6_mixed_is_host`, `ipv6_compressed_is_host`,
      `ipv6_compressed_mixed_is_host`, `resource_name_iff`, `namespace_name_iff`, `namespaced_name_iff`,
      `controller_name_accepts_documented`, `port_flag_accepts_documented`
  nothing unsafe                  : `endpoint_accepted_safe`, `endpointopt_accepted_lexically_safe`,
      `endpointopt_accepted_nginx_addr` (FULL STRENGTH since the fixes 746dbb2 + 15df172),
      `prefix_accepts_non_nginx_addr`, `current_refuses_prefix_witnesses`, `bare_ipv6_needs_the_generator_brackets`
      (regression detectors for the two fix commits), `mgmt_conf_addresses`,
      `resource_name_safe`, `controller_name_sound`, `port_flag_sound`, `resolver_line_one_argument`,
      `usage_report_line_one_argument`, `mgmt_conf_verbatim`
  conflicts rejected before start : `collisions_iff_nodup`, `static_port_collision_rejected`,
      `static_validated_sound`, `static_validated_values_safe`, `plus_secret_check_unreachable`
  facts                           : `cfg_documented`, `facts_pinned`, `mgmt_template_pinned`
-/
import NGF.Model.Cli
import NGF.Model.CliCfg
import NGF.Model.CliJudge
import NGF.Proofs.Cli
import NGF.Proofs.CliNginx
import NGF.Proofs.CliV6
import NGF.Generated.CliFacts

namespace NGF.Cli
open NGF.CliSpec

/-! ### facts regenerated from the sources -/

/-- the constants of the sources are the documented ones (bit size ≥ 17 keeps 65535 representable) -/
theorem cfg_documented :
    genCfg.epBits ≥ 17 ∧ genCfg.epBits ≤ 64 ∧ genCfg.epLo = 1 ∧ genCfg.epHi = 65535 ∧
    genCfg.optBits ≥ 17 ∧ genCfg.optBits ≤ 64 ∧ genCfg.optLo = 1 ∧ genCfg.optHi = 65535 ∧
    genCfg.intBits ≥ 17 ∧ genCfg.portLo = 1024 ∧ genCfg.portHi = 65535 ∧
    genCfg.domain = documentedDomain := by decide

/-- which validator guards which flag, the order of the checks in `RunE`, the wiring of the two
usage-report values into the mgmt template, and `Set` storing the parameter unmodified -/
theorem facts_pinned :
    NGF.Generated.Cli.controllerNameRegex =
      "^[a-z0-9]([-a-z0-9]*[a-z0-9])?(\\.[a-z0-9]([-a-z0-9]*[a-z0-9])?)*\\/[A-Za-z0-9\\/\\-._~%!$&'()*+,;=:]+$" ∧
    NGF.Generated.Cli.flagGuards =
      ["config=stringValidatingValue:validateResourceName",
       "gateway-ctlr-name=stringValidatingValue:validateGatewayControllerName",
       "gateway=namespacedNameValue:parseNamespacedResourceName",
       "gatewayclass=stringValidatingValue:validateResourceName",
       "health-port=intValidatingValue:validatePort",
       "leader-election-lock-name=stringValidatingValue:validateResourceName",
       "metrics-port=intValidatingValue:validatePort",
       "service=stringValidatingValue:validateResourceName",
       "usage-report-ca-secret=stringValidatingValue:validateResourceName",
       "usage-report-client-ssl-secret=stringValidatingValue:validateResourceName",
       "usage-report-endpoint=stringValidatingValue:validateEndpointOptionalPort",
       "usage-report-resolver=stringValidatingValue:validateEndpointOptionalPort",
       "usage-report-secret=stringValidatingValue:validateResourceName"] ∧
    NGF.Generated.Cli.flagDefaults =
      ["healthListenPort=8081", "leaderElectionLockName=\"nginx-gateway-leader-election-lock\"",
       "metricsListenPort=9113", "usageReportSecretName=\"nplus-license\""] ∧
    NGF.Generated.Cli.runEOrder =
      ["ensureNoPortCollisions(metricsListenPort.value, healthListenPort.value)",
       "validateEndpoint(telemetryEndpoint)",
       "plus && usageReportSecretName.value == \"\"",
       "createGatewayPodConfig",
       "static.StartManager"] ∧
    NGF.Generated.Cli.usageReportWiring =
      ["SecretName: usageReportSecretName.value", "ClientSSLSecretName: usageReportClientSSLSecretName.value",
       "CASecretName: usageReportCASecretName.value", "Endpoint: usageReportEndpoint.value",
       "Resolver: usageReportResolver.value", "SkipVerify: usageReportSkipVerify"] ∧
    NGF.Generated.Cli.mgmtConfWiring =
      ["Endpoint: nginxAddr(g.usageReportConfig.Endpoint)", "Resolver: nginxAddr(g.usageReportConfig.Resolver)",
       "LicenseTokenFile: tokenFile.Path", "SkipVerify: g.usageReportConfig.SkipVerify"] ∧
    NGF.Generated.Cli.nginxAddrBody =
      ["if strings.Contains(v, \":\") && net.ParseIP(v) != nil { return \"[\" + v + \"]\" }", "return v"] ∧
    NGF.Generated.Cli.validateEndpointOptionalPortBody =
      ["if len(value) == 0 { return errors.New(\"must be set\") }",
       "host, port, err := net.SplitHostPort(value)",
       "if err != nil && (!strings.Contains(err.Error(), \"missing port\") && !strings.Contains(err.Error(), \"too many colons\")) { return fmt.Errorf(\"error splitting %q into host and port: %w\", value, err) }",
       "if err == nil { if port == \"\" || port[0] == '+' || port[0] == '-' { return fmt.Errorf(\"port must be a valid number: %q\", port) } if strings.HasPrefix(value, \"[\") && !strings.Contains(host, \":\") { return fmt.Errorf(\"%q: only IPv6 addresses may be enclosed in brackets\", value) } if host == \"unix\" { return fmt.Errorf(\"%q: NGINX reads the host name \\\"unix\\\" followed by a colon as a unix socket\", value) } portVal, err := strconv.ParseInt(port, 10, 32) if err != nil { return fmt.Errorf(\"port must be a valid number: %w\", err) } if portVal < 1 || portVal > 65535 { return fmt.Errorf(\"port outside of valid port range [1 - 65535]: %v\", port) } }",
       "if host == \"\" { host = value }",
       "if err := validateIP(host); err == nil { return nil }",
       "if errs := validation.IsDNS1123Subdomain(host); len(errs) == 0 { return nil }",
       "return fmt.Errorf(\"%q must be a domain name or IP address with optional port\", value)"] ∧
    NGF.Generated.Cli.validateEndpointBody =
      ["host, port, err := net.SplitHostPort(endpoint)",
       "if err != nil { return fmt.Errorf(\"%q must be in the format <host>:<port>: %w\", endpoint, err) }",
       "portVal, err := strconv.ParseInt(port, 10, 32)",
       "if err != nil { return fmt.Errorf(\"port must be a valid number: %w\", err) }",
       "if portVal < 1 || portVal > 65535 { return fmt.Errorf(\"port outside of valid port range [1 - 65535]: %v\", port) }",
       "if err := validateIP(host); err == nil { return nil }",
       "if errs := validation.IsDNS1123Subdomain(host); len(errs) == 0 { return nil }",
       "return fmt.Errorf(\"%q must be in the format <host>:<port>\", endpoint)"] ∧
    NGF.Generated.Cli.stringSetBody =
      ["if err := v.validator(param); err != nil { return err }", "v.value = param", "return nil"] := by
  refine ⟨rfl, rfl, rfl, rfl, rfl, rfl, rfl, rfl, rfl, rfl⟩

/-- the holes of the mgmt template that receive flag values: both are bare arguments terminated by ';' -/
theorem mgmt_template_pinned :
    NGF.Generated.Cli.mgmtHoles =
      ["usage_report endpoint={{.Endpoint}}", "resolver {{.Resolver}}", "license_token {{.LicenseTokenFile}}",
       "ssl_trusted_certificate {{.CACertFile}}", "ssl_certificate {{.ClientSSLCertFile}}",
       "ssl_certificate_key {{.ClientSSLKeyFile}}"] ∧
    NGF.Generated.Cli.mgmtTemplate =
      "\nmgmt {\n\t{{- if .Endpoint }}\n\tusage_report endpoint={{ .Endpoint }};\n\t{{- end }}\n\t{{- if .Resolver }}\n\tresolver {{ .Resolver }};\n\t{{- end }}\n\tlicense_token {{ .LicenseTokenFile }};\n\tdeployment_context /etc/nginx/main-includes/deployment_ctx.json;\n\t{{- if .SkipVerify }}\n\tssl_verify off;\n\t{{- end }}\n\t{{- if .CACertFile }}\n\tssl_trusted_certificate {{ .CACertFile }};\n\t{{- end }}\n\t{{- if and .ClientSSLCertFile .ClientSSLKeyFile }}\n\tssl_certificate {{ .ClientSSLCertFile }};\n\tssl_certificate_key {{ .ClientSSLKeyFile }};\n\t{{- end }}\n}\n" :=
  ⟨rfl, rfl⟩

/-! ### every documented value is accepted -/

/-- `<host>:<port>` for EVERY host the validator's own host test admits without a colon (dotted IPv4,
DNS-1123 subdomain) and EVERY port 1..65535 in decimal -/
theorem endpoint_accepts_all_ports (h : Str) (p : Nat) (hk : hostOK h = true) (hc : ':' ∉ h)
    (h1 : 1 ≤ p) (h2 : p ≤ 65535) : validateEndpoint genCfg (h ++ ':' :: Nat.toDigits 10 p) = .ok :=
  validateEndpoint_plain (cfg := genCfg) (by decide) (by decide) hk hc
    (by have : genCfg.epLo = 1 := by decide
        omega) (by have : genCfg.epHi = 65535 := by decide
                   omega)

/-- `[<ip>]:<port>` for every IP literal (in particular every IPv6 literal) and every port 1..65535 -/
theorem endpoint_accepts_all_ports_bracketed (h : Str) (p : Nat) (hk : hostOK h = true)
    (h1 : 1 ≤ p) (h2 : p ≤ 65535) :
    validateEndpoint genCfg ('[' :: (h ++ ']' :: ':' :: Nat.toDigits 10 p)) = .ok :=
  validateEndpoint_bracket (cfg := genCfg) (by decide) (by decide) hk
    (by have : genCfg.epLo = 1 := by decide
        omega) (by have : genCfg.epHi = 65535 := by decide
                   omega)

theorem endpointopt_accepts_all_ports (h : Str) (p : Nat) (hk : hostOK h = true) (hc : ':' ∉ h)
    (hu : h ≠ "unix".toList) (h1 : 1 ≤ p) (h2 : p ≤ 65535) :
    validateEndpointOptionalPort genCfg (h ++ ':' :: Nat.toDigits 10 p) = .ok :=
  validateOpt_plain (cfg := genCfg) (by decide) (by decide) hk hc hu
    (by have : genCfg.optLo = 1 := by decide
        omega) (by have : genCfg.optHi = 65535 := by decide
                   omega)

theorem endpointopt_accepts_all_ports_bracketed (h : Str) (p : Nat) (hk : hostOK h = true) (hc : ':' ∈ h)
    (h1 : 1 ≤ p) (h2 : p ≤ 65535) :
    validateEndpointOptionalPort genCfg ('[' :: (h ++ ']' :: ':' :: Nat.toDigits 10 p)) = .ok :=
  validateOpt_bracket (cfg := genCfg) (by decide) (by decide) hk hc
    (by have : genCfg.optLo = 1 := by decide
        omega) (by have : genCfg.optHi = 65535 := by decide
                   omega)

/-- a host without port (dotted IPv4 or DNS name) is accepted by the optional-port validator -/
theorem endpointopt_accepts_bare_host (h : Str) (hk : hostOK h = true) (hc : ':' ∉ h) :
    validateEndpointOptionalPort genCfg h = .ok := validateOpt_bare hk hc

/-- … and so is every IPv6 literal without brackets (the repo's tests document it as valid; the generator
adds the brackets) -/
theorem endpointopt_accepts_bare_ipv6 (h : Str) (hp : parseIP h = true) (hc : ':' ∈ h) :
    validateEndpointOptionalPort genCfg h = .ok := bare_v6_accepted hp hc

/-- the only host name the stricter validator gives up: `unix:<port>`, which NGINX would read as a socket path -/
theorem endpointopt_unix_host_refused :
    validateEndpointOptionalPort genCfg "unix:53".toList = .unix ∧
    validateEndpointOptionalPort genCfg "unix".toList = .ok ∧
    validateEndpoint genCfg "unix:53".toList = .ok := by decide

/-- the hosts of the statements above are not vacuous: every dotted quad … -/
theorem ipv4_quad_is_host (a b c d : Nat) (ha : a < 256) (hb : b < 256) (hc : c < 256) (hd : d < 256) :
    let s := joinC '.' [Nat.toDigits 10 a, Nat.toDigits 10 b, Nat.toDigits 10 c, Nat.toDigits 10 d]
    hostOK s = true ∧ ':' ∉ s :=
  ⟨hostOK_of_v4 (isV4_quad ha hb hc hd), isV4_no_colon (isV4_quad ha hb hc hd)⟩

/-- … and every DNS name made of RFC 1123 labels with at most 253 bytes -/
theorem dns_labels_is_host (ls : List Str) (hne : ls ≠ []) (hl : ∀ l ∈ ls, labelRe l = true)
    (hlen : (joinC '.' ls).length ≤ 253) :
    hostOK (joinC '.' ls) = true ∧ ':' ∉ joinC '.' ls :=
  ⟨hostOK_of_dns (subdomain_of_labels hne hl hlen), dns_no_colon (subdomain_of_labels hne hl hlen)⟩

/-- … and every RFC 4291 §2.2 text form of an IPv6 address (used between brackets with
`endpoint_accepts_all_ports_bracketed`; `g` ranges over groups of 1-4 hex digits, `q` over dotted quads):
x:x:x:x:x:x:x:x -/
theorem ipv6_full_is_host (gs : List Str) (hg : ∀ g ∈ gs, hexGroupOK g = true) (hlen : gs.length = 8) :
    hostOK (joinC ':' gs) = true := hostOK_v6_full hg hlen

/-- x:x:x:x:x:x:d.d.d.d -/
theorem ipv6_mixed_is_host (gs : List Str) (q : Str) (hg : ∀ g ∈ gs, hexGroupOK g = true)
    (hlen : gs.length = 6) (hq : isV4 q = true) : hostOK (joinC ':' (gs ++ [q])) = true :=
  hostOK_v6_full_v4 hg hlen hq

/-- l::r with at most seven groups in total (either side may be empty: `::`, `::1`, `fe80::`) -/
theorem ipv6_compressed_is_host (l r : List Str) (hl : ∀ g ∈ l, hexGroupOK g = true)
    (hr : ∀ g ∈ r, hexGroupOK g = true) (hlen : l.length + r.length ≤ 7) :
    hostOK (joinC ':' l ++ ':' :: ':' :: joinC ':' r) = true := hostOK_v6_compressed hl hr hlen

/-- l::r:d.d.d.d with at most five groups (`::ffff:1.2.3.4`, `::1.2.3.4`) -/
theorem ipv6_compressed_mixed_is_host (l r : List Str) (q : Str) (hl : ∀ g ∈ l, hexGroupOK g = true)
    (hr : ∀ g ∈ r, hexGroupOK g = true) (hq : isV4 q = true) (hlen : l.length + r.length ≤ 5) :
    hostOK (joinC ':' l ++ ':' :: ':' :: joinC ':' (r ++ [q])) = true :=
  hostOK_v6_compressed_v4 hl hr hq hlen

example : joinC ':' ["2001".toList, "db8".toList] ++ ':' :: ':' :: joinC ':' ["1".toList] = "2001:db8::1".toList := by
  decide
example : hexGroupOK "2001".toList = true ∧ hexGroupOK "db8".toList = true ∧ hexGroupOK "FFFF".toList = true := by
  decide

example : validateEndpoint genCfg "example.com:65535".toList = .ok := by decide
example : validateEndpoint genCfg "[2001:db8::1]:32768".toList = .ok := by decide
example : validateEndpointOptionalPort genCfg "10.0.0.1".toList = .ok := by decide
example : hostOK "2001:db8::ffff:1.2.3.4".toList = true := by decide

/-- decimal parsing, precisely: one optional sign, digits only (no `_`, no `0x`), leading zeros allowed -/
theorem port_text_forms :
    validateEndpoint genCfg "h:+80".toList = .ok ∧ validateEndpoint genCfg "h:0080".toList = .ok ∧
    validateEndpoint genCfg "h:8_0".toList = .portnum ∧ validateEndpoint genCfg "h:0x50".toList = .portnum ∧
    validateEndpoint genCfg "h:".toList = .portnum ∧ validateEndpoint genCfg "h:0".toList = .portrange ∧
    validateEndpoint genCfg "h:65536".toList = .portrange ∧ validateEndpoint genCfg "h:-1".toList = .portrange ∧
    validateEndpoint genCfg "h: 80".toList = .portnum ∧ validateEndpoint genCfg "h:4294967296".toList = .portnum := by
  decide

theorem resource_name_iff (s : Str) : validateResourceName s = .ok ↔ isDNS1123Subdomain s = true :=
  validateResourceName_iff

theorem namespace_name_iff (s : Str) : validateNamespaceName s = .ok ↔ isDNS1123Label s = true :=
  validateNamespaceName_iff

theorem namespaced_name_iff (s : Str) : parseNamespacedResourceName s = .ok ↔ docNamespacedName s = true :=
  parseNamespacedResourceName_iff

/-- `DOMAIN/PATH` with the controller's domain and any non-empty path over the Gateway API alphabet -/
theorem controller_name_accepts_documented (path : Str) (hp : path ≠ [])
    (hc : path.all isCtlrPathChar = true) :
    validateGatewayControllerName genCfg (documentedDomain ++ '/' :: path) = .ok := by
  have := ctlr_accepts (cfg := genCfg) (path := path) (by decide) (by decide) hp hc
  rwa [cfg_documented.2.2.2.2.2.2.2.2.2.2.2] at this

/-- the port flags accept every canonical decimal in [1024, 65535] -/
theorem port_flag_accepts_documented (p : Nat) (h1 : 1024 ≤ p) (h2 : p ≤ 65535) :
    intFlagSet genCfg (Nat.toDigits 10 p) = some (p : Int) := by
  have hp := parseInt_digits (bits := genCfg.intBits) (toDigits_ne_nil p) (toDigits_all_digit p)
    (digitsVal_toDigits p) (by have := two_pow_ge (bits := genCfg.intBits) (by decide); omega)
  have hv : validatePort genCfg (p : Int) = true := by
    have e1 : genCfg.portLo = 1024 := by decide
    have e2 : genCfg.portHi = 65535 := by decide
    simp only [validatePort, e1, e2, Bool.not_eq_true', Bool.or_eq_false_iff, decide_eq_false_iff_not, Int.not_lt]
    omega
  simp [intFlagSet, hp, hv]

/-! ### nothing unsafe is accepted -/

/-- everything `validateEndpoint` accepts is `<host>:<port>` with a non-empty IP/DNS host and a port
value in 1..65535, and consists only of bytes that are ordinary in a bare NGINX argument -/
theorem endpoint_accepted_safe (s : Str) (h : validateEndpoint genCfg s = .ok) :
    safeBareArg s = true ∧ endpointWellFormed s = true :=
  ⟨validateEndpoint_safe h, validateEndpoint_wellformed (by decide) (by decide) (by decide) h⟩

/-- everything `validateEndpointOptionalPort` accepts is one bare NGINX token: no white space,
no `; { } " ' $ # \`, not empty -/
theorem endpointopt_accepted_lexically_safe (s : Str) (h : validateEndpointOptionalPort genCfg s = .ok) :
    safeBareArg s = true := validateOpt_safe h

/-- FULL STRENGTH (main theorem since 746dbb2 + 15df172): every value `validateEndpointOptionalPort` accepts
is, after the generator's `nginxAddr` (brackets around a bare IPv6 address), an NGINX `address[:port]` in
the sense of `ngx_parse_url` -/
theorem endpointopt_accepted_nginx_addr (s : Str) (h : validateEndpointOptionalPort genCfg s = .ok) :
    nginxAddrOk (nginxAddr s) = true :=
  validateOpt_nginx_addr (by decide) (by decide) h

example : validateEndpointOptionalPort genCfg "dns.example.com:53".toList = .ok ∧
    nginxAddr "dns.example.com:53".toList = "dns.example.com:53".toList := by decide
example : validateEndpointOptionalPort genCfg "2001:db8::1".toList = .ok ∧
    nginxAddr "2001:db8::1".toList = "[2001:db8::1]".toList := by decide
example : validateEndpointOptionalPort genCfg "[2001:db8::1]:53".toList = .ok := by decide

/-- REGRESSION DETECTORS — the pre-fix validator (`validateEndpointOptionalPortPreFix`, before 746dbb2) and
the pre-fix rendering (verbatim, before 15df172) violate the statement on these witnesses; the current
validator refuses four of them and the current generator brackets the fifth.  Reverting either commit makes
the real code behave like the pre-fix variant again and is reported with the signatures `C20:nginx-addr-*`. -/
theorem prefix_accepts_non_nginx_addr :
    (validateEndpointOptionalPortPreFix genCfg "::1".toList = .ok ∧ nginxAddrOk "::1".toList = false) ∧
    (validateEndpointOptionalPortPreFix genCfg "host:".toList = .ok ∧ nginxAddrOk "host:".toList = false) ∧
    (validateEndpointOptionalPortPreFix genCfg "host:+80".toList = .ok ∧ nginxAddrOk "host:+80".toList = false) ∧
    (validateEndpointOptionalPortPreFix genCfg "[1.2.3.4]:80".toList = .ok ∧ nginxAddrOk "[1.2.3.4]:80".toList = false) ∧
    (validateEndpointOptionalPortPreFix genCfg "unix:53".toList = .ok ∧ nginxAddrOk "unix:53".toList = false) := by
  decide

theorem current_refuses_prefix_witnesses :
    validateEndpointOptionalPort genCfg "host:".toList = .portnum ∧
    validateEndpointOptionalPort genCfg "[::1]:".toList = .portnum ∧
    validateEndpointOptionalPort genCfg "host:+80".toList = .portnum ∧
    validateEndpointOptionalPort genCfg "host:-80".toList = .portnum ∧
    validateEndpointOptionalPort genCfg "[1.2.3.4]:80".toList = .bracket ∧
    validateEndpointOptionalPort genCfg "[example.com]:80".toList = .bracket ∧
    validateEndpointOptionalPort genCfg "unix:53".toList = .unix := by decide

/-- a bare IPv6 literal is still accepted, is not an NGINX address verbatim (why 15df172 was needed), and is one
once bracketed -/
theorem bare_ipv6_needs_the_generator_brackets (h : Str) (hp : parseIP h = true) (hc : ':' ∈ h) :
    validateEndpointOptionalPort genCfg h = .ok ∧ nginxAddrOk h = false ∧ nginxAddrOk (nginxAddr h) = true :=
  ⟨bare_v6_accepted hp hc, bare_v6_not_nginx_addr hp hc, bracketV6_nginx_addr hp hc⟩

/-- still refused (as before the fixes): the bracketed IPv6 spelling without port -/
theorem endpointopt_rejects_bracketed_v6_without_port :
    validateEndpointOptionalPort genCfg "[::1]".toList = .host ∧ nginxAddrOk "[::1]".toList = true := by
  decide

/-- embedded verbatim, a lexically safe value is exactly one argument of its directive -/
theorem resolver_line_one_argument (v : Str) (hs : safeBareArg v = true) :
    parseConf ("\tresolver ".toList ++ v ++ ";\n".toList) = some [.simple ["resolver".toList, v]] :=
  resolver_line_verbatim hs

theorem usage_report_line_one_argument (v : Str) (hs : safeBareArg v = true) :
    parseConf ("\tusage_report endpoint=".toList ++ v ++ ";\n".toList) =
      some [.simple ["usage_report".toList, "endpoint=".toList ++ v]] := by
  simp only [safeBareArg, Bool.and_eq_true] at hs
  exact usage_report_line_verbatim hs.2

/-- the whole file: for accepted (or absent) endpoint and resolver values the text `generateMgmtFiles`
produces (`renderMgmt` = template ∘ `nginxAddr`, compared with the real generator's output on every run)
parses to exactly the intended directives, each value (bracketed if a bare IPv6 address) being one argument -/
theorem mgmt_conf_verbatim (ep res : Str)
    (hep : ep = [] ∨ validateEndpointOptionalPort genCfg ep = .ok)
    (hres : res = [] ∨ validateEndpointOptionalPort genCfg res = .ok) :
    mgmtConfOK (renderMgmt ep res) (nginxAddr ep) (nginxAddr res) = true :=
  mgmtConfOK_generated (hep.imp id validateOpt_safe) (hres.imp id validateOpt_safe)

/-- … and both arguments are NGINX addresses -/
theorem mgmt_conf_addresses (ep res : Str)
    (hep : validateEndpointOptionalPort genCfg ep = .ok) (hres : validateEndpointOptionalPort genCfg res = .ok) :
    nginxAddrOk (nginxAddr ep) = true ∧ nginxAddrOk (nginxAddr res) = true :=
  ⟨endpointopt_accepted_nginx_addr ep hep, endpointopt_accepted_nginx_addr res hres⟩

example : renderMgmt "a:1".toList "::1".toList =
    "\nmgmt {\n\tusage_report endpoint=a:1;\n\tresolver [::1];\n\tlicense_token /etc/nginx/secrets/license.jwt;\n\tdeployment_context /etc/nginx/main-includes/deployment_ctx.json;\n}\n".toList := by
  decide +kernel

/-- an accepted resource name is a legal Kubernetes object name and a safe token -/
theorem resource_name_safe (s : Str) (h : validateResourceName s = .ok) :
    isDNS1123Subdomain s = true ∧ s.length ≤ 253 ∧ safeBareArg s = true := by
  have hd := validateResourceName_iff.mp h
  refine ⟨hd, ?_, subdomain_safe hd⟩
  simp only [isDNS1123Subdomain, Bool.and_eq_true, decide_eq_true_eq] at hd
  exact hd.1

/-- only `gateway.nginx.org/<path>` over the Gateway API alphabet is accepted as controller name -/
theorem controller_name_sound (s : Str) (h : validateGatewayControllerName genCfg s = .ok) :
    ∃ path, s = documentedDomain ++ '/' :: path ∧ path ≠ [] ∧ path.all isCtlrPathChar = true := by
  have := ctlr_sound h
  rwa [cfg_documented.2.2.2.2.2.2.2.2.2.2.2] at this

/-- a port flag that was accepted holds a value in [1024, 65535] -/
theorem port_flag_sound (s : Str) (p : Int) (h : intFlagSet genCfg s = some p) : 1024 ≤ p ∧ p ≤ 65535 := by
  have hv := intFlagSet_some h
  have e1 : genCfg.portLo = 1024 := by decide
  have e2 : genCfg.portHi = 65535 := by decide
  simp only [validatePort, e1, e2, Bool.not_eq_true', Bool.or_eq_false_iff, decide_eq_false_iff_not, Int.not_lt] at hv
  omega

/-! ### conflicting settings are rejected before anything is started -/

theorem collisions_iff_nodup (ps : List Int) : noCollisions ps = true ↔ ps.Nodup := noCollisions_iff

theorem initFlags_ok : FlagsOK genCfg initFlags := by
  constructor <;> first | decide | (intro v hv; simp [initFlags] at hv)

/-- whatever the command line: if the last values of --metrics-port and --health-port coincide, `RunE`
never reaches the statement that starts the manager -/
theorem static_port_collision_rejected (te ti : Str) (args : List (Flag × Str)) (st : Flags)
    (ha : applyFlags genCfg initFlags 0 args = .ok st) (hc : st.metricsPort = st.healthPort) :
    ∀ st', runStatic genCfg te ti args ≠ .validated st' :=
  NGF.Cli.static_collision_rejected (cfg := genCfg) ha hc

/-- what holds when `RunE` reaches the start of the manager -/
theorem static_validated_sound (te ti : Str) (args : List (Flag × Str)) (st : Flags)
    (h : runStatic genCfg te ti args = .validated st) :
    st.ctlrName.isSome = true ∧ st.gatewayClass.isSome = true ∧ st.metricsPort ≠ st.healthPort ∧
    (st.plus = true → st.urSecret ≠ []) ∧ (te ≠ [] → validateEndpoint genCfg te = .ok) := by
  obtain ⟨_, a, b, c, d, e, _⟩ := runStatic_validated h
  exact ⟨a, b, c, d, e⟩

/-- … and every flag value the manager is started with passed its validator; in particular the two
values that reach the mgmt block are empty (directive omitted) or single safe tokens -/
theorem static_validated_values_safe (te ti : Str) (args : List (Flag × Str)) (st : Flags)
    (h : runStatic genCfg te ti args = .validated st) :
    FlagsOK genCfg st ∧ (st.urEndpoint = [] ∨ safeBareArg st.urEndpoint = true) ∧
    (st.urResolver = [] ∨ safeBareArg st.urResolver = true) := by
  have hk := applyFlags_ok (runStatic_validated h).1 initFlags_ok
  exact ⟨hk, hk.ep.imp id validateOpt_safe, hk.res.imp id validateOpt_safe⟩

/-- the explicit `--nginx-plus` without secret check can never fire: the secret flag has a non-empty
default and refuses the empty string -/
theorem plus_secret_check_unreachable (te ti : Str) (args : List (Flag × Str)) :
    runStatic genCfg te ti args ≠ .plusSecret := by
  intro h
  unfold runStatic at h
  cases ha : applyFlags genCfg initFlags 0 args with
  | error i => simp [ha] at h
  | ok st =>
    have hk := applyFlags_ok ha initFlags_ok
    have hne : st.urSecret.isEmpty = false := by
      have := hk.secret
      simp only [isDNS1123Subdomain, Bool.and_eq_true] at this
      have := (subdomainRe_chars this.2).1
      cases hs : st.urSecret <;> simp_all
    simp only [ha] at h
    split at h
    · simp at h
    · unfold runE at h
      simp only [hne, Bool.and_false, Bool.false_eq_true, if_false] at h
      repeat' split at h
      all_goals simp at h

example : runStatic genCfg [] "false".toList
    [(.ctlrName, "gateway.nginx.org/x".toList), (.gatewayClass, "nginx".toList),
     (.metricsPort, "9000".toList), (.healthPort, "9000".toList)] = .collision := by decide

end NGF.Cli
