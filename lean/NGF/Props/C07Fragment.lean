/-
C07, fragment stage — status truth as THEOREMS over one model: the statuses are computed by `NGF.Model.PipelineStatus` from the
SAME `Pipeline.Scenario` that `Pipeline.gen` turns into the NGINX configuration (`Conf`), so "Accepted ⇔ served",
"attachedRoutes = bound routes", "one entry per parentRef" and "no Gateway ⇒ no status" are statements about
`routeParentStatuses` / `listenerStatuses` on one side and `acceptedAt` / `entries` / `hostsOf` / `serverOf` / `gen` on the other.
Both sides are tied to the real code on the same generated scenarios: `gen` by C02's translation validation
(`PipelineTie`), the statuses by the fragment stream of `props/c07.py` (`PipelineStatusTie.compareFragment`).
Helper lemmas: NGF/Proofs/PipelineStatus.lean; the decision core of status preparation: NGF/Props/C07.lean.
-/
import NGF.Props.C07
import NGF.Proofs.PipelineStatus
import NGF.Proofs.PipelineStatusLoc
import NGF.Proofs.PipelineStatusExpected
import NGF.Generated.ConditionFacts
import NGF.Generated.BindingFacts

namespace NGF.PipelineStatus
open NGF.Pipeline
open NGF.StatusPrep (hasCond)

/-! ## the entries of a route are the entries of its parentRefs, in parentRef order -/

/-- `one_entry_per_parent_fragment`: a route gets exactly one entry per parentRef that names a Gateway of our class (the
served one or an ignored one), in parentRef order, carrying that parentRef's (namespace, name, sectionName), our controller
name and the route's generation; parentRefs to anything else get no entry, and a route with no such parentRef gets no status
request at all. (`noDupRefs` excludes the known finding duplicate-parentref; see `duplicate_parentref_no_entries`.) -/
theorem one_entry_per_parent_fragment (s : Scenario) (gw : Gateway) (v e : Bool) (n : Int) (r : Route)
    (hgg : graphGateway s = some (gw, v)) (hnd : noDupRefs s r = true) :
    (r.parents.filter (namesOurs s) = [] → routeParentStatuses s e n r = none) ∧
    (r.parents.filter (namesOurs s) ≠ [] →
      routeParentStatuses s e n r = some ((r.parents.filter (namesOurs s)).map (parentStatus s gw v e n r)) ∧
      ((r.parents.filter (namesOurs s)).map (parentStatus s gw v e n r)).map (fun x => (x.ns, x.name, x.sectionName)) =
        (r.parents.filter (namesOurs s)).map (fun p => (str p.ns, str p.name, p.sectionName.map str)) ∧
      ∀ x ∈ (r.parents.filter (namesOurs s)).map (parentStatus s gw v e n r),
        x.controller = str s.ctlr ∧ ∀ a ∈ x.conds, a.gen = n) := by
  have hrefs := sectionNameRefs_of_noDup hnd
  constructor
  · intro hnil
    simp [routeParentStatuses, hgg, hrefs, hnil]
  · intro hne
    refine ⟨?_, ?_, ?_⟩
    · unfold routeParentStatuses
      simp only [hgg, hrefs]
      cases hf : r.parents.filter (namesOurs s) with
      | nil => exact absurd hf hne
      | cons x xs =>
        simp [NGF.StatusPrep.prepareRouteStatus, parentStatus, Function.comp_def]
    · simp [parentStatus, NGF.StatusPrep.prepareParent, toPrepRef, Function.comp_def]
    · intro x hx
      obtain ⟨p, _, rfl⟩ := List.mem_map.mp hx
      exact ⟨rfl, fun a ha => NGF.StatusPrep.convert_gen ha⟩

/-- the served Gateway: the entries are those of `parentStatus s g true …` -/
theorem statuses_of_served_gateway (s : Scenario) (g : Gateway) (e : Bool) (n : Int) (r : Route)
    (hw : winner s = some g) (hnd : noDupRefs s r = true) (hne : r.parents.filter (namesOurs s) ≠ []) :
    routeParentStatuses s e n r = some ((r.parents.filter (namesOurs s)).map (parentStatus s g true e n r)) :=
  ((one_entry_per_parent_fragment s g true e n r (graphGateway_of_winner hw) hnd).2 hne).1

/-- WITNESS of the excluded region (known finding C07:entries:missing:duplicate-parentref): two parentRefs naming the served
Gateway with the same section name ⇒ the route gets a status with NO parent entry -/
theorem duplicate_parentref_no_entries :
    ∃ (s : Scenario) (r : Route), noDupRefs s r = false ∧ (∃ g, winner s = some g) ∧ routeParentStatuses s false 1 r = some [] :=
  ⟨{ cls := ['n'], ctlr := ['c'], classes := [⟨['n'], ['c']⟩],
     gateways := [⟨['d'], ['g'], ['n'], 0, [⟨['l'], 80, [], true⟩]⟩], routes := [] },
   { ns := ['d'], name := ['r'], age := 1, parents := [⟨['d'], ['g'], none⟩, ⟨['d'], ['g'], none⟩], hostnames := [], rules := [],
     valid := true },
   by decide, ⟨⟨['d'], ['g'], ['n'], 0, [⟨['l'], 80, [], true⟩]⟩, by decide⟩, by decide⟩

/-! ## Accepted -/

/-- the decision core on the fragment: an entry says Accepted=True exactly when the reload succeeded, the route is valid and
the parentRef's attachment succeeded (composition of `StatusPrep.accepted_iff_attached` with `routeConds` / `attachment`) -/
theorem parent_accepted_iff (s : Scenario) (gw : Gateway) (v e : Bool) (n : Int) (r : Route) (p : Parent) :
    acceptedTrue (parentStatus s gw v e n r p) = true ↔
      e = false ∧ r.valid = true ∧ (attachment gw v r p).attached = true := by
  unfold acceptedTrue parentStatus
  rw [NGF.StatusPrep.acceptedTrue_any,
    NGF.StatusPrep.accepted_iff_attached _ _ _ (routeConds_condsFalse "Accepted" r) (toPrepRef_wf gw v r p),
    routeConds_no_accepted]
  simp [toPrepRef, and_comm]

/-- `accepted_iff_served_fragment`, graph level: the entry of parentRef `p` of a VALID route reports Accepted=True (reload ok)
⇔ `p` names the served Gateway and some listener it selects has `acceptedAt g l r ≠ []` -/
theorem accepted_iff_attached_fragment (s : Scenario) (g : Gateway) (n : Int) (r : Route) (p : Parent)
    (hg : gatewayOK g = true) (hpo : parentsOK r = true) (hp : p ∈ r.parents) (hv : r.valid = true) :
    acceptedTrue (parentStatus s g true false n r p) = true ↔
      names g p = true ∧ ∃ l ∈ g.listeners, selects p l = true ∧ acceptedAt g l r ≠ [] := by
  rw [parent_accepted_iff, ← boundListeners_ne_nil]
  simp only [hv, true_and]
  have hps := parentsOK_spec hpo hp
  have hu := listener_names_unique hg
  constructor
  · intro hne
    cases hb : boundListeners g true r p with
    | nil => exact absurd hb hne
    | cons l ls =>
      have hl : l ∈ boundListeners g true r p := by rw [hb]; exact List.mem_cons_self
      obtain ⟨h1, h2, h3, h4⟩ := (bound_iff_acceptedAt hps hu hp).mp hl
      exact ⟨h2, l, h1, h3, h4⟩
  · rintro ⟨hn, l, hl, hs, ha⟩ hnil
    have : l ∈ boundListeners g true r p := (bound_iff_acceptedAt hps hu hp).mpr ⟨hl, hn, hs, ha⟩
    rw [hnil] at this
    cases this

/-- an invalid route never reports Accepted=True, a failed reload neither -/
theorem invalid_route_not_accepted (s : Scenario) (gw : Gateway) (v e : Bool) (n : Int) (r : Route) (p : Parent)
    (h : r.valid = false ∨ e = true) : acceptedTrue (parentStatus s gw v e n r p) = false := by
  rw [Bool.eq_false_iff]
  intro ha
  obtain ⟨h1, h2, _⟩ := (parent_accepted_iff s gw v e n r p).mp ha
  rcases h with h | h
  · rw [h] at h2; cases h2
  · rw [h] at h1; cases h1

/-! ## Accepted ⇔ served, down to the generated configuration -/

/-- entry level: for a valid route with at least one rule and match, the entry of parentRef `p` reports
Accepted=True ⇔ `p` names the served Gateway and, for some listener `l` it selects and some hostname `h` accepted there,
the generated configuration `gen s` has the server (`l.port`, `h`) — built by `serverOf` from `entries` — and `entries` holds
the match rule of that route's match `m` (its key, its action) for exactly that port and server name. -/
theorem accepted_iff_entries_fragment (s : Scenario) (g : Gateway) (n : Int) (r : Route) (p : Parent)
    (hw : winner s = some g) (hg : gatewayOK g = true) (hpo : parentsOK r = true) (hr : r ∈ s.routes) (hp : p ∈ r.parents)
    (hv : r.valid = true) (rule : Rule) (hrule : rule ∈ r.rules) (m : Match) (hm : m ∈ rule.ms) :
    acceptedTrue (parentStatus s g true false n r p) = true ↔
      names g p = true ∧ ∃ l ∈ g.listeners, selects p l = true ∧ ∃ h ∈ acceptedAt g l r,
        (∃ sv ∈ (Pipeline.gen s).servers, sv.port = l.port ∧ sv.name = h ∧ sv.locs = (serverOf (entries g s.routes) l.port h).locs) ∧
        ∃ e ∈ entries g s.routes, e.port = l.port ∧ e.host = h ∧ e.m = m ∧ e.key = keyOf r m ∧ e.action = rule.action := by
  rw [accepted_iff_attached_fragment s g n r p hg hpo hp hv]
  constructor
  · rintro ⟨hn, l, hl, hs, ha⟩
    cases hacc : acceptedAt g l r with
    | nil => exact absurd hacc ha
    | cons h hs' =>
      have hh : h ∈ acceptedAt g l r := by rw [hacc]; exact List.mem_cons_self
      refine ⟨hn, l, hl, hs, h, hh, ⟨serverOf (entries g s.routes) l.port h, ?_, rfl, rfl, rfl⟩, ?_⟩
      · rw [servers_of_winner hw]
        exact List.mem_map.mpr ⟨(l.port, h), mem_hostsOf_of hl hr hv hh, rfl⟩
      · exact ⟨_, mem_entries_of hl hr hv hh hrule hm, rfl, rfl, rfl, rfl, rfl⟩
  · rintro ⟨hn, l, hl, hs, h, hh, _, _⟩
    exact ⟨hn, l, hl, hs, fun hnil => by rw [hnil] at hh; cases hh⟩

/-! ### … and down to a location of the generated server -/

/-- `accepted_iff_served_fragment`: for every scenario of the fragment, a valid route `r` of it with a rule `rule` and a
match `m`: the entry of parentRef `p` reports Accepted=True (reload ok) ⇔ `p` names the served Gateway and, for some
listener `l` it selects and some hostname `h` accepted at `l`, the generated configuration `gen s` contains a server on
`l.port` named `h` one of whose LOCATIONS — at the match's path, or path + `/` for a prefix — carries that match with the
rule's action (as the direct action of a path-only match or as an element of the njs match list). -/
theorem accepted_iff_served_fragment (s : Scenario) (g : Gateway) (n : Int) (r : Route) (p : Parent)
    (hf : inFragment s = true) (hw : winner s = some g) (hpo : parentsOK r = true) (hr : r ∈ s.routes) (hp : p ∈ r.parents)
    (hv : r.valid = true) (rule : Rule) (hrule : rule ∈ r.rules) (m : Match) (hm : m ∈ rule.ms) :
    acceptedTrue (parentStatus s g true false n r p) = true ↔
      names g p = true ∧ ∃ l ∈ g.listeners, selects p l = true ∧ ∃ h ∈ acceptedAt g l r,
        ∃ sv ∈ (Pipeline.gen s).servers, sv.port = l.port ∧ sv.name = h ∧
          ∃ cl ∈ sv.locs, locCarries l.port cl m rule.action ∧ (cl.path = m.path ∨ cl.path = m.path ++ ['/']) := by
  obtain ⟨hg, hro⟩ := inFragment_spec hf hw
  rw [accepted_iff_entries_fragment s g n r p hw hg hpo hr hp hv rule hrule m hm]
  constructor
  · rintro ⟨hn, l, hl, hs, h, hh, ⟨sv, hsv, hport, hname, hlocs⟩, e, he, hep, heh, hem, _, hea⟩
    refine ⟨hn, l, hl, hs, h, hh, sv, hsv, hport, hname, ?_⟩
    rw [hlocs]
    have hok : ∀ x ∈ entries g s.routes, x.m.exact = false → x.m.path ≠ e.m.path ++ ['/'] :=
      fun x hx hpre => no_slash_sibling (entry_matchOK hro hx) (entry_matchOK hro he) hpre
    obtain ⟨cl, hcl, hc, hpath⟩ := serverOf_carries (entries g s.routes) l.port h e he hep heh hok
    rw [hem, hea] at hc
    rw [hem] at hpath
    exact ⟨cl, hcl, hc, hpath⟩
  · rintro ⟨hn, l, hl, hs, h, hh, _⟩
    have hne : acceptedAt g l r ≠ [] := fun hnil => by rw [hnil] at hh; cases hh
    exact (accepted_iff_entries_fragment s g n r p hw hg hpo hr hp hv rule hrule m hm).mp
      ((accepted_iff_attached_fragment s g n r p hg hpo hp hv).mpr ⟨hn, l, hl, hs, hne⟩)

/-- conversely, nothing is served behind the statuses' back: every match rule of the configuration (`entries`, from which
`gen` builds all locations) stems from a VALID route of the scenario one of whose parent entries reports Accepted=True -/
theorem served_rule_has_accepted_parent (s : Scenario) (g : Gateway) (n : Int) (hw : winner s = some g)
    (hg : gatewayOK g = true) (hs : statusOK s = true) (e : Entry) (he : e ∈ entries g s.routes) :
    ∃ r ∈ s.routes, r.valid = true ∧ e.key.ns = bytes r.ns ∧ e.key.name = bytes r.name ∧ e.key.age = r.age ∧
      ∃ p ∈ r.parents.filter (namesOurs s), acceptedTrue (parentStatus s g true false n r p) = true := by
  unfold entries at he
  obtain ⟨l, hl, he⟩ := List.mem_flatMap.mp he
  obtain ⟨r, hr, he⟩ := List.mem_flatMap.mp he
  cases hv : r.valid with
  | false => simp [hv] at he
  | true =>
    simp only [hv, if_true, routeEntries] at he
    obtain ⟨rule, _, he⟩ := List.mem_flatMap.mp he
    obtain ⟨h, hh, he⟩ := List.mem_flatMap.mp he
    obtain ⟨m, _, rfl⟩ := List.mem_map.mp he
    have hne : acceptedAt g l r ≠ [] := fun hnil => by rw [hnil] at hh; cases hh
    obtain ⟨⟨p, hp, hn, hsel⟩, _, _⟩ := acceptedAt_ne_nil.mp hne
    obtain ⟨hpo, _⟩ := statusOK_spec hs hr
    refine ⟨r, hr, hv, rfl, rfl, rfl, p, ?_, ?_⟩
    · refine List.mem_filter.mpr ⟨hp, ?_⟩
      exact List.any_eq_true.mpr ⟨g, winner_mem_ours hw, hn⟩
    · exact (accepted_iff_attached_fragment s g n r p hg hpo hp hv).mpr ⟨hn, l, hl, hsel, hne⟩

/-! ## ResolvedRefs -/

/-- ResolvedRefs=False on an entry ⇔ the route is valid and one of its forwarding rules has an invalid backendRef — the
`Backend.valid` flags `Pipeline.distOf` reads when it sends that share to `invalid-backend-ref` -/
theorem resolvedrefs_iff_fragment (s : Scenario) (gw : Gateway) (v e : Bool) (n : Int) (r : Route) (p : Parent) :
    resolvedFalse (parentStatus s gw v e n r p) = true ↔
      r.valid = true ∧ ∃ rule ∈ r.rules, ∃ bs, rule.action = .forward bs ∧ ∃ b ∈ bs, b.valid = false := by
  rw [← routeConds_resolved,
    ← NGF.StatusPrep.resolvedrefs_iff (routeConds r) e (toPrepRef gw v r p) (routeConds_condsFalse "ResolvedRefs" r) (toPrepRef_wf gw v r p)]
  unfold resolvedFalse parentStatus NGF.StatusPrep.resolvedRefsFalse
  simp only [NGF.StatusPrep.prepareParent]
  rw [NGF.StatusPrep.hasCond_convert_dedup, NGF.StatusPrep.hasCond_convert_dedup]

/-! ## attachedRoutes -/

/-- the key set of `Listener.Routes` is the set of routes with `acceptedAt g l r ≠ []` -/
theorem listenerRoutes_eq (s : Scenario) (g : Gateway) (l : Listener) (hw : winner s = some g) (hg : gatewayOK g = true)
    (hs : statusOK s = true) (hl : l ∈ g.listeners) :
    listenerRoutes s g l = s.routes.filter fun r => !(acceptedAt g l r).isEmpty := by
  unfold listenerRoutes
  apply List.filter_congr
  intro r hr
  obtain ⟨hpo, hnd⟩ := statusOK_spec hs hr
  rw [sectionNameRefs_of_noDup hnd]
  simp only
  rw [Bool.eq_iff_iff]
  have hu := listener_names_unique hg
  constructor
  · intro h
    obtain ⟨p, hp, hb⟩ := List.any_eq_true.mp h
    obtain ⟨l', hl', heq⟩ := List.any_eq_true.mp hb
    simp only [beq_iff_eq] at heq
    subst heq
    have hpr := (List.mem_filter.mp hp).1
    have := ((bound_iff_acceptedAt (parentsOK_spec hpo hpr) hu hpr).mp hl').2.2.2
    simpa [List.isEmpty_iff] using this
  · intro h
    have hne : acceptedAt g l r ≠ [] := by simpa [List.isEmpty_iff] using h
    obtain ⟨⟨p, hp, hn, hsel⟩, _, _⟩ := acceptedAt_ne_nil.mp hne
    refine List.any_eq_true.mpr ⟨p, List.mem_filter.mpr ⟨hp, List.any_eq_true.mpr ⟨g, winner_mem_ours hw, hn⟩⟩, ?_⟩
    exact List.any_eq_true.mpr ⟨l, (bound_iff_acceptedAt (parentsOK_spec hpo hp) hu hp).mpr ⟨hl, hn, hsel, hne⟩, by simp⟩

/-- `attached_count_fragment`: the listener statuses of the served Gateway are those of its listeners, in order, and
attachedRoutes(l) = number of routes with `acceptedAt g l r ≠ []` — valid or not (DESIGN §8 reading), whatever the reload did -/
theorem attached_count_fragment (s : Scenario) (g : Gateway) (e : Bool) (n : Int) (hw : winner s = some g)
    (hg : gatewayOK g = true) (hs : statusOK s = true) :
    (listenerStatuses s e n).map (fun l => (l.name, l.attachedRoutes)) =
      g.listeners.map fun l => (str l.name, (s.routes.filter fun r => !(acceptedAt g l r).isEmpty).length) := by
  unfold listenerStatuses gatewayStatus
  rw [graphGateway_of_winner hw]
  simp only [Option.map_some, NGF.StatusPrep.prepareGateway, toPrepGateway, graphListeners, if_true, List.map_map]
  apply List.map_congr_left
  intro l hl
  simp [NGF.StatusPrep.prepareListener, listenerRoutes_eq s g l hw hg hs hl]

/-- an invalid route that binds is counted although none of its rules is served -/
example : ∃ (s : Scenario) (g : Gateway), winner s = some g ∧
    (listenerStatuses s false 1).map (·.attachedRoutes) = [1] ∧ entries g s.routes = [] :=
  ⟨{ cls := ['n'], ctlr := ['c'], classes := [⟨['n'], ['c']⟩],
     gateways := [⟨['d'], ['g'], ['n'], 0, [⟨['l'], 80, [], true⟩]⟩],
     routes := [{ ns := ['d'], name := ['r'], age := 1, parents := [⟨['d'], ['g'], none⟩], hostnames := [],
                  rules := [⟨[⟨false, ['/'], [], [], []⟩], .forward []⟩], valid := false }] },
   ⟨['d'], ['g'], ['n'], 0, [⟨['l'], 80, [], true⟩]⟩, by decide, by decide, by decide⟩

/-! ## no Gateway, no status -/

/-- `no_gateway_no_status`: when no Gateway is served and the GatewayClass object is not missing (it names another
controller, or no Gateway names the class), no route parent status is issued -/
theorem no_gateway_no_status (s : Scenario) (e : Bool) (n : Int) (r : Route) (hw : winner s = none)
    (hc : classState s ≠ .missing) : routeParentStatuses s e n r = none := by
  rcases graphGateway_of_winner_none hw with h | ⟨h, _⟩
  · simp [routeParentStatuses, h]
  · exact absurd h hc

/-- … and in every case, including the missing class object (the code then builds the graph around an INVALID Gateway and
reports Accepted=False/InvalidGateway or NoMatchingParent), no entry says Accepted=True -/
theorem no_gateway_never_accepted (s : Scenario) (e : Bool) (n : Int) (r : Route) (hw : winner s = none)
    (es : List NGF.StatusPrep.ParentStatus) (h : routeParentStatuses s e n r = some es) : ∀ x ∈ es, acceptedTrue x = false := by
  rcases graphGateway_of_winner_none hw with hg | ⟨_, g, hg⟩
  · simp [routeParentStatuses, hg] at h
  · unfold routeParentStatuses at h
    simp only [hg] at h
    cases hrefs : sectionNameRefs s r with
    | none => rw [hrefs] at h; simp only [Option.some.injEq] at h; subst h; simp
    | some refs =>
      rw [hrefs] at h
      cases refs with
      | nil => simp at h
      | cons p ps =>
        simp only [Option.some.injEq] at h
        subst h
        intro x hx
        simp only [NGF.StatusPrep.prepareRouteStatus, List.map_map, List.mem_map, Function.comp] at hx
        obtain ⟨q, _, rfl⟩ := hx
        rw [Bool.eq_false_iff]
        intro ha
        have := (parent_accepted_iff s g false e n r q).mp ha
        have hat := (attachment_attached_iff.mp this.2.2).1
        cases hat

/-- WITNESS: with the class object missing, `winner s = none` and yet a status IS issued (Accepted=False/InvalidGateway) -/
theorem missing_class_status_issued :
    ∃ (s : Scenario) (r : Route), winner s = none ∧ classState s = .missing ∧
      (routeParentStatuses s false 1 r).map (fun es => es.map fun x => x.conds.map fun c => (c.type, c.status, c.reason)) =
        some [[("ResolvedRefs", "True", "ResolvedRefs"), ("Accepted", "False", "InvalidGateway")]] :=
  ⟨{ cls := ['n'], ctlr := ['c'], classes := [],
     gateways := [⟨['d'], ['g'], ['n'], 0, [⟨['l'], 80, [], true⟩]⟩], routes := [] },
   { ns := ['d'], name := ['r'], age := 1, parents := [⟨['d'], ['g'], none⟩], hostnames := [], rules := [], valid := true },
   by decide, by decide, by decide⟩

/-- WHAT THE CODE DOES (documentation; NOT a violation of C07, which does not prescribe the reason of an Accepted=False
condition — both entries truthfully say Accepted=False): the Gateway is invalid (here: no class
object), so the graph holds no listeners and `validateParentRef` looks the section name up among none: the parentRef that
names the EXISTING listener `l` is reported NoMatchingParent, the one without section name InvalidGateway -/
theorem invalid_gateway_section_reports_no_matching_parent :
    ∃ (s : Scenario) (r : Route) (g : Gateway) (l : Listener), graphGateway s = some (g, false) ∧ l ∈ g.listeners ∧
      r.parents = [⟨g.ns, g.name, some l.name⟩, ⟨g.ns, g.name, none⟩] ∧
      (routeParentStatuses s false 1 r).map (fun es => es.map fun x => x.conds.map fun c => (c.type, c.status, c.reason)) =
        some [[("ResolvedRefs", "True", "ResolvedRefs"), ("Accepted", "False", "NoMatchingParent")],
              [("ResolvedRefs", "True", "ResolvedRefs"), ("Accepted", "False", "InvalidGateway")]] :=
  ⟨{ cls := ['n'], ctlr := ['c'], classes := [],
     gateways := [⟨['d'], ['g'], ['n'], 0, [⟨['l'], 80, [], true⟩]⟩], routes := [] },
   { ns := ['d'], name := ['r'], age := 1, parents := [⟨['d'], ['g'], some ['l']⟩, ⟨['d'], ['g'], none⟩], hostnames := [],
     rules := [], valid := true },
   ⟨['d'], ['g'], ['n'], 0, [⟨['l'], 80, [], true⟩]⟩, ⟨['l'], 80, [], true⟩, by decide, by decide, rfl, by decide⟩

/-- WHAT THE CODE DOES (documentation; NOT a violation of C07, which does not prescribe the reason of an Accepted=False
condition): a parentRef to the IGNORED Gateway `y`
naming ITS listener `w` is reported NoMatchingParent (the section name is looked up among the winner's listeners); the
parentRef to `y` without section name is reported GatewayIgnored -/
theorem ignored_gateway_section_reports_no_matching_parent :
    ∃ (s : Scenario) (r : Route) (y : Gateway) (l : Listener), y ∈ ignoredGateways s ∧ l ∈ y.listeners ∧
      r.parents = [⟨y.ns, y.name, some l.name⟩, ⟨y.ns, y.name, none⟩] ∧
      (routeParentStatuses s false 1 r).map (fun es => es.map fun x => x.conds.map fun c => (c.type, c.status, c.reason)) =
        some [[("ResolvedRefs", "True", "ResolvedRefs"), ("Accepted", "False", "NoMatchingParent")],
              [("ResolvedRefs", "True", "ResolvedRefs"), ("Accepted", "False", "GatewayIgnored")]] :=
  ⟨{ cls := ['n'], ctlr := ['c'], classes := [⟨['n'], ['c']⟩],
     gateways := [⟨['d'], ['g'], ['n'], 0, [⟨['l'], 80, [], true⟩]⟩, ⟨['d'], ['y'], ['n'], 5, [⟨['w'], 8080, [], true⟩]⟩], routes := [] },
   { ns := ['d'], name := ['r'], age := 6, parents := [⟨['d'], ['y'], some ['w']⟩, ⟨['d'], ['y'], none⟩], hostnames := [],
     rules := [], valid := true },
   ⟨['d'], ['y'], ['n'], 5, [⟨['w'], 8080, [], true⟩]⟩, ⟨['w'], 8080, [], true⟩, by decide, by decide, rfl, by decide⟩

/-! ## non-vacuity: a scenario on which every hypothesis above holds and the statements have content -/

def demoMatch : Match := ⟨false, ['/', 'a'], [], [], []⟩
def demoRule : Rule := ⟨[demoMatch], .forward [⟨['t'], 1, false⟩]⟩
def demoParent : Parent := ⟨['d'], ['g'], some ['l', '0']⟩
def demoRoute : Route :=
  { ns := ['d'], name := ['r'], age := 1,
    parents := [demoParent, ⟨['x'], ['f'], none⟩, ⟨['d'], ['y'], none⟩, ⟨['d'], ['g'], some ['n', 'o']⟩],
    hostnames := [], rules := [demoRule], valid := true }

def demo : Scenario :=
  { cls := ['n'], ctlr := ['c'], classes := [⟨['n'], ['c']⟩],
    gateways := [⟨['d'], ['g'], ['n'], 0, [⟨['l', '0'], 80, [], true⟩, ⟨['l', '1'], 8080, ['a', '.', 'b'], false⟩]⟩,
                 ⟨['d'], ['y'], ['n'], 5, []⟩],
    routes := [demoRoute,
               { ns := ['e'], name := ['q'], age := 2, parents := [⟨['d'], ['g'], none⟩], hostnames := [['c', '.', 'd']],
                 rules := [], valid := true }] }

def demoGw : Gateway := ⟨['d'], ['g'], ['n'], 0, [⟨['l', '0'], 80, [], true⟩, ⟨['l', '1'], 8080, ['a', '.', 'b'], false⟩]⟩

example : winner demo = some demoGw ∧ gatewayOK demoGw = true ∧ statusOK demo = true ∧ inFragment demo = true := by
  refine ⟨by decide, by decide, by decide, by decide⟩

/-- route d/r: entries for parentRefs 0, 2, 3 (the foreign one is skipped): Accepted / GatewayIgnored / NoMatchingParent, all
ResolvedRefs=False; route e/q (other namespace): allowed by l0 (From=All) but its hostname misses nothing there, l1 is Same -/
def demoView : List (List (String × Bool × Bool)) :=
  demo.routes.map fun r =>
    match routeParentStatuses demo false 3 r with
    | some es => es.map fun x => (x.sectionName.getD "-", acceptedTrue x, resolvedFalse x)
    | none => []

def demoReasons : List (List String) :=
  demo.routes.map fun r =>
    match routeParentStatuses demo false 3 r with
    | some es => es.map fun x => ",".intercalate (x.conds.map fun c => c.type ++ "=" ++ c.status ++ "/" ++ c.reason)
    | none => []

example : demoView = [[("l0", true, true), ("-", false, true), ("no", false, true)], [("-", true, false)]] := by decide

example : demoReasons =
    [["Accepted=True/Accepted,ResolvedRefs=False/*", "ResolvedRefs=False/*,Accepted=False/GatewayIgnored",
      "ResolvedRefs=False/*,Accepted=False/NoMatchingParent"],
     ["Accepted=True/Accepted,ResolvedRefs=True/ResolvedRefs"]] := by decide

example : (listenerStatuses demo false 1).map (fun l => (l.name, l.attachedRoutes)) = [("l0", 2), ("l1", 0)] := by decide

/-- `accepted_iff_served_fragment` applied to `demo`: every hypothesis holds, the entry of parentRef 0 of route d/r says
Accepted=True, hence `gen demo` has a server on port 80 with a location for `/a` (here `/a/`) carrying the match -/
example : ∃ sv ∈ (Pipeline.gen demo).servers, sv.port = 80 ∧
    ∃ cl ∈ sv.locs, locCarries 80 cl demoMatch demoRule.action ∧ (cl.path = ['/', 'a'] ∨ cl.path = ['/', 'a', '/']) := by
  have h := (accepted_iff_served_fragment demo demoGw 1 demoRoute demoParent (by decide) (by decide) (by decide)
    List.mem_cons_self List.mem_cons_self rfl demoRule List.mem_cons_self demoMatch List.mem_cons_self).mp (by decide)
  obtain ⟨_, l, hl, hsel, h', _, sv, hsv, hport, _, cl, hcl, hc, hpath⟩ := h
  have hl0 : l.port = 80 := by
    have : l = ⟨['l', '0'], 80, [], true⟩ ∨ l = ⟨['l', '1'], 8080, ['a', '.', 'b'], false⟩ := by simpa [demoGw] using hl
    rcases this with rfl | rfl
    · rfl
    · exact absurd hsel (by decide)
  rw [hl0] at hport hc
  exact ⟨sv, hsv, hport, cl, hcl, hc, hpath⟩

/-! ## expectation lemmas over the facts regenerated from /repo -/

open NGF.Generated.Conditions in
/-- the conditions binding writes are the ones the model writes (`NGF.Generated.ConditionFacts`: constructor table of
`state/conditions`, constants resolved from gateway-api) -/
theorem facts_binding_conditions :
    NGF.StatusPrep.lookup "NewRouteNoMatchingParent" = some [noMatchingParent] ∧
    NGF.StatusPrep.lookup "NewRouteNotAcceptedGatewayIgnored" = some [gatewayIgnored] ∧
    NGF.StatusPrep.lookup "NewRouteInvalidGateway" = some [invalidGateway] ∧
    NGF.StatusPrep.lookup "NewRouteInvalidListener" = some [invalidListener] ∧
    NGF.StatusPrep.lookup "NewRouteNotAllowedByListeners" = some [notAllowedByListeners] ∧
    NGF.StatusPrep.lookup "NewRouteNoMatchingListenerHostname" = some [noMatchingListenerHostname] ∧
    NGF.StatusPrep.lookup "NewRouteUnsupportedValue" = some [routeUnsupportedValue] ∧
    NGF.StatusPrep.lookup "NewGatewayInvalid" = some gatewayInvalid := by decide

/-- every backendRef failure is ResolvedRefs=False (the reason is what the model leaves open) -/
theorem facts_backendref_conditions :
    (["NewRouteBackendRefInvalidKind", "NewRouteBackendRefRefBackendNotFound", "NewRouteBackendRefRefNotPermitted",
      "NewRouteBackendRefUnsupportedValue"].all fun n =>
      match NGF.StatusPrep.lookup n with
      | some [c] => c.type = refsUnresolved.type && c.status = refsUnresolved.status
      | _ => false) = true := by decide

section bodies
open NGF.Generated.Binding

/-- which Gateway the graph is built for: `processGatewayClasses`, the head of `BuildGraph` (class exists but is not ours ⇒
empty graph), `processGateways` / `GetAllNsNames`, `buildGateway` / `validateGateway` — mirrored by `classState`, `ours`,
`graphGateway` -/
theorem facts_binding_gateway_bodies :
    processGatewayClassesBody = Expected.processGatewayClassesBody ∧ buildGraphHead = Expected.buildGraphHead ∧
    processGatewaysBody = Expected.processGatewaysBody ∧ getAllNsNamesBody = Expected.getAllNsNamesBody ∧
    buildGatewayBody = Expected.buildGatewayBody ∧ validateGatewayBody = Expected.validateGatewayBody :=
  ⟨rfl, rfl, rfl, rfl, rfl, rfl⟩

/-- `buildSectionNameRefs` / `findGatewayForParentRef` (→ `sectionNameRefs`, `namesOurs`), `validateParentRef` /
`findAttachableListeners` / `bindL7RouteToListeners` / `tryToAttachL7RouteToListeners` (→ `attachment`, `attachable`,
`bindOne`, `tryAttach`, `boundListeners`) -/
theorem facts_binding_parentref_bodies :
    buildSectionNameRefsBody = Expected.buildSectionNameRefsBody ∧
    findGatewayForParentRefBody = Expected.findGatewayForParentRefBody ∧
    validateParentRefBody = Expected.validateParentRefBody ∧
    findAttachableListenersBody = Expected.findAttachableListenersBody ∧
    bindL7RouteToListenersBody = Expected.bindL7RouteToListenersBody ∧
    tryToAttachL7RouteToListenersBody = Expected.tryToAttachL7RouteToListenersBody :=
  ⟨rfl, rfl, rfl, rfl, rfl, rfl⟩

/-- route validity and route-wide conditions (`buildHTTPRoute`, `processHTTPRouteRules`, `addBackendRefsToRules` → `routeConds`)
and the shape of `PrepareRouteRequests` (→ `routeParentStatuses`) -/
theorem facts_binding_route_bodies :
    buildHTTPRouteBody = Expected.buildHTTPRouteBody ∧ processHTTPRouteRulesBody = Expected.processHTTPRouteRulesBody ∧
    addBackendRefsToRulesBody = Expected.addBackendRefsToRulesBody ∧
    prepareRouteRequestsBody = Expected.prepareRouteRequestsBody :=
  ⟨rfl, rfl, rfl, rfl⟩

/-- policy ancestors of Service-targeting policies: `Graph.attachPolicies`, `attachPolicyToService` (with the
`ancestorsContainsAncestorRef` test in BOTH branches), `ancestorsContainsAncestorRef` — mirrored by `NGF.Model.PolicyAttach` -/
theorem facts_policy_attach_bodies :
    attachPoliciesBody = Expected.attachPoliciesBody ∧ attachPolicyToServiceBody = Expected.attachPolicyToServiceBody ∧
    ancestorsContainsAncestorRefBody = Expected.ancestorsContainsAncestorRefBody ∧
    NGF.StatusPrep.lookup "NewPolicyTargetNotFound" = some [NGF.PolicyAttach.targetNotFound] :=
  ⟨rfl, rfl, rfl, by decide⟩

end bodies

end NGF.PipelineStatus
