/-
C13 — HISTORIES of watch events through the change processor (`NGF.Model.ResolverHistory`: `capture`, `runBatch`,
`runHistory` are what the driver runs on the `hist` stream and what the correspondence compares — change type and NGINX
view after every batch — with the REAL ChangeProcessorImpl + eventHandlerImpl).

Quantification: ALL histories of batches of EndpointSlice / Service / HTTPRoute upserts and deletes, in any order
(slices seen before any route references their Service, the Service created after its slices, routes removed and
re-added around slice changes, a slice deleted / emptied / relabelled alone), OSS and Plus.
Helper lemmas: `NGF.Proofs.ResolverHistory`.
-/
import NGF.Proofs.ResolverHistory
import NGF.Generated.ResolverFacts

namespace NGF.Resolver

/-! ## 1. After every drained batch the generated configuration is the one of the CURRENT cluster -/

theorem histInv_init (plus : Bool) : HistInv (PState.init plus) :=
  ⟨rfl, by simp [NodupKeys, PState.init], rfl, rfl, rfl⟩

/-- **store_mirrors_cluster.** Whatever the history, the processor's EndpointSlice tracking store holds exactly the slices
the cluster holds — also those whose Service nothing referenced when they were last seen — so an update or delete is
always judged by the object as it was. -/
theorem store_mirrors_cluster (plus : Bool) (bs : List (List Ev)) :
    ∀ r ∈ runHistory plus true (PState.init plus) bs, r.1.proc.store = r.1.cluster.slices :=
  fun r hr => (mem_runHistory plus bs (histInv_init plus) r hr).store

/-- **every_drained_batch_is_current.** For ALL histories, after EVERY drained batch — also one the processor judged
`NoChange` and for which nothing was rebuilt — the configuration last generated (and, no faults, applied) is the
configuration `BuildConfiguration` would build from the CURRENT cluster: every upstream of a resolvable backendRef with
the ready endpoints of the CURRENT EndpointSlices of its Service port; and the latest graph's referenced Services are
those of the current routes. -/
theorem every_drained_batch_is_current (plus : Bool) (bs : List (List Ev)) :
    ∀ r ∈ runHistory plus true (PState.init plus) bs,
      r.1.h.latest = some (confOf r.1.cluster) ∧ r.1.proc.refd = some (refsOf r.1.cluster) :=
  fun r hr => ⟨(mem_runHistory plus bs (histInv_init plus) r hr).latest,
    (mem_runHistory plus bs (histInv_init plus) r hr).refd⟩

theorem ossHeld_init : OssHeld (PState.init false) := by
  intro k hk
  simp [PState.init, stepH, applyOp_oss, Faults.noReload, Faults.none] at hk ⊢
  rw [hk]

/-- **every_drained_batch_in_sync (OSS).** For ALL histories, after every drained batch NGINX holds, for every upstream of
the CURRENT cluster's configuration, exactly its servers: `inSync` (the Bool of `Model/ResolverFaults.lean`) holds between
what NGINX holds and `confOf` of the current cluster — the ready endpoints of the referenced Service port in the current
cluster, the 503 placeholder when there is none. -/
theorem every_drained_batch_in_sync (bs : List (List Ev)) :
    ∀ r ∈ runHistory false true (PState.init false) bs,
      r.1.h.ngx.api = loadOss (confOf r.1.cluster) ∧ inSync false (confOf r.1.cluster) r.1.h.ngx.api = true := by
  intro r hr
  have h1 := (mem_runHistory false bs (histInv_init false) r hr).latest
  have h2 := ossHeld_runHistory bs ossHeld_init r hr _ h1
  exact ⟨h2, by rw [h2]; exact inSync_loadOss (confOf_wf _)⟩

/-! ## 2. `slice_delete_after_late_reference_rebuilds` -/

/-- **slice_delete_after_late_reference_rebuilds.** After ANY history `bs` — in particular one in which the slice was last
seen while no route referenced its Service, and the reference came later — the deletion, alone in a batch, of a slice whose
owner Service the current routes reference is judged an `EndpointsOnlyChange`: the configuration is rebuilt from the
cluster WITHOUT the slice and applied (OSS: NGINX holds exactly that configuration's servers, the 503 placeholder when it
was the last ready endpoint). -/
theorem slice_delete_after_late_reference_rebuilds (plus : Bool) (bs : List (List Ev)) (ns obj : String) (o : Slice)
    (hget : getKV (finalState plus true (PState.init plus) bs).cluster.slices (ns, obj) = some o)
    (href : (o.ns, sliceOwner o) ∈ refsOf (finalState plus true (PState.init plus) bs).cluster) :
    let r := runBatch plus true (finalState plus true (PState.init plus) bs) [.deleteSlice ns obj]
    r.2 = .endpoints ∧
    getKV r.1.cluster.slices (ns, obj) = none ∧
    r.1.h.latest = some (confOf r.1.cluster) ∧
    (plus = false → r.1.h.ngx.api = loadOss (confOf r.1.cluster)) := by
  intro r
  have hinv := histInv_finalState plus bs (histInv_init plus)
  have hnext := histInv_runBatch plus hinv [.deleteSlice ns obj]
  have hpend : (captureAll true (finalState plus true (PState.init plus) bs).cluster
      (finalState plus true (PState.init plus) bs).proc [.deleteSlice ns obj]).2.pending = .endpoints := by
    simp only [captureAll, capture, hinv.store, hget, hinv.pending, hinv.refd]
    have : refSlice (some (refsOf (finalState plus true (PState.init plus) bs).cluster)) o = true := by
      simp only [refSlice, refSvc]; exact List.contains_iff_mem.mpr href
    rw [this]; rfl
  have hr2 : r.2 = .endpoints := by
    show (runBatch plus true _ _).2 = _
    unfold runBatch
    simp only [hpend]
  have hcl : r.1.cluster.slices = delKV (finalState plus true (PState.init plus) bs).cluster.slices (ns, obj) := by
    show (runBatch plus true _ _).1.cluster.slices = _
    unfold runBatch
    simp only [hpend]
    rfl
  refine ⟨hr2, by rw [hcl]; exact getKV_delKV_self _ _, hnext.latest, ?_⟩
  intro hplus
  subst hplus
  exact ossHeld_runBatch (ossHeld_finalState bs ossHeld_init) [.deleteSlice ns obj] true _ hnext.latest

/-! ## 3. The history of the seeded change, and the refuted "remember only referenced slices" variant -/

def hSlice (label : String) (addr : String) : Slice :=
  ⟨"ns", some label, .ipv4, [⟨some "http", some 8080⟩], [⟨[addr], some true⟩]⟩

/-- backend first (Service and its slice, nothing references them: `NoChange`), the route later (`ClusterStateChange`:
the upstream gets the slice's endpoint), then the slice deleted — or relabelled to another Service — alone in a batch -/
def lateReference (last : Ev) : List (List Ev) :=
  [[.upsertSvc ⟨"ns", "svc", [⟨"http", 80, .int 8080⟩]⟩, .upsertSlice "svc-s0" (hSlice "svc" "10.0.0.1")],
   [.upsertRoute ⟨"ns", "r0", [⟨"svc", 80⟩]⟩],
   [last]]

def observe (r : PState × Change) : Change × List String × List (List Ep) :=
  (r.2, r.1.h.ngx.api.http.servers "ns_svc_80", (confOf r.1.cluster).http.map (·.eps))

/-- **remember_only_referenced_refuted** (seeded change C13-r4m1). The code (`keepAll = true`) rebuilds on the third batch
and NGINX answers 503; a tracking store that only remembers slices whose Service is referenced at the moment of the upsert
(`keepAll = false`) finds nothing to judge, reports `NoChange`, and NGINX keeps the server of a slice that no longer
exists (or no longer belongs to the Service) — `every_drained_batch_in_sync` does not hold for it. -/
theorem remember_only_referenced_refuted :
    (runHistory false true (PState.init false) (lateReference (.deleteSlice "ns" "svc-s0"))).map observe =
      [(.none, [], []), (.cluster, ["10.0.0.1:8080"], [[⟨"10.0.0.1", 8080, false⟩]]), (.endpoints, [nginx503Server], [[]])] ∧
    (runHistory false false (PState.init false) (lateReference (.deleteSlice "ns" "svc-s0"))).map observe =
      [(.none, [], []), (.cluster, ["10.0.0.1:8080"], [[⟨"10.0.0.1", 8080, false⟩]]), (.none, ["10.0.0.1:8080"], [[]])] ∧
    (runHistory false true (PState.init false) (lateReference (.upsertSlice "svc-s0" (hSlice "other" "10.0.0.1")))).map observe =
      [(.none, [], []), (.cluster, ["10.0.0.1:8080"], [[⟨"10.0.0.1", 8080, false⟩]]), (.endpoints, [nginx503Server], [[]])] ∧
    (runHistory false false (PState.init false) (lateReference (.upsertSlice "svc-s0" (hSlice "other" "10.0.0.1")))).map observe =
      [(.none, [], []), (.cluster, ["10.0.0.1:8080"], [[⟨"10.0.0.1", 8080, false⟩]]), (.none, ["10.0.0.1:8080"], [[]])] := by
  refine ⟨by decide, by decide, by decide, by decide⟩

/-- the same history under NGINX Plus: the code rebuilds (the API then holds an empty group — the older known finding
`C13:plus_empty_no_503`), the variant keeps the server -/
theorem remember_only_referenced_refuted_plus :
    ((runHistory true true (PState.init true) (lateReference (.deleteSlice "ns" "svc-s0"))).map observe).getLast? =
      some (.endpoints, [], [[]]) ∧
    ((runHistory true false (PState.init true) (lateReference (.deleteSlice "ns" "svc-s0"))).map observe).getLast? =
      some (.none, ["10.0.0.1:8080"], [[]]) := by
  refine ⟨by decide, by decide⟩

/-! non-vacuity of `slice_delete_after_late_reference_rebuilds` on the history above -/
example :
    let st := finalState false true (PState.init false) ((lateReference (.deleteSlice "ns" "other")).take 2)
    getKV st.cluster.slices ("ns", "svc-s0") = some (hSlice "svc" "10.0.0.1") ∧
    (("ns", sliceOwner (hSlice "svc" "10.0.0.1")) ∈ refsOf st.cluster) := by
  refine ⟨by decide, by decide⟩

/-! ## 4. Tie to the source -/

/-- how an EndpointSlice event is judged, statement for statement: the tracking store is a plain map that keeps EVERY
slice (no relevance filter in front of it), an upsert reads the stored object before overwriting it and asks
`isReferenced` of the new OR the stored one, a delete of an unknown object is no change and otherwise the STORED object is
judged, a slice change alone is `EndpointsOnlyChange`, `Process` rebuilds the graph only when something changed, and the
graph's reading of a slice is "owner Service (label, same namespace) ∈ ReferencedServices". -/
theorem slice_tracking_source_as_modelled :
    Generated.Resolver.sliceTrackingCfg =
      ["gvk: cfg.MustExtractGVK(&discoveryV1.EndpointSlice{})",
       "store: newObjectStoreMapAdapter(make(map[types.NamespacedName]*discoveryV1.EndpointSlice))",
       "predicate: funcPredicate{stateChanged: isReferenced}"] ∧
    Generated.Resolver.mapAdapterGetBody = ["obj, exist := m.objects[nsname]", "if !exist { return nil }", "return obj"] ∧
    Generated.Resolver.mapAdapterUpsertBody =
      ["t, ok := obj.(T)",
       "if !ok { panic(fmt.Errorf(\"obj type mismatch: got %T, expected %T\", obj, t)) }",
       "m.objects[client.ObjectKeyFromObject(obj)] = t"] ∧
    Generated.Resolver.mapAdapterDeleteBody = ["delete(m.objects, nsname)"] ∧
    Generated.Resolver.trackingUpsertBody =
      ["objTypeGVK := s.extractGVK(obj)",
       "var oldObj client.Object",
       "if s.store.persists(objTypeGVK) { oldObj = s.store.get(obj, client.ObjectKeyFromObject(obj)) s.store.upsert(obj) }",
       "stateChanged, ok := s.stateChangedPredicates[objTypeGVK]",
       "if !ok { return true }",
       "return stateChanged.upsert(oldObj, obj)"] ∧
    Generated.Resolver.trackingDeleteBody =
      ["objTypeGVK := s.extractGVK(objType)",
       "subject := client.Object(objType)",
       "if s.store.persists(objTypeGVK) { old := s.store.get(objType, nsname) if old == nil { return false } subject = old s.store.delete(objType, nsname) }",
       "stateChanged, ok := s.stateChangedPredicates[objTypeGVK]",
       "if !ok { return true }",
       "return stateChanged.delete(subject, nsname)"] ∧
    Generated.Resolver.funcPredicateUpsertBody =
      ["if newObject == nil { panic(\"new object cannot be nil\") }",
       "nsname := client.ObjectKeyFromObject(newObject)",
       "return f.stateChanged(newObject, nsname) || (oldObject != nil && f.stateChanged(oldObject, nsname))"] ∧
    Generated.Resolver.funcPredicateDeleteBody = ["return f.stateChanged(object, nsname)"] ∧
    Generated.Resolver.setChangeTypeBody =
      ["if changed && s.changeType != ClusterStateChange { if _, ok := obj.(*discoveryV1.EndpointSlice); ok { s.changeType = EndpointsOnlyChange } else { s.changeType = ClusterStateChange } }"] ∧
    Generated.Resolver.isReferencedClosure =
      "isReferenced := func(obj ngftypes.ObjectType, nsname types.NamespacedName) bool { return processor.latestGraph != nil && processor.latestGraph.IsReferenced(obj, nsname) }" ∧
    Generated.Resolver.processBody =
      ["c.lock.Lock()",
       "defer c.lock.Unlock()",
       "changeType := c.getAndResetClusterStateChanged()",
       "if changeType == NoChange { return NoChange, nil }",
       "c.latestGraph = graph.BuildGraph( c.clusterState, c.cfg.GatewayCtlrName, c.cfg.GatewayClassName, c.cfg.PlusSecrets, c.cfg.Validators, c.cfg.ProtectedPorts, )",
       "return changeType, c.latestGraph"] ∧
    Generated.Resolver.isReferencedSliceCase =
      ["svcName := index.GetServiceNameFromEndpointSlice(obj)",
       "_, exists := g.ReferencedServices[types.NamespacedName{Namespace: nsname.Namespace, Name: svcName}]",
       "return exists"] := by
  exact ⟨rfl, rfl, rfl, rfl, rfl, rfl, rfl, rfl, rfl, rfl, rfl, rfl⟩

end NGF.Resolver
