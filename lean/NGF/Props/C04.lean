/-
C04 — user-supplied field values cannot inject NGINX configuration.

What is proved here (for ALL strings, lexer states and continuations), over the definitions the driver
runs (`NGF.Nginx.lexFrom`, `NGF.Rx.Regex.test`, the validator models of `NGF.Inj`, `NGF.Inj.judgeToks`):

* regex bridges: a string accepted by a GENERATED validator regex has the lexical shape its template
  context needs (`pathRe_safe`, `escapedStringsRe_escapedOK`, `escapedStringsNoVarRe_novar`, the
  character-set regexes `*_plain`);
* hole theorems: a value accepted by the validator of a hole, put into that hole, yields exactly one
  argument token containing the value and leaves the lexer in a state independent of the value
  (`dquoted_hole_safe`, `bare_hole_safe_semi`, `bare_hole_safe_ws`, `path_hole_safe`, `filter_path_hole_safe`,
  `rewrite_prefix_safe`, `rewrite_full_safe`, `redirect_body_inert`);
* no interpolation: `novar_hole_no_dollar`;
* `hole_guard_table`: every hole of every template (regenerated) has the lexical context recorded in
  the guard table and a guard that is sound for that context (`guard_sound`);
* the judge accepts only token streams that agree with the baseline outside marker-bearing argument
  words (`judge_sound`), and accepts the baseline itself (`judge_refl`).

Since /repo commit b4791fc (validatePath rejects backslashes, an empty ReplaceFullPath replacement is rendered
as `/`) the path theorems hold at full strength: `path_hole_safe`, `filter_path_hole_safe`, `rewrite_prefix_safe`,
`rewrite_full_safe`. The behaviour before that commit is kept as regression witnesses
(`prefix_validatePath_admitted_trailing_backslash`, `trailing_backslash_swallows_semicolon/_break`,
`prefix_empty_replacement_dropped_argument`).
-/
import NGF.Model.InjGuards
import NGF.Model.InjHoles
import NGF.Model.InjJudge
import NGF.Proofs.Regex
import NGF.Proofs.NginxLexHoles
import NGF.Proofs.InjBridge
import NGF.Proofs.InjCompose


namespace NGF.Props.C04
open NGF.Rx NGF.Nginx NGF.Inj

/-! ## 1. expectation lemmas over the generated regexes -/

/-- all seven regexes of nginx/config/validation are modelled (a new `regexp.MustCompile` breaks this) -/
theorem repo_regexes_covered :
    NGF.Generated.Regexes.repoRegexNames = repoRegexTable.map (·.1) := by decide

/-- every modelled regex is anchored at both ends (so `MatchString` is a whole-string match) -/
theorem regexes_anchored :
    (repoRegexTable.map (·.2) ++ [G.dnsLabelRe, G.dnsSubdomainRe, G.wildcardRe, G.headerNameRe]).all
      (fun g => g.anchoredStart && g.anchoredEnd) = true := by decide

theorem test_iff_matches (g : GoRegex) (h : (g.anchoredStart && g.anchoredEnd) = true) (s : List Char) :
    g.test s = true ↔ g.re.Matches s := by
  simp only [Bool.and_eq_true] at h
  simp only [GoRegex.test, GoRegex.full, h.1, h.2, if_true]
  exact Regex.test_iff

/-- `pathRegexp`: starts with `/`, no white space, `{`, `}`, `;` anywhere -/
theorem pathRe_chars {s : List Char} (h : G.pathRe.test s = true) :
    (∃ t, s = '/' :: t) ∧ ∀ c ∈ s, isWs c = false ∧ c ≠ ';' ∧ c ≠ '{' ∧ c ≠ '}' := by
  have hm : G.pathRe.re.Matches s := (test_iff_matches _ (by decide) s).mp h
  have hne : s ≠ [] := ne_nil_of_matches (by decide) hm
  constructor
  · cases s with
    | nil => exact absurd rfl hne
    | cons c t =>
      have hf := Re.first_of_matches hm c t rfl
      have : Re.firstRanges G.pathRe.re.toRe = [(47, 47)] := by decide
      rw [this] at hf
      simp [inRanges] at hf
      have hc : c = '/' := by
        apply Char.ext; apply UInt32.toNat_inj.mp
        have : c.toNat = 47 := by omega
        exact this
      exact ⟨t, by rw [hc]⟩
  · intro c hc
    have hav : avoids (Regex.alphabet G.pathRe.re) [9, 10, 13, 32, 59, 123, 125] = true := by decide
    have hn := not_bad_of_avoids hav (Regex.alphabet_of_matches hm c hc)
    have hne : ∀ d : Char, d.toNat ∈ [9, 10, 13, 32, 59, 123, 125] → c ≠ d := by
      intro d hd hcd; subst hcd; exact hn hd
    have h1 := hne ' ' (by decide)
    have h2 := hne '\t' (by decide)
    have h3 := hne '\r' (by decide)
    have h4 := hne '\n' (by decide)
    exact ⟨by simp [isWs, h1, h2, h3, h4], hne _ (by decide), hne _ (by decide), hne _ (by decide)⟩

/-- `pathRegexp` + no backslash: a whole bare argument (`/` starts it, the rest is inert) -/
theorem pathRe_safe {s : List Char} (h : G.pathRe.test s = true) (hb : '\\' ∉ s) :
    ∃ t, s = '/' :: t ∧ startOK '/' = true ∧ Inert .bare t := by
  obtain ⟨⟨t, rfl⟩, hc⟩ := pathRe_chars h
  refine ⟨t, rfl, by decide, inert_of_all_plain ?_⟩
  intro c hct
  have hcs : c ∈ '/' :: t := List.mem_cons_of_mem _ hct
  obtain ⟨h1, h2, h3, _⟩ := hc c hcs
  have h5 : c ≠ '\\' := fun e => hb (e ▸ hcs)
  exact ⟨by simp [isTerm, h1, h2, h3], h5⟩

/-- `escapedStringsFmt` `([^"\\]|\\.)*`: quotes are escaped, no lone trailing backslash -/
theorem escapedStringsRe_escapedOK {s : List Char} (h : G.escapedRe.test s = true) : Inert .dq s := by
  have hm : G.escapedRe.re.Matches s := (test_iff_matches _ (by decide) s).mp h
  exact inert_dq_of_shape (by decide) (by intro n hn; simp [inRanges] at hn; omega)
    (Re.shape_of_star_alt (A := [(0,33),(35,91),(93,1114111)]) (B := [(92,92)]) (C := [(0,9),(11,1114111)]) hm)

/-- `escapedStringsNoVarExpansionFmt` `([^"$\\]|\\[^$])*`: the above and no `$` at all -/
theorem escapedStringsNoVarRe_novar {s : List Char} (h : G.noVarRe.test s = true) :
    Inert .dq s ∧ '$' ∉ s := by
  have hm : G.noVarRe.re.Matches s := (test_iff_matches _ (by decide) s).mp h
  constructor
  · exact inert_dq_of_shape (by decide) (by intro n hn; simp [inRanges] at hn; omega)
      (Re.shape_of_star_alt (A := [(0,33),(35,35),(37,91),(93,1114111)]) (B := [(92,92)]) (C := [(0,35),(37,1114111)]) hm)
  · intro hd
    have hav : avoids (Regex.alphabet G.noVarRe.re) [36] = true := by decide
    exact not_bad_of_avoids hav (Regex.alphabet_of_matches hm '$' hd) (by decide)

/-- the character-set regexes: non-empty, and none of white space ; { } \ $ " ' # occurs -/
theorem charset_regex_plain (g : GoRegex)
    (hg : g ∈ [G.alnumRe, G.durationRe, G.sizeRe, G.endpointRe, G.dnsLabelRe, G.dnsSubdomainRe, G.wildcardRe,
      G.headerNameRe]) {s : List Char} (h : g.test s = true) : s ≠ [] ∧ ∀ c ∈ s, Plain c := by
  have key : ∀ g' : GoRegex, (g'.anchoredStart && g'.anchoredEnd) = true →
      avoids (Regex.alphabet g'.re) specials = true → Re.nullable g'.re.toRe = false →
      g'.test s = true → s ≠ [] ∧ ∀ c ∈ s, Plain c := by
    intro g' ha hav hn ht
    have hm := (test_iff_matches g' ha s).mp ht
    exact ⟨ne_nil_of_matches hn hm, plain_of_matches hav hm⟩
  simp only [List.mem_cons, List.not_mem_nil, or_false] at hg
  rcases hg with rfl | rfl | rfl | rfl | rfl | rfl | rfl | rfl
  · exact key _ (by decide) (by decide) (by decide) h
  · exact key _ (by decide) (by decide) (by decide) h
  · exact key _ (by decide) (by decide) (by decide) h
  · exact key _ (by decide) (by decide) (by decide) h
  · exact key _ (by decide) (by decide) (by decide) h
  · exact key _ (by decide) (by decide) (by decide) h
  · exact key _ (by decide) (by decide) (by decide) h
  · exact key _ (by decide) (by decide) (by decide) h

/-! ## 2. hole theorems: validator ⇒ exactly one argument token, state independent of the value -/

/-- **Quoted holes** (`"{{ $h.Value }}"`, `return … "{{ body }}"`, `otel_span_name "{{ … }}"`, `otel_span_attr`):
a value accepted by validateEscapedStringNoVarExpansion, followed by the template's closing quote, is one
quoted word, and the lexer continues in a state that does not mention the value. -/
theorem dquoted_hole_safe {st : LexSt} {v post : List Char} (hm : st.mode = .dq) (he : st.esc = false)
    (hv : validateEscapedStringNoVarExpansion v = true) :
    lexFrom st (v ++ '"' :: post) =
      prepend [.word (unescape (st.cur ++ v)) true]
        (lexFrom { st with mode := .needSpace, dollar := false, cur := [], pending := st.pending + 1 } post) :=
  hole_dquoted hm he (escapedStringsNoVarRe_novar hv).1

/-- **No interpolation** in quoted holes: if the literal part of the argument has no `$`, the argument NGINX
sees has no `$`, whatever accepted value is inserted. -/
theorem novar_hole_no_dollar {pre v : List Char} (hp : '$' ∉ pre)
    (hv : validateEscapedStringNoVarExpansion v = true) : '$' ∉ unescape (pre ++ v) :=
  novar hp (escapedStringsNoVarRe_novar hv).2

/-- **Bare holes guarded by a character-set regex** (durations, sizes, endpoint, service name, DNS names,
header names), `;` follows: exactly `value ;`. -/
theorem bare_hole_safe_semi (g : GoRegex)
    (hg : g ∈ [G.alnumRe, G.durationRe, G.sizeRe, G.endpointRe, G.dnsLabelRe, G.dnsSubdomainRe, G.wildcardRe,
      G.headerNameRe]) {st : LexSt} {v post : List Char} (hm : st.mode = .space) (he : st.esc = false)
    (hv : g.test v = true) :
    lexFrom st (v ++ ';' :: post) =
      prepend [.word v false, .semi]
        (lexFrom { st with mode := .space, dollar := false, cur := [], pending := 0 } post) := by
  obtain ⟨hne, hp⟩ := charset_regex_plain g hg hv
  cases v with
  | nil => exact absurd rfl hne
  | cons c t =>
    have hc := plain_startOK (hp c (List.mem_cons_self ..))
    have ht : Inert .bare t := inert_of_plain (.inr (.inr rfl)) (fun c' h' => hp c' (List.mem_cons_of_mem _ h'))
    rw [hole_bare_semi hm he hc ht, unescape_of_no_backslash _ (no_backslash_of_plain hp)]

/-- the same with white space after the hole (`proxy_set_header {{ name }} "…"`, `upstream {{ name }} {`) -/
theorem bare_hole_safe_ws (g : GoRegex)
    (hg : g ∈ [G.alnumRe, G.durationRe, G.sizeRe, G.endpointRe, G.dnsLabelRe, G.dnsSubdomainRe, G.wildcardRe,
      G.headerNameRe]) {st : LexSt} {v post : List Char} {w : Char} (hm : st.mode = .space) (he : st.esc = false)
    (hv : g.test v = true) (hw : isWs w = true) :
    lexFrom st (v ++ w :: post) =
      prepend [.word v false]
        (lexFrom { st with mode := .space, dollar := false, cur := [], pending := st.pending + 1 } post) := by
  obtain ⟨hne, hp⟩ := charset_regex_plain g hg hv
  cases v with
  | nil => exact absurd rfl hne
  | cons c t =>
    have hc := plain_startOK (hp c (List.mem_cons_self ..))
    have ht : Inert .bare t := inert_of_plain (.inr (.inr rfl)) (fun c' h' => hp c' (List.mem_cons_of_mem _ h'))
    rw [hole_bare_ws hm he hc ht hw, unescape_of_no_backslash _ (no_backslash_of_plain hp)]

/-- tail of a bare argument (`listen [::]:{{ … }}`, `ngf:ns:name:{{ serviceName }}`, `unix:…/{{ hostname }}-443.sock`) -/
theorem bare_tail_hole_safe (g : GoRegex)
    (hg : g ∈ [G.alnumRe, G.durationRe, G.sizeRe, G.endpointRe, G.dnsLabelRe, G.dnsSubdomainRe, G.wildcardRe,
      G.headerNameRe]) {st : LexSt} {v : List Char} (hm : st.mode = .bare) (he : st.esc = false)
    (hv : g.test v = true) :
    ∃ d, lexFrom st v = .ok ({ st with cur := st.cur ++ v, dollar := d }, []) := by
  obtain ⟨_, hp⟩ := charset_regex_plain g hg hv
  exact lexFrom_inert (.inr (.inr rfl)) (inert_of_plain (.inr (.inr rfl)) hp) st hm he

/-- hostnames (graph.validateHostname: DNS-1123 subdomain or `*.` wildcard) are plain -/
theorem hostname_plain {v : List Char} (h : validateHostname v = true) : v ≠ [] ∧ ∀ c ∈ v, Plain c := by
  unfold validateHostname at h
  split at h
  · exact absurd h (by simp)
  · split at h
    · simp only [Bool.and_eq_true] at h
      exact charset_regex_plain G.wildcardRe (by simp) h.2
    · simp only [Bool.and_eq_true] at h
      exact charset_regex_plain G.dnsSubdomainRe (by simp) h.2

/-- filter header names (validateHeaderName) are plain -/
theorem headerName_plain {v : List Char} (h : validateHeaderName v = true) : v ≠ [] ∧ ∀ c ∈ v, Plain c := by
  simp only [validateHeaderName, Bool.and_eq_true] at h
  exact charset_regex_plain G.headerNameRe (by simp) h.1.2

/-- `pathRegexp`: starts with `/` and no character ends a bare token (backslashes are possible) -/
theorem pathRe_nonterm {s : List Char} (h : G.pathRe.test s = true) :
    ∃ t, s = '/' :: t ∧ ∀ c ∈ t, isTerm .bare c = false := by
  obtain ⟨⟨t, rfl⟩, hc⟩ := pathRe_chars h
  refine ⟨t, rfl, fun c hct => ?_⟩
  obtain ⟨h1, h2, h3, _⟩ := hc c (List.mem_cons_of_mem _ hct)
  simp [isTerm, h1, h2, h3]

/-- **Match paths** (`location {{ path }} {`), full strength: every path accepted by ValidatePathInMatch — backslashes
included, even a trailing one — followed by the template's ` {` is exactly one argument word and the opening brace.
The word is the path, or (trailing backslash) the path with the swallowed space; the state afterwards does not depend
on the path. -/
theorem path_hole_safe {st : LexSt} {v post : List Char} (hm : st.mode = .space) (he : st.esc = false)
    (hv : validatePathInMatch v = true) :
    ∃ w, lexFrom st (v ++ ' ' :: '{' :: post) =
        prepend [.word w false, .open]
          (lexFrom { st with mode := .space, dollar := false, cur := [], pending := 0 } post) ∧
      (w = unescape v ∨ w = unescape (v ++ [' '])) := by
  simp only [validatePathInMatch, Bool.and_eq_true] at hv
  obtain ⟨t, rfl, ht⟩ := pathRe_nonterm hv.2
  exact hole_bare_path_open hm he (by decide) ht

/-- without a backslash the word is the path itself (and any white space may follow) -/
theorem path_hole_exact {st : LexSt} {v post : List Char} {w : Char} (hm : st.mode = .space)
    (he : st.esc = false) (hv : validatePathInMatch v = true) (hb : '\\' ∉ v) (hw : isWs w = true) :
    lexFrom st (v ++ w :: post) =
      prepend [.word v false]
        (lexFrom { st with mode := .space, dollar := false, cur := [], pending := st.pending + 1 } post) := by
  simp only [validatePathInMatch, Bool.and_eq_true] at hv
  obtain ⟨t, rfl, hc, ht⟩ := pathRe_safe hv.2 hb
  rw [hole_bare_ws hm he hc ht hw, unescape_of_no_backslash _ hb]

/-- what validatePath (filters) guarantees since b4791fc: empty, or a `/`-path without `$` and without backslash -/
theorem validatePath_facts {v : List Char} (hv : validatePath v = true) :
    v = [] ∨ (G.pathRe.test v = true ∧ '$' ∉ v ∧ '\\' ∉ v) := by
  simp only [validatePath, Bool.or_eq_true, Bool.and_eq_true, List.isEmpty_iff, Bool.not_eq_true',
    List.contains_eq_mem, decide_eq_false_iff_not] at hv
  rcases hv with h | ⟨⟨h1, h2⟩, h3⟩
  · exact .inl h
  · exact .inr ⟨h1, h2, h3⟩

/-- the replacement that is rendered: a whole bare argument without `$` and without backslash -/
theorem effectiveReplacement_safe {v : List Char} (hv : validatePath v = true) :
    ∃ t, effectiveReplacement v = '/' :: t ∧ Inert .bare t ∧ '\\' ∉ effectiveReplacement v ∧
      '$' ∉ effectiveReplacement v := by
  rcases validatePath_facts hv with rfl | ⟨h1, h2, h3⟩
  · exact ⟨[], rfl, .nil, by decide, by decide⟩
  · obtain ⟨t, rfl, _, ht⟩ := pathRe_safe h1 h3
    exact ⟨t, by simp [effectiveReplacement], ht, by simpa [effectiveReplacement] using h3,
      by simpa [effectiveReplacement] using h2⟩

/-- **Filter paths** (`rewrite ^ {{ path }};`), full strength: for EVERY replacement accepted by validatePath the
rendered replacement (`/` for the empty string) followed by `;` is exactly one word and the semicolon, and it
contains no `$` (the replacement of `rewrite` interpolates variables). -/
theorem filter_path_hole_safe {st : LexSt} {v post : List Char} (hm : st.mode = .space) (he : st.esc = false)
    (hv : validatePath v = true) :
    lexFrom st (effectiveReplacement v ++ ';' :: post) =
      prepend [.word (effectiveReplacement v) false, .semi]
        (lexFrom { st with mode := .space, dollar := false, cur := [], pending := 0 } post) ∧
      '$' ∉ effectiveReplacement v := by
  obtain ⟨t, e, ht, hb, hd⟩ := effectiveReplacement_safe hv
  refine ⟨?_, hd⟩
  rw [e] at hb ⊢
  rw [hole_bare_semi hm he (by decide) ht, unescape_of_no_backslash _ hb]

/-! ### arguments composed in Go (servers.go) -/

/-- shape of the two arguments of the prefix-match rewrite: `^` ++ path ++ literal, prefix ++ literal -/
theorem prefixRewriteArgs_shape (repl path : List Char) :
    ∃ lit1 lit2, (prefixRewriteArgs repl path).1 = '^' :: (path ++ lit1) ∧
      (prefixRewriteArgs repl path).2 = effectiveReplacement repl ++ lit2 ∧ allPlainFor .bare lit1 = true ∧
      2 ≤ lit1.length ∧ allPlainFor .bare lit2 = true := by
  simp only [prefixRewriteArgs]
  by_cases h1 : (endsSlash (effectiveReplacement repl) && !endsSlash path) = true <;>
    by_cases h2 : (endsSlash path && !endsSlash (effectiveReplacement repl)) = true <;>
    simp only [h1, h2, if_true, Bool.false_eq_true, if_false]
  · exact ⟨_, _, rfl, rfl, by decide, by decide, by decide⟩
  · exact ⟨_, _, rfl, rfl, by decide, by decide, by decide⟩
  · exact ⟨_, _, rfl, rfl, by decide, by decide, by decide⟩
  · exact ⟨_, _, rfl, rfl, by decide, by decide, by decide⟩

/-- **URLRewrite, ReplacePrefixMatch** (`rewrite {{ regex replacement break }};`), full strength: for every match path
accepted by ValidatePathInMatch (backslashes included: they can only escape characters of the regex argument
itself) and every replacement accepted by validatePath: exactly the two arguments NGF computed, `break`, `;`. -/
theorem rewrite_prefix_safe {st : LexSt} {post path repl : List Char} (hm : st.mode = .space)
    (he : st.esc = false) (hp : validatePathInMatch path = true) (hr : validatePath repl = true) :
    lexFrom st (rewriteFilterMain (.pfx repl) path ++ ';' :: post) =
      prepend [.word (unescape (prefixRewriteArgs repl path).1) false, .word (prefixRewriteArgs repl path).2 false,
          .word "break".toList false, .semi]
        (lexFrom { st with mode := .space, dollar := false, cur := [], pending := 0 } post) := by
  simp only [validatePathInMatch, Bool.and_eq_true] at hp
  obtain ⟨tp, rfl, htp⟩ := pathRe_nonterm hp.2
  obtain ⟨lit1, lit2, e1, e2, hl1, hlen, hl2⟩ := prefixRewriteArgs_shape repl ('/' :: tp)
  obtain ⟨t2, efp, ht2, hb2, _⟩ := effectiveReplacement_safe hr
  have hpath : ∀ c ∈ '/' :: tp, isTerm .bare c = false := by
    intro c hc
    rcases List.mem_cons.mp hc with rfl | h
    · decide
    · exact htp c h
  have hl1' : ∀ c ∈ lit1, isTerm .bare c = false ∧ c ≠ '\\' := by
    intro c hc
    have := List.all_eq_true.mp hl1 c hc
    simpa using this
  have hw2 : '\\' ∉ ('/' :: t2) ++ lit2 := not_mem_append (efp ▸ hb2) (no_backslash_of_allPlainFor hl2)
  have eq : rewriteFilterMain (.pfx repl) ('/' :: tp) ++ ';' :: post =
      '^' :: ('/' :: tp ++ lit1) ++ ' ' :: ('/' :: (t2 ++ lit2) ++ ' ' :: ('b' :: "reak".toList ++ ';' :: post)) := by
    simp only [rewriteFilterMain, mainRewrite, e1, e2, efp]
    simp [List.append_assoc]
  have s1 := hole_bare_ws (st := st) (c := '^') (t := '/' :: tp ++ lit1) (w := ' ')
    (post := '/' :: (t2 ++ lit2) ++ ' ' :: ('b' :: "reak".toList ++ ';' :: post))
    hm he (by decide) (inert_nonterm_append hpath hl1' hlen) (by decide)
  have s2 := hole_bare_ws
    (st := { st with mode := .space, dollar := false, cur := [], pending := st.pending + 1 }) (c := '/')
    (t := t2 ++ lit2) (w := ' ') (post := 'b' :: "reak".toList ++ ';' :: post)
    rfl he (by decide) (inert_append ht2 (inert_of_allPlainFor hl2)) (by decide)
  have s3 := hole_bare_semi
    (st := { st with mode := .space, dollar := false, cur := [], pending := st.pending + 1 + 1 }) (c := 'b')
    (t := "reak".toList) (post := post) rfl he (by decide) (inert_of_allPlainFor (by decide))
  rw [eq, s1, s2, s3, prepend_prepend, prepend_prepend,
    unescape_of_no_backslash ('/' :: (t2 ++ lit2)) (by simpa using hw2),
    unescape_of_no_backslash ('b' :: "reak".toList) (by decide), e1, e2, efp]
  simp

/-- **RequestRedirect / URLRewrite, ReplaceFullPath** (`rewrite ^ {{ path }};`), full strength: for EVERY replacement
accepted by validatePath (the empty one is rendered as `/`) exactly `^`, the replacement, `;`. -/
theorem rewrite_full_safe {st : LexSt} {post path repl : List Char} (hm : st.mode = .space)
    (he : st.esc = false) (hr : validatePath repl = true) :
    lexFrom st (mainRewrite (.full repl) path ++ ';' :: post) =
      prepend [.word "^".toList false, .word (effectiveReplacement repl) false, .semi]
        (lexFrom { st with mode := .space, dollar := false, cur := [], pending := 0 } post) := by
  have eq : mainRewrite (.full repl) path ++ ';' :: post =
      '^' :: [] ++ ' ' :: (effectiveReplacement repl ++ ';' :: post) := by
    simp [mainRewrite]
  have h2 := (filter_path_hole_safe
    (st := { st with mode := .space, dollar := false, cur := [], pending := st.pending + 1 }) (post := post)
    rfl he hr).1
  rw [eq, hole_bare_ws hm he (by decide) .nil (by decide), h2, prepend_prepend]
  simp [unescape]

/-- **Redirect URL** (`return 30x "{{ body }}";`): for an accepted scheme (http/https or unset) and an accepted or
unset hostname the composed body is an escaped-string shape, so `dquoted`-hole lexing applies to it. -/
theorem redirect_body_inert (scheme hostname : Option (List Char)) (port : Option Nat) (hasPath : Bool) (lp : Nat)
    (hs : ∀ s, scheme = some s → validateRedirectScheme s = true)
    (hh : ∀ v, hostname = some v → validateEscapedStringNoVarExpansion v = true) :
    Inert .dq (redirectBody scheme hostname port hasPath lp) := by
  have hhost : Inert .dq (hostname.getD ['$', 'h', 'o', 's', 't']) := by
    cases hostname with
    | none => exact inert_of_allPlainFor (by decide)
    | some v => exact (escapedStringsNoVarRe_novar (hh v rfl)).1
  have hdig : ∀ n, Inert .dq (natDigits n) := fun n => inert_of_plain (.inl rfl) (digits_plain n)
  have hwith : ∀ h, Inert .dq h → Inert .dq (h ++ [':'] ++ natDigits (port.getD lp)) := fun h hi =>
    inert_append (inert_append hi (inert_of_allPlainFor (by decide))) (hdig _)
  have hhp : Inert .dq (redirectHostPort scheme (hostname.getD ['$', 'h', 'o', 's', 't']) port lp) := by
    unfold redirectHostPort
    cases scheme with
    | none => exact hwith _ hhost
    | some s =>
      simp only
      split
      · exact hhost
      · split
        · exact hhost
        · exact hwith _ hhost
  have hsch : Inert .dq (scheme.getD ['$', 's', 'c', 'h', 'e', 'm', 'e']) := by
    cases scheme with
    | none => exact inert_of_allPlainFor (by decide)
    | some s =>
      have := hs s rfl
      simp only [validateRedirectScheme] at this
      have hmem : String.ofList s ∈ NGF.Generated.Regexes.supportedRedirectSchemes := by simpa using this
      have : String.ofList s = "http" ∨ String.ofList s = "https" := by
        simpa [NGF.Generated.Regexes.supportedRedirectSchemes] using hmem
      rcases this with h | h
      · have : s = "http".toList := by rw [← h]; simp
        rw [this]; exact inert_of_allPlainFor (by decide)
      · have : s = "https".toList := by rw [← h]; simp
        rw [this]; exact inert_of_allPlainFor (by decide)
  have htail : Inert .dq (redirectTail hasPath) := by
    cases hasPath <;> exact inert_of_allPlainFor (by decide)
  unfold redirectBody
  exact inert_append (inert_append (inert_append hsch (inert_of_allPlainFor (by decide))) hhp) htail

/-! ### regression witnesses: the code before /repo commit b4791fc

Before b4791fc validatePath accepted backslashes and an empty ReplaceFullPath replacement was rendered as nothing.
The four signatures `…requestRedirect|urlRewrite.path.replaceFullPath:{trailing-backslash,empty-argument}` (now
`fixed` in known_findings.json) reappear from the search if the commit is reverted; these theorems record why. -/

/-- the old validator accepted a path ending in a backslash, the current one rejects it; ValidatePathInMatch
(match paths, `location`) still accepts it — harmless there, see `path_hole_safe` -/
theorem prefix_validatePath_admitted_trailing_backslash :
    validatePathPreFix "/x\\".toList = true ∧ validatePath "/x\\".toList = false ∧
      validatePathInMatch "/x\\".toList = true := by decide

/-- … in `rewrite ^ {{ path }};` (RequestRedirect, ReplaceFullPath) that backslash escaped the `;` of the
template: the directive did not end, the following `return` became arguments of `rewrite`. -/
theorem trailing_backslash_swallows_semicolon :
    (lex "rewrite ^ /x\\;\nreturn 302 \"u\";".toList).toOption =
      some [.word "rewrite".toList false, .word "^".toList false, .word "/x\\;".toList false,
           .word "return".toList false, .word "302".toList false, .word "u".toList true, .semi] ∧
    (lex "rewrite ^ /x;\nreturn 302 \"u\";".toList).toOption =
      some [.word "rewrite".toList false, .word "^".toList false, .word "/x".toList false, .semi,
           .word "return".toList false, .word "302".toList false, .word "u".toList true, .semi] := by
  decide

/-- … and in `rewrite ^ {{ path }} break;` (URLRewrite, ReplaceFullPath) it glued the `break` flag to the path -/
theorem trailing_backslash_swallows_break :
    (lex "rewrite ^ /x\\ break;".toList).toOption =
      some [.word "rewrite".toList false, .word "^".toList false, .word "/x\\ break".toList false, .semi] := by
  decide

/-- with an empty replacement the old composer left the argument out; the current one renders `/` -/
theorem prefix_empty_replacement_dropped_argument :
    (lex ("rewrite ".toList ++ mainRewritePreFix (.full []) "/p".toList ++ ";".toList)).toOption =
      some [.word "rewrite".toList false, .word "^".toList false, .semi] ∧
    (lex ("rewrite ".toList ++ mainRewritePreFix (.full []) "/p".toList ++ " break;".toList)).toOption =
      some [.word "rewrite".toList false, .word "^".toList false, .word "break".toList false, .semi] ∧
    (lex ("rewrite ".toList ++ mainRewrite (.full []) "/p".toList ++ ";".toList)).toOption =
      some [.word "rewrite".toList false, .word "^".toList false, .word "/".toList false, .semi] := by
  decide +kernel

/-! ## 3. the hole / guard table -/

/-- who guarantees the lexical safety of a hole -/
inductive Guard
  | internal        -- numbers, booleans, fixed strings and names mangled by the generator (C03 lexical classes)
  | k8sName         -- built from namespace/name of API objects (DNS-1123, enforced by the API server) and fixed text
  | enumConst       -- value checked against a fixed list / rendered from a constant
  | hostname        -- graph.validateHostname / listener hostname validation (DNS-1123 subdomain, `*.` wildcard)
  | pathInMatch     -- HTTPNJSMatchValidator.ValidatePathInMatch (backslashes possible; only before ` {`)
  | rewriteArgs     -- createMainRewriteForFilters: ValidatePathInMatch + validatePath parts (rewrite_prefix_safe, rewrite_full_safe)
  | redirectBody    -- scheme enum + ValidateHostname (escaped, no `$`) + port number + fixed variables
  | headerName      -- validateHeaderName / k8s IsHTTPHeaderName
  | noVarQuoted     -- validateEscapedStringNoVarExpansion
  | endpoint        -- GenericValidator.ValidateEndpoint
  | duration        -- GenericValidator.ValidateNginxDuration
  | size            -- GenericValidator.ValidateNginxSize
  | serviceName     -- `ngf:<ns>:<name>` + GenericValidator.ValidateServiceName
  | address         -- k8s IsValidCIDR / IsValidIP / IsDNS1123Subdomain (validateRewriteClientIP)
  | cliFlag         -- command-line flags validated by cmd/gateway (property C20), not resource fields
  deriving DecidableEq, Repr

/-- the validator model attached to a guard (for the guards whose value is inserted verbatim) -/
def Guard.pred : Guard → Option (List Char → Bool)
  | .hostname => some validateHostname
  | .pathInMatch => some validatePathInMatch
  | .headerName => some validateHeaderName
  | .noVarQuoted => some validateEscapedStringNoVarExpansion
  | .endpoint => some G.endpointRe.test
  | .duration => some G.durationRe.test
  | .size => some G.sizeRe.test
  | _ => none

/-- contexts in which a guard is adequate -/
def Guard.okIn : Guard → HoleCtx → Bool
  | .noVarQuoted, c => c == .dquoted
  | .redirectBody, c => c == .dquoted
  | .internal, c => c == .argStart || c == .argTail || c == .comment
  | _, c => c == .argStart || c == .argTail

def h (t e : String) (c : HoleCtx) (n : String) : Hole := ⟨t.toList, e.toList, c, n.toList⟩

def serversTable : List (Hole × Guard) :=
  [(h "servers" "$s.Listen" .argStart " s", .internal),
   (h "servers" "$.RewriteClientIP.ProxyProtocol" .argTail ";", .internal),
   (h "servers" "$s.Listen" .argTail " s", .internal),
   (h "servers" "$address" .argStart ";", .address),
   (h "servers" "$.RewriteClientIP.RealIPHeader" .argStart ";", .enumConst),
   (h "servers" "$s.Listen" .argStart " d", .internal),
   (h "servers" "$s.Listen" .argTail " d", .internal),
   (h "servers" "$s.SSL.Certificate" .argStart ";\n", .k8sName),
   (h "servers" "$s.SSL.CertificateKey" .argStart ";\n", .k8sName),
   (h "servers" "$s.Listen" .argStart "", .internal),
   (h "servers" "$s.Listen" .argTail "", .internal),
   (h "servers" "$s.ServerName" .argStart ";", .hostname),
   (h "servers" "$i.Name" .argStart ";", .k8sName),
   (h "servers" "$l.Path" .argStart " {", .pathInMatch),
   (h "servers" "$r" .argStart ";", .rewriteArgs),
   (h "servers" "$l.Return.Code" .argStart " \"", .internal),
   (h "servers" "$l.Return.Body" .dquoted "\";", .redirectBody),
   (h "servers" "$l.HTTPMatchKey" .argStart ";\n", .internal),
   (h "servers" "$proxyOrGRPC" .argStart "_s", .internal),
   (h "servers" "$h.Name" .argStart " \"", .headerName),
   (h "servers" "$h.Value" .dquoted "\";", .noVarQuoted),
   (h "servers" "$proxyOrGRPC" .argStart "_p", .internal),
   (h "servers" "$l.ProxyPass" .argStart ";\n", .k8sName),
   (h "servers" "$h.Value" .dquoted "\" ", .noVarQuoted),
   (h "servers" "$h.Name" .argStart ";\n", .headerName),
   (h "servers" "$h" .argStart ";", .headerName),
   (h "servers" "$l.ProxySSLVerify.Name" .argStart ";\n", .hostname),
   (h "servers" "$l.ProxySSLVerify.TrustedCertificate" .argStart ";", .k8sName)]

def mainTable : List (Hole × Guard) :=
  [(h "mainConfig" ".Conf.Logging.ErrorLevel" .argStart ";\n", .enumConst),
   (h "mainConfig" "$i.Name" .argStart ";\n", .k8sName)]

def mgmtTable : List (Hole × Guard) :=
  [(h "mgmtConfig" ".Endpoint" .argTail ";", .cliFlag),
   (h "mgmtConfig" ".Resolver" .argStart ";", .cliFlag),
   (h "mgmtConfig" ".LicenseTokenFile" .argStart ";\n", .internal),
   (h "mgmtConfig" ".CACertFile" .argStart ";", .internal),
   (h "mgmtConfig" ".ClientSSLCertFile" .argStart ";\n", .internal),
   (h "mgmtConfig" ".ClientSSLKeyFile" .argStart ";", .internal)]

def otelTable : List (Hole × Guard) :=
  [(h "otel" ".Endpoint" .argStart ";", .endpoint),
   (h "otel" ".Interval" .argStart ";", .duration),
   (h "otel" ".BatchSize" .argStart ";", .internal),
   (h "otel" ".BatchCount" .argStart ";", .internal),
   (h "otel" ".ServiceName" .argStart ";", .serviceName),
   (h "otel" "$ratio.Name" .argStart " {", .internal),
   (h "otel" "$ratio.Value" .argStart "% ", .internal)]

def baseHTTPTable : List (Hole × Guard) :=
  [(h "baseHTTP" "$i.Name" .argStart ";\n", .k8sName)]

def mapsTable : List (Hole × Guard) :=
  [(h "maps" "$m.Source" .argStart " ", .internal),
   (h "maps" "$m.Variable" .argStart " {", .internal),
   (h "maps" "$p.Value" .argStart " ", .hostname),
   (h "maps" "$p.Result" .argStart ";\n", .internal)]

def splitClientsTable : List (Hole × Guard) :=
  [(h "splitClients" "$sc.VariableName" .argTail " {", .k8sName),
   (h "splitClients" "$d.Percent" .comment "% ", .internal),
   (h "splitClients" "$d.Value" .comment ";", .internal),
   (h "splitClients" "$d.Percent" .argStart "% ", .internal),
   (h "splitClients" "$d.Value" .argStart ";", .k8sName)]

def upstreamsTable : List (Hole × Guard) :=
  [(h "upstreams" "$u.Name" .argStart " {", .k8sName),
   (h "upstreams" "$u.Name" .argStart " ", .k8sName),
   (h "upstreams" "$u.ZoneSize" .argStart ";\n", .size),
   (h "upstreams" "$u.StateFile" .argStart ";", .k8sName),
   (h "upstreams" "$server.Address" .argStart ";", .internal),
   (h "upstreams" "$u.KeepAlive.Connections" .argStart ";", .internal),
   (h "upstreams" "$u.KeepAlive.Requests" .argStart ";", .internal),
   (h "upstreams" "$u.KeepAlive.Time" .argStart ";", .duration),
   (h "upstreams" "$u.KeepAlive.Timeout" .argStart ";", .duration)]

def streamUpstreamsTable : List (Hole × Guard) :=
  [(h "streamUpstreams" "$u.Name" .argStart " {", .k8sName),
   (h "streamUpstreams" "$u.Name" .argStart " ", .k8sName),
   (h "streamUpstreams" "$u.ZoneSize" .argStart ";", .internal),
   (h "streamUpstreams" "$u.StateFile" .argStart ";", .k8sName),
   (h "streamUpstreams" "$server.Address" .argStart ";", .internal)]

def streamServersTable : List (Hole × Guard) :=
  [(h "streamServers" "$s.Listen" .argStart "", .hostname),
   (h "streamServers" "$s.RewriteClientIP.ProxyProtocol" .argTail ";", .internal),
   (h "streamServers" "$s.Listen" .argTail ";", .internal),
   (h "streamServers" "$address" .argStart ";", .address),
   (h "streamServers" "$s.StatusZone" .argStart ";", .hostname),
   (h "streamServers" "$s.ProxyPass" .argStart ";", .k8sName),
   (h "streamServers" "$s.Pass" .argStart ";", .internal)]

def versionTable : List (Hole × Guard) :=
  [(h "version" "." .argStart ";\n", .internal)]

def obsTable : List (Hole × Guard) :=
  [(h "obsPolicy" ".Strategy" .argStart ";", .internal),
   (h "obsPolicy" ".Tracing.Context" .argStart ";", .enumConst),
   (h "obsPolicy" ".Tracing.SpanName" .dquoted "\";", .noVarQuoted),
   (h "obsPolicy" "$attr.Key" .dquoted "\" ", .noVarQuoted),
   (h "obsPolicy" "$attr.Value" .dquoted "\";", .noVarQuoted)]

def obsInternalTable : List (Hole × Guard) :=
  [(h "obsPolicyInternal" ".Tracing.SpanName" .dquoted "\";", .noVarQuoted),
   (h "obsPolicyInternal" "$attr.Key" .dquoted "\" ", .noVarQuoted),
   (h "obsPolicyInternal" "$attr.Value" .dquoted "\";", .noVarQuoted)]

def obsExtTable : List (Hole × Guard) :=
  [(h "obsPolicyExtRedirect" ".Strategy" .argStart ";", .internal),
   (h "obsPolicyExtRedirect" ".Tracing.Context" .argStart ";", .enumConst)]

def clientSettingsTable : List (Hole × Guard) :=
  [(h "clientSettings" ".Body.MaxSize" .argStart ";", .size),
   (h "clientSettings" ".Body.Timeout" .argStart ";", .duration),
   (h "clientSettings" ".KeepAlive.Requests" .argStart ";", .internal),
   (h "clientSettings" ".KeepAlive.Time" .argStart ";", .duration),
   (h "clientSettings" ".KeepAlive.Timeout.Server" .argStart " ", .duration),
   (h "clientSettings" ".KeepAlive.Timeout.Header" .argStart ";", .duration),
   (h "clientSettings" ".KeepAlive.Timeout.Server" .argStart ";", .duration)]

def guardTable : List (Hole × Guard) :=
  serversTable ++ mainTable ++ mgmtTable ++ otelTable ++ baseHTTPTable ++ mapsTable ++ splitClientsTable ++
    upstreamsTable ++ streamUpstreamsTable ++ streamServersTable ++ versionTable ++ obsTable ++ obsInternalTable ++
    obsExtTable ++ clientSettingsTable

open NGF.Generated.Templates in
theorem holes_servers : holesOf "servers" servers = serversTable.map (·.1) := by decide +kernel
open NGF.Generated.Templates in
theorem holes_mainConfig : holesOf "mainConfig" mainConfig = mainTable.map (·.1) := by decide +kernel
open NGF.Generated.Templates in
theorem holes_mgmtConfig : holesOf "mgmtConfig" mgmtConfig = mgmtTable.map (·.1) := by decide +kernel
open NGF.Generated.Templates in
theorem holes_otel : holesOf "otel" otel = otelTable.map (·.1) := by decide +kernel
open NGF.Generated.Templates in
theorem holes_baseHTTP : holesOf "baseHTTP" baseHTTP = baseHTTPTable.map (·.1) := by decide +kernel
open NGF.Generated.Templates in
theorem holes_maps : holesOf "maps" maps = mapsTable.map (·.1) := by decide +kernel
open NGF.Generated.Templates in
theorem holes_splitClients : holesOf "splitClients" splitClients = splitClientsTable.map (·.1) := by decide +kernel
open NGF.Generated.Templates in
theorem holes_upstreams : holesOf "upstreams" upstreams = upstreamsTable.map (·.1) := by decide +kernel
open NGF.Generated.Templates in
theorem holes_streamUpstreams : holesOf "streamUpstreams" streamUpstreams = streamUpstreamsTable.map (·.1) := by decide +kernel
open NGF.Generated.Templates in
theorem holes_streamServers : holesOf "streamServers" streamServers = streamServersTable.map (·.1) := by decide +kernel
open NGF.Generated.Templates in
theorem holes_version : holesOf "version" version = versionTable.map (·.1) := by decide +kernel
open NGF.Generated.Templates in
theorem holes_obsPolicy : holesOf "obsPolicy" obsPolicy = obsTable.map (·.1) := by decide +kernel
open NGF.Generated.Templates in
theorem holes_obsPolicyInternal : holesOf "obsPolicyInternal" obsPolicyInternal = obsInternalTable.map (·.1) := by decide +kernel
open NGF.Generated.Templates in
theorem holes_obsPolicyExtRedirect : holesOf "obsPolicyExtRedirect" obsPolicyExtRedirect = obsExtTable.map (·.1) := by decide +kernel
open NGF.Generated.Templates in
theorem holes_clientSettings : holesOf "clientSettings" clientSettings = clientSettingsTable.map (·.1) := by decide +kernel

/-- every template of the generator is in the list, and no other template text exists in the package tree -/
theorem templates_covered :
    NGF.Generated.Templates.templateNames = allTemplates.map (·.1) ∧
    NGF.Generated.Templates.unlistedTemplates = [] := by decide

/-- **Hole/guard table.** The holes of the CURRENT templates, with the lexical context computed by the Lean
lexer, are exactly the entries of the guard table, and every guard is adequate for the context of its hole
(a quoted-string validator only inside quotes, bare-argument validators only in bare arguments). A new hole, a
hole moved out of its quotes, or a changed delimiter breaks this theorem. -/
theorem hole_guard_table :
    allHoles = guardTable.map (·.1) ∧ guardTable.all (fun e => e.2.okIn e.1.ctx) = true := by
  refine ⟨?_, by decide⟩
  simp only [allHoles, allTemplates, List.map_cons, List.map_nil, List.flatten_cons, List.flatten_nil,
    holes_servers, holes_mainConfig, holes_mgmtConfig, holes_otel, holes_baseHTTP, holes_maps, holes_splitClients, holes_upstreams, holes_streamUpstreams, holes_streamServers, holes_version, holes_obsPolicy, holes_obsPolicyInternal, holes_obsPolicyExtRedirect, holes_clientSettings,
    guardTable, List.map_append, List.append_nil, List.append_assoc]

/-- lexical safety a context (with the template text `next` that follows the hole) asks of a value. A bare
argument may contain backslashes (non-terminating characters only) where the template continues with ` {`:
`hole_bare_path_open` / `path_hole_safe`. -/
def SafeIn : HoleCtx → List Char → List Char → Prop
  | .argStart, next, v => ∃ c t, v = c :: t ∧ startOK c = true ∧
      (Inert .bare t ∨ (next = [' ', '{'] ∧ ∀ c' ∈ t, isTerm .bare c' = false))
  | .argTail, _, v => Inert .bare v
  | .dquoted, _, v => Inert .dq v ∧ '$' ∉ v
  | _, _, _ => False

/-- **Guard soundness.** For every table entry whose value is inserted verbatim, acceptance by the guard's
validator model implies the lexical safety predicate of the hole's context (which the hole theorems of
Proofs/NginxLexHoles turn into "exactly one argument token, state independent of the value"). -/
theorem guard_sound : ∀ e ∈ guardTable, ∀ p, e.2.pred = some p → ∀ v, p v = true → SafeIn e.1.ctx e.1.next v := by
  have plainStart : ∀ (n v : List Char), v ≠ [] → (∀ c ∈ v, Plain c) → SafeIn .argStart n v := by
    intro n v hne hp
    cases v with
    | nil => exact absurd rfl hne
    | cons c t =>
      exact ⟨c, t, rfl, plain_startOK (hp c (List.mem_cons_self ..)),
        .inl (inert_of_plain (.inr (.inr rfl)) (fun c' h' => hp c' (List.mem_cons_of_mem _ h')))⟩
  have byGuard : ∀ (g : Guard) (c : HoleCtx) (n : List Char), g.okIn c = true → ∀ p, g.pred = some p →
      ∀ v, p v = true → (g = .pathInMatch → c = .argStart ∧ n = [' ', '{']) →
      (g ≠ .pathInMatch → g ≠ .noVarQuoted → c = .argStart) → SafeIn c n v := by
    intro g c n hok p hp v hv hpath hbare
    cases g <;> simp only [Guard.pred, Option.some.injEq, reduceCtorEq] at hp
    · -- hostname
      subst hp; rw [hbare (by simp) (by simp)]
      exact plainStart n v (hostname_plain hv).1 (hostname_plain hv).2
    · -- pathInMatch
      subst hp; rw [(hpath rfl).1]
      simp only [validatePathInMatch, Bool.and_eq_true] at hv
      obtain ⟨t, rfl, ht⟩ := pathRe_nonterm hv.2
      exact ⟨'/', t, rfl, by decide, .inr ⟨(hpath rfl).2, ht⟩⟩
    · -- headerName
      subst hp; rw [hbare (by simp) (by simp)]
      exact plainStart n v (headerName_plain hv).1 (headerName_plain hv).2
    · -- noVarQuoted
      subst hp
      simp only [Guard.okIn, beq_iff_eq] at hok
      subst hok
      exact escapedStringsNoVarRe_novar hv
    · subst hp; rw [hbare (by simp) (by simp)]
      have := charset_regex_plain G.endpointRe (by simp) hv
      exact plainStart n v this.1 this.2
    · subst hp; rw [hbare (by simp) (by simp)]
      have := charset_regex_plain G.durationRe (by simp) hv
      exact plainStart n v this.1 this.2
    · subst hp; rw [hbare (by simp) (by simp)]
      have := charset_regex_plain G.sizeRe (by simp) hv
      exact plainStart n v this.1 this.2
  have hall : guardTable.all (fun e => e.2.okIn e.1.ctx &&
      (e.2.pred.isNone || e.2 == .noVarQuoted || e.1.ctx == .argStart) &&
      (e.2 != .pathInMatch || e.1.next == [' ', '{'])) = true := by decide
  intro e he p hp v hv
  have := List.all_eq_true.mp hall e he
  simp only [Bool.and_eq_true, Bool.or_eq_true, beq_iff_eq] at this
  obtain ⟨⟨hok, hctx⟩, hnext⟩ := this
  refine byGuard e.2 e.1.ctx e.1.next hok p hp v hv ?_ ?_
  · intro hg
    refine ⟨?_, ?_⟩
    · rcases hctx with (hn | hq) | hc
      · simp [hp] at hn
      · rw [hg] at hq; cases hq
      · exact hc
    · rcases hnext with hne | heq
      · simp [hg] at hne
      · exact heq
  · intro _ hnq
    rcases hctx with (hn | hq) | hc
    · simp [hp] at hn
    · exact absurd hq hnq
    · exact hc

/-! ## 4. the judge -/

/-- the judge accepts the baseline itself -/
theorem judge_refl (ts : List Tok) : judgeToks ts ts = .ok 0 := judgeGo_refl _ _ _ _

/-- **Judge soundness.** If the judge accepts, the probe's token stream has the length of the baseline's and
agrees with it at every position, except where both tokens are argument words and the probe's carries the
marker; in particular the sequence of token kinds (word ; { }) is identical. -/
theorem judge_sound (base probe : List Tok) (k : Nat) (hj : judgeToks base probe = .ok k) :
    Agree base probe ∧ base.length = probe.length := by
  have ha := agree_of_judgeGo _ _ _ _ _ _ hj
  exact ⟨ha, agree_length _ _ ha⟩

/-! ## 5. non-vacuity -/

example : validateEscapedStringNoVarExpansion "a \\\" ; } b".toList = true := by decide
example : validateEscapedStringNoVarExpansion "a$b".toList = false := by decide
example : validateEscapedStringNoVarExpansion "a\\".toList = false := by decide
example : validatePathInMatch "/coffee\"x#y".toList = true := by decide
example : G.endpointRe.test "otel.example.com:4317".toList = true := by decide
example : validateHostname "*.example.com".toList = true := by decide
/-- the quoted-hole theorem applied to a hostile value in a real template context -/
example :
    (lex "add_header X \"a \\\" ; } b\" always;".toList).toOption =
      some [.word "add_header".toList false, .word "X".toList false, .word "a \" ; } b".toList true,
           .word "always".toList false, .semi] := by decide
example : judgeToks [.word "a".toList false, .semi] [.word "zqmq;".toList false, .semi] = .ok 1 := by decide
example : (judgeToks [.word "a".toList false, .semi]
    [.word "zqmq".toList false, .semi, .word "load_module".toList false, .semi]).isOk = false := by decide

end NGF.Props.C04
