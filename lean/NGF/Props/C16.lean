/-
C16 — TLS material is bound to the right listener and never weakened silently.
Property theorems about `NGF.Model.TlsBind` (the functions the driver runs and the correspondence compares
with the real code), expectation lemmas over the facts regenerated from /repo, witnesses of the two places
where the current code does not satisfy the property at full strength, and their `_partial` theorems.
The theorems over the GENERATED CONFIGURATION (pipeline level: `PipelineTls.genT`) are in NGF/Props/C16Pipeline.lean,
imported here.
-/
import NGF.Model.TlsBind
import NGF.Proofs.TlsBind
import NGF.Proofs.TlsOwner
import NGF.Generated.TlsFacts
import NGF.Props.C16Pipeline

namespace NGF.Tls

/-! ### facts regenerated from the source -/

/-- closes a conjunction of definitional equalities between regenerated facts and their expected text -/
macro "facts" : tactic => `(tactic| ((repeat' apply And.intro) <;> rfl))

theorem fact_keyPairFormat : Generated.Tls.keyPairFormat = "ssl_keypair_%s_%s" := by facts
theorem fact_certBundleFormat : Generated.Tls.certBundleFormat = "cert_bundle_%s_%s" := by facts
theorem fact_paths : Generated.Tls.secretsFolder.toList = secretsFolder ∧ Generated.Tls.alpineSSLRootCAPath.toList = systemCAPath ∧
    Generated.Tls.wildcardHostname.toList = wildcardHostname := by facts

theorem fact_generatePEM : Generated.Tls.generatePEMBody =
    ["c := make([]byte, 0, len(cert)+len(key)+1)", "c = append(c, cert...)", "c = append(c, '\\n')",
     "c = append(c, key...)", "return file.File{ Content: c, Path: generatePEMFileName(id), Type: file.TypeSecret, }"] ∧
    Generated.Tls.generatePEMFileNameBody = ["return filepath.Join(secretsFolder, string(id)+\".pem\")"] ∧
    Generated.Tls.generateCertBundleFileNameBody = ["return filepath.Join(secretsFolder, string(id)+\".crt\")"] := by facts

theorem fact_buildSSLKeyPairs : Generated.Tls.buildSSLKeyPairsBody =
    ["keyPairs := make(map[SSLKeyPairID]SSLKeyPair)",
     "for _, l := range listeners { if l.Valid && l.ResolvedSecret != nil { id := generateSSLKeyPairID(*l.ResolvedSecret) secret := secrets[*l.ResolvedSecret] keyPairs[id] = SSLKeyPair{ Cert: secret.Source.Data[apiv1.TLSCertKey], Key: secret.Source.Data[apiv1.TLSPrivateKeyKey], } } }",
     "return keyPairs"] := by facts

theorem fact_owner_choice :
    Generated.Tls.listenersForHostLoop.head? = some "if prevListener, exists := hpr.listenersForHost[h]; exists { if listenerHostnameMoreSpecific(listener.Source.Hostname, prevListener.Source.Hostname) { hpr.listenersForHost[h] = listener } } else { hpr.listenersForHost[h] = listener }" ∧
    Generated.Tls.listenerHostnameMoreSpecificBody.getLast? = some "return graph.GetMoreSpecificHostname(host1Str, host2Str) == host1Str" ∧
    Generated.Tls.buildServersSSLAssignments = ["s.SSL = &SSL{ KeyPairID: generateSSLKeyPairID(*l.ResolvedSecret), }",
                                      "s.SSL = &SSL{ KeyPairID: generateSSLKeyPairID(*l.ResolvedSecret), }"] ∧
    Generated.Tls.buildServersConditions = ["l.ResolvedSecret != nil", "len(l.Routes) == 0 || hostname == wildcardHostname",
                                  "l.ResolvedSecret != nil", "hpr.listenersExist"] ∧
    Generated.Tls.sslServerCertFields = ["Certificate: generatePEMFileName(virtualServer.SSL.KeyPairID)",
                               "CertificateKey: generatePEMFileName(virtualServer.SSL.KeyPairID)"] := by facts

theorem fact_getMoreSpecificHostname : Generated.Tls.getMoreSpecificHostnameBody =
    ["if hostname1 == hostname2 { return hostname1 }", "if hostname1 == \"\" { return hostname2 }",
     "if hostname2 == \"\" { return hostname1 }",
     "if strings.HasPrefix(hostname1, \"*.\") { if strings.HasPrefix(hostname2, \"*.\") { subdomains1 := strings.Split(hostname1, \".\") subdomains2 := strings.Split(hostname2, \".\") if len(subdomains1) > len(subdomains2) { return hostname1 } return hostname2 } return hostname2 }",
     "if strings.HasPrefix(hostname2, \"*.\") { return hostname1 }", "return \"\""] := by facts

theorem fact_secret_resolution : Generated.Tls.secretResolveCases = ["!exist", "secret.Type != apiv1.SecretTypeTLS", "default"] := by facts

/-- the loop deciding whether the backends of a rule agree (fix e38b1f9): every backend is compared with the first,
CA refs are namespaced, wellKnown is compared by value. Reverting the fix breaks this lemma. -/
theorem fact_mismatch_loop :
    Generated.Tls.mismatchLoopBody =
      ["for i := 1; i < len(backendRefs); i++",
       "if policiesDiffer(backendRefs[i].BackendTLSPolicy, backendRefs[0].BackendTLSPolicy) { mismatch = true break }"] ∧
    Generated.Tls.mismatchCompare =
      "policiesDiffer := func(p1, p2 *BackendTLSPolicy) bool { if p1 == nil || p2 == nil { return p1 != p2 } val1, val2 := p1.Source.Spec.Validation, p2.Source.Spec.Validation return !slices.Equal(val1.CACertificateRefs, val2.CACertificateRefs) || (len(val1.CACertificateRefs) > 0 && p1.Source.Namespace != p2.Source.Namespace) || (val1.WellKnownCACertificates == nil) != (val2.WellKnownCACertificates == nil) || (val1.WellKnownCACertificates != nil && *val1.WellKnownCACertificates != *val2.WellKnownCACertificates) || val1.Hostname != val2.Hostname }" ∧
    Generated.Tls.mismatchGuard = "len(backendRefs) > 1" := by facts

theorem fact_proxy_tls :
    Generated.Tls.createProxyTLSFromBackendsBody =
      ["if len(backends) == 0 { return nil }",
       "for _, b := range backends { proxyVerify := createProxySSLVerify(b.VerifyTLS) if proxyVerify != nil { return proxyVerify } }",
       "return nil"] ∧
    Generated.Tls.createProxySSLVerifyBody =
      ["if v == nil { return nil }", "var trustedCert string",
       "if v.CertBundleID != \"\" { trustedCert = generateCertBundleFileName(v.CertBundleID) } else { trustedCert = v.RootCAPath }",
       "return &http.ProxySSLVerify{ TrustedCertificate: trustedCert, Name: v.Hostname, }"] ∧
    Generated.Tls.convertBackendTLSBody =
      ["if btp == nil || !btp.Valid { return nil }", "verify := &VerifyTLS{}",
       "if btp.CaCertRef.Name != \"\" { verify.CertBundleID = generateCertBundleID(btp.CaCertRef) } else { verify.RootCAPath = alpineSSLRootCAPath }",
       "verify.Hostname = string(btp.Source.Spec.Validation.Hostname)", "return verify"] := by facts

theorem fact_template_tls_lines : Generated.Tls.templateTLSLines =
    ["listen {{ $s.Listen }} ssl default_server{{ $.RewriteClientIP.ProxyProtocol }};",
     "listen [::]:{{ $s.Listen }} ssl default_server{{ $.RewriteClientIP.ProxyProtocol }};",
     "ssl_reject_handshake on;",
     "listen {{ $s.Listen }} ssl{{ $.RewriteClientIP.ProxyProtocol }};",
     "listen [::]:{{ $s.Listen }} ssl{{ $.RewriteClientIP.ProxyProtocol }};",
     "ssl_certificate {{ $s.SSL.Certificate }};",
     "ssl_certificate_key {{ $s.SSL.CertificateKey }};",
     "if ($ssl_server_name != $host) {",
     "{{ $proxyOrGRPC }}_ssl_server_name on;",
     "{{ $proxyOrGRPC }}_ssl_verify on;",
     "{{ $proxyOrGRPC }}_ssl_name {{ $l.ProxySSLVerify.Name }};",
     "{{ $proxyOrGRPC }}_ssl_trusted_certificate {{ $l.ProxySSLVerify.TrustedCertificate }};"] := by facts

/-- secretResolver.resolve: a cached entry answers first; otherwise ONE verdict is computed and stored — whatever it
is — before it is returned (`resolveCached`). A branch that returns without storing its error breaks this lemma. -/
theorem fact_secret_resolver_cache : Generated.Tls.secretResolveBody =
    ["if s, resolved := r.resolvedSecrets[nsname]; resolved { return s.err }",
     "secret, exist := r.clusterSecrets[nsname]",
     "var validationErr error",
     "switch { case !exist: validationErr = errors.New(\"secret does not exist\") case secret.Type != apiv1.SecretTypeTLS: validationErr = fmt.Errorf(\"secret type must be %q not %q\", apiv1.SecretTypeTLS, secret.Type) default: _, err := tls.X509KeyPair(secret.Data[apiv1.TLSCertKey], secret.Data[apiv1.TLSPrivateKeyKey]) if err != nil { validationErr = fmt.Errorf(\"TLS secret is invalid: %w\", err) } }",
     "r.resolvedSecrets[nsname] = &secretEntry{ Secret: Secret{ Source: secret, }, err: validationErr, }",
     "return validationErr"] := by facts

/-- processBackendTLSPolicies: every policy gets an entry of the processed map, an ignored one as invalid
(`processBtp`); Generate: one freshly built PEM file per key pair (`generatePEM` allocates its own slice:
`fact_generatePEM`) -/
theorem fact_process_btp_and_keypair_loop :
    Generated.Tls.processBTPLoop =
      ["var caCertRef types.NamespacedName",
       "valid, ignored, conds := validateBackendTLSPolicy(backendTLSPolicy, configMapResolver, ctlrName)",
       "if valid && !ignored && len(backendTLSPolicy.Spec.Validation.CACertificateRefs) > 0 { caCertRef = types.NamespacedName{ Namespace: backendTLSPolicy.Namespace, Name: string(backendTLSPolicy.Spec.Validation.CACertificateRefs[0].Name), } }",
       "processedBackendTLSPolicies[nsname] = &BackendTLSPolicy{ Source: backendTLSPolicy, Valid: valid, Conditions: conds, Gateway: types.NamespacedName{ Namespace: gateway.Source.Namespace, Name: gateway.Source.Name, }, CaCertRef: caCertRef, Ignored: ignored, }"] ∧
    Generated.Tls.generateKeyPairLoop =
      ["for id, pair := range conf.SSLKeyPairs", "files = append(files, generatePEM(id, pair.Cert, pair.Key))"] := by facts

/-! ### key pair ids, file names, PEM bytes -/

/-- Key pair ids (hence key pair file names) of different Secrets differ, for admissible namespaces:
a namespace is a DNS label and cannot contain `_`. (Without the hypothesis `a_b/c` and `a/b_c` collide.) -/
theorem keypair_id_injective (a b : Name × Name) (ha : '_' ∉ a.1) (hb : '_' ∉ b.1)
    (h : pemFileName (keyPairId a) = pemFileName (keyPairId b)) : a = b :=
  keyPairId_inj ha hb (pemFileName_inj h)

/-- the hypothesis is needed -/
example : keyPairId ("a_b".toList, "c".toList) = keyPairId ("a".toList, "b_c".toList) := by decide
example : ('_' ∉ "team-a".toList) ∧ keyPairId ("team-a".toList, "tls".toList) = "ssl_keypair_team-a_tls".toList := by decide

theorem certbundle_id_injective (a b : Name × Name) (ha : '_' ∉ a.1) (hb : '_' ∉ b.1)
    (h : certBundleId a = certBundleId b) : a = b := certBundleId_inj ha hb h

/-- `keypair_file_injective`: Secret NAMES are arbitrary (dots are legal: `example.com-tls`, `edge.pem`); two different
Secrets of admissible namespaces never share a key-pair file, and two different ConfigMaps never share a bundle file. -/
theorem keypair_file_injective (a b : Name × Name) (ha : '_' ∉ a.1) (hb : '_' ∉ b.1) :
    (pemFileName (keyPairId a) = pemFileName (keyPairId b) → a = b) ∧
    (bundleFileName (certBundleId a) = bundleFileName (certBundleId b) → a = b) := by
  refine ⟨keypair_id_injective a b ha hb, ?_⟩
  intro h
  unfold bundleFileName at h
  have h' := List.append_cancel_left (List.append_cancel_right h)
  exact certBundleId_inj ha hb (by simpa using h')

/-- non-vacuity on dotted names, and the regression detector: a file-name function that trims the id's "extension"
(everything after the last dot) sends `example.com-tls` and `example.org-tls` to ONE file (seeded change C16-r5m1) -/
theorem keypair_file_trimmed_ext_false :
    pemFileName (keyPairId ("default".toList, "example.com-tls".toList)) ≠
      pemFileName (keyPairId ("default".toList, "example.org-tls".toList)) ∧
    pemFileNameTrimExt (keyPairId ("default".toList, "example.com-tls".toList)) =
      pemFileNameTrimExt (keyPairId ("default".toList, "example.org-tls".toList)) ∧
    pemFileNameTrimExt (keyPairId ("default".toList, "edge.pem".toList)) = "/etc/nginx/secrets/ssl_keypair_default_edge.pem".toList := by
  decide +kernel

/-- The key pair file holds the certificate bytes, one newline, the key bytes — both recoverable. -/
theorem pem_bytes (cert key : Bytes) :
    pem cert key = cert ++ ['\n'] ++ key ∧ (pem cert key).take cert.length = cert ∧
    (pem cert key).drop (cert.length + 1) = key := by
  refine ⟨by simp [pem], by simp [pem], ?_⟩
  simp [pem, List.drop_append]

example : pem "CERT".toList "KEY".toList = "CERT\nKEY".toList := by decide

/-- Every key pair handed to the generator carries the bytes of the Secret referenced by a VALID listener,
under the id derived from that Secret's namespace and name. -/
theorem keypairs_from_valid_listeners (secrets : List SecretObj) (ls : List Listener) (k : KeyPair)
    (h : k ∈ buildSSLKeyPairs secrets ls) :
    ∃ l ∈ ls, l.valid = true ∧ k.id = keyPairId l.secret ∧
      ∃ s, findSecret secrets l.secret.1 l.secret.2 = some s ∧ k.cert = s.cert ∧ k.key = s.key :=
  buildSSLKeyPairs_sound secrets ls k h

/-! ### a listener whose certificate reference failed contributes nothing -/

/-- A listener whose Secret is missing / malformed / of the wrong type / not permitted / not a Secret is not
valid, whatever else holds. -/
theorem bad_reference_invalid (l : Listener) (h : l.res ≠ .ok) : l.valid = false := by
  simp [Listener.valid, h]

/-- `invalid_secret_no_cert`: removing every listener whose reference did not resolve changes neither the SSL
servers nor the key pairs — such a listener contributes no server and no key material. -/
theorem invalid_secret_no_cert (secrets : List SecretObj) (ls : List Listener) :
    buildSSLServers ls = buildSSLServers (ls.filter fun l => l.res = .ok) ∧
    buildSSLKeyPairs secrets ls = buildSSLKeyPairs secrets (ls.filter fun l => l.res = .ok) := by
  have hf : (ls.filter fun l => decide (l.res = .ok)).filter Listener.valid = ls.filter Listener.valid := by
    rw [List.filter_filter]
    congr 1
    funext l
    by_cases h : l.res = .ok <;> simp [Listener.valid, h]
  constructor
  · simp only [buildSSLServers, sslListeners, hf]
  · rw [buildSSLKeyPairs_filter secrets (ls.filter _), hf, ← buildSSLKeyPairs_filter]

/-- and resolution fails in each of the cases the property names -/
theorem resolution_failures (grants : List Grant) (secrets : List SecretObj) (gwNs : Name) (r : CertRef) :
    (r.nrefs = 0 → resolveRef grants secrets gwNs r ≠ .ok) ∧
    (r.kindOK = false → resolveRef grants secrets gwNs r ≠ .ok) ∧
    (r.ns ≠ gwNs → secretRefAllowed grants gwNs r.ns r.name = false → resolveRef grants secrets gwNs r ≠ .ok) ∧
    (findSecret secrets r.ns r.name = none → resolveRef grants secrets gwNs r ≠ .ok) ∧
    (∀ s, findSecret secrets r.ns r.name = some s → (s.isTLS = false ∨ s.pairOK = false) →
      resolveRef grants secrets gwNs r ≠ .ok) := by
  refine ⟨?_, ?_, ?_, ?_, ?_⟩
  · intro h; simp [resolveRef, h]
  · intro h; simp only [resolveRef]; repeat' split
    all_goals simp_all
  · intro h1 h2; simp only [resolveRef]; repeat' split
    all_goals simp_all
  · intro h; simp only [resolveRef]; repeat' split
    all_goals simp_all
  · intro s hs hbad; simp only [resolveRef]; repeat' split
    all_goals simp_all

example : (⟨"l".toList, 443, true, [], ("ns".toList, "s".toList), .wrongType, true, 0, []⟩ : Listener).valid = false := by
  decide

/-! ### which certificate a server presents -/

/-- `cert_is_owner_listeners_secret` (model level): every non-default SSL server for (port, h) presents the key
pair of a valid HTTPS listener `l` of that port which covers `h`, and either
 * `h` was accepted by a route attached to `l`, and no valid listener of the port to which a route carrying `h`
   is attached has a more specific hostname (`l` is the last of the most specific ones), or
 * it is the server generated for `l` itself (no routes, or no hostname) and carries `l`'s server name. -/
theorem cert_is_owner_listeners_secret (ls : List Listener) (s : Server)
    (hs : s ∈ buildSSLServers ls) (hnd : s.isDefault = false) :
    ∃ l ∈ ls, l.valid = true ∧ l.port = s.port ∧ s.keyPair = some (keyPairId l.secret) ∧
      ((s.host ∈ l.accepted ∧ covers l.host s.host = true ∧
          ∀ l' ∈ ls, l'.valid = true → l'.port = s.port → s.host ∈ l'.accepted → rank l'.host ≤ rank l.host)
       ∨ (s.host = listenerServerName l.host ∧ (l.nroutes = 0 ∨ listenerServerName l.host = wildcardHostname))) :=
  ssl_server_owner ls s hs hnd

/-- non-vacuity: a Gateway with a wildcard and a specific listener and one route on the whole Gateway yields the
three servers; the server for the specific name presents the specific listener's key pair. -/
def exWild : Listener :=
  ⟨"wild".toList, 443, true, "*.example.com".toList, ("default".toList, "tls-a".toList), .ok, true, 1,
   [["foo.example.com".toList, "cafe.example.com".toList]]⟩
def exFoo : Listener :=
  ⟨"foo".toList, 443, true, "foo.example.com".toList, ("default".toList, "tls-b".toList), .ok, true, 1,
   [["foo.example.com".toList, "cafe.example.com".toList]]⟩
def exBad : Listener :=
  ⟨"bad".toList, 443, true, "bar.org".toList, ("default".toList, "tls-missing".toList), .missing, true, 0, []⟩

example : buildSSLServers [exWild, exFoo, exBad] =
    [⟨"foo.example.com".toList, 443, false, some "ssl_keypair_default_tls-b".toList⟩,
     ⟨"cafe.example.com".toList, 443, false, some "ssl_keypair_default_tls-a".toList⟩,
     ⟨[], 443, true, none⟩] := by decide +kernel

/-- The default server of a port never carries a key pair (it rejects the handshake). -/
theorem default_server_has_no_cert (ls : List Listener) (s : Server)
    (hs : s ∈ buildSSLServers ls) (hd : s.isDefault = true) : s.keyPair = none :=
  ssl_default_no_keypair ls s hs hd

/-- The owner of `h` on port `p` as the property reads it: a valid HTTPS listener of the port covering `h`
such that no other one is more specific. -/
def IsSpecOwner (ls : List Listener) (p : Nat) (h : Host) (o : Listener) : Prop :=
  o ∈ ls ∧ o.valid = true ∧ o.port = p ∧ covers o.host h = true ∧
  ∀ l' ∈ ls, l'.valid = true → l'.port = p → covers l'.host h = true → rank l'.host ≤ rank o.host

/-- FULL STRENGTH IS FALSE on the current code: a route attached only to the wildcard listener carries the
hostname of the more specific listener; the server for that hostname presents the wildcard listener's
key pair although the specific listener owns the hostname (reproduced on the real pipeline: known finding
`C16:hostname-of-more-specific-listener-served-with-less-specific-listeners-cert`). -/
def witnessWild : Listener :=
  ⟨"wild".toList, 443, true, "*.example.com".toList, ("default".toList, "tls-a".toList), .ok, true, 1,
   [["foo.example.com".toList]]⟩
def witnessFoo : Listener :=
  ⟨"foo".toList, 443, true, "foo.example.com".toList, ("default".toList, "tls-b".toList), .ok, true, 0, []⟩

theorem cert_is_spec_owner_false :
    (⟨"foo.example.com".toList, 443, false, some (keyPairId witnessWild.secret)⟩ : Server) ∈
        buildSSLServers [witnessWild, witnessFoo] ∧
      witnessFoo.valid = true ∧ witnessFoo.port = 443 ∧
      covers witnessFoo.host "foo.example.com".toList = true ∧ rank witnessWild.host < rank witnessFoo.host ∧
      keyPairId witnessWild.secret ≠ keyPairId witnessFoo.secret := by
  decide +kernel

/-- `_partial`: when the spec owner of `h` is among the listeners to which a route carrying `h` is attached
(always the case when routes attach to the whole Gateway and every listener admits them), the server
presents the key pair of a listener exactly as specific as the spec owner — the owner itself when the
Gateway does not repeat a (port, hostname) pair. -/
theorem cert_is_spec_owner_partial (ls : List Listener) (s : Server)
    (hs : s ∈ buildSSLServers ls) (hnd : s.isDefault = false)
    (o : Listener) (ho : IsSpecOwner ls s.port s.host o) (hacc : s.host ∈ o.accepted)
    (hwf : o.host ≠ wildcardHostname)
    (huniq : ∀ l ∈ ls, l.valid = true → l.port = s.port → rank l.host = rank o.host →
       covers l.host s.host = true → l.secret = o.secret) :
    s.keyPair = some (keyPairId o.secret) :=
  ssl_server_spec_owner ls s hs hnd o ho.1 ho.2.1 ho.2.2.1 ho.2.2.2.1 ho.2.2.2.2 hacc hwf huniq

/-- non-vacuity of the `_partial` hypotheses: with the route on the whole Gateway the specific listener is the
spec owner of its name, has the name accepted, and the server presents its key pair -/
example : IsSpecOwner [exWild, exFoo, exBad] 443 "foo.example.com".toList exFoo ∧
    "foo.example.com".toList ∈ exFoo.accepted := by
  refine ⟨⟨by simp, by decide +kernel, rfl, by decide +kernel, ?_⟩, by decide +kernel⟩
  intro l hl _ _ _
  simp at hl
  rcases hl with rfl | rfl | rfl <;> decide +kernel

/-! ### BackendTLSPolicy: the directives of a proxying location -/

def witnessPol : BTP :=
  { id := 1, ns := "default".toList, name := "pol-p".toList, ts := 5, targets := ["svc-b".toList],
    hostname := "b.example.com".toList, hostOK := true, refs := [⟨[], "ConfigMap".toList, "ca-1".toList⟩],
    wk := none, full := false }
def witnessCMs' : List CMObj := [⟨"default".toList, "ca-1".toList, true, true, "CA".toList⟩]

/-- A backend list whose every backend carries (a policy with the configuration of) the valid policy `p`
yields `*_ssl_verify on`, `*_ssl_name` = the policy hostname and the trusted certificate of `p`:
the bundle file of the referenced ConfigMap, or the system bundle. -/
theorem btp_verify_directives (cms : List CMObj) (p : BTP) (rest : List (Option BTP)) (grpc : Bool)
    (hv : p.valid cms = true) :
    ∃ v, proxyTLS ((some p :: rest).map (convertBackendTLS cms)) = some v ∧
      v.hostname = p.hostname ∧
      (trustedCert v = if p.caName cms ≠ [] then bundleFileName (certBundleId (p.ns, p.caName cms)) else systemCAPath) ∧
      verifyDirectives v grpc =
        [((if grpc then "grpc".toList else "proxy".toList) ++ "_ssl_server_name".toList, "on".toList),
         ((if grpc then "grpc".toList else "proxy".toList) ++ "_ssl_verify".toList, "on".toList),
         ((if grpc then "grpc".toList else "proxy".toList) ++ "_ssl_name".toList, p.hostname),
         ((if grpc then "grpc".toList else "proxy".toList) ++ "_ssl_trusted_certificate".toList, trustedCert v)] ∧
      protocol (some v) grpc = (if grpc then "grpcs".toList else "https".toList) := by
  by_cases hc : p.caName cms = []
  · refine ⟨⟨[], p.hostname, systemCAPath⟩, ?_, rfl, ?_, ?_, ?_⟩
    · simp [convertBackendTLS, hv, hc, proxyTLS]
    · simp [trustedCert, hc]
    · simp [verifyDirectives]
    · cases grpc <;> simp [protocol]
  · refine ⟨⟨certBundleId (p.ns, p.caName cms), p.hostname, []⟩, ?_, rfl, ?_, ?_, ?_⟩
    · simp [convertBackendTLS, hv, hc, proxyTLS]
    · have hp : certBundlePrefix ≠ [] := by decide
      have : certBundleId (p.ns, p.caName cms) ≠ [] := by
        intro h; simp [certBundleId, hp] at h
      simp [trustedCert, hc, this]
    · simp [verifyDirectives]
    · cases grpc <;> simp [protocol]

example : witnessPol.valid witnessCMs' = true ∧
    (proxyTLS ([some witnessPol, some witnessPol].map (convertBackendTLS witnessCMs'))).map (verifyDirectives · false) =
      some [("proxy_ssl_server_name".toList, "on".toList), ("proxy_ssl_verify".toList, "on".toList),
            ("proxy_ssl_name".toList, "b.example.com".toList),
            ("proxy_ssl_trusted_certificate".toList, "/etc/nginx/secrets/cert_bundle_default_ca-1.crt".toList)] := by
  decide +kernel

/-- a valid policy with a ConfigMap reference names that ConfigMap -/
theorem valid_policy_ca (cms : List CMObj) (p : BTP) (r : CARef) (hv : p.valid cms = true) (hr : p.refs = [r]) :
    p.caName cms = r.name ∧ cmResolves cms p.ns r.name = true := by
  refine ⟨by simp [BTP.caName, hv, hr], ?_⟩
  have h := hv
  simp only [BTP.valid, validateBTP, hr, caRefOK] at h
  cases hw : p.wk with
  | some w => simp [hw] at h
  | none =>
    simp [hw] at h
    exact h.2.2

/-! ### a rule whose backends disagree on TLS policy serves none of them -/

/-- what "the backends of a rule disagree" means (stated independently of the code's loop): two backends of the
rule, at ANY positions, of which one has a policy and the other has none, or whose policies differ in the ConfigMap they
reference (name AND namespace), the wellKnown setting or the hostname, by VALUE -/
def specDiffer : Option BTP → Option BTP → Bool
  | none, none => false
  | some p, some q =>
    p.refs ≠ q.refs || (!p.refs.isEmpty && p.ns ≠ q.ns) || p.wk ≠ q.wk || p.hostname ≠ q.hostname
  | _, _ => true

def Disagree (bs : List (Option BTP)) : Prop := ∃ x ∈ bs, ∃ y ∈ bs, specDiffer x y = true

theorem specDiffer_eq (x y : Option BTP) : specDiffer x y = policiesDiffer x y := by
  cases x <;> cases y <;> rfl

theorem specDiffer_self (x : Option BTP) : specDiffer x x = false := by
  rw [specDiffer_eq]; exact policiesDiffer_self x

theorem specDiffer_symm (x y : Option BTP) : specDiffer x y = specDiffer y x := by
  cases x <;> cases y <;> simp [specDiffer]
  rename_i p q
  have e1 : (p.refs = q.refs) = (q.refs = p.refs) := propext ⟨Eq.symm, Eq.symm⟩
  have e2 : (p.ns = q.ns) = (q.ns = p.ns) := propext ⟨Eq.symm, Eq.symm⟩
  have e3 : (p.wk = q.wk) = (q.wk = p.wk) := propext ⟨Eq.symm, Eq.symm⟩
  have e4 : (p.hostname = q.hostname) = (q.hostname = p.hostname) := propext ⟨Eq.symm, Eq.symm⟩
  by_cases h : p.refs = q.refs
  · simp [e2, e3, e4, h]
  · have h' : ¬ q.refs = p.refs := fun e => h e.symm
    simp [h, h']

/-- agreeing with the first backend is transitive: two backends that both agree with the first agree with each other -/
theorem specDiffer_trans {x y f : Option BTP} (hx : specDiffer x f = false) (hy : specDiffer y f = false) :
    specDiffer x y = false := by
  cases x <;> cases y <;> cases f <;> simp_all [specDiffer]

/-- the loop detects EXACTLY the disagreements, whatever the order of the backends -/
theorem mismatch_iff_disagree (bs : List (Option BTP)) : mismatch bs = true ↔ Disagree bs := by
  cases bs with
  | nil => simp [mismatch, Disagree]
  | cons f rest =>
    simp only [mismatch, List.any_eq_true]
    constructor
    · rintro ⟨x, hx, hd⟩
      exact ⟨x, List.mem_cons_of_mem _ hx, f, List.mem_cons_self, by rw [specDiffer_eq]; exact hd⟩
    · rintro ⟨x, hx, y, hy, hd⟩
      -- if neither x nor y differed from the first, they would agree with each other
      by_cases hxf : specDiffer x f = true
      · rcases List.mem_cons.mp hx with e | e
        · subst e; rw [specDiffer_self] at hxf; exact absurd hxf (by simp)
        · exact ⟨x, e, by rw [← specDiffer_eq]; exact hxf⟩
      · by_cases hyf : specDiffer y f = true
        · rcases List.mem_cons.mp hy with e | e
          · subst e; rw [specDiffer_self] at hyf; exact absurd hyf (by simp)
          · exact ⟨y, e, by rw [← specDiffer_eq]; exact hyf⟩
        · have := specDiffer_trans (Bool.eq_false_iff.mpr hxf) (Bool.eq_false_iff.mpr hyf)
          rw [this] at hd; exact absurd hd (by simp)

/-- `mismatch_invalidates_all` — FULL STRENGTH: a rule whose backends disagree on TLS policy (any two of them, in any
order, same or different namespaces) has ALL its backends invalid: it serves none of them. -/
theorem mismatch_invalidates_all (bs : List BRef) (hd : Disagree (bs.map (·.pol))) :
    ∀ b ∈ validateRule bs, b.valid = false := by
  have hm : mismatch (bs.map (·.pol)) = true := (mismatch_iff_disagree _).mpr hd
  have hlen : bs.length > 1 := by
    match bs, hm with
    | [], h => simp [mismatch] at h
    | [_], h => simp [mismatch] at h
    | _ :: _ :: _, _ => simp
  have hc : (decide (bs.length > 1) && mismatch (bs.map (·.pol))) = true := by
    rw [hm]; simpa using hlen
  intro b hb
  unfold validateRule at hb
  rw [if_pos hc] at hb
  simp only [List.mem_map] at hb
  obtain ⟨b', _, rfl⟩ := hb
  rfl

/-- and a rule whose backends agree is left alone -/
theorem agreeing_rule_untouched (bs : List BRef) (ha : ¬ Disagree (bs.map (·.pol))) : validateRule bs = bs := by
  have hm : mismatch (bs.map (·.pol)) = false := by
    cases h : mismatch (bs.map (·.pol))
    · rfl
    · exact absurd ((mismatch_iff_disagree _).mp h) ha
  simp [validateRule, hm]

def witnessP : BTP :=
  { id := 1, ns := "default".toList, name := "pol-p".toList, ts := 5, targets := ["svc-b".toList],
    hostname := "b.example.com".toList, hostOK := true, refs := [⟨[], "ConfigMap".toList, "ca-1".toList⟩],
    wk := none, full := false }
def witnessPOther : BTP := { witnessP with id := 2, ns := "team-a".toList }
def witnessCMs : List CMObj :=
  [⟨"default".toList, "ca-1".toList, true, true, "CA-OF-DEFAULT".toList⟩,
   ⟨"team-a".toList, "ca-1".toList, true, true, "CA-OF-TEAM-A".toList⟩]

/-- non-vacuity: both orders of {no policy, P}, and same-named ConfigMaps of two namespaces, disagree and are
invalidated -/
example : Disagree [none, some witnessP] ∧ Disagree [some witnessP, none] ∧ Disagree [some witnessP, some witnessPOther] :=
  ⟨⟨none, by simp, some witnessP, by simp, by decide +kernel⟩, ⟨none, by simp, some witnessP, by simp, by decide +kernel⟩,
   ⟨some witnessP, by simp, some witnessPOther, by simp, by decide +kernel⟩⟩

example : (validateRule [⟨none, true⟩, ⟨some witnessP, true⟩]).all (·.valid = false) = true ∧
    (validateRule [⟨some witnessP, true⟩, ⟨none, true⟩]).all (·.valid = false) = true ∧
    (validateRule [⟨some witnessP, true⟩, ⟨some witnessPOther, true⟩]).all (·.valid = false) = true ∧
    validateRule [⟨some witnessP, true⟩, ⟨some witnessP, false⟩] = [⟨some witnessP, true⟩, ⟨some witnessP, false⟩] := by
  decide +kernel

/-! #### regression detectors: the loop before fix e38b1f9 (`mismatchPre`) does NOT have the property -/

/-- PRE-FIX, first gap (DESIGN §7 row 17; was known finding `C16:btp-mismatch-undetected-when-first-backend-has-no-policy`,
fixed by e38b1f9): `[no policy, P]` disagrees but the old loop does not notice; the reverse order was caught. -/
theorem mismatch_invalidates_all_false :
    mismatchPre [none, some witnessP] = false ∧
    validateRulePre [⟨none, true⟩, ⟨some witnessP, true⟩] = [⟨none, true⟩, ⟨some witnessP, true⟩] ∧
    mismatchPre [some witnessP, none] = true ∧
    -- the current loop catches both
    mismatch [none, some witnessP] = true ∧ mismatch [some witnessP, none] = true := by decide +kernel

/-- PRE-FIX, second gap (was known finding `C16:btp-same-named-configmaps-of-different-namespaces-treated-as-equal`,
fixed by e38b1f9): two policies naming ConfigMaps of the same NAME in different namespaces compared equal, and the
location then verifies every backend against the FIRST policy's bundle. -/
theorem mismatch_ignores_configmap_namespace :
    mismatchPre [some witnessP, some witnessPOther] = false ∧
    (proxyTLS ([some witnessP, some witnessPOther].map (convertBackendTLS witnessCMs))).map trustedCert =
      some (bundleFileName (certBundleId ("default".toList, "ca-1".toList))) ∧
    (convertBackendTLS witnessCMs (some witnessPOther)).map trustedCert =
      some (bundleFileName (certBundleId ("team-a".toList, "ca-1".toList))) ∧
    -- the current loop tells them apart
    mismatch [some witnessP, some witnessPOther] = true := by decide +kernel

/-! ### the Secret resolver's cache: one verdict per Secret, however often and in whatever order it is resolved -/

/-- `resolve_cached_verdict_stable`: on one resolver (one graph build) the answer to EVERY call `resolve(k)` is the
verdict of validating Secret `k` — the first call computes and stores it, every later call for the same Secret returns
the same verdict. In particular two HTTPS listeners referencing one invalid Secret are both rejected. -/
theorem resolve_cached_verdict_stable (secrets : List SecretObj) (ks : List (Name × Name)) :
    resolveSeq secrets [] ks = ks.map (secretVerdict secrets) ∧
    ∀ (i j : Nat) (k : Name × Name), ks[i]? = some k → ks[j]? = some k →
      (resolveSeq secrets [] ks)[i]? = (resolveSeq secrets [] ks)[j]? := by
  have h := resolveSeq_spec secrets ks [] (by intro k v hk; simp at hk)
  refine ⟨h, ?_⟩
  intro i j k hi hj
  rw [h]
  simp [List.getElem?_map, hi, hj]

def witnessMalformed : List SecretObj := [⟨"default".toList, "tls-mal".toList, true, false, "X".toList, "Y".toList⟩]

/-- non-vacuity, and the regression detector: a resolver that registers the entry up front but does not store the
error of the malformed-pair branch answers `malformed` once and `ok` ever after (seeded change C16-r4m1) -/
theorem resolve_unstored_error_false :
    resolveSeq witnessMalformed [] [("default".toList, "tls-mal".toList), ("default".toList, "tls-mal".toList)] =
      [.malformed, .malformed] ∧
    resolveSeqUnstored witnessMalformed [] [("default".toList, "tls-mal".toList), ("default".toList, "tls-mal".toList)] =
      [.malformed, .ok] := by decide +kernel

/-! ### a Service targeted by a BackendTLSPolicy is never reached over plain HTTP -/

/-- `targeted_service_never_plain`: when ANY BackendTLSPolicy of the Service's namespace targets the Service — valid,
invalid, or ignored because its ancestor status list is full — the backendRef is either invalid (500, not reached) or
proxied over verified TLS; never plain. -/
theorem targeted_service_never_plain (cms : List CMObj) (pols : List BTP) (refNs refName : Name) (b : BTP)
    (hb : b ∈ pols) (ht : targetsSvc b refNs refName = true) :
    backendTLSOf (processBtp cms pols) refNs refName ≠ .plain := by
  have hp : (⟨b, (validateBTP cms b).1, (validateBTP cms b).2, b.caName cms⟩ : ProcBTP) ∈ processBtp cms pols :=
    List.mem_map.mpr ⟨b, hb, rfl⟩
  have hs := findProc_isSome (refNs := refNs) (refName := refName) hp ht
  unfold backendTLSOf
  cases hf : findProc (processBtp cms pols) refNs refName with
  | none => rw [hf] at hs; cases hs
  | some p => simp only; split <;> (try split) <;> simp

/-- `ignored_policy_fails_closed`: when the policy selected for the Service (oldest, then namespace/name) is IGNORED
(16 ancestor entries of other controllers: no status can be written), the backendRef is INVALID — the rule answers 500;
the Service is not proxied without TLS. -/
theorem ignored_policy_fails_closed (cms : List CMObj) (pols : List BTP) (refNs refName : Name) (p : ProcBTP)
    (hsel : findProc (processBtp cms pols) refNs refName = some p) (hfull : p.pol.full = true) :
    backendTLSOf (processBtp cms pols) refNs refName = .invalid ∧ p.ignored = true := by
  obtain ⟨hm, _⟩ := findProc_mem hsel
  obtain ⟨b, _, rfl⟩ := List.mem_map.mp hm
  have hv := full_invalid cms b hfull
  have hfull' : b.full = true := hfull
  refine ⟨?_, by simp [validateBTP, hfull']⟩
  unfold backendTLSOf
  rw [hsel]
  simp [hv]

def witnessIgnored : BTP := { witnessP with full := true }

/-- non-vacuity, and the regression detector: a `processBackendTLSPolicies` that does not track ignored policies
(seeded change C16-r4m2) lets the targeted Service be proxied over plain HTTP -/
theorem ignored_policy_dropped_false :
    findProc (processBtp witnessCMs [witnessIgnored]) "default".toList "svc-b".toList =
      some ⟨witnessIgnored, false, true, []⟩ ∧
    backendTLSOf (processBtp witnessCMs [witnessIgnored]) "default".toList "svc-b".toList = .invalid ∧
    backendTLSOf (processBtpDropping witnessCMs [witnessIgnored]) "default".toList "svc-b".toList = .plain ∧
    -- the same policy, not ignored: verified TLS against the referenced CA
    backendTLSOf (processBtp witnessCMs [witnessP]) "default".toList "svc-b".toList =
      .verify ⟨certBundleId ("default".toList, "ca-1".toList), "b.example.com".toList, []⟩ := by decide +kernel

end NGF.Tls
