import NGF.Model.Order
import NGF.Proofs.Sort
import NGF.Proofs.Order
import NGF.Proofs.Listeners
import NGF.Generated.OrderFacts
import NGF.Props.C14Pipeline
import NGF.Props.C14Layers
/-
(NGF.Props.C14Pipeline: permutation / arrival-order invariance of the pipeline fragment model `Pipeline.gen` —
`winner_perm`, `gen_perm_equiv`, `gen_perm_meaning`, `gen_servers_distinct`, `gen_locs_distinct`; own obligations call.
 NGF.Props.C14Layers: the same for the layered models — references, endpoints, TLS, statuses, renderer port order; own obligations call.)
-/
/-
C14 — conflicts resolve by age then namespace/name, independent of arrival and map iteration order.

All theorems are about the functions of NGF/Model/Order.lean that the driver (NGF/Driver/C14.lean)
runs against the real code. Go map iteration order = the order of the input lists; every
`…_perm_invariant` theorem quantifies over all permutations of them.
-/
namespace NGF.Props.C14
open NGF.Order NGF.Sort

/-! ## 1. The order -/

/-- `LessObjectMeta`/`LessClientObject` is a strict total order on (creationTimestamp, namespace, name):
irreflexive, transitive, trichotomous. Objects of one kind have distinct (namespace, name), hence
distinct `Meta`s, hence are strictly ordered. -/
theorem less_strict_total :
    (∀ a : Meta, less a a = false) ∧
    (∀ a b c : Meta, less a b = true → less b c = true → less a c = true) ∧
    (∀ a b : Meta, less a b = true ∨ a = b ∨ less b a = true) ∧
    (∀ a b : Meta, less a b = true → less b a = false) :=
  ⟨less_irrefl, fun _ _ _ h1 h2 => less_trans h1 h2, less_tri, fun _ _ h => less_asymm h⟩

/-- distinct (namespace, name) ⇒ comparable, whatever the timestamps -/
theorem less_total_on_distinct_names (a b : Meta) (h : (a.ns, a.name) ≠ (b.ns, b.name)) :
    less a b = true ∨ less b a = true := by
  rcases less_tri a b with h1 | h1 | h1
  · exact Or.inl h1
  · subst h1; exact absurd rfl h
  · exact Or.inr h1

/-- age first: an older object precedes a younger one whatever the names -/
theorem older_first (a b : Meta) (h : a.ts < b.ts) : less a b = true := by
  unfold less
  have : ¬ a.ts = b.ts := by omega
  simp [this, h]

/-- equal age: namespace decides before name (bytewise) -/
theorem equal_age_namespace_first (a b : Meta) (ht : a.ts = b.ts) (h : bytesLt a.ns b.ns = true) :
    less a b = true := by
  unfold less
  have : ¬ a.ns = b.ns := by intro e; rw [e, bytesLt_irrefl] at h; cases h
  simp [ht, this, h]

example : less ⟨5, [97], [122]⟩ ⟨5, [98], [97]⟩ = true := by decide   -- a/z before b/a
example : less ⟨5, [98], [97]⟩ ⟨4, [122], [122]⟩ = false := by decide  -- older wins
example : bytesLt [97, 45] [97, 97] = true := by decide                -- "a-" < "aa" bytewise

/-! ## 2. Gateways -/

/-- `processGateways` does not depend on the iteration order of the Gateway map. -/
theorem winner_perm_invariant (gws gws' : List Gw) (gc : List Nat) (hp : gws.Perm gws')
    (inj : InjOn Gw.md gws) : processGateways gws gc = processGateways gws' gc := by
  unfold processGateways
  have hf : (gws.filter (fun g => g.cls == gc)).Perm (gws'.filter (fun g => g.cls == gc)) := hp.filter _
  have hi : InjOn Gw.md (gws.filter (fun g => g.cls == gc)) :=
    fun a b ha hb => inj a b (List.mem_filter.mp ha).1 (List.mem_filter.mp hb).1
  rw [sortBy_perm_invariant _ _ _ hf hi]

/-- the winner is the minimum of the Gateways of the class; every other one is ignored; none is lost -/
theorem winner_is_min (gws : List Gw) (gc : List Nat) (inj : InjOn Gw.md gws) (w : Gw) (ign : List Gw)
    (h : processGateways gws gc = ⟨some w, ign⟩) :
    w ∈ gws ∧ w.cls = gc ∧
    (∀ g ∈ gws, g.cls = gc → g = w ∨ less w.md g.md = true) ∧
    (w :: ign).Perm (gws.filter (fun g => g.cls == gc)) := by
  unfold processGateways at h
  cases hs : sortBy (·.md) (gws.filter (fun g => g.cls == gc)) with
  | nil => rw [hs] at h; cases h
  | cons w' rest =>
    rw [hs] at h
    have e1 : w' = w := by injection h with h1 _; injection h1
    have e2 : rest = ign := by injection h
    subst e1; subst e2
    obtain ⟨hm, hmin, hperm⟩ := head_sortBy_min Gw.md _ _ _ hs
    have hw := List.mem_filter.mp hm
    refine ⟨hw.1, by simpa using hw.2, ?_, hperm⟩
    intro g hg hc
    have hgf : g ∈ gws.filter (fun g => g.cls == gc) := List.mem_filter.mpr ⟨hg, by simp [hc]⟩
    by_cases e : g.md = w'.md
    · exact Or.inl (inj g w' hg hw.1 e)
    · exact Or.inr (le_of_ne (hmin g hgf) (fun e' => e e'.symm))

theorem no_winner_iff (gws : List Gw) (gc : List Nat) :
    (processGateways gws gc).winner = none ↔ ∀ g ∈ gws, g.cls ≠ gc := by
  unfold processGateways
  cases hs : sortBy (·.md) (gws.filter (fun g => g.cls == gc)) with
  | nil =>
    have hp := sortBy_perm (·.md) (gws.filter (fun g => g.cls == gc))
    rw [hs] at hp
    have := hp.symm.eq_nil
    simp only [true_iff]
    intro g hg hc
    have : g ∈ gws.filter (fun g => g.cls == gc) := List.mem_filter.mpr ⟨hg, by simp [hc]⟩
    simp_all
  | cons w rest =>
    have hp := sortBy_perm (·.md) (gws.filter (fun g => g.cls == gc))
    rw [hs] at hp
    have hw := List.mem_filter.mp (hp.mem_iff.mp List.mem_cons_self)
    simp only [reduceCtorEq, false_iff]
    intro h
    exact h w hw.1 (by simpa using hw.2)

private def gA : Gw := ⟨⟨10, [100], [98]⟩, [110]⟩
private def gB : Gw := ⟨⟨10, [100], [97]⟩, [110]⟩
private def gC : Gw := ⟨⟨9, [122], [122]⟩, [111]⟩
example : (processGateways [gA, gB, gC] [110]).winner = some gB := by decide
example : (processGateways [gC, gB, gA] [110]).ignored = [gA] := by decide

/-! ## 3. Match rules -/

/-- Appendix A.10 instantiated with `higherPriority`: the stable sort of the match rules of one
(host, path) does not depend on the order in which the routes were visited (`range l.Routes`), as
long as rules that compare equal — the rules of one route — keep their relative (rule, match) order. -/
theorem matchrules_perm_invariant (l1 l2 : List MatchRule)
    (h : ∀ a, l1.filter (equivB mrLe a) = l2.filter (equivB mrLe a)) :
    sortMatchRules l1 = sortMatchRules l2 := by
  rw [sortMatchRules_eq, sortMatchRules_eq]
  exact stable_sort_perm_invariant mrLe_trans mrLe_total l1 l2 h

/-- the order handed to NGINX/njs is the precedence order: no rule is preceded by one of strictly
lower priority, rules of equal priority keep the order of the route (first rule first), nothing is
lost or invented. -/
theorem matchrules_order_is_precedence (l : List MatchRule) :
    List.Pairwise (fun a b => higherPriority b a = false) (sortMatchRules l) ∧
    (sortMatchRules l).Perm l ∧
    (∀ a, (sortMatchRules l).filter (equivB mrLe a) = l.filter (equivB mrLe a)) := by
  rw [sortMatchRules_eq]
  refine ⟨?_, List.mergeSort_perm l _, fun a => filter_mergeSort_class mrLe_trans mrLe_total l a⟩
  have := List.pairwise_mergeSort mrLe_trans mrLe_total l
  refine this.imp ?_
  intro a b hab
  unfold mrLe at hab
  simpa using hab

/-- two rules are equivalent for the sort only if method/header/query counts agree and they come from
objects with the same (timestamp, namespace, name) -/
theorem equiv_iff_same_source (a b : MatchRule) :
    equivB mrLe a b = true ↔
      (a.hasMethod = b.hasMethod ∧ a.headers = b.headers ∧ a.queries = b.queries ∧ a.src = b.src) := by
  unfold equivB mrLe higherPriority
  constructor
  · intro h
    simp only [Bool.and_eq_true, Bool.not_eq_true'] at h
    obtain ⟨h1, h2⟩ := h
    cases ha : a.hasMethod <;> cases hb : b.hasMethod <;> simp [ha, hb] at h1 h2 ⊢
    all_goals
      by_cases hh : a.headers = b.headers
      · have hh' : b.headers = a.headers := hh.symm
        by_cases hq : a.queries = b.queries
        · have hq' : b.queries = a.queries := hq.symm
          simp [hh, hq] at h1 h2
          refine ⟨hh, hq, ?_⟩
          rcases less_tri a.src b.src with h | h | h
          · rw [h] at h2; cases h2
          · exact h
          · rw [h] at h1; cases h1
        · have hq' : ¬ b.queries = a.queries := fun e => hq e.symm
          simp [hh, hq, hq'] at h1 h2
          omega
      · have hh' : ¬ b.headers = a.headers := fun e => hh e.symm
        simp [hh, hh'] at h1 h2
        omega
  · rintro ⟨h1, h2, h3, h4⟩
    simp [h1, h2, h3, h4, less_irrefl]

private def r1 : MatchRule := ⟨false, 1, 0, ⟨5, [100], [98]⟩, 0⟩
private def r2 : MatchRule := ⟨true, 0, 0, ⟨9, [100], [99]⟩, 1⟩
private def r3 : MatchRule := ⟨false, 1, 0, ⟨5, [100], [97]⟩, 2⟩
private def r4 : MatchRule := ⟨false, 1, 0, ⟨5, [100], [98]⟩, 3⟩
example : sortMatchRules [r1, r2, r3, r4] = [r2, r3, r1, r4] := by decide
example : sortMatchRules [r3, r1, r4, r2] = [r2, r3, r1, r4] := by decide

/-! ## 4. TLSRoutes: one owner per (hostname, port) -/

theorem tls_perm_invariant (rs rs' : List L4) (hp : rs.Perm rs') (inj : InjOn L4.md rs) :
    bindL4 rs = bindL4 rs' := by
  unfold bindL4; rw [sortBy_perm_invariant _ _ _ hp inj]

/-- the route that is granted a (hostname, port) key is the oldest (then namespace/name-first) of all
routes claiming it -/
theorem tls_hostname_owner_is_oldest (rs : List L4) (inj : InjOn L4.md rs)
    (r : L4) (g : List String) (k : String) (h : (r, g) ∈ bindL4 rs) (hk : k ∈ g) :
    r ∈ rs ∧ k ∈ r.claims ∧ ∀ r' ∈ rs, k ∈ r'.claims → r' = r ∨ less r.md r'.md = true := by
  unfold bindL4 at h
  obtain ⟨_, hc, pre, post, hs, hpre⟩ := bind_spec _ _ r g k h hk
  have hperm := sortBy_perm (·.md) rs
  have hr : r ∈ rs := hperm.mem_iff.mp (by rw [hs]; simp)
  refine ⟨hr, hc, ?_⟩
  intro r' hr' hk'
  have hin : r' ∈ pre ++ r :: post := hs ▸ hperm.mem_iff.mpr hr'
  rcases List.mem_append.mp hin with h1 | h1
  · exact absurd hk' (hpre r' h1)
  · rcases List.mem_cons.mp h1 with e | e
    · exact Or.inl e
    · have hpw := sortBy_pairwise (·.md) rs
      rw [hs] at hpw
      have hle : le r.md r'.md = true :=
        (List.pairwise_cons.mp (List.pairwise_append.mp hpw).2.1).1 r' e
      by_cases em : r'.md = r.md
      · exact Or.inl (inj r' r hr' hr em)
      · exact Or.inr (le_of_ne hle (fun e' => em e'.symm))

/-- every claimed key is granted to some route (no hostname is dropped by the conflict resolution) -/
theorem tls_every_claim_served (rs : List L4) (r : L4) (k : String) (hr : r ∈ rs) (hk : k ∈ r.claims) :
    ∃ r' g, (r', g) ∈ bindL4 rs ∧ k ∈ g := by
  unfold bindL4
  have hr' : r ∈ sortBy (·.md) rs := (sortBy_perm (·.md) rs).mem_iff.mpr hr
  rcases bind_complete _ [] r k hr' hk with h | h
  · simp at h
  · exact h

private def t1 : L4 := ⟨⟨3, [100], [98]⟩, ["a.example.com:443", "b.example.com:443"]⟩
private def t2 : L4 := ⟨⟨2, [100], [99]⟩, ["b.example.com:443"]⟩
example : bindL4 [t1, t2] = [(t2, ["b.example.com:443"]), (t1, ["a.example.com:443"])] := by decide
example : bindL4 [t2, t1] = bindL4 [t1, t2] := by decide

/-! ## 5. BackendTLSPolicy of a Service -/

/-- the chosen policy is a candidate and precedes every other candidate -/
theorem btp_choice_is_min (btps : List Btp) (ns n : List Nat) (inj : InjOn Btp.md btps) :
    (findBTP btps ns n = none ↔ ∀ b ∈ btps, cand ns n b = false) ∧
    (∀ m, findBTP btps ns n = some m →
      m ∈ btps ∧ cand ns n m = true ∧ ∀ c ∈ btps, cand ns n c = true → c = m ∨ less m.md c.md = true) := by
  rw [findBTP_eq]
  cases hf : btps.filter (cand ns n) with
  | nil =>
    refine ⟨?_, by intro m h; simp at h⟩
    simp only [List.foldl_nil, true_iff]
    intro b hb
    cases hc : cand ns n b with
    | false => rfl
    | true =>
      have : b ∈ btps.filter (cand ns n) := List.mem_filter.mpr ⟨hb, hc⟩
      rw [hf] at this; simp at this
  | cons c l =>
    obtain ⟨r, hr, hm, hmin⟩ := foldl_upd_some l c
    have hfold : List.foldl upd none (c :: l) = some r := by
      simp only [List.foldl_cons]; exact hr
    refine ⟨?_, ?_⟩
    · rw [hfold]
      simp only [reduceCtorEq, false_iff]
      intro h
      have hc : c ∈ btps.filter (cand ns n) := by rw [hf]; exact List.mem_cons_self
      have := List.mem_filter.mp hc
      rw [h c this.1] at this
      exact absurd this.2 (by simp)
    · intro m hmm
      rw [hfold] at hmm
      have e : r = m := by injection hmm
      subst e
      have hrf : r ∈ btps.filter (cand ns n) := by rw [hf]; exact hm
      have hr' := List.mem_filter.mp hrf
      refine ⟨hr'.1, hr'.2, ?_⟩
      intro x hx hcx
      have hxf : x ∈ c :: l := by rw [← hf]; exact List.mem_filter.mpr ⟨hx, hcx⟩
      by_cases em : x.md = r.md
      · exact Or.inl (inj x r hx hr'.1 em)
      · exact Or.inr (le_of_ne (hmin x hxf) (fun e' => em e'.symm))

/-- …and therefore does not depend on the iteration order of the BackendTLSPolicy map -/
theorem btp_perm_invariant (btps btps' : List Btp) (ns n : List Nat) (hp : btps.Perm btps')
    (inj : InjOn Btp.md btps) : findBTP btps ns n = findBTP btps' ns n := by
  have inj' : InjOn Btp.md btps' := fun a b ha hb => inj a b (hp.mem_iff.mpr ha) (hp.mem_iff.mpr hb)
  have s1 := btp_choice_is_min btps ns n inj
  have s2 := btp_choice_is_min btps' ns n inj'
  cases h1 : findBTP btps ns n with
  | none =>
    have := s1.1.mp h1
    exact (s2.1.mpr (fun b hb => this b (hp.mem_iff.mpr hb))).symm
  | some m =>
    cases h2 : findBTP btps' ns n with
    | none =>
      have := s2.1.mp h2
      have hm := s1.2 m h1
      rw [this m (hp.mem_iff.mp hm.1)] at hm
      exact absurd hm.2.1 (by simp)
    | some m' =>
      have hm := s1.2 m h1
      have hm' := s2.2 m' h2
      rcases hm.2.2 m' (hp.mem_iff.mpr hm'.1) hm'.2.1 with e | e
      · rw [e]
      · rcases hm'.2.2 m (hp.mem_iff.mp hm.1) hm.2.1 with e' | e'
        · rw [e']
        · rw [less_asymm e] at e'; cases e'

private def b1 : Btp := ⟨⟨7, [100], [98]⟩, [[115]]⟩
private def b2 : Btp := ⟨⟨7, [100], [97]⟩, [[120], [115]]⟩
private def b3 : Btp := ⟨⟨1, [101], [97]⟩, [[115]]⟩
example : findBTP [b1, b2, b3] [100] [115] = some b2 := by decide
example : findBTP [b3] [100] [115] = none := by decide

/-! ## 6. NGF policies: `markConflictedPolicies`

The full-strength statement — the set of policies marked Conflicted does not depend on the iteration
order of the `possibles` map — is FALSE for policies with several targetRefs. -/

/-- A (oldest) and B share target 1, B and C share target 2; A conflicts with B, B with C, A not with C. -/
def wA : Pol := ⟨0, ⟨1, [100], [97]⟩, 7, [1], 0b01, true⟩
def wB : Pol := ⟨1, ⟨2, [100], [98]⟩, 7, [1, 2], 0b11, true⟩
def wC : Pol := ⟨2, ⟨3, [100], [99]⟩, 7, [2], 0b10, true⟩

/-- witness: target 1 first ⇒ only B loses; target 2 first ⇒ B and C lose. -/
theorem policy_conflict_order_dependent :
    markConflicted maskConflicts [(7, 1), (7, 2)] [wA, wB, wC] = [1] ∧
    markConflicted maskConflicts [(7, 2), (7, 1)] [wA, wB, wC] = [1, 2] := by decide

/-- the same with a conflict relation that holds between ALL policies of the kind (ObservabilityPolicy:
"both set tracing") -/
theorem policy_conflict_order_dependent_total :
    markConflicted (fun _ _ => true) [(7, 1), (7, 2)] [wA, wB, wC] = [1] ∧
    markConflicted (fun _ _ => true) [(7, 2), (7, 1)] [wA, wB, wC] = [1, 2] := by decide

/-- hence the unrestricted invariance statement is refuted -/
theorem policy_conflict_perm_invariant_false :
    ¬ (∀ (conf : Pol → Pol → Bool) (keys keys' : List (Nat × Nat)) (pols : List Pol),
        keys.Perm keys' → ∀ x, x ∈ markConflicted conf keys pols ↔ x ∈ markConflicted conf keys' pols) := by
  intro h
  have := h maskConflicts [(7, 1), (7, 2)] [(7, 2), (7, 1)] [wA, wB, wC] (List.Perm.swap _ _ _) 2
  rw [policy_conflict_order_dependent.1, policy_conflict_order_dependent.2] at this
  simp at this

/-- groups of single-target policies are disjoint -/
theorem groups_disjoint (pols : List Pol) (keys : List (Nat × Nat))
    (hid : ∀ a ∈ pols, ∀ b ∈ pols, a.id = b.id → a = b)
    (single : ∀ p ∈ pols, p.valid = true → p.targets.length ≤ 1)
    (hk : keys.Nodup) : List.Pairwise Disjoint (keys.map (groupOf pols)) := by
  rw [List.pairwise_map]
  refine hk.imp ?_
  intro k1 k2 hne x h1 h2
  simp only [ids, List.mem_map] at h1 h2
  obtain ⟨p, hp, e1⟩ := h1
  obtain ⟨q, hq, e2⟩ := h2
  have hp' := List.mem_filter.mp ((sortBy_perm Pol.md _).mem_iff.mp hp)
  have hq' := List.mem_filter.mp ((sortBy_perm Pol.md _).mem_iff.mp hq)
  have epq : p = q := hid p hp'.1 q hq'.1 (e1.trans e2.symm)
  subst epq
  simp only [Bool.and_eq_true, beq_iff_eq, List.contains_iff_mem] at hp' hq'
  have hlen := single p hp'.1 hp'.2.1.1
  apply hne
  have h2 : k1.2 = k2.2 := by
    match hts : p.targets, hlen with
    | [], _ => rw [hts] at hp'; simp at hp'
    | [t], _ =>
      rw [hts] at hp' hq'
      have a1 := hp'.2.2; have a2 := hq'.2.2
      simp at a1 a2; rw [a1, a2]
    | _ :: _ :: _, hl => simp at hl
  exact Prod.ext (hp'.2.1.2.symm.trans hq'.2.1.2) h2

/-- PARTIAL (excluded region: a valid policy with more than one targetRef). With single-target
policies the marking depends neither on the order of `possibles` nor on the order of the policy map. -/
theorem policy_conflict_perm_invariant_partial (conf : Pol → Pol → Bool)
    (pols pols' : List Pol) (keys keys' : List (Nat × Nat))
    (hpp : pols.Perm pols') (hkp : keys.Perm keys') (hk : keys.Nodup)
    (hid : ∀ a ∈ pols, ∀ b ∈ pols, a.id = b.id → a = b)
    (inj : InjOn Pol.md pols)
    (single : ∀ p ∈ pols, p.valid = true → p.targets.length ≤ 1) (x : Nat) :
    x ∈ markConflicted conf keys pols ↔ x ∈ markConflicted conf keys' pols' := by
  have hg : groupOf pols' = groupOf pols := by
    funext k
    unfold groupOf
    symm
    apply sortBy_perm_invariant _ _ _ (hpp.filter _)
    intro a b ha hb
    exact inj a b (List.mem_filter.mp ha).1 (List.mem_filter.mp hb).1
  rw [markConflicted_eq_runGroups, markConflicted_eq_runGroups, hg]
  exact runGroups_perm conf _ _ (hkp.map _) (groups_disjoint pols keys hid single hk) x

example : ∀ p ∈ [wA, wC], p.valid = true → p.targets.length ≤ 1 := by decide

/-- in every order: whoever is marked Conflicted lost against an older, conflicting policy of its
group that was valid when the comparison was made; the oldest policy of a group is never marked by
that group. (soundness of the marking for one group) -/
theorem processGroup_sound (conf : Pol → Pol → Bool) (g : List Pol) (inv : List Nat) (x : Nat)
    (h : x ∈ processGroup conf g inv) : x ∈ inv ∨ ∃ i ∈ g, ∃ j ∈ g, j.id = x ∧ conf i j = true := by
  induction g generalizing inv with
  | nil => left; simpa [processGroup] using h
  | cons i rest ih =>
    by_cases hc : inv.contains i.id = true
    · simp only [processGroup, hc, if_true] at h
      rcases ih inv h with h1 | ⟨a, ha, b, hb, e, c⟩
      · exact Or.inl h1
      · exact Or.inr ⟨a, List.mem_cons_of_mem _ ha, b, List.mem_cons_of_mem _ hb, e, c⟩
    · simp only [processGroup, hc, Bool.false_eq_true, if_false] at h
      rcases ih _ h with h1 | ⟨a, ha, b, hb, e, c⟩
      · rcases (markFrom_mem conf i rest inv x).mp h1 with h2 | ⟨j, hj, e, c⟩
        · exact Or.inl h2
        · exact Or.inr ⟨i, List.mem_cons_self, j, List.mem_cons_of_mem _ hj, e, c⟩
      · exact Or.inr ⟨a, List.mem_cons_of_mem _ ha, b, List.mem_cons_of_mem _ hb, e, c⟩

/-! ### the declarative specification of the losers (greedy by age) and its equivalence with the code's loops -/

/-- SOUND AND COMPLETE: for one (sorted) group with distinct policies, the ids that `markConflictedPolicies`' nested
loops mark are exactly the policies dropped by the greedy-by-age walk. In particular every policy that conflicts
with an older SURVIVOR is marked (completeness), and nobody else (soundness). -/
theorem processGroup_is_greedy (conf : Pol → Pol → Bool) (g : List Pol)
    (hpw : List.Pairwise (fun a b => a.id ≠ b.id) g) (x : Nat) :
    x ∈ processGroup conf g [] ↔ x ∈ (dropped conf [] g).map (·.id) := by
  have := processGroup_greedy conf g [] [] hpw (by intro j _; simp) x
  simpa using this

/-- the same, position by position: the policy `p` of the group `pre ++ p :: post` is Conflicted iff some policy
that SURVIVED among the older ones (`pre`) conflicts with it. -/
theorem conflicted_iff_older_survivor_conflicts (conf : Pol → Pol → Bool) (pre post : List Pol) (p : Pol)
    (hpw : List.Pairwise (fun a b => a.id ≠ b.id) (pre ++ p :: post)) :
    p.id ∈ processGroup conf (pre ++ p :: post) [] ↔ (survivors conf [] pre).any (fun q => conf q p) = true := by
  have hmem : p ∈ pre ++ p :: post := by simp
  have hsplit := List.pairwise_append.mp hpw
  have hpre : p ∉ pre := fun h => hsplit.2.2 p h p List.mem_cons_self rfl
  have hpost : p ∉ post := fun h => (List.pairwise_cons.mp hsplit.2.1).1 p h rfl
  rw [processGroup_is_greedy conf _ hpw, ← mem_dropped_iff conf p post hpost pre [] hpre]
  constructor
  · intro h
    obtain ⟨q, hq, e⟩ := List.mem_map.mp h
    have : q = p := pairwise_ids_inj _ hpw q (dropped_sub conf _ _ q hq) p hmem e
    rw [this] at hq; exact hq
  · intro h; exact List.mem_map.mpr ⟨p, h, rfl⟩

/-- for single-target policies the whole of `markConflictedPolicies` is the greedy specification of each policy's own
group, whatever the iteration orders -/
theorem single_target_conflicted_iff_greedy (conf : Pol → Pol → Bool) (pols : List Pol) (keys : List (Nat × Nat))
    (hk : keys.Nodup) (hpw : List.Pairwise (fun a b => a.id ≠ b.id) pols)
    (single : ∀ p ∈ pols, p.valid = true → p.targets.length ≤ 1)
    (k : Nat × Nat) (hkm : k ∈ keys) (p : Pol) (hp : p ∈ groupOf pols k) :
    p.id ∈ markConflicted conf keys pols ↔ p.id ∈ (dropped conf [] (groupOf pols k)).map (·.id) := by
  have hid : ∀ a ∈ pols, ∀ b ∈ pols, a.id = b.id → a = b := pairwise_ids_inj pols hpw
  have hgpw : List.Pairwise (fun a b => a.id ≠ b.id) (groupOf pols k) := by
    unfold groupOf
    refine ((sortBy_perm Pol.md _).pairwise_iff (fun h => fun e => h e.symm)).mpr ?_
    exact hpw.sublist List.filter_sublist
  rw [markConflicted_eq_runGroups,
    runGroups_member conf _ [] (groupOf pols k) p.id (groups_disjoint pols keys hid single hk)
      (List.mem_map.mpr ⟨k, hkm, rfl⟩) (List.mem_map.mpr ⟨p, hp, rfl⟩)]
  exact processGroup_is_greedy conf _ hgpw p.id

/-- four policies on one target with interleaved conflicts (A–C, B–D): C and D lose, A and B survive -/
def iA : Pol := ⟨0, ⟨1, [100], [97]⟩, 1, [9], 0b01, true⟩
def iB : Pol := ⟨1, ⟨2, [100], [98]⟩, 1, [9], 0b10, true⟩
def iC : Pol := ⟨2, ⟨3, [100], [99]⟩, 1, [9], 0b01, true⟩
def iD : Pol := ⟨3, ⟨4, [100], [100]⟩, 1, [9], 0b10, true⟩
example : markConflicted maskConflicts [(1, 9)] [iD, iB, iC, iA] = [3, 2] := by decide
example : (dropped maskConflicts [] [iA, iB, iC, iD]).map (·.id) = [2, 3] := by decide
example : survivors maskConflicts [] [iA, iB, iC, iD] = [iA, iB] := by decide

/-- the candidate repair does not have a `possibles` order at all and is invariant under permutation
of the policy map -/
theorem fixed_perm_invariant (conf : Pol → Pol → Bool) (pols pols' : List Pol) (hp : pols.Perm pols')
    (inj : InjOn Pol.md pols) : markConflictedFixed conf pols = markConflictedFixed conf pols' := by
  unfold markConflictedFixed
  rw [sortBy_perm_invariant _ _ _ (hp.filter _)
    (fun a b ha hb => inj a b (List.mem_filter.mp ha).1 (List.mem_filter.mp hb).1)]

example : markConflictedFixed maskConflicts [wA, wB, wC] = [1] := by decide
example : markConflictedFixed maskConflicts [wC, wB, wA] = [1] := by decide


/-! ## 6b. Listeners on one port: `createPortConflictResolver`

Listeners of one Gateway have no age; the resolver sees them in `spec.listeners` order. Its result nevertheless does
not depend on that order: a listener ends up invalid exactly when another listener clashes with it (same port and
either another protocol group, or HTTPS vs TLS with overlapping hostnames). -/

theorem listener_conflicts_order_free (ov : Lis → Lis → Bool) (hsym : ∀ a b, ov a b = ov b a) (ls : List Lis)
    (hid : List.Pairwise (fun a b => a.id ≠ b.id) ls) (l : Lis) (hl : l ∈ ls) :
    (l.id ∈ (resolveListeners ov ls).invalid ↔ lisValidSpec ov ls l = false) :=
  resolveListeners_spec ov hsym ls hid l hl

theorem listener_conflicts_perm_invariant (ov : Lis → Lis → Bool) (hsym : ∀ a b, ov a b = ov b a)
    (ls ls' : List Lis) (hp : ls.Perm ls') (hid : List.Pairwise (fun a b => a.id ≠ b.id) ls) (l : Lis) (hl : l ∈ ls) :
    (l.id ∈ (resolveListeners ov ls).invalid ↔ l.id ∈ (resolveListeners ov ls').invalid) := by
  have hid' : List.Pairwise (fun a b => a.id ≠ b.id) ls' :=
    (hp.pairwise_iff (fun h => fun e => h e.symm)).mp hid
  rw [resolveListeners_spec ov hsym ls hid l hl, resolveListeners_spec ov hsym ls' hid' l (hp.mem_iff.mp hl)]
  unfold lisValidSpec
  rw [hp.any_eq]

/-- the executable overlap relation (`haveOverlap`) is symmetric, so the two theorems apply to the driver's instance -/
theorem lisOverlap_is_symmetric : ∀ a b : Lis, lisOverlap a b = lisOverlap b a := lisOverlap_symm

private def lA : Lis := ⟨0, 443, .https, some "cafe.example.com"⟩
private def lB : Lis := ⟨1, 443, .tls, some "*.example.com"⟩
private def lC : Lis := ⟨2, 443, .tls, some "other.org"⟩
private def lD : Lis := ⟨3, 8443, .http, none⟩
private def lE : Lis := ⟨4, 8443, .tls, none⟩
/-- only the hostnames of `lA` and `lB` overlap (String prefix/suffix tests do not reduce in the kernel, so the
examples use an explicit symmetric relation) -/
private def ovAB (a b : Lis) : Bool := a.id + b.id == 1
example : (resolveListeners ovAB [lA, lB, lC, lD, lE]).invalid = [4, 3, 1, 0] := by decide
example : (resolveListeners ovAB [lE, lC, lB, lD, lA]).invalid = [0, 1, 3, 4] := by decide
example : lisValidSpec ovAB [lA, lB, lC, lD, lE] lC = true := by decide

/-! ## 7. Facts regenerated from the source (translator module OrderFacts)

If one of these stops compiling, the anchored code changed: the comparison chain, the kind of sort at a
site, or the set of `for … range <map>` loops (each `append … [unsorted]` is listed with the reason why
it is harmless or with the finding it causes). -/
open NGF.Generated.Order in
/-- `LessObjectMeta`: equal timestamps → equal namespaces → name `<`, else namespace `<`; else `Before`. -/
theorem lessObjectMeta_pinned : lessObjectMetaBody =
  ["if meta1.CreationTimestamp.Equal(&meta2.CreationTimestamp) { if meta1.Namespace == meta2.Namespace { return meta1.Name < meta2.Name } return meta1.Namespace < meta2.Namespace }",
   "return meta1.CreationTimestamp.Before(&meta2.CreationTimestamp)"] := by rfl

open NGF.Generated.Order in
/-- `LessClientObject` has the same shape on `client.Object` getters. -/
theorem lessClientObject_pinned : lessClientObjectBody =
  ["create1 := obj1.GetCreationTimestamp()",
   "create2 := obj2.GetCreationTimestamp()",
   "if create1.Time.Equal(create2.Time) { if obj1.GetNamespace() == obj2.GetNamespace() { return obj1.GetName() < obj2.GetName() } return obj1.GetNamespace() < obj2.GetNamespace() }",
   "return create1.Time.Before(create2.Time)"] := by rfl

open NGF.Generated.Order in
/-- the comparison chain of `higherPriority` that `NGF.Order.higherPriority` transcribes -/
theorem higherPriority_pinned : higherPriorityBody =
  ["if rule1.Match.Method != nil && rule2.Match.Method == nil { return true }",
   "if rule2.Match.Method != nil && rule1.Match.Method == nil { return false }",
   "l1 := len(rule1.Match.Headers)",
   "l2 := len(rule2.Match.Headers)",
   "if l1 != l2 { return l1 > l2 }",
   "l1 = len(rule1.Match.QueryParams)",
   "l2 = len(rule2.Match.QueryParams)",
   "if l1 != l2 { return l1 > l2 }",
   "return ngfsort.LessObjectMeta(rule1.Source, rule2.Source)"] := by rfl

open NGF.Generated.Order in
/-- match rules are sorted with the STABLE sort -/
theorem sortMatchRules_is_stable : sortMatchRulesBody =
  ["sort.SliceStable( matchRules, func(i, j int) bool { return higherPriority(matchRules[i], matchRules[j]) }, )"] := by rfl

open NGF.Generated.Order in
/-- the sort sites: `sort.Slice` (unstable) is only used with comparisons that are strict total orders on the
sorted elements — LessClientObject on objects of one kind (gateway.go, policies.go, route_common.go
bindRoutesToListeners), (Path, PathType) on the distinct keys of a map, Hostname on distinct server
names — except `tryToAttachL4RouteToListeners`, whose input order (spec.listeners) is part of the
cluster state. -/
theorem sort_sites_pinned : sortCalls =
  ["configuration.go:hostPathRules.buildServers: sort.Slice(s.PathRules)",
   "configuration.go:hostPathRules.buildServers: sort.Slice(servers)",
   "gateway.go:processGateways: sort.Slice(referencedGws)",
   "policies.go:markConflictedPolicies: sort.Slice(policyList)",
   "route_common.go:bindRoutesToListeners: sort.Slice(routes)",
   "route_common.go:tryToAttachL4RouteToListeners: sort.Slice(attachableListeners)",
   "sort.go:sortMatchRules: sort.SliceStable(matchRules)"] := by rfl

open NGF.Generated.Order in
/-- every range over a map in the anchored files. Order-sensitive ones and why they are (not) harmless:
* `processGateways`, `bindRoutesToListeners(l4Routes)`, `hostPathRules.buildServers`: sorted afterwards
  (`winner_perm_invariant`, `tls_perm_invariant`, `matchrules_perm_invariant`);
* `findBackendTLSPolicyForService`: running minimum (`btp_perm_invariant`);
* `markConflictedPolicies: range possibles`: NOT harmless — `policy_conflict_order_dependent`;
* `hostPathRules.upsertListener: range l.Routes -> upsertRoute`: match rules are sorted afterwards, policies are a
  set, but `hostRule.GRPC` is last-writer (finding hostrule-grpc-last-writer) and rules of an HTTPRoute and a
  GRPCRoute with one name and age tie (finding same-name-http-grpc-backend-group);
* `buildBackendGroups`, `buildUpstreams`, `buildStreamUpstreams`, `buildPassthroughServers`,
  `portPathRules.buildServers`, `buildTelemetry`, `buildSnippetsForContext`, `GetAllNsNames`: the result is
  used as a set (normalised by the judge: servers by (port, name), upstreams/groups by name);
* `attachPolicies`, `processPolicies`, `checkTargetRoutesForOverlap`: per-object lists of policies /
  conditions, used as sets (conditions are de-duplicated by type; messages are excluded). -/
theorem map_range_sites_pinned : mapRangeSites =
  ["backend_refs.go:addBackendRefsToRouteRules: range routes -> call addBackendRefsToRules",
   "backend_refs.go:findBackendTLSPolicyForService: range backendTLSPolicies -> assign beTLSPolicy",
   "configuration.go:buildAuxiliarySecrets: range secrets -> set auxSecrets[…]",
   "configuration.go:buildBackendGroups: range uniqueGroups -> append groups [unsorted]",
   "configuration.go:buildCertBundles: range caCertConfigMaps -> assign data; set bundles[…]",
   "configuration.go:buildPassthroughServers: range l.L4Routes -> assign hostnames; set passthroughServersMap[…]; assign foundRouteMatchingListenerHostname; append passthroughServersMap[key] [unsorted]",
   "configuration.go:buildPassthroughServers: range passthroughServersMap -> append passthroughServers [unsorted]",
   "configuration.go:buildSnippetsForContext: range snippetFilters -> append snippetsForContext [unsorted]",
   "configuration.go:buildStreamUpstreams: range l.L4Routes -> assign errMsg; set uniqueUpstreams[…]",
   "configuration.go:buildStreamUpstreams: range uniqueUpstreams -> append upstreams [unsorted]",
   "configuration.go:buildTelemetry: range g.NGFPolicies -> set ratioMap[…]",
   "configuration.go:buildTelemetry: range ratioMap -> append tel.Ratios [unsorted]",
   "configuration.go:buildUpstreams: range l.Routes -> assign errMsg; assign upstreamPolicies; set uniqueUpstreams[…]",
   "configuration.go:buildUpstreams: range uniqueUpstreams -> append upstreams [unsorted]",
   "configuration.go:hostPathRules.buildServers: range hpr.rulesPerHost -> call panic; set .SSL; call sortMatchRules; append s.PathRules [unsorted]; call sort.Slice; append servers [then sort.Slice]",
   "configuration.go:hostPathRules.upsertListener: range l.Routes -> call hpr.upsertRoute",
   "configuration.go:portPathRules.buildServers: range p -> append servers [unsorted]",
   "configuration.go:portPathRules.buildServers: range p -> read only",
   "gateway.go:processGateways: range gws -> append referencedGws [then sort.Slice]",
   "gateway.go:processedGateways.GetAllNsNames: range gws.Ignored -> append allNsNames [unsorted]",
   "policies.go:Graph.attachPolicies: range g.NGFPolicies -> call attachPolicyToGateway; call attachPolicyToRoute; call attachPolicyToService",
   "policies.go:checkForRouteOverlap: range parentRef.Attachment.AcceptedHostnames -> set hostPortPaths[…]",
   "policies.go:checkTargetRoutesForOverlap: range graphRoutes -> append conds [unsorted]",
   "policies.go:checkTargetRoutesForOverlap: range targetedRoutes -> nested range graphRoutes",
   "policies.go:markConflictedPolicies: range pols -> set possibles[…]; append possibles[ak] [unsorted]",
   "policies.go:markConflictedPolicies: range possibles -> call sort.Slice; set .Valid; append conflicted.Conditions [unsorted]",
   "policies.go:processPolicies: range pols -> set targetedRoutes[…]; append targetRefs [unsorted]; append conds [unsorted]; set processedPolicies[…]",
   "route_common.go:bindRoutesToListeners: range l4Routes -> append routes [then sort.Slice]",
   "route_common.go:bindRoutesToListeners: range l7Routes -> call bindL7RouteToListeners",
   "route_common.go:buildL4RoutesForGateways: range tlsRoutes -> set routes[…]",
   "route_common.go:buildRoutesForGateways: range grpcRoutes -> set routes[…]",
   "route_common.go:buildRoutesForGateways: range httpRoutes -> set routes[…]"] := by rfl

end NGF.Props.C14
