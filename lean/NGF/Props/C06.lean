/-
C06 — cross-namespace references take effect only when a ReferenceGrant permits them.

Property theorems about `NGF.Model.RefGrant` (the functions the driver runs and the correspondence compares
with the real resolver, validators, generator functions and change processor), about the spec the judge
uses (`NGF.Model.RefGrantJudge`), and expectation lemmas that pin the regenerated source facts
(`NGF.Generated.RefGrantFacts`) to what the model says.  All quantifiers are over ALL grant lists,
references and event histories; Go's map iteration order is covered by `refAllowed_congr`.
-/
import NGF.Model.RefGrant
import NGF.Model.RefGrantJudge
import NGF.Proofs.RefGrant
import NGF.Generated.RefGrantFacts
import NGF.Model.PipelineRefs
import NGF.Proofs.PipelineRefs

namespace NGF.RefGrant

/-! ## 1. The resolver answers exactly what the declarative spec says -/

/-- The resolver for every grant set and every reference, in terms of the grants themselves
(including what it does for a `to.group` that is not the core group: the second lookup drops the group). -/
theorem refAllowed_iff_keys (gs : List Grant) (to : ToRes) (frm : FromRes) :
    refAllowed (newResolver gs) to frm = true ↔
      ∃ g ∈ gs, g.ns = to.ns ∧ (∃ f ∈ g.froms, fromNames f frm) ∧
        ∃ t ∈ g.tos, t.kind = to.kind ∧
          ((normGroup t.group = to.group ∧ toName t = to.name) ∨ (normGroup t.group = "" ∧ toName t = "")) := by
  rw [refAllowed_iff_mem, mem_newResolver, mem_newResolver]
  constructor
  · rintro (⟨g, hg, t, ht, f, hf, e⟩ | ⟨g, hg, t, ht, f, hf, e⟩)
    · obtain ⟨⟨h1, h2, h3, h4⟩, h5, h6, h7⟩ := key_eq_iff.1 e
      exact ⟨g, hg, h4.symm, ⟨f, hf, h5.symm, h6.symm, h7.symm⟩, t, ht, h2.symm, .inl ⟨h1.symm, h3.symm⟩⟩
    · obtain ⟨⟨h1, h2, h3, h4⟩, h5, h6, h7⟩ := key_eq_iff.1 e
      exact ⟨g, hg, h4.symm, ⟨f, hf, h5.symm, h6.symm, h7.symm⟩, t, ht, h2.symm, .inr ⟨h1.symm, h3.symm⟩⟩
  · rintro ⟨g, hg, hns, ⟨f, hf, h5, h6, h7⟩, t, ht, hk, (⟨h1, h3⟩ | ⟨h1, h3⟩)⟩
    · exact .inl ⟨g, hg, t, ht, f, hf, key_eq_iff.2 ⟨⟨h1.symm, hk.symm, h3.symm, hns.symm⟩, h5.symm, h6.symm, h7.symm⟩⟩
    · exact .inr ⟨g, hg, t, ht, f, hf, key_eq_iff.2 ⟨⟨h1.symm, hk.symm, h3.symm, hns.symm⟩, h5.symm, h6.symm, h7.symm⟩⟩

/-- MAIN (`refAllowed_iff_spec`): for all grant sets and all references to a core-group object, the
resolver answers true iff some ReferenceGrant in the TARGET's namespace has a `from` equal to the
referrer's (group, kind, namespace) and a `to` of the core group (`""` or `"core"`) with the target's kind
and no name (nil or empty) or exactly the target's name. -/
theorem refAllowed_iff_spec (gs : List Grant) (to : ToRes) (frm : FromRes) (hg : to.group = "") :
    refAllowed (newResolver gs) to frm = true ↔ Permitted gs to.kind to.ns to.name frm := by
  rw [refAllowed_iff_keys]
  unfold Permitted toCovers
  constructor
  · rintro ⟨g, hgm, hns, hf, t, ht, hk, h⟩
    refine ⟨g, hgm, hns, hf, t, ht, ?_, hk, ?_⟩
    · rcases h with ⟨h1, _⟩ | ⟨h1, _⟩
      · exact normGroup_eq_empty.1 (h1.trans hg)
      · exact normGroup_eq_empty.1 h1
    · rcases h with ⟨_, h3⟩ | ⟨_, h3⟩
      · rcases toName_eq.1 h3 with ⟨hn, _⟩ | hn
        · exact .inl hn
        · exact .inr (.inr hn)
      · rcases toName_eq.1 h3 with ⟨hn, _⟩ | hn
        · exact .inl hn
        · exact .inr (.inl hn)
  · rintro ⟨g, hgm, hns, hf, t, ht, hgr, hk, hn⟩
    refine ⟨g, hgm, hns, hf, t, ht, hk, ?_⟩
    have hng := normGroup_eq_empty.2 hgr
    rcases hn with hn | hn | hn
    · exact .inr ⟨hng, toName_eq.2 (.inl ⟨hn, rfl⟩)⟩
    · exact .inr ⟨hng, toName_eq.2 (.inr hn)⟩
    · exact .inl ⟨hng.trans hg.symm, toName_eq.2 (.inr hn)⟩

/-- The only `to` values the pipeline ever builds are of the core group. -/
theorem constructors_core_group (ns name : String) :
    (toService ns name).group = "" ∧ (toSecret ns name).group = "" ∧
    (toService ns name).kind = "Service" ∧ (toSecret ns name).kind = "Secret" := ⟨rfl, rfl, rfl, rfl⟩

/-- Backends: what every route kind asks the resolver is the spec for (Service, that namespace, that name). -/
theorem service_ref_allowed_iff (gs : List Grant) (k : RouteKind) (routeNs ns name : String) :
    refAllowedFrom (newResolver gs) (fromRoute k routeNs) (toService ns name) = true ↔
      Permitted gs "Service" ns name (fromRoute k routeNs) :=
  refAllowed_iff_spec gs (toService ns name) _ rfl

/-- Certificates: what a Gateway listener asks the resolver is the spec for (Secret, that namespace, that name). -/
theorem secret_ref_allowed_iff (gs : List Grant) (gwNs ns name : String) :
    refAllowed (newResolver gs) (toSecret ns name) (fromGateway gwNs) = true ↔
      Permitted gs "Secret" ns name (fromGateway gwNs) :=
  refAllowed_iff_spec gs (toSecret ns name) _ rfl

/-- the judge's executable spec is the spec -/
theorem permittedB_iff_spec (gs : List Grant) (kind ns name : String) (frm : FromRes) :
    permittedB gs kind ns name frm = true ↔ Permitted gs kind ns name frm := permittedB_iff gs kind ns name frm

/-- non-vacuity: a grant that permits, one that does not (wrong from-namespace) -/
example :
    let g : Grant := ⟨"b", "g", [⟨gatewayGroup, "HTTPRoute", "a"⟩], [⟨"core", "Service", some "svc"⟩]⟩
    refAllowed (newResolver [g]) (toService "b" "svc") (fromHTTPRoute "a") = true ∧
    refAllowed (newResolver [g]) (toService "b" "svc") (fromHTTPRoute "c") = false ∧
    refAllowed (newResolver [g]) (toService "b" "other") (fromHTTPRoute "a") = false := by decide

/-! ## 2. Monotonicity and irrelevance -/

/-- Adding grants never revokes. -/
theorem refAllowed_mono (gs gs' : List Grant) (h : ∀ g ∈ gs, g ∈ gs') (to : ToRes) (frm : FromRes) :
    refAllowed (newResolver gs) to frm = true → refAllowed (newResolver gs') to frm = true :=
  refAllowed_mono_keys (newResolver_mono h) to frm

/-- The answer depends only on WHICH grants exist: not on their order (Go ranges over a map), not on duplicates. -/
theorem refAllowed_congr (gs gs' : List Grant) (h : ∀ g, g ∈ gs ↔ g ∈ gs') (to : ToRes) (frm : FromRes) :
    refAllowed (newResolver gs) to frm = refAllowed (newResolver gs') to frm :=
  bool_eq_of_iff ⟨refAllowed_mono gs gs' (fun g hg => (h g).1 hg) to frm,
                  refAllowed_mono gs' gs (fun g hg => (h g).2 hg) to frm⟩

/-- Grants in other namespaces than the target's are irrelevant (in particular: a grant placed in the
referrer's namespace permits nothing there). -/
theorem other_namespace_irrelevant (gs : List Grant) (to : ToRes) (frm : FromRes) :
    refAllowed (newResolver gs) to frm = refAllowed (newResolver (gs.filter fun g => g.ns = to.ns)) to frm := by
  apply bool_eq_of_iff
  rw [refAllowed_iff_keys, refAllowed_iff_keys]
  constructor
  · rintro ⟨g, hg, hns, rest⟩
    exact ⟨g, List.mem_filter.2 ⟨hg, by simpa using hns⟩, hns, rest⟩
  · rintro ⟨g, hg, rest⟩
    exact ⟨g, (List.mem_filter.1 hg).1, rest⟩

/-- `from` entries that do not name the referrer (other kind, other namespace, other group) are irrelevant. -/
theorem other_from_irrelevant (gs : List Grant) (to : ToRes) (frm : FromRes) :
    refAllowed (newResolver gs) to frm =
      refAllowed (newResolver (gs.map fun g => { g with froms := g.froms.filter fun f => fromNames f frm })) to frm := by
  apply bool_eq_of_iff
  rw [refAllowed_iff_keys, refAllowed_iff_keys]
  constructor
  · rintro ⟨g, hg, hns, ⟨f, hf, hff⟩, rest⟩
    exact ⟨_, List.mem_map.2 ⟨g, hg, rfl⟩, hns, ⟨f, List.mem_filter.2 ⟨hf, by simpa using hff⟩, hff⟩, rest⟩
  · rintro ⟨g', hg', hns, ⟨f, hf, hff⟩, rest⟩
    obtain ⟨g, hg, rfl⟩ := List.mem_map.1 hg'
    exact ⟨g, hg, hns, ⟨f, (List.mem_filter.1 hf).1, hff⟩, rest⟩

/-- `to` entries of another kind are irrelevant (a Secret grant opens no Service). -/
theorem other_to_kind_irrelevant (gs : List Grant) (to : ToRes) (frm : FromRes) :
    refAllowed (newResolver gs) to frm =
      refAllowed (newResolver (gs.map fun g => { g with tos := g.tos.filter fun t => t.kind = to.kind })) to frm := by
  apply bool_eq_of_iff
  rw [refAllowed_iff_keys, refAllowed_iff_keys]
  constructor
  · rintro ⟨g, hg, hns, hf, t, ht, hk, rest⟩
    exact ⟨_, List.mem_map.2 ⟨g, hg, rfl⟩, hns, hf, t, List.mem_filter.2 ⟨ht, by simpa using hk⟩, hk, rest⟩
  · rintro ⟨g', hg', hns, hf, t, ht, rest⟩
    obtain ⟨g, hg, rfl⟩ := List.mem_map.1 hg'
    exact ⟨g, hg, hns, hf, t, (List.mem_filter.1 ht).1, rest⟩

/-- Group handling exactly as the code does it: in a grant's `to`, `"core"` and `""` are the same … -/
theorem to_group_core_is_empty (gs : List Grant) (to : ToRes) (frm : FromRes) :
    refAllowed (newResolver gs) to frm =
      refAllowed (newResolver (gs.map fun g =>
        { g with tos := g.tos.map fun t => { t with group := normGroup t.group } })) to frm := by
  have idem : ∀ s, normGroup (normGroup s) = normGroup s := by
    intro s; unfold normGroup; by_cases h : s = "core" <;> simp [h]
  apply bool_eq_of_iff
  rw [refAllowed_iff_keys, refAllowed_iff_keys]
  constructor
  · rintro ⟨g, hg, hns, hf, t, ht, hk, rest⟩
    refine ⟨_, List.mem_map.2 ⟨g, hg, rfl⟩, hns, hf, { t with group := normGroup t.group },
      List.mem_map.2 ⟨t, ht, rfl⟩, hk, ?_⟩
    simpa [idem, toName] using rest
  · rintro ⟨g', hg', hns, hf, t', ht', hk, rest⟩
    obtain ⟨g, hg, rfl⟩ := List.mem_map.1 hg'
    obtain ⟨t, ht, rfl⟩ := List.mem_map.1 ht'
    refine ⟨g, hg, hns, hf, t, ht, hk, ?_⟩
    simpa [idem, toName] using rest

/-- … any other `to` group opens nothing for Services and Secrets, and the `from` group is compared
verbatim: `""`, `"core"` or a versioned group in a grant's `from` do not name a Gateway API referrer. -/
theorem group_near_misses :
    let svc := toService "b" "svc"
    let frm := fromHTTPRoute "a"
    let grant (fg tg : String) : Grant := ⟨"b", "g", [⟨fg, "HTTPRoute", "a"⟩], [⟨tg, "Service", none⟩]⟩
    refAllowed (newResolver [grant gatewayGroup ""]) svc frm = true ∧
    refAllowed (newResolver [grant gatewayGroup "core"]) svc frm = true ∧
    refAllowed (newResolver [grant gatewayGroup "apps"]) svc frm = false ∧
    refAllowed (newResolver [grant gatewayGroup gatewayGroup]) svc frm = false ∧
    refAllowed (newResolver [grant "" ""]) svc frm = false ∧
    refAllowed (newResolver [grant "core" ""]) svc frm = false ∧
    refAllowed (newResolver [grant "gateway.networking.k8s.io/v1" ""]) svc frm = false := by decide

/-- A grant whose `from` and `to` sit in two different grants permits nothing (no mixing across grants),
while several entries inside ONE grant combine as a cross product. -/
theorem entries_combine_within_a_grant_only :
    let f1 : GrantFrom := ⟨gatewayGroup, "HTTPRoute", "a"⟩
    let f2 : GrantFrom := ⟨gatewayGroup, "GRPCRoute", "c"⟩
    let t1 : GrantTo := ⟨"", "Service", some "svc"⟩
    let t2 : GrantTo := ⟨"", "Secret", none⟩
    refAllowed (newResolver [⟨"b", "g1", [f1], [t2]⟩, ⟨"b", "g2", [f2], [t1]⟩]) (toService "b" "svc") (fromHTTPRoute "a") = false ∧
    refAllowed (newResolver [⟨"b", "g", [f2, f1], [t2, t1]⟩]) (toService "b" "svc") (fromHTTPRoute "a") = true ∧
    refAllowed (newResolver [⟨"b", "g", [f2, f1], [t2, t1]⟩]) (toSecret "b" "any") (fromGRPCRoute "c") = true := by decide

/-- Quirk of `refAllowed` kept in the model: for a `to` of a NON-core group the second lookup drops the
group, so a core all-names grant answers true. Unreachable: `constructors_core_group`. -/
theorem noncore_to_group_quirk :
    refAllowed (newResolver [⟨"b", "g", [⟨gatewayGroup, "HTTPRoute", "a"⟩], [⟨"", "Widget", none⟩]⟩])
      ⟨"apps", "Widget", "w", "b"⟩ (fromHTTPRoute "a") = true := by decide

/-! ## 3. Backends: a cross-namespace backendRef is valid only with a grant; otherwise 500 -/

/-- `crossns_backend_needs_grant`: whenever the validators accept a backendRef of a route (any kind) that
names another namespace, the spec grants it. -/
theorem crossns_backend_needs_grant (gs : List Grant) (k : RouteKind) (routeNs : String) (ref : BackendRef)
    (n : String) (hn : ref.ns = some n) (hne : n ≠ routeNs)
    (hv : routeRefVerdict gs k routeNs ref = .ok) :
    Permitted gs "Service" n ref.name (fromRoute k routeNs) := by
  apply (service_ref_allowed_iff gs k routeNs n ref.name).1
  unfold routeRefVerdict at hv
  cases k
  · simp only [validateRouteBackendRef] at hv
    split at hv
    · exact absurd hv (by decide)
    · exact validateBackendRef_ok_crossns hv hn hne
  · simp only [validateRouteBackendRef] at hv
    split at hv
    · exact absurd hv (by decide)
    · exact validateBackendRef_ok_crossns hv hn hne
  · exact validateBackendRef_ok_crossns hv hn hne

/-- … and a well-formed cross-namespace Service reference that the spec does NOT grant is refused with
RefNotPermitted, by every route kind (the check is skipped for none of them). -/
theorem unpermitted_backend_refused (gs : List Grant) (k : RouteKind) (routeNs : String) (ref : BackendRef)
    (hg : ref.group = none ∨ ref.group = some "" ∨ ref.group = some "core")
    (hk : ref.kind = none ∨ ref.kind = some "Service") (hf : ref.nfilters = 0)
    (n : String) (hn : ref.ns = some n) (hne : n ≠ routeNs)
    (hp : ¬ Permitted gs "Service" n ref.name (fromRoute k routeNs)) :
    routeRefVerdict gs k routeNs ref = .refNotPermitted ∧
      (routeRefVerdict gs k routeNs ref).reason = "RefNotPermitted" := by
  have ha : refAllowedFrom (newResolver gs) (fromRoute k routeNs) (toService n ref.name) = false := by
    cases h : refAllowedFrom (newResolver gs) (fromRoute k routeNs) (toService n ref.name)
    · rfl
    · exact absurd ((service_ref_allowed_iff gs k routeNs n ref.name).1 h) hp
  have : routeRefVerdict gs k routeNs ref = .refNotPermitted := by
    unfold routeRefVerdict
    cases k <;> simp only [validateRouteBackendRef, hf, Nat.lt_irrefl, ↓reduceIte] <;>
      exact validateBackendRef_refused hg hk hn hne ha
  exact ⟨this, by rw [this]; rfl⟩

/-- A backendRef that stays in the route's namespace never depends on any grant. -/
theorem same_namespace_needs_no_grant (gs gs' : List Grant) (k : RouteKind) (routeNs : String) (ref : BackendRef)
    (h : ref.ns = none ∨ ref.ns = some routeNs) :
    routeRefVerdict gs k routeNs ref = routeRefVerdict gs' k routeNs ref := by
  unfold routeRefVerdict
  cases k
  · simp only [validateRouteBackendRef]
    split
    · rfl
    · exact validateBackendRef_same_ns _ _ h
  · simp only [validateRouteBackendRef]
    split
    · rfl
    · exact validateBackendRef_same_ns _ _ h
  · exact validateBackendRef_same_ns _ _ h

/-- `unpermitted_backend_gets_500`: the graph backend made from a refused reference is invalid and carries no
Service; alone in its rule it makes the location pass to the `invalid-backend-ref` upstream (the 500 server);
in a weighted group its split_clients value is `invalid-backend-ref`. -/
theorem unpermitted_backend_gets_500 (gs : List Grant) (k : RouteKind) (routeNs : String) (ref : BackendRef)
    (later : Bool) (port : Nat) (w : Int) (gname : String)
    (hv : routeRefVerdict gs k routeNs ref = .refNotPermitted) :
    let b := createBackendRef gs k routeNs ref later port w
    b.valid = false ∧ servicePortReference b = "" ∧
    backendGroupName gname [toBackend b] = invalidBackendRef ∧
    splitClientValue (toBackend b) = invalidBackendRef := by
  simp [createBackendRef, hv, servicePortReference, backendGroupName, toBackend, splitClientValue]

/-- For ANY rule: every real upstream its locations can pass traffic to is the Service of a VALID graph
backend of that rule — an invalid backend never contributes an upstream, whatever its position or weight. -/
theorem group_targets_only_valid_backends (gname : String) (rs : List GBackendRef) :
    ∀ t ∈ groupTargets gname (rs.map toBackend),
      t = invalidBackendRef ∨ ∃ r ∈ rs, r.valid = true ∧ t = servicePortReference r :=
  groupTargets_sound gname rs

/-- End to end on the model: a real cross-namespace upstream in a rule's targets implies a spec grant.
(`refs` are the rule's backendRefs with the outcome of the later stages of `createBackendRef`.) -/
theorem crossns_upstream_needs_grant (gs : List Grant) (k : RouteKind) (routeNs gname : String)
    (refs : List (BackendRef × Bool × Nat × Int)) (t : String)
    (ht : t ∈ groupTargets gname
      ((refs.map fun x => createBackendRef gs k routeNs x.1 x.2.1 x.2.2.1 x.2.2.2).map toBackend))
    (hne : t ≠ invalidBackendRef) :
    ∃ x ∈ refs, t = s!"{refNs x.1 routeNs}_{x.1.name}_{x.2.2.1}" ∧
      (refNs x.1 routeNs = routeNs ∨ Permitted gs "Service" (refNs x.1 routeNs) x.1.name (fromRoute k routeNs)) := by
  rcases groupTargets_sound gname _ t ht with h | ⟨r, hr, hv, e⟩
  · exact absurd h hne
  · obtain ⟨x, hx, rfl⟩ := List.mem_map.1 hr
    refine ⟨x, hx, ?_, ?_⟩
    · unfold createBackendRef at e hv
      split at hv
      · simp only [servicePortReference] at e
        simp_all
      · simp at hv
    · unfold createBackendRef at hv
      split at hv
      · rename_i hok
        cases hns : x.1.ns with
        | none => left; simp [refNs, hns]
        | some n =>
          by_cases hnn : n = routeNs
          · left; simp [refNs, hns, hnn]
          · right
            have := crossns_backend_needs_grant gs k routeNs x.1 n hns hnn hok
            simpa [refNs, hns] using this
      · simp at hv

/-- non-vacuity of the three theorems above: one rule, a granted and a refused cross-namespace backend -/
example :
    let g : Grant := ⟨"b", "g", [⟨gatewayGroup, "GRPCRoute", "a"⟩], [⟨"", "Service", some "ok"⟩]⟩
    let ref (name : String) : BackendRef := ⟨none, none, some "b", name, some 80, none, 0⟩
    routeRefVerdict [g] .grpc "a" (ref "ok") = .ok ∧ routeRefVerdict [g] .grpc "a" (ref "no") = .refNotPermitted ∧
    routeRefVerdict [g] .http "a" (ref "ok") = .refNotPermitted ∧ routeRefVerdict [g] .tls "a" (ref "ok") = .refNotPermitted ∧
    groupTargets "grp" ([createBackendRef [g] .grpc "a" (ref "ok") true 80 1,
                         createBackendRef [g] .grpc "a" (ref "no") true 80 1].map toBackend)
      = ["b_ok_80", "invalid-backend-ref"] := by decide

/-! ## 4. Certificates: a cross-namespace Secret is served only with a grant; otherwise the listener is not programmed -/

/-- `crossns_cert_needs_grant`: the secret resolver is only ever asked for a Secret in the Gateway's own
namespace or one the spec grants; an unpermitted reference ends in RefNotPermitted before any lookup. -/
theorem crossns_cert_needs_grant (gs : List Grant) (gwNs : String) (c : CertRef) :
    (∀ ns name, certRefVerdict gs gwNs c = .resolve ns name →
        ns = c.ns.getD gwNs ∧ name = c.name ∧ (ns = gwNs ∨ Permitted gs "Secret" ns name (fromGateway gwNs))) ∧
    (c.ns.getD gwNs ≠ gwNs → ¬ Permitted gs "Secret" (c.ns.getD gwNs) c.name (fromGateway gwNs) →
        certRefVerdict gs gwNs c = .refNotPermitted) := by
  constructor
  · intro ns name h
    unfold certRefVerdict at h
    simp only at h
    split at h
    · exact absurd h (by simp)
    · rename_i hc
      injection h with h1 h2
      subst h1; subst h2
      refine ⟨rfl, rfl, ?_⟩
      by_cases hne : c.ns.getD gwNs = gwNs
      · exact .inl hne
      · right
        apply (secret_ref_allowed_iff gs gwNs _ _).1
        simpa [hne] using hc
  · intro hne hp
    have ha : refAllowed (newResolver gs) (toSecret (c.ns.getD gwNs) c.name) (fromGateway gwNs) = false := by
      cases h : refAllowed (newResolver gs) (toSecret (c.ns.getD gwNs) c.name) (fromGateway gwNs)
      · rfl
      · exact absurd ((secret_ref_allowed_iff gs gwNs _ _).1 h) hp
    simp [certRefVerdict, hne, ha]

/-- `served_cert_needs_grant`: every key pair `buildSSLKeyPairs` hands to the data plane comes from a listener
whose certificateRef stays in the Gateway's namespace or is granted — whatever the other validators,
conflict resolvers and the secret resolver decide (`x.2`), and for any number of listeners. -/
theorem served_cert_needs_grant (gs : List Grant) (gwNs : String) (ls : List (CertRef × Bool × Bool))
    (ns name : String)
    (h : (ns, name) ∈ sslKeyPairs (ls.map fun x => resolveListener gs gwNs x.1 x.2.1 x.2.2)) :
    ∃ x ∈ ls, x.1.ns.getD gwNs = ns ∧ x.1.name = name ∧
      (ns = gwNs ∨ Permitted gs "Secret" ns name (fromGateway gwNs)) := by
  obtain ⟨l, hl, hv, hs⟩ := mem_sslKeyPairs.1 h
  obtain ⟨x, hx, rfl⟩ := List.mem_map.1 hl
  refine ⟨x, hx, ?_⟩
  unfold resolveListener at hv hs
  split at hs
  · simp at hs
  · rename_i sns sname hres
    split at hs
    · simp only [Option.some.injEq, Prod.mk.injEq] at hs
      obtain ⟨h1, h2, h3⟩ := (crossns_cert_needs_grant gs gwNs x.1).1 sns sname hres
      obtain ⟨e1, e2⟩ := hs
      subst e1; subst e2
      exact ⟨h1.symm, h2.symm, h3⟩
    · simp at hs

/-- `unpermitted_cert_not_programmed`: the listener of an unpermitted cross-namespace certificateRef is
invalid, resolves no Secret, and contributes no key pair. -/
theorem unpermitted_cert_not_programmed (gs : List Grant) (gwNs : String) (c : CertRef) (ov sok : Bool)
    (hne : c.ns.getD gwNs ≠ gwNs) (hp : ¬ Permitted gs "Secret" (c.ns.getD gwNs) c.name (fromGateway gwNs)) :
    resolveListener gs gwNs c ov sok = { valid := false, secret := none } ∧
    sslKeyPairs [resolveListener gs gwNs c ov sok] = [] := by
  have := (crossns_cert_needs_grant gs gwNs c).2 hne hp
  simp [resolveListener, this, sslKeyPairs]

example :
    let g : Grant := ⟨"certs", "g", [⟨gatewayGroup, "Gateway", "gw"⟩], [⟨"", "Secret", some "tls"⟩]⟩
    certRefVerdict [g] "gw" ⟨some "certs", "tls"⟩ = .resolve "certs" "tls" ∧
    certRefVerdict [g] "gw" ⟨some "certs", "other"⟩ = .refNotPermitted ∧
    certRefVerdict [g] "gw2" ⟨some "certs", "tls"⟩ = .refNotPermitted ∧
    certRefVerdict [] "gw" ⟨none, "tls"⟩ = .resolve "gw" "tls" := by decide

/-! ## 5. Revocation is effective at the next reconciliation -/

/-- After ANY history of events (grant upserts/deletes interleaved with arbitrary other events and earlier
reconciliations), the graph produced by the next `Process` answers with a resolver built from exactly the
grants the store holds at that moment: no ReferenceGrant event is ever filtered, nothing is cached. -/
theorem served_resolver_is_current (evs : List Ev) (to : ToRes) (frm : FromRes) :
    let s := runStore Store.init (evs ++ [.process])
    graphAllows s to frm = refAllowed (newResolver s.grants) to frm := by
  intro s
  have hs : Synced s := synced_run _ _ synced_init
  have hc : s.changeType = .noChange := by
    show (runStore Store.init (evs ++ [.process])).changeType = _
    rw [runStore_append]; exact process_changeType _
  rcases hs hc with h | ⟨h1, h2⟩
  · simp [graphAllows, h]
  · simp [graphAllows, h1, h2, newResolver, refAllowed]

/-- what the store holds: a delete removes the grant, nothing but an upsert of the same key brings it back -/
theorem deleted_grant_absent (s : Store) (ns name : String) (rest : List Ev)
    (hrest : ∀ e ∈ rest, ∀ g, e = .upsertGrant g → ¬ (g.ns = ns ∧ g.name = name)) :
    ∀ g ∈ (runStore (stepStore s (.deleteGrant ns name)) rest).grants, ¬ (g.ns = ns ∧ g.name = name) := by
  have key : ∀ (rest : List Ev) (s : Store),
      (∀ e ∈ rest, ∀ g, e = .upsertGrant g → ¬ (g.ns = ns ∧ g.name = name)) →
      (∀ g ∈ s.grants, ¬ (g.ns = ns ∧ g.name = name)) →
      ∀ g ∈ (runStore s rest).grants, ¬ (g.ns = ns ∧ g.name = name) := by
    intro rest
    induction rest with
    | nil => intro s _ h; exact h
    | cons e es ih =>
      intro s hr h
      apply ih _ (fun e' he' => hr e' (List.mem_cons_of_mem _ he'))
      cases e with
      | upsertGrant g' =>
        intro g hg
        simp only [stepStore, List.mem_cons] at hg
        rcases hg with rfl | hg
        · exact hr _ (List.mem_cons_self) _ rfl
        · exact h g (List.mem_filter.1 hg).1
      | deleteGrant ns' name' =>
        intro g hg
        simp only [stepStore] at hg
        split at hg
        · exact h g (List.mem_filter.1 hg).1
        · exact h g hg
      | other c e' => intro g hg; exact h g hg
      | process =>
        intro g hg
        rw [process_grants] at hg
        exact h g hg
  apply key rest _ hrest
  intro g hg
  simp only [stepStore] at hg
  split at hg
  · have := (List.mem_filter.1 hg).2
    intro ⟨h1, h2⟩
    simp [sameKey, h1, h2] at this
  · rename_i hnone
    intro ⟨h1, h2⟩
    exact hnone (List.any_eq_true.2 ⟨g, hg, by simp [sameKey, h1, h2]⟩)

/-- `revocation_effective`: revoke a grant at any point of any history; after the next reconciliation the
served graph permits a reference iff the REMAINING grants permit it by the spec — in particular the
revoked grant (absent from the store) can justify nothing any more. -/
theorem revocation_effective (pre rest : List Ev) (ns name : String)
    (hrest : ∀ e ∈ rest, ∀ g, e = .upsertGrant g → ¬ (g.ns = ns ∧ g.name = name))
    (to : ToRes) (frm : FromRes) (hg : to.group = "") :
    let s := runStore Store.init (pre ++ .deleteGrant ns name :: rest ++ [.process])
    (∀ g ∈ s.grants, ¬ (g.ns = ns ∧ g.name = name)) ∧
    (graphAllows s to frm = true ↔ Permitted s.grants to.kind to.ns to.name frm) := by
  intro s
  constructor
  · have : s.grants = (runStore (stepStore (runStore Store.init pre) (.deleteGrant ns name)) rest).grants := by
      show (runStore Store.init (pre ++ .deleteGrant ns name :: rest ++ [.process])).grants = _
      rw [List.append_assoc, runStore_append, List.cons_append, runStore, runStore_append]
      simp only [runStore]
      exact process_grants _
    rw [this]
    exact deleted_grant_absent _ ns name rest hrest
  · have := served_resolver_is_current (pre ++ .deleteGrant ns name :: rest) to frm
    simp only at this
    rw [show s = runStore Store.init ((pre ++ .deleteGrant ns name :: rest) ++ [.process]) from rfl, this]
    exact refAllowed_iff_spec _ to frm hg

/-- Every ReferenceGrant upsert, and every delete of a grant that exists, forces the next `Process` to
rebuild — whatever state the tracker was in. -/
theorem grant_event_always_rebuilds (s : Store) (g : Grant) :
    (stepStore (stepStore s (.upsertGrant g)) .process).graphGrants = some (stepStore s (.upsertGrant g)).grants ∧
    (s.grants.any (sameKey g.ns g.name) = true →
      (stepStore (stepStore s (.deleteGrant g.ns g.name)) .process).graphGrants =
        some (s.grants.filter fun x => !sameKey g.ns g.name x)) := by
  constructor
  · simp [stepStore, setChangeType_true_false]
  · intro h
    simp [stepStore, h, setChangeType_true_false]

/-- non-vacuity: grant, reconcile, revoke (with an irrelevant event in between), reconcile -/
example :
    let g : Grant := ⟨"b", "g", [⟨gatewayGroup, "HTTPRoute", "a"⟩], [⟨"", "Service", none⟩]⟩
    graphAllows (runStore Store.init [.upsertGrant g, .process]) (toService "b" "svc") (fromHTTPRoute "a") = true ∧
    graphAllows (runStore Store.init [.upsertGrant g, .process, .deleteGrant "b" "g", .other false false, .process])
      (toService "b" "svc") (fromHTTPRoute "a") = false ∧
    graphAllows (runStore Store.init [.upsertGrant g, .process, .deleteGrant "b" "g"])
      (toService "b" "svc") (fromHTTPRoute "a") = true := by decide

/-! ## 6. The judge's notions are the spec's -/

/-- `refJustified` (what the judge accepts as a justified backend) unfolded to the spec -/
theorem refJustified_iff (gs : List Grant) (r : Route) (ref : BackendRef) :
    refJustified gs r ref = true ↔
      coreServiceRef ref = true ∧
        (ref.ns.getD r.ns = r.ns ∨ Permitted gs "Service" (ref.ns.getD r.ns) ref.name (fromRoute r.kind r.ns)) := by
  simp [refJustified, permittedB_iff]

/-- what the judge demands a refusal for is never something the validators accept, and vice versa:
on a reference the judge calls unpermitted the model's verdict is RefNotPermitted. -/
theorem refUnpermitted_model_verdict (gs : List Grant) (r : Route) (ref : BackendRef)
    (h : refUnpermitted gs r ref = true) :
    routeRefVerdict gs r.kind r.ns ref = .refNotPermitted := by
  unfold refUnpermitted coreServiceRef at h
  simp only [Bool.and_eq_true] at h
  obtain ⟨⟨⟨hg, hk⟩, hf⟩, hn⟩ := h
  cases hns : ref.ns with
  | none => simp [hns] at hn
  | some n =>
    simp only [hns, Bool.and_eq_true, bne_iff_ne, ne_eq, Bool.not_eq_true'] at hn
    obtain ⟨hne, hp⟩ := hn
    have hp' : ¬ Permitted gs "Service" n ref.name (fromRoute r.kind r.ns) := by
      intro hc; rw [(permittedB_iff _ _ _ _ _).2 hc] at hp; exact absurd hp (by decide)
    have hg' : ref.group = none ∨ ref.group = some "" ∨ ref.group = some "core" := by
      cases hgr : ref.group with
      | none => exact .inl rfl
      | some g => simp [hgr] at hg; rcases hg with rfl | rfl <;> simp
    have hk' : ref.kind = none ∨ ref.kind = some "Service" := by
      cases hkk : ref.kind with
      | none => exact .inl rfl
      | some k => simp [hkk] at hk; simp [hk]
    have ha : refAllowedFrom (newResolver gs) (fromRoute r.kind r.ns) (toService n ref.name) = false := by
      cases h : refAllowedFrom (newResolver gs) (fromRoute r.kind r.ns) (toService n ref.name)
      · rfl
      · exact absurd ((service_ref_allowed_iff gs r.kind r.ns n ref.name).1 h) hp'
    unfold routeRefVerdict
    cases hkind : r.kind
    · have : ref.nfilters = 0 := by simpa [hkind] using hf
      simp only [validateRouteBackendRef, this, Nat.lt_irrefl, ↓reduceIte]
      rw [hkind] at ha
      exact validateBackendRef_refused hg' hk' hns hne ha
    · have : ref.nfilters = 0 := by simpa [hkind] using hf
      simp only [validateRouteBackendRef, this, Nat.lt_irrefl, ↓reduceIte]
      rw [hkind] at ha
      exact validateBackendRef_refused hg' hk' hns hne ha
    · rw [hkind] at ha
      exact validateBackendRef_refused hg' hk' hns hne ha

/-! ## 7. Regenerated source facts agree with the model -/

open NGF.Generated in
/-- the constants the `to*`/`from*` constructors use (group of `v1.GroupName`, the `kinds.*` strings, which
fields are set — `toSecret`/`toService` leave `group` at its zero value) -/
theorem constructors_as_modelled :
    RefGrant.gatewayGroupName = gatewayGroup ∧
    RefGrant.toSecretFields = ["kind=Secret", "name@nsname.Name", "namespace@nsname.Namespace"] ∧
    RefGrant.toServiceFields = ["kind=Service", "name@nsname.Name", "namespace@nsname.Namespace"] ∧
    RefGrant.fromGatewayFields = ["group=" ++ gatewayGroup, "kind=" ++ (fromGateway "").kind, "namespace@namespace"] ∧
    RefGrant.fromHTTPRouteFields = ["group=" ++ gatewayGroup, "kind=" ++ (fromHTTPRoute "").kind, "namespace@namespace"] ∧
    RefGrant.fromGRPCRouteFields = ["group=" ++ gatewayGroup, "kind=" ++ (fromGRPCRoute "").kind, "namespace@namespace"] ∧
    RefGrant.fromTLSRouteFields = ["group=" ++ gatewayGroup, "kind=" ++ (fromTLSRoute "").kind, "namespace@namespace"] ∧
    RefGrant.toResourceStruct = ["group string", "kind string", "name string", "namespace string"] ∧
    RefGrant.fromResourceStruct = ["group string", "kind string", "namespace string"] ∧
    RefGrant.allowedReferenceStruct = ["from fromResource", "to toResource"] := by
  repeat' constructor

open NGF.Generated in
/-- the statements of the resolver are the ones the model transcribes -/
theorem resolver_as_modelled :
    RefGrant.newResolverBody =
      ["allowed := make(map[allowedReference]struct{})",
       "for nsname, grant := range refGrants { for _, to := range grant.Spec.To { for _, from := range grant.Spec.From { toName := \"\" if to.Name != nil { toName = string(*to.Name) } toGroup := string(to.Group) if toGroup == \"core\" { toGroup = \"\" } ar := allowedReference{ to: toResource{ group: toGroup, kind: string(to.Kind), name: toName, namespace: nsname.Namespace, }, from: fromResource{ group: string(from.Group), kind: string(from.Kind), namespace: string(from.Namespace), }, } allowed[ar] = struct{}{} } } }",
       "return &referenceGrantResolver{allowed: allowed}"] ∧
    RefGrant.refAllowedBody =
      ["specificKey := allowedReference{ to: to, from: from, }",
       "allInNamespaceKey := allowedReference{ to: toResource{ kind: to.kind, namespace: to.namespace, }, from: from, }",
       "for _, key := range []allowedReference{specificKey, allInNamespaceKey} { if _, ok := r.allowed[key]; ok { return true } }",
       "return false"] ∧
    RefGrant.refAllowedFromBody = ["return func(to toResource) bool { return r.refAllowed(to, from) }"] := by
  repeat' constructor

open NGF.Generated in
/-- WHO consults the resolver: exactly the HTTP/GRPC backendRef loop (with the route-type switch), the
TLSRoute builder and the listener's certificateRef resolver; it is created once per `BuildGraph`, from the
state's grants, and never stored in a package variable. -/
theorem call_sites_as_modelled :
    RefGrant.resolverCallSites =
      ["backend_refs.go:addBackendRefsToRules: refGrantResolver.refAllowedFrom(getRefGrantFromResourceForRoute(route.RouteType, routeNs))",
       "gateway_listener.go:createExternalReferencesForTLSSecretsResolver: refGrantResolver.refAllowed(toSecret(certRefNsName), fromGateway(gwNs))",
       "reference_grant.go:refAllowedFrom: r.refAllowed(to, from)",
       "route_common.go:buildL4RoutesForGateways: resolver.refAllowedFrom(fromTLSRoute(route.Namespace))"] ∧
    RefGrant.resolverCreations = ["graph.go:BuildGraph: newReferenceGrantResolver(state.ReferenceGrants)"] ∧
    RefGrant.resolverPackageVars = [] ∧
    RefGrant.getRefGrantFromResourceForRouteBody =
      ["switch routeType { case RouteTypeHTTP: return fromHTTPRoute(routeNs) case RouteTypeGRPC: return fromGRPCRoute(routeNs) default: panic(fmt.Errorf(\"unknown route type %s\", routeType)) }"] := by
  repeat' constructor

open NGF.Generated in
/-- the validators: order of the checks of `validateBackendRef`, the refusal branch, the filter check of
`validateRouteBackendRef`, the invalid branch of `createBackendRef`, the certificateRef resolver -/
theorem validators_as_modelled :
    RefGrant.validateBackendRefConds =
      ["ref.Group != nil && !(*ref.Group == \"core\" || *ref.Group == \"\")",
       "ref.Kind != nil && *ref.Kind != \"Service\"",
       "ref.Namespace != nil && string(*ref.Namespace) != routeNs",
       "ref.Port == nil",
       "ref.Weight != nil"] ∧
    RefGrant.validateBackendRefGrantCond = "!refGrantResolver(toService(refNsName))" ∧
    RefGrant.validateBackendRefGrantBody =
      ["msg := fmt.Sprintf(\"Backend ref to Service %s not permitted by any ReferenceGrant\", refNsName)",
       "return false, staticConds.NewRouteBackendRefRefNotPermitted(msg)"] ∧
    RefGrant.validateRouteBackendRefBody =
      ["if len(ref.Filters) > 0 { valErr := field.TooMany(path.Child(\"filters\"), len(ref.Filters), 0) return false, staticConds.NewRouteBackendRefUnsupportedValue(valErr.Error()) }",
       "return validateBackendRef(ref.BackendRef, routeNs, refGrantResolver, path)"] ∧
    RefGrant.createBackendRefInvalidBranch =
      ["backendRef = BackendRef{ Weight: weight, Valid: false, }", "return backendRef, &cond"] ∧
    RefGrant.certResolverBody =
      ["certRef := l.Source.TLS.CertificateRefs[0]",
       "certRefNs := gwNs",
       "if certRef.Namespace != nil { certRefNs = string(*certRef.Namespace) }",
       "certRefNsName := types.NamespacedName{ Namespace: certRefNs, Name: string(certRef.Name), }",
       "if certRefNs != gwNs { if !refGrantResolver.refAllowed(toSecret(certRefNsName), fromGateway(gwNs)) { msg := fmt.Sprintf(\"Certificate ref to secret %s not permitted by any ReferenceGrant\", certRefNsName) l.Conditions = append(l.Conditions, staticConds.NewListenerRefNotPermitted(msg)...) l.Valid = false return } }",
       "if err := secretResolver.resolve(certRefNsName); err != nil { path := field.NewPath(\"tls\", \"certificateRefs\").Index(0) valErr := field.Invalid(path, certRefNsName, err.Error()) l.Conditions = append(l.Conditions, staticConds.NewListenerInvalidCertificateRef(valErr.Error())...) l.Valid = false } else { l.ResolvedSecret = &certRefNsName }"] := by
  repeat' constructor

open NGF.Generated in
/-- downstream: the 500 upstream's name, how a group picks its target, which listeners hand over a key pair -/
theorem downstream_as_modelled :
    RefGrant.invalidBackendRef = invalidBackendRef ∧
    RefGrant.backendGroupNameBody =
      ["switch len(group.Backends) { case 0: return invalidBackendRef case 1: b := group.Backends[0] if b.Weight == 0 || !b.Valid { return invalidBackendRef } return b.UpstreamName default: return group.Name() }"] ∧
    RefGrant.getSplitClientValueBody = ["if b.Valid { return b.UpstreamName }", "return invalidBackendRef"] ∧
    RefGrant.servicePortReferenceBody =
      ["if !b.Valid { return \"\" }",
       "return fmt.Sprintf(\"%s_%s_%d\", b.SvcNsName.Namespace, b.SvcNsName.Name, b.ServicePort.Port)"] ∧
    RefGrant.buildSSLKeyPairsCond = "l.Valid && l.ResolvedSecret != nil" := by
  repeat' constructor

open NGF.Generated in
/-- the change tracker: ReferenceGrants are persisted and have NO relevance predicate (`stepStore`'s
`upsertGrant`/`deleteGrant` arms), and `Process` rebuilds the graph whenever anything changed. The watch
itself only drops UPDATE events that leave `metadata.generation` unchanged (the API server bumps it on every
spec change), never a create or delete. -/
theorem store_as_modelled :
    RefGrant.refGrantStore = "newObjectStoreMapAdapter(clusterStore.ReferenceGrants)" ∧
    RefGrant.refGrantPredicate = "nil" ∧
    RefGrant.refGrantWatchOptions =
      "[]controller.Option{ controller.WithK8sPredicate(k8spredicate.GenerationChangedPredicate{}), }" ∧
    -- a cfg entry with a nil predicate is absent from the predicate map, one with a store is persisted …
    RefGrant.trackerCfgIfs =
      ["if cfg.predicate != nil { stateChangedPredicates[cfg.gvk] = cfg.predicate }",
       "if cfg.store != nil { persistedGVKs = append(persistedGVKs, cfg.gvk) stores[cfg.gvk] = cfg.store }"] ∧
    -- … upsert: write to the store, then "no predicate ⇒ changed" (`stepStore … (.upsertGrant g)`) …
    RefGrant.trackerUpsertShape = ["store", "lookup", "nopred", "return"] ∧
    RefGrant.trackerUpsertStore =
      ["if s.store.persists(objTypeGVK)", "oldObj = s.store.get(obj, client.ObjectKeyFromObject(obj))", "s.store.upsert(obj)"] ∧
    RefGrant.trackerUpsertNoPredicate =
      ["stateChanged, ok := s.stateChangedPredicates[objTypeGVK]", "if !ok { return true }"] ∧
    -- … delete: absent ⇒ unchanged, else remove, then "no predicate ⇒ changed" (`stepStore … (.deleteGrant ns name)`).
    -- Which object a predicate judges (kinds WITH a predicate) is not part of this property and not pinned.
    RefGrant.trackerDeleteShape = ["store", "lookup", "nopred", "return"] ∧
    RefGrant.trackerDeleteStore =
      ["if s.store.persists(objTypeGVK)", "old := s.store.get(objType, nsname)", "if old == nil { return false }",
       "s.store.delete(objType, nsname)"] ∧
    RefGrant.trackerDeleteNoPredicate =
      ["stateChanged, ok := s.stateChangedPredicates[objTypeGVK]", "if !ok { return true }"] ∧
    RefGrant.setChangeTypeBody =
      ["if changed && s.changeType != ClusterStateChange { if _, ok := obj.(*discoveryV1.EndpointSlice); ok { s.changeType = EndpointsOnlyChange } else { s.changeType = ClusterStateChange } }"] ∧
    RefGrant.processBody =
      ["changeType := c.getAndResetClusterStateChanged()", "if changeType == NoChange { return NoChange, nil }",
       "c.latestGraph = graph.BuildGraph( c.clusterState, c.cfg.GatewayCtlrName, c.cfg.GatewayClassName, c.cfg.PlusSecrets, c.cfg.Validators, c.cfg.ProtectedPorts, )",
       "return changeType, c.latestGraph"] := by
  repeat' constructor

open NGF.Generated in
/-- backend reference resolution as `Model/PipelineRefs.resolveRef` transcribes it: `createBackendRef` up to and including
the Service/port lookup (weight defaulting and clamping to 0, the reference check first, namespace defaulting, the
BackendNotFound branch keeping `SvcNsName` with a zero `ServicePort`) and its final literal — the statements between
(`verifyIPFamily`, `findBackendTLSPolicyForService`) are outside the model and not pinned —, the lookup functions, the
weight range, the rule loop of `addBackendRefsToRules` and `newBackendGroup` (`toPBackend`). -/
theorem resolution_as_modelled :
    RefGrant.createBackendRefBody.take 10 =
      ["weight := int32(1)",
       "if ref.Weight != nil { if validateWeight(*ref.Weight) != nil { weight = 0 } else { weight = *ref.Weight } }",
       "var backendRef BackendRef",
       "valid, cond := validateRouteBackendRef(ref, sourceNamespace, refGrantResolver, refPath)",
       "if !valid { backendRef = BackendRef{ Weight: weight, Valid: false, } return backendRef, &cond }",
       "ns := sourceNamespace",
       "if ref.BackendRef.Namespace != nil { ns = string(*ref.Namespace) }",
       "svcNsName := types.NamespacedName{Name: string(ref.BackendRef.Name), Namespace: ns}",
       "svcIPFamily, svcPort, err := getIPFamilyAndPortFromRef(ref.BackendRef, svcNsName, services, refPath)",
       "if err != nil { backendRef = BackendRef{ Weight: weight, Valid: false, SvcNsName: svcNsName, ServicePort: v1.ServicePort{}, } cond := staticConds.NewRouteBackendRefRefBackendNotFound(err.Error()) return backendRef, &cond }"] ∧
    RefGrant.createBackendRefBody.drop (RefGrant.createBackendRefBody.length - 2) =
      ["backendRef = BackendRef{ SvcNsName: svcNsName, BackendTLSPolicy: backendTLSPolicy, ServicePort: svcPort, Valid: true, Weight: weight, }",
       "return backendRef, nil"] ∧
    RefGrant.getIPFamilyAndPortFromRefBody =
      ["svc, ok := services[svcNsName]",
       "if !ok { return []v1.IPFamily{}, v1.ServicePort{}, field.NotFound(refPath.Child(\"name\"), ref.Name) }",
       "svcPort, err := getServicePort(svc, int32(*ref.Port))",
       "if err != nil { return []v1.IPFamily{}, v1.ServicePort{}, err }",
       "return svc.Spec.IPFamilies, svcPort, nil"] ∧
    RefGrant.getServicePortBody =
      ["for _, p := range svc.Spec.Ports { if p.Port == port { return p, nil } }",
       "return v1.ServicePort{}, fmt.Errorf(\"no matching port for Service %s and port %d\", svc.Name, port)"] ∧
    RefGrant.validateWeightBody =
      ["const ( minWeight = 0 maxWeight = 1_000_000 )",
       "if weight < minWeight || weight > maxWeight { return fmt.Errorf(\"must be in the range [%d, %d]\", minWeight, maxWeight) }",
       "return nil"] ∧
    RefGrant.addBackendRefsToRulesBody =
      ["if !route.Valid { return }",
       "for idx, rule := range route.Spec.Rules { if !rule.ValidMatches { continue } if !rule.Filters.Valid { continue } if len(rule.RouteBackendRefs) == 0 { continue } backendRefs := make([]BackendRef, 0, len(rule.RouteBackendRefs)) for refIdx, ref := range rule.RouteBackendRefs { refPath := field.NewPath(\"spec\").Child(\"rules\").Index(idx).Child(\"backendRefs\").Index(refIdx) routeNs := route.Source.GetNamespace() ref, cond := createBackendRef( ref, routeNs, refGrantResolver.refAllowedFrom(getRefGrantFromResourceForRoute(route.RouteType, routeNs)), services, refPath, backendTLSPolicies, npCfg, ) backendRefs = append(backendRefs, ref) if cond != nil { route.Conditions = append(route.Conditions, *cond) } } if len(backendRefs) > 1 { cond := validateBackendTLSPolicyMatchingAllBackends(backendRefs) if cond != nil { route.Conditions = append(route.Conditions, *cond) for i := range backendRefs { backendRefs[i].Valid = false } } } route.Spec.Rules[idx].BackendRefs = backendRefs }"] ∧
    RefGrant.newBackendGroupBody =
      ["var backends []Backend",
       "if len(refs) > 0 { backends = make([]Backend, 0, len(refs)) }",
       "for _, ref := range refs { backends = append(backends, Backend{ UpstreamName: ref.ServicePortReference(), Weight: ref.Weight, Valid: ref.Valid, VerifyTLS: convertBackendTLS(ref.BackendTLSPolicy), }) }",
       "return BackendGroup{ Backends: backends, Source: sourceNsName, RuleIdx: ruleIdx, }"] := by
  repeat' constructor

end NGF.RefGrant

/-! ## 8. Reference resolution INSIDE the pipeline model: grant gating as theorems over `gen (resolve c)`

`PipelineRefs.resolve` (Model/PipelineRefs.lean) turns a cluster with HTTPRoute backendRefs, Services and ReferenceGrants
into the fragment scenario of Model/Pipeline.lean; `genR c = Pipeline.gen (resolve c)` is the abstract NGINX
configuration. `confTargets` lists every (upstream name, share) that some location — external or internal — proxies to,
directly (share 10000) or through its split_clients variable. All statements are for ALL clusters `c`. -/

namespace NGF.PipelineRefs
open NGF.Pipeline
open NGF.RefGrant (Grant BackendRef Permitted fromHTTPRoute refNs toCovers fromNames FromRes)

/-- Every action of every location of `gen (resolve c)` is the default 404 or the resolved action of a rule of a valid
route attached to the served Gateway (nothing else configures a location). -/
theorem actions_are_rule_actions (c : ScenarioR) (a : Act) (ha : a ∈ confActs (genR c)) :
    a = .status 404 ∨ ∃ g, winner (resolve c) = some g ∧ ∃ r ∈ c.routes, attached g r = true ∧
      ∃ ru ∈ r.rules, ∃ port, a = actOf port (resolveAction c.grants c.services r.ns ru.action) :=
  genR_acts ha

/-- `crossns_backend_needs_grant_gen` (provenance form): whatever upstream a location of the generated configuration
proxies to — directly or with any split share — other than `invalid-backend-ref` is `Justified`: in particular, if the
backendRef that yields it leaves the route's namespace, a ReferenceGrant in the Service's namespace satisfies the spec
for (HTTPRoute, route namespace) → (Service, name). -/
theorem crossns_backend_needs_grant_gen (c : ScenarioR) (t : Str) (share : Nat)
    (ht : (t, share) ∈ confTargets (genR c)) (hne : t ≠ invalidBackendRef) : Justified c t := by
  simp only [confTargets, List.mem_flatMap] at ht
  obtain ⟨a, ha, hta⟩ := ht
  rcases genR_acts ha with rfl | ⟨g, hw, r, hr, hatt, ru, hru, port, rfl⟩
  · simp [actTargets] at hta
  · obtain ⟨refs, hact, ref, href, p, htp, hok, hf⟩ := resolveAction_targets hta hne
    obtain ⟨hport, svc, hsvc, hp⟩ := findPort_some hf
    obtain ⟨hmem, hsns, hsname⟩ := lookupSvc_some hsvc
    refine ⟨g, hw, r, hr, hatt, ru, hru, refs, hact, ref, href, p, htp, hport, ⟨svc, hmem, hsns, hsname, hp⟩, ?_⟩
    cases hns : ref.ns with
    | none => left; simp [refNs, hns]
    | some n =>
      by_cases hnn : n = r.ns
      · left; simp [refNs, hns, hnn]
      · right
        have := RefGrant.crossns_backend_needs_grant c.grants .http r.ns ref n hns hnn hok
        simpa [refNs, hns, RefGrant.fromRoute] using this

/-- `crossns_backend_needs_grant_gen` (named form, the statement of the task): if some location of `gen (resolve c)`
proxies — directly or with a split share — to the upstream of Service `ns'/name`, then a valid attached route with a
backendRef to exactly that Service contributed it, and if that route lives in another namespace than `ns'`, a
ReferenceGrant in `ns'` satisfies the spec for (HTTPRoute, route namespace) → (Service, name).
(`namesOK`: Kubernetes names contain no `_` (DNS-1123), so that `ns_name_port` identifies namespace and name.) -/
theorem crossns_service_needs_grant_gen (c : ScenarioR) (hc : namesOK c = true) (ns' name : String)
    (h1 : noUnderscore ns' = true) (h2 : noUnderscore name = true) (port share : Nat)
    (ht : (upstreamOf ns' name port, share) ∈ confTargets (genR c)) :
    ∃ g, winner (resolve c) = some g ∧ ∃ r ∈ c.routes, attached g r = true ∧ ∃ ru ∈ r.rules, ∃ refs,
      ru.action = .forward refs ∧ ∃ ref ∈ refs, refNs ref r.ns = ns' ∧ ref.name = name ∧
        (r.ns = ns' ∨ Permitted c.grants "Service" ns' name (fromHTTPRoute r.ns)) := by
  obtain ⟨g, hw, r, hr, hatt, ru, hru, refs, hact, ref, href, p, htp, _, _, hj⟩ :=
    crossns_backend_needs_grant_gen c _ share ht (upstreamOf_ne_invalid ns' name port)
  obtain ⟨hrns, hrules⟩ := namesOK_spec hc r hr
  obtain ⟨hname, hrefns⟩ := hrules ru hru refs hact ref href
  have hnsok : noUnderscore (refNs ref r.ns) = true := by
    cases hns : ref.ns with
    | none => simpa [refNs, hns] using hrns
    | some n => simpa [refNs, hns] using hrefns n hns
  obtain ⟨e1, e2⟩ := upstreamOf_inj h1 h2 hnsok hname htp
  refine ⟨g, hw, r, hr, hatt, ru, hru, refs, hact, ref, href, e1.symm, e2.symm, ?_⟩
  rcases hj with hj | hj
  · left; rw [← hj, ← e1]
  · right; rw [e1, e2]; exact hj

/-- `no_grant_gives_500`: a backendRef (at position `i` of a rule of a route in `r.ns`) that names another namespace
without a grant satisfying the spec gets its share sent to `invalid-backend-ref` (NGINX answers 500) in the action every
location of that rule takes: either the whole rule answers 500, or the distribution has one entry per backendRef and
the `i`-th entry names `invalid-backend-ref` — whatever Services, other grants, other backendRefs, weights the cluster has. -/
theorem no_grant_gives_500 (c : ScenarioR) (routeNs : String) (refs : List BackendRef) (i : Nat) (ref : BackendRef)
    (hi : refs[i]? = some ref) (n : String) (hn : ref.ns = some n) (hne : n ≠ routeNs)
    (hp : ¬ Permitted c.grants "Service" n ref.name (fromHTTPRoute routeNs)) (port : Nat) :
    ∃ d, actOf port (resolveAction c.grants c.services routeNs (.forward refs)) = .proxy d ∧
      (d = [(invalidBackendRef, 10000)] ∨ (d.length = refs.length ∧ ∃ share, d[i]? = some (invalidBackendRef, share))) := by
  refine ⟨_, rfl, ?_⟩
  have hv : RefGrant.routeRefVerdict c.grants .http routeNs ref ≠ .ok :=
    fun hok => hp (RefGrant.crossns_backend_needs_grant c.grants .http routeNs ref n hn hne hok)
  have hb : (refs.map fun ref => toPBackend (resolveRef c.grants c.services routeNs ref))[i]? =
      some (toPBackend (resolveRef c.grants c.services routeNs ref)) := by
    rw [List.getElem?_map, hi]; rfl
  have hinv : (toPBackend (resolveRef c.grants c.services routeNs ref)).valid = false := by
    rw [resolveRef_refused hv]; rfl
  rcases distOf_invalid_at hb hinv with h | ⟨hl, hs⟩
  · exact .inl h
  · exact .inr ⟨by simpa using hl, hs⟩

theorem permitted_iff_grantPermits (gs : List Grant) (kind ns name : String) (frm : FromRes) :
    Permitted gs kind ns name frm ↔ ∃ g ∈ gs, grantPermits g kind ns name frm = true := by
  rw [← RefGrant.permittedB_iff]
  simp [RefGrant.permittedB, grantPermits]

/-- removing every grant that permits the reference leaves it unpermitted (grants do not combine: `Permitted` needs ONE
grant with a matching `from` and a covering `to`) -/
theorem not_permitted_after_removal (gs : List Grant) (kind ns name : String) (frm : FromRes) :
    ¬ Permitted (gs.filter fun g => !grantPermits g kind ns name frm) kind ns name frm := by
  rw [permitted_iff_grantPermits]
  rintro ⟨g, hg, hp⟩
  have := (List.mem_filter.1 hg).2
  simp [hp] at this

/-- `revocation_effective_gen`: delete every ReferenceGrant that permits (HTTPRoute, `routeNs`) → (Service `n/name`) —
whatever other grants, for other referrers, other Services or in other namespaces, remain. In the configuration generated
from the remaining cluster, the share of every backendRef of a route of `routeNs` to that Service goes to
`invalid-backend-ref`; and (names without `_`) if its upstream still appears anywhere, a route of ANOTHER namespace
than `routeNs` — the Service's own, or one that still holds a grant — contributed it. -/
theorem revocation_effective_gen (c : ScenarioR) (routeNs n name : String) (hne : n ≠ routeNs) :
    let c' : ScenarioR := { c with grants := c.grants.filter fun g => !grantPermits g "Service" n name (fromHTTPRoute routeNs) }
    (∀ (refs : List BackendRef) (i : Nat) (ref : BackendRef), refs[i]? = some ref → ref.ns = some n → ref.name = name →
      ∀ port, ∃ d, actOf port (resolveAction c'.grants c'.services routeNs (.forward refs)) = .proxy d ∧
        (d = [(invalidBackendRef, 10000)] ∨ (d.length = refs.length ∧ ∃ share, d[i]? = some (invalidBackendRef, share)))) ∧
    (namesOK c = true → noUnderscore n = true → noUnderscore name = true → ∀ port share,
      (upstreamOf n name port, share) ∈ confTargets (genR c') →
        ∃ r ∈ c.routes, r.ns ≠ routeNs ∧ (r.ns = n ∨ Permitted c'.grants "Service" n name (fromHTTPRoute r.ns))) := by
  intro c'
  have hnp : ¬ Permitted c'.grants "Service" n name (fromHTTPRoute routeNs) :=
    not_permitted_after_removal c.grants "Service" n name (fromHTTPRoute routeNs)
  constructor
  · intro refs i ref hi hn hname port
    subst hname
    exact no_grant_gives_500 c' routeNs refs i ref hi n hn hne hnp port
  · intro hc h1 h2 port share ht
    have hc' : namesOK c' = true := hc
    obtain ⟨g, _, r, hr, _, ru, _, refs, _, ref, _, _, _, hj⟩ :=
      crossns_service_needs_grant_gen c' hc' n name h1 h2 port share ht
    refine ⟨r, hr, ?_, hj⟩
    rintro rfl
    rcases hj with hj | hj
    · exact hne hj.symm
    · exact hnp hj

/-- Grants matter only through the verdicts on the backendRefs of valid attached routes: two grant sets that give
every such reference the same verdict generate the same configuration. -/
theorem grants_matter_through_verdicts (c : ScenarioR) (gs' : List Grant)
    (h : ∀ g, winner (resolve c) = some g → ∀ r ∈ c.routes, attached g r = true → ∀ ru ∈ r.rules, ∀ refs,
      ru.action = .forward refs → ∀ ref ∈ refs,
        RefGrant.routeRefVerdict c.grants .http r.ns ref = RefGrant.routeRefVerdict gs' .http r.ns ref) :
    genR { c with grants := gs' } = genR c := by
  apply genR_congr c gs' c.services
  intro g hw r hr hatt ru hru
  cases hact : ru.action with
  | redirect code sch hst p => rfl
  | forward refs =>
    simp only [resolveAction]
    congr 1
    apply List.map_congr_left
    intro ref href
    rw [resolveRef_congr (h g hw r hr hatt ru hru refs hact ref href) (fun _ => rfl)]

/-- `grant_irrelevant_same_ns`: when every backendRef of every valid attached route stays in its route's namespace
(namespace omitted or spelled out), ReferenceGrants are irrelevant: ANY two grant sets generate the same configuration. -/
theorem grant_irrelevant_same_ns (c : ScenarioR) (gs' : List Grant)
    (h : ∀ g, winner (resolve c) = some g → ∀ r ∈ c.routes, attached g r = true → ∀ ru ∈ r.rules, ∀ refs,
      ru.action = .forward refs → ∀ ref ∈ refs, ref.ns = none ∨ ref.ns = some r.ns) :
    genR { c with grants := gs' } = genR c :=
  grants_matter_through_verdicts c gs' fun g hw r hr hatt ru hru refs hact ref href =>
    RefGrant.same_namespace_needs_no_grant c.grants gs' .http r.ns ref (h g hw r hr hatt ru hru refs hact ref href)

/-- Monotonicity, rule by rule: adding ReferenceGrants never removes a proxied backend. In the action of any rule,
every entry of the distribution that names a real upstream keeps its position, its upstream and its share when grants
are added (only `invalid-backend-ref` entries can turn into upstreams) — whatever the Services and weights. -/
theorem adding_grants_keeps_backends (gs gs' : List Grant) (hsub : ∀ g ∈ gs, g ∈ gs') (svcs : List Service)
    (routeNs : String) (refs : List BackendRef) (port : Nat) :
    ∃ d d', actOf port (resolveAction gs svcs routeNs (.forward refs)) = .proxy d ∧
      actOf port (resolveAction gs' svcs routeNs (.forward refs)) = .proxy d' ∧
      ∀ (i : Nat) (t : Str) (share : Nat), d[i]? = some (t, share) → t ≠ invalidBackendRef → d'[i]? = some (t, share) :=
  ⟨_, _, rfl, rfl, distOf_upgrades (resolve_upgrades hsub svcs routeNs refs)⟩

/-- Monotonicity of the whole configuration: adding ReferenceGrants never removes a proxied backend — every (upstream,
share) some location of `gen (resolve c)` proxies to is still proxied to (with the same share) in the configuration
generated after ANY set of grants was added (servers, locations, match conditions and shares do not depend on grants;
only `invalid-backend-ref` entries can turn into upstreams). -/
theorem adding_grants_never_removes_backend_gen (c : ScenarioR) (gs' : List Grant) (hsub : ∀ g ∈ c.grants, g ∈ gs')
    (t : Str) (share : Nat) (ht : (t, share) ∈ confTargets (genR c)) (hne : t ≠ invalidBackendRef) :
    (t, share) ∈ confTargets (genR { c with grants := gs' }) :=
  genR_targets_mono c gs' hsub ht hne

/-! non-vacuity, by evaluation (`gen` sorts and de-duplicates by well-founded recursion, which `decide` cannot unfold):
one Gateway, one HTTPRoute in `app` with a weighted rule — a cross-namespace backendRef to `backend/svc` and a local one -/

def exGw : Gateway :=
  { ns := "default".toList, name := "gw".toList, cls := "nginx".toList, age := 1,
    listeners := [{ name := "http".toList, port := 80, host := [], fromAll := true }] }

def exRef (ns : Option String) (name : String) (w : Option Int) : BackendRef := ⟨none, none, ns, name, some 80, w, 0⟩

def exRoute (refs : List BackendRef) : RouteR :=
  { ns := "app", name := "hr", age := 2, parents := [{ ns := "default".toList, name := "gw".toList, sectionName := none }],
    hostnames := ["cafe.example.com".toList],
    rules := [{ ms := [{ exact := false, path := "/".toList, method := [], headers := [], query := [] }], action := .forward refs }],
    valid := true }

def exGrant : Grant := ⟨"backend", "g", [⟨RefGrant.gatewayGroup, "HTTPRoute", "app"⟩], [⟨"", "Service", some "svc"⟩]⟩

def exC : ScenarioR :=
  { cls := "nginx".toList, ctlr := "ctl".toList, classes := [⟨"nginx".toList, "ctl".toList⟩], gateways := [exGw],
    routes := [exRoute [exRef (some "backend") "svc" none, exRef none "local" none]],
    services := [⟨"backend", "svc", [80]⟩, ⟨"app", "local", [8080, 80]⟩], grants := [exGrant] }

-- granted: both upstreams are served (crossns_*_needs_grant_gen have a non-trivial instance) …
#guard confTargets (genR exC) == [("backend_svc_80".toList, 5000), ("app_local_80".toList, 5000)]
#guard namesOK exC && noUnderscore "backend" && noUnderscore "svc"
-- … revoked (or never granted): that share goes to the 500 upstream, the local one is untouched (no_grant_gives_500,
-- revocation_effective_gen, adding_grants_keeps_backends read from right to left)
#guard (exC.grants.filter fun g => !grantPermits g "Service" "backend" "svc" (fromHTTPRoute "app")) == []
#guard confTargets (genR { exC with grants := [] }) == [(invalidBackendRef, 5000), ("app_local_80".toList, 5000)]
-- a grant for another referrer namespace / another name / placed in the referrer's namespace changes nothing
#guard confTargets (genR { exC with grants := [⟨"backend", "g", [⟨RefGrant.gatewayGroup, "HTTPRoute", "other"⟩], [⟨"", "Service", none⟩]⟩,
    ⟨"backend", "g2", [⟨RefGrant.gatewayGroup, "HTTPRoute", "app"⟩], [⟨"", "Service", some "svc2"⟩]⟩,
    ⟨"app", "g3", [⟨RefGrant.gatewayGroup, "HTTPRoute", "app"⟩], [⟨"", "Service", none⟩]⟩] })
  == [(invalidBackendRef, 5000), ("app_local_80".toList, 5000)]
-- the only backendRef of a rule unpermitted: the rule answers 500; a missing Service / port likewise
#guard confTargets (genR { exC with grants := [], routes := [exRoute [exRef (some "backend") "svc" none]] }) == [(invalidBackendRef, 10000)]
#guard confTargets (genR { exC with services := [⟨"app", "local", [8080]⟩] }) == [(invalidBackendRef, 5000), (invalidBackendRef, 5000)]
-- same-namespace references only: grants are irrelevant (grant_irrelevant_same_ns)
#guard confTargets (genR { exC with routes := [exRoute [exRef (some "app") "local" none]], grants := [] }) == [("app_local_80".toList, 10000)]

example : ¬ Permitted [] "Service" "backend" "svc" (fromHTTPRoute "app") := by simp [Permitted]
example : Permitted exC.grants "Service" "backend" "svc" (fromHTTPRoute "app") :=
  (RefGrant.permittedB_iff _ _ _ _ _).1 (by decide)

end NGF.PipelineRefs
