/-
C05 (task C05-nil) — obligations over the REGENERATED inventory of implicit panic sites
(`NGF.Generated.PanicSites.derefSites`, written by translator/gen_panics_deref.go from the type-checked
sources of the event-path packages on every run) and the decision of `NGF.Model.DerefSites`.

A nil check that is removed, a new unguarded dereference / index / map write, a caller that stops guarding the
pointer it passes, or a changed discriminator changes a row of the inventory; the row is then neither
`guarded` nor equal to a row of the hand-written `justified` table and `every_deref_guarded_or_justified`
no longer checks.  The check (props/c05.py) asks the driver (`ngfdriver_C05 deref`, the same `siteOk`) which
rows are responsible and SEARCHES for a crashing admissible input focused on the functions they name.
-/
import NGF.Model.DerefSites
import NGF.Generated.PanicSites

namespace NGF.DerefSites

/-- the regenerated inventory as `DerefSite`s -/
def derefTable : List DerefSite := Generated.PanicSites.derefSites.map ofTuple

/-- the inventory was computed with go/types over the type-checked packages and is not (nearly) empty:
a translator that cannot load the packages emits an empty table, which must not discharge anything -/
theorem deref_inventory_typed :
    Generated.PanicSites.derefTyped = true ∧ 300 ≤ derefTable.length
      ∧ 150 ≤ (derefTable.filter (fun s => s.cls == "field" || s.cls == "ptr-var")).length := by
  decide +kernel

/-- EVERY implicit panic site of the event-path packages is dominated by a guard of the same expression, or is
listed — as the exact row, identified by the translator's hash of all its columns — in the justification table. -/
theorem every_deref_guarded_or_justified : ∀ s ∈ derefTable, siteOk s = true := by
  decide +kernel

/-- the justification table has no stale rows: each one is a row of the current inventory (so a
justification cannot outlive the code it was written for) -/
def derefIds : List Nat := Generated.PanicSites.derefSites.map (·.1)

theorem no_stale_justifications : ∀ i ∈ justifiedIds, i ∈ derefIds := by
  decide +kernel

/-- no row is listed twice in the table -/
theorem justified_ids_distinct : justifiedIds.Nodup := by
  decide +kernel

/-- justified rows really are the unguarded ones (no row is listed that the guard analysis accepts anyway) -/
theorem justified_rows_are_unguarded : ∀ j ∈ justified, guarded j.site = false := by
  decide +kernel

/-- non-vacuity: the decision rejects an unguarded row that is not listed, and a listed row whose use count
changed (the id column is whatever the translator computes for the changed row); the first justified row of the table is accepted, and not because it is guarded -/
example : siteOk ⟨0, "internal/mode/static/state/graph/httproute.go", "validateFilterRedirect", "field",
    "redirect.Scheme", "none", "", 1⟩ = false := by decide +kernel
example : ∀ j ∈ justified.take 3, siteOk { j.site with n := j.site.n + 1, id := j.site.id + 1 } = false := by decide +kernel
example : ∀ j ∈ justified.take 3, verdict { j.site with n := j.site.n + 1 } = "justified-text-differs" := by decide +kernel
example : ∀ j ∈ justified.take 3, siteOk j.site = true ∧ guarded j.site = false := by decide +kernel
example : siteOk ⟨0, "x.go", "f", "field", "a.B", "early-exit", "a.B == nil", 1⟩ = true := by decide

/-! ## the functions mirrored in `NGF.Model.NilGuards` still read as mirrored (statement lists regenerated from the
source; a dropped check, a changed case list or a swapped member breaks the pin even when no generated input hits it) -/

theorem validateBackendRefBody_pinned : Generated.PanicSites.validateBackendRefBody =
  ["if ref.Group != nil && !(*ref.Group == \"core\" || *ref.Group == \"\") { valErr := field.NotSupported(path.Child(\"group\"), *ref.Group, []string{\"core\", \"\"}) return false, staticConds.NewRouteBackendRefInvalidKind(valErr.Error()) }",
   "if ref.Kind != nil && *ref.Kind != \"Service\" { valErr := field.NotSupported(path.Child(\"kind\"), *ref.Kind, []string{\"Service\"}) return false, staticConds.NewRouteBackendRefInvalidKind(valErr.Error()) }",
   "if ref.Namespace != nil && string(*ref.Namespace) != routeNs { refNsName := types.NamespacedName{Namespace: string(*ref.Namespace), Name: string(ref.Name)} if !refGrantResolver(toService(refNsName)) { msg := fmt.Sprintf(\"Backend ref to Service %s not permitted by any ReferenceGrant\", refNsName) return false, staticConds.NewRouteBackendRefRefNotPermitted(msg) } }",
   "if ref.Port == nil { valErr := field.Required(path.Child(\"port\"), \"port cannot be nil\") return false, staticConds.NewRouteBackendRefUnsupportedValue(valErr.Error()) }",
   "if ref.Weight != nil { if err := validateWeight(*ref.Weight); err != nil { valErr := field.Invalid(path.Child(\"weight\"), *ref.Weight, err.Error()) return false, staticConds.NewRouteBackendRefUnsupportedValue(valErr.Error()) } }",
   "return true, conditions.Condition{}"] := rfl

theorem getConfiguratorForListenerBody_pinned : Generated.PanicSites.getConfiguratorForListenerBody =
  ["switch l.Protocol { case v1.HTTPProtocolType: return f.http case v1.HTTPSProtocolType: return f.https case v1.TLSProtocolType: return f.tls default: return f.unsupportedProtocol }"] := rfl

theorem configureListenerBody_pinned : Generated.PanicSites.configureListenerBody =
  ["var conds []conditions.Condition",
   "attachable := true",
   "for _, validator := range c.validators { currConds, currAttachable := validator(listener) conds = append(conds, currConds...) attachable = attachable && currAttachable }",
   "valid := len(conds) == 0",
   "var allowedRouteSelector labels.Selector",
   "if selector := GetAllowedRouteLabelSelector(listener); selector != nil { var err error allowedRouteSelector, err = metav1.LabelSelectorAsSelector(selector) if err != nil { msg := fmt.Sprintf(\"invalid label selector: %s\", err.Error()) conds = append(conds, staticConds.NewListenerUnsupportedValue(msg)...) valid = false } }",
   "supportedKinds := getListenerSupportedKinds(listener)",
   "l := &Listener{ Name: string(listener.Name), Source: listener, Conditions: conds, AllowedRouteLabelSelector: allowedRouteSelector, Routes: make(map[RouteKey]*L7Route), L4Routes: make(map[L4RouteKey]*L4Route), Valid: valid, Attachable: attachable, SupportedKinds: supportedKinds, }",
   "if !l.Valid { return l }",
   "for _, resolver := range c.conflictResolvers { resolver(l) }",
   "for _, resolver := range c.externalReferenceResolvers { resolver(l) }",
   "return l"] := rfl

theorem createHTTPSListenerValidatorBody_pinned : Generated.PanicSites.createHTTPSListenerValidatorBody =
  ["return func(listener v1.Listener) (conds []conditions.Condition, attachable bool) { if err := validateListenerPort(listener.Port, protectedPorts); err != nil { path := field.NewPath(\"port\") valErr := field.Invalid(path, listener.Port, err.Error()) conds = append(conds, staticConds.NewListenerUnsupportedValue(valErr.Error())...) } if listener.TLS == nil { valErr := field.Required(field.NewPath(\"TLS\"), \"tls must be defined for HTTPS listener\") conds = append(conds, staticConds.NewListenerUnsupportedValue(valErr.Error())...) return conds, true } tlsPath := field.NewPath(\"tls\") if *listener.TLS.Mode != v1.TLSModeTerminate { valErr := field.NotSupported( tlsPath.Child(\"mode\"), *listener.TLS.Mode, []string{string(v1.TLSModeTerminate)}, ) conds = append(conds, staticConds.NewListenerUnsupportedValue(valErr.Error())...) } if len(listener.TLS.Options) > 0 { path := tlsPath.Child(\"options\") valErr := field.Forbidden(path, \"options are not supported\") conds = append(conds, staticConds.NewListenerUnsupportedValue(valErr.Error())...) } if len(listener.TLS.CertificateRefs) == 0 { msg := \"certificateRefs must be defined for TLS mode terminate\" valErr := field.Required(tlsPath.Child(\"certificateRefs\"), msg) conds = append(conds, staticConds.NewListenerInvalidCertificateRef(valErr.Error())...) return conds, true } certRef := listener.TLS.CertificateRefs[0] certRefPath := tlsPath.Child(\"certificateRefs\").Index(0) if certRef.Kind != nil && *certRef.Kind != \"Secret\" { path := certRefPath.Child(\"kind\") valErr := field.NotSupported(path, *certRef.Kind, []string{\"Secret\"}) conds = append(conds, staticConds.NewListenerInvalidCertificateRef(valErr.Error())...) } if certRef.Group != nil && *certRef.Group != \"\" { path := certRefPath.Child(\"group\") valErr := field.NotSupported(path, *certRef.Group, []string{\"\"}) conds = append(conds, staticConds.NewListenerInvalidCertificateRef(valErr.Error())...) } if l := len(listener.TLS.CertificateRefs); l > 1 { path := tlsPath.Child(\"certificateRefs\") valErr := field.TooMany(path, l, 1) conds = append(conds, staticConds.NewListenerUnsupportedValue(valErr.Error())...) } return conds, true }"] := rfl

theorem tlsSecretsResolverBody_pinned : Generated.PanicSites.tlsSecretsResolverBody =
  ["return func(l *Listener) { certRef := l.Source.TLS.CertificateRefs[0] certRefNs := gwNs if certRef.Namespace != nil { certRefNs = string(*certRef.Namespace) } certRefNsName := types.NamespacedName{ Namespace: certRefNs, Name: string(certRef.Name), } if certRefNs != gwNs { if !refGrantResolver.refAllowed(toSecret(certRefNsName), fromGateway(gwNs)) { msg := fmt.Sprintf(\"Certificate ref to secret %s not permitted by any ReferenceGrant\", certRefNsName) l.Conditions = append(l.Conditions, staticConds.NewListenerRefNotPermitted(msg)...) l.Valid = false return } } if err := secretResolver.resolve(certRefNsName); err != nil { path := field.NewPath(\"tls\", \"certificateRefs\").Index(0) valErr := field.Invalid(path, certRefNsName, err.Error()) l.Conditions = append(l.Conditions, staticConds.NewListenerInvalidCertificateRef(valErr.Error())...) l.Valid = false } else { l.ResolvedSecret = &certRefNsName } }"] := rfl

theorem processBackendTLSPoliciesBody_pinned : Generated.PanicSites.processBackendTLSPoliciesBody =
  ["if len(backendTLSPolicies) == 0 || gateway == nil { return nil }",
   "processedBackendTLSPolicies := make(map[types.NamespacedName]*BackendTLSPolicy, len(backendTLSPolicies))",
   "for nsname, backendTLSPolicy := range backendTLSPolicies { var caCertRef types.NamespacedName valid, ignored, conds := validateBackendTLSPolicy(backendTLSPolicy, configMapResolver, ctlrName) if valid && !ignored && len(backendTLSPolicy.Spec.Validation.CACertificateRefs) > 0 { caCertRef = types.NamespacedName{ Namespace: backendTLSPolicy.Namespace, Name: string(backendTLSPolicy.Spec.Validation.CACertificateRefs[0].Name), } } processedBackendTLSPolicies[nsname] = &BackendTLSPolicy{ Source: backendTLSPolicy, Valid: valid, Conditions: conds, Gateway: types.NamespacedName{ Namespace: gateway.Source.Namespace, Name: gateway.Source.Name, }, CaCertRef: caCertRef, Ignored: ignored, } }",
   "return processedBackendTLSPolicies"] := rfl

theorem validateFilterHeaderModifierBody_pinned : Generated.PanicSites.validateFilterHeaderModifierBody =
  ["if headerModifier == nil { return field.ErrorList{field.Required(filterPath, \"cannot be nil\")} }",
   "return validateFilterHeaderModifierFields(validator, headerModifier, filterPath)"] := rfl

theorem validateFilterRedirectBody_pinned : Generated.PanicSites.validateFilterRedirectBody =
  ["var allErrs field.ErrorList",
   "redirectPath := filterPath.Child(\"requestRedirect\")",
   "if redirect == nil { return field.ErrorList{field.Required(redirectPath, \"requestRedirect cannot be nil\")} }",
   "if redirect.Scheme != nil { if valid, supportedValues := validator.ValidateRedirectScheme(*redirect.Scheme); !valid { valErr := field.NotSupported(redirectPath.Child(\"scheme\"), *redirect.Scheme, supportedValues) allErrs = append(allErrs, valErr) } }",
   "if redirect.Hostname != nil { if err := validator.ValidateHostname(string(*redirect.Hostname)); err != nil { valErr := field.Invalid(redirectPath.Child(\"hostname\"), *redirect.Hostname, err.Error()) allErrs = append(allErrs, valErr) } }",
   "if redirect.Port != nil { if err := validator.ValidateRedirectPort(int32(*redirect.Port)); err != nil { valErr := field.Invalid(redirectPath.Child(\"port\"), *redirect.Port, err.Error()) allErrs = append(allErrs, valErr) } }",
   "if redirect.Path != nil { var path string switch redirect.Path.Type { case v1.FullPathHTTPPathModifier: path = *redirect.Path.ReplaceFullPath case v1.PrefixMatchHTTPPathModifier: path = *redirect.Path.ReplacePrefixMatch default: msg := fmt.Sprintf(\"requestRedirect path type %s not supported\", redirect.Path.Type) valErr := field.Invalid(redirectPath.Child(\"path\"), *redirect.Path, msg) return append(allErrs, valErr) } if err := validator.ValidatePath(path); err != nil { valErr := field.Invalid(redirectPath.Child(\"path\"), *redirect.Path, err.Error()) allErrs = append(allErrs, valErr) } }",
   "if redirect.StatusCode != nil { if valid, supportedValues := validator.ValidateRedirectStatusCode(*redirect.StatusCode); !valid { valErr := field.NotSupported(redirectPath.Child(\"statusCode\"), *redirect.StatusCode, supportedValues) allErrs = append(allErrs, valErr) } }",
   "return allErrs"] := rfl

theorem validateFilterRewriteBody_pinned : Generated.PanicSites.validateFilterRewriteBody =
  ["var allErrs field.ErrorList",
   "rewritePath := filterPath.Child(\"urlRewrite\")",
   "if rewrite == nil { return field.ErrorList{field.Required(rewritePath, \"urlRewrite cannot be nil\")} }",
   "if rewrite.Hostname != nil { if err := validator.ValidateHostname(string(*rewrite.Hostname)); err != nil { valErr := field.Invalid(rewritePath.Child(\"hostname\"), *rewrite.Hostname, err.Error()) allErrs = append(allErrs, valErr) } }",
   "if rewrite.Path != nil { var path string switch rewrite.Path.Type { case v1.FullPathHTTPPathModifier: path = *rewrite.Path.ReplaceFullPath case v1.PrefixMatchHTTPPathModifier: path = *rewrite.Path.ReplacePrefixMatch default: msg := fmt.Sprintf(\"urlRewrite path type %s not supported\", rewrite.Path.Type) valErr := field.Invalid(rewritePath.Child(\"path\"), *rewrite.Path, msg) allErrs = append(allErrs, valErr) } if err := validator.ValidatePath(path); err != nil { valErr := field.Invalid(rewritePath.Child(\"path\"), *rewrite.Path, err.Error()) allErrs = append(allErrs, valErr) } }",
   "return allErrs"] := rfl

theorem convertPathModifierBody_pinned : Generated.PanicSites.convertPathModifierBody =
  ["if path != nil { switch path.Type { case v1.FullPathHTTPPathModifier: return &HTTPPathModifier{ Type: ReplaceFullPath, Replacement: *path.ReplaceFullPath, } case v1.PrefixMatchHTTPPathModifier: return &HTTPPathModifier{ Type: ReplacePrefixMatch, Replacement: *path.ReplacePrefixMatch, } } }",
   "return nil"] := rfl

theorem createHTTPFiltersBody_pinned : Generated.PanicSites.createHTTPFiltersBody =
  ["var result HTTPFilters",
   "for _, f := range filters { switch f.FilterType { case graph.FilterRequestRedirect: if result.RequestRedirect == nil { result.RequestRedirect = convertHTTPRequestRedirectFilter(f.RequestRedirect) } case graph.FilterURLRewrite: if result.RequestURLRewrite == nil { result.RequestURLRewrite = convertHTTPURLRewriteFilter(f.URLRewrite) } case graph.FilterRequestHeaderModifier: if result.RequestHeaderModifiers == nil { result.RequestHeaderModifiers = convertHTTPHeaderFilter(f.RequestHeaderModifier) } case graph.FilterResponseHeaderModifier: if result.ResponseHeaderModifiers == nil { result.ResponseHeaderModifiers = convertHTTPHeaderFilter(f.ResponseHeaderModifier) } case graph.FilterExtensionRef: if f.ResolvedExtensionRef != nil && f.ResolvedExtensionRef.SnippetsFilter != nil { result.SnippetsFilters = append( result.SnippetsFilters, convertSnippetsFilter(f.ResolvedExtensionRef.SnippetsFilter), ) } } }",
   "return result"] := rfl

theorem buildServersBody_pinned : Generated.PanicSites.buildServersBody =
  ["rulesForProtocol := map[v1.ProtocolType]portPathRules{ v1.HTTPProtocolType: make(portPathRules), v1.HTTPSProtocolType: make(portPathRules), }",
   "for _, l := range g.Gateway.Listeners { if l.Source.Protocol == v1.TLSProtocolType { continue } if l.Valid { rules := rulesForProtocol[l.Source.Protocol][l.Source.Port] if rules == nil { rules = newHostPathRules() rulesForProtocol[l.Source.Protocol][l.Source.Port] = rules } rules.upsertListener(l) } }",
   "httpRules := rulesForProtocol[v1.HTTPProtocolType]",
   "sslRules := rulesForProtocol[v1.HTTPSProtocolType]",
   "httpServers, sslServers := httpRules.buildServers(), sslRules.buildServers()",
   "pols := buildPolicies(g.Gateway.Policies)",
   "for i := range httpServers { httpServers[i].Policies = pols }",
   "for i := range sslServers { sslServers[i].Policies = pols }",
   "return httpServers, sslServers"] := rfl

end NGF.DerefSites
