/-
C07 over the TLS layer of the pipeline model (`NGF.Model.PipelineStatusTls`): listener status truth against `PipelineTls.genT` from ONE
`ScenarioT`. Tied to the code by the TLS stream of `props/c07.py` (`PipelineStatusTlsTie.compareT` on C16-style scenarios); `genT` is tied
to the real files by C16's translation validation (`PipelineTlsTie`).
-/
import NGF.Props.C07Fragment
import NGF.Model.PipelineStatusTls
import NGF.Proofs.PipelineTls

namespace NGF.PipelineStatusTls
open NGF.Pipeline NGF.PipelineTls NGF.PipelineStatus
open NGF.StatusPrep (hasCond condsFalse)

/-! ## listener conditions -/

/-- `Listener.Conditions` is empty exactly for valid listeners (`valid := len(conds) == 0`, and every resolver that invalidates appends) -/
theorem listenerConds_nil_iff (s : ScenarioT) (g : GatewayT) (l : ListenerT) :
    listenerConds s g l = [] ↔ validL s g l = true := by
  cases hf : l.fieldsOK with
  | false =>
    have hnv : validL s g l = false := by
      cases hv : validL s g l with
      | false => rfl
      | true =>
        simp only [validL, Bool.or_eq_true] at hv
        rcases hv with h | h
        · simp only [validHttp, Bool.and_eq_true, Bool.not_eq_true'] at h
          simp [ListenerT.fieldsOK, h.1] at hf
        · obtain ⟨c, hc, _⟩ := valid_cert h
          simp [ListenerT.fieldsOK, hc] at hf
    simp [listenerConds, hf, hnv, invalidCertificateRef]
  | true =>
    simp only [listenerConds, hf, Bool.not_true, Bool.false_eq_true, if_false]
    cases hh : l.https <;> cases hcf : conflicted g l <;>
      simp [validL, validHttp, validHttps, hh, hcf, protocolConflict] <;>
      (cases hr : resolution s g l <;> simp [secretConds, invalidCertificateRef, refNotPermitted])

/-- every condition of an invalid listener is negative: Accepted=False, Programmed=False, ResolvedRefs=False, Conflicted=True; and
Programmed=False is always among them (`StatusPrep.Listener.wf`) -/
theorem toPrepListener_wf (s : ScenarioT) (g : GatewayT) (l : ListenerT) : (toPrepListener s g l).wf = true := by
  simp only [NGF.StatusPrep.Listener.wf, toPrepListener]
  cases hv : validL s g l with
  | true => simp
  | false =>
    simp only [Bool.false_or]
    have hne : listenerConds s g l ≠ [] := fun h => by rw [(listenerConds_nil_iff s g l).mp h] at hv; cases hv
    unfold listenerConds at hne ⊢
    cases hf : l.fieldsOK <;> cases hcf : conflicted g l <;> cases hh : l.https <;>
      simp [hf, hcf, hh, invalidCertificateRef, protocolConflict, condsFalse] at hne ⊢ <;>
      (cases hr : resolution s g l <;> simp [hr, secretConds, invalidCertificateRef, refNotPermitted, condsFalse] at hne ⊢)

/-- a listener is reported Programmed=True (reload ok) ⇔ it is valid in the model -/
theorem listener_programmed_iff_valid_T (s : ScenarioT) (g : GatewayT) (n : Int) (l : ListenerT) :
    programmedTrue (listenerStatusT s g false n l) = true ↔ validL s g l = true := by
  unfold programmedTrue listenerStatusT
  rw [NGF.StatusPrep.listener_programmed_iff n _ (toPrepListener_wf s g l)]
  rfl

/-- after a failed reload no listener is Programmed=True, valid or not -/
theorem listener_not_programmed_after_failed_reload_T (s : ScenarioT) (g : GatewayT) (n : Int) (l : ListenerT) :
    programmedTrue (listenerStatusT s g true n l) = false := by
  unfold programmedTrue listenerStatusT
  rw [Bool.eq_false_iff]
  intro h
  obtain ⟨c, hc, hs⟩ := (NGF.StatusPrep.hasCond_convert_dedup _ _ _ _).mp h
  simp [NGF.StatusPrep.listenerConds, NGF.StatusPrep.lastOfType_append, NGF.StatusPrep.lastOfType_singleton,
    NGF.StatusPrep.listenerNotProgrammedInvalid] at hc
  subst hc
  simp at hs

/-- the listener statuses of the served Gateway are those of its listeners, in order -/
theorem listenerStatuses_T (s : ScenarioT) (g : GatewayT) (e : Bool) (n : Int) (hc : classState (allPart s) = .ours)
    (hw : winnerT s = some g) :
    (gatewayStatusT s e n).map (·.listeners) = some (g.listeners.map (listenerStatusT s g e n)) := by
  simp [gatewayStatusT, hc, hw, NGF.StatusPrep.prepareGateway, toPrepGatewayT, listenerStatusT, Function.comp_def]

/-! ## valid ⇔ served by `genT` -/

theorem conflicted_congr {g : GatewayT} {l l' : ListenerT} (hp : l'.base.port = l.base.port) (hh : l'.https = l.https) :
    conflicted g l' = conflicted g l := by
  simp [conflicted, hp, hh]

/-- HTTP: valid ⇔ its port is among the HTTP ports of `genT s` (a port shared with an HTTPS listener is closed for ALL its HTTP listeners) -/
theorem http_listener_valid_iff_port_T (s : ScenarioT) (g : GatewayT) (l : ListenerT) (hw : winnerT s = some g)
    (hl : l ∈ g.listeners) (hh : l.https = false) :
    validL s g l = true ↔ l.base.port ∈ (genT s).http.ports := by
  rw [genT_http, gen_httpPart hw]
  simp only [List.mem_eraseDups, List.mem_map]
  have hv : validL s g l = validHttp g l := by simp [validL, validHttps, hh]
  rw [hv]
  constructor
  · intro h
    refine ⟨l.base, ?_, rfl⟩
    simp only [projGw, List.mem_map, List.mem_filter]
    exact ⟨l, ⟨hl, h⟩, rfl⟩
  · rintro ⟨b, hb, hp⟩
    obtain ⟨l', _, hv', rfl⟩ := mem_projGw_listeners hb
    simp only [validHttp, Bool.and_eq_true, Bool.not_eq_true'] at hv' ⊢
    exact ⟨hh, by rw [← conflicted_congr hp (hv'.1.trans hh.symm)]; exact hv'.2⟩

/-- HTTPS: valid ⇔ the key pair of its certificate reference is among `keyPairs (genT s)` and its port is an open SSL port -/
theorem https_listener_valid_iff_keypair_and_port_T (s : ScenarioT) (g : GatewayT) (l : ListenerT) (hw : winnerT s = some g)
    (hf : inFragmentT s = true) (hl : l ∈ g.listeners) (hh : l.https = true) :
    validL s g l = true ↔
      (∃ c, l.cert = some c ∧ ∃ k ∈ (genT s).keyPairs, k.id = Tls.keyPairId c) ∧ l.base.port ∈ (genT s).sslPorts := by
  have hv : validL s g l = validHttps s g l := by simp [validL, validHttp, hh]
  rw [hv, ssl_port_iff hw]
  have hplain : ∀ x ∈ g.listeners, ∀ c, x.cert = some c → '_' ∉ c.1 := by
    intro x hx c hc
    simp only [inFragmentT, hw, Bool.and_eq_true, List.all_eq_true] at hf
    have := (hf.2 x hx).2
    simpa [hc, nsPlain] using this
  constructor
  · intro h
    have hm : l ∈ sslListeners s g := mem_sslListeners.mpr ⟨hl, h⟩
    obtain ⟨c, sec, hc, _, hs, k, hk, hid, _⟩ := valid_listener_keypair hm
    refine ⟨⟨c, hc, k, ?_, hid⟩, l, hl, h, rfl⟩
    rw [genT_some hw]; exact hk
  · rintro ⟨⟨c, hc, k, hk, hid⟩, l', hl', hv', hp⟩
    rw [genT_some hw] at hk
    obtain ⟨h1, h2, _⟩ := validHttps_iff.mp hv'
    have hcf : conflicted g l = false := by rw [← conflicted_congr hp (h1.trans hh.symm)]; exact h2
    rcases keyPairsFrom_sound s.secrets _ [] k hk with h0 | ⟨l'', hl'', c'', sec'', hc'', _, e⟩
    · simp at h0
    · obtain ⟨hl''g, hv''⟩ := mem_sslListeners.mp hl''
      have hidc : Tls.keyPairId c'' = Tls.keyPairId c := by rw [← hid, e]
      have hcc : c'' = c := Tls.keyPairId_inj (hplain l'' hl''g c'' hc'') (hplain l hl c hc) hidc
      have hres : resolution s g l = resolution s g l'' := by
        simp [resolution, certRefOf, hc, hc'', hcc]
      exact validHttps_iff.mpr ⟨hh, hcf, hres.trans (validHttps_iff.mp hv'').2.2⟩

/-- `listener_programmed_iff_served_T` -/
theorem listener_programmed_iff_served_T (s : ScenarioT) (g : GatewayT) (n : Int) (l : ListenerT) (hw : winnerT s = some g)
    (hf : inFragmentT s = true) (hl : l ∈ g.listeners) :
    programmedTrue (listenerStatusT s g false n l) = true ↔
      if l.https then
        (∃ c, l.cert = some c ∧ ∃ k ∈ (genT s).keyPairs, k.id = Tls.keyPairId c) ∧ l.base.port ∈ (genT s).sslPorts
      else l.base.port ∈ (genT s).http.ports := by
  rw [listener_programmed_iff_valid_T]
  cases hh : l.https with
  | true => simpa using https_listener_valid_iff_keypair_and_port_T s g l hw hf hl hh
  | false => simpa using http_listener_valid_iff_port_T s g l hw hl hh

/-! ## attachedRoutes: invalid listeners are counted like valid ones -/

/-- `attached_count_T`: attachedRoutes(l) = number of routes with `acceptedAt (all listeners) l r ≠ []` — whatever the validity of the
listener (routes attach to invalid listeners for counting, cf. seeded change C07-m3) and of the route -/
theorem attached_count_T (s : ScenarioT) (g : GatewayT) (e : Bool) (n : Int) (l : ListenerT)
    (hw : winnerT s = some g) (hg : gatewayOK (gAll g) = true) (hs : statusOK (allPart s) = true) (hl : l ∈ g.listeners) :
    (listenerStatusT s g e n l).attachedRoutes = (s.routes.filter fun r => !(acceptedAt (gAll g) l.base r).isEmpty).length := by
  have hwa : winner (allPart s) = some (gAll g) := by
    unfold allPart; rw [winner_proj, hw]; rfl
  have hlb : l.base ∈ (gAll g).listeners := by
    simp only [gAll, projGw, List.mem_map, List.mem_filter]
    exact ⟨l, ⟨hl, by simp⟩, rfl⟩
  have := listenerRoutes_eq (allPart s) (gAll g) l.base hwa hg hs hlb
  unfold listenerStatusT NGF.StatusPrep.prepareListener toPrepListener
  simp only [List.length_map, List.length_nil, Nat.add_zero]
  rw [this]; rfl

/-! ## routes on invalid listeners -/

theorem routeCondsT_condsFalse (t : String) (s : ScenarioT) (g : GatewayT) (r : Route) :
    condsFalse t (routeCondsT s g r) = true := by
  have h1 := routeConds_condsFalse t r
  unfold condsFalse at h1 ⊢
  unfold routeCondsT
  cases r.valid <;> simp [List.all_append, invalidListener] <;>
    (intro x hx; have := List.all_eq_true.mp h1 x hx; simpa using this)

theorem leak_mem (s : ScenarioT) (g : GatewayT) (r : Route) (p : Parent)
    (hp : p ∈ r.parents.filter (namesOurs (allPart s))) (hoi : onlyInvalid s g r p = true) :
    invalidListener ∈ routeCondsT s g r := by
  have : invalidListener ∈ ((r.parents.filter (namesOurs (allPart s))).filter (onlyInvalid s g r)).map fun _ => invalidListener :=
    List.mem_map.mpr ⟨p, List.mem_filter.mpr ⟨hp, hoi⟩, rfl⟩
  unfold routeCondsT
  dsimp only
  cases hv : r.valid with
  | false => simp only [Bool.false_eq_true, if_false, List.mem_append]; exact Or.inr this
  | true => simp only [if_true, List.mem_append]; exact Or.inl this

/-- decision core over the TLS layer: Accepted=True ⇔ reload ok ∧ this parentRef attached ∧ the route carries no route-wide Accepted
condition (it is valid, and NO parentRef of it attached to invalid listeners only) -/
theorem parent_accepted_iff_T (s : ScenarioT) (g : GatewayT) (e : Bool) (n : Int) (r : Route) (p : Parent) :
    acceptedTrue (parentStatusT s g e n r p) = true ↔
      e = false ∧ (attachment (gAll g) true r p).attached = true ∧ ∀ c ∈ routeCondsT s g r, c.type ≠ "Accepted" := by
  unfold acceptedTrue parentStatusT
  rw [NGF.StatusPrep.acceptedTrue_any,
    NGF.StatusPrep.accepted_iff_attached _ _ _ (routeCondsT_condsFalse "Accepted" s g r) (toPrepRef_wf (gAll g) true r p)]
  simp [toPrepRef]

/-- `invalid_listener_routes_not_accepted_T`: a parentRef all of whose bound listeners are invalid (or that binds none) has no
Accepted=True entry -/
theorem invalid_listener_routes_not_accepted_T (s : ScenarioT) (g : GatewayT) (e : Bool) (n : Int) (r : Route) (p : Parent)
    (hp : p ∈ r.parents.filter (namesOurs (allPart s)))
    (hall : ∀ b ∈ boundListeners (gAll g) true r p, validBase s g b = false) :
    acceptedTrue (parentStatusT s g e n r p) = false := by
  rw [Bool.eq_false_iff]
  intro ha
  obtain ⟨_, hatt, hno⟩ := (parent_accepted_iff_T s g e n r p).mp ha
  have hne := boundListeners_ne_nil.mpr hatt
  have hoi : onlyInvalid s g r p = true := by
    simp only [onlyInvalid, Bool.and_eq_true, Bool.not_eq_true', List.all_eq_true]
    refine ⟨?_, fun b hb => by simp [hall b hb]⟩
    cases hb : boundListeners (gAll g) true r p with
    | nil => exact absurd hb hne
    | cons _ _ => rfl
  have hm : invalidListener ∈ routeCondsT s g r := leak_mem s g r p hp hoi
  exact hno _ hm rfl

/-- … and the known finding `C07:accepted:false-but-served:InvalidListener-from-other-parent` lives INSIDE this model: the
InvalidListener condition is route-wide, so such a parentRef makes EVERY entry of the route Accepted=False, also the entry of a
parentRef that attached to a valid listener (whose locations `genT` serves) -/
theorem invalid_listener_leaks_to_every_parent_T (s : ScenarioT) (g : GatewayT) (e : Bool) (n : Int) (r : Route) (p q : Parent)
    (hp : p ∈ r.parents.filter (namesOurs (allPart s))) (hoi : onlyInvalid s g r p = true) :
    acceptedTrue (parentStatusT s g e n r q) = false := by
  rw [Bool.eq_false_iff]
  intro ha
  obtain ⟨_, _, hno⟩ := (parent_accepted_iff_T s g e n r q).mp ha
  have hm : invalidListener ∈ routeCondsT s g r := leak_mem s g r p hp hoi
  exact hno _ hm rfl

/-- full strength where the finding is excluded: no parentRef of the route attached to invalid listeners only ⇒ the entry of `p` of a valid
route says Accepted=True (reload ok) ⇔ `p` attached (to at least one VALID listener, since it attached and not only to invalid ones) -/
theorem accepted_iff_attached_partial_T (s : ScenarioT) (g : GatewayT) (n : Int) (r : Route) (p : Parent) (hv : r.valid = true)
    (hnoleak : ∀ q ∈ r.parents.filter (namesOurs (allPart s)), onlyInvalid s g r q = false) :
    acceptedTrue (parentStatusT s g false n r p) = true ↔ (attachment (gAll g) true r p).attached = true := by
  rw [parent_accepted_iff_T]
  have hno : ∀ c ∈ routeCondsT s g r, c.type ≠ "Accepted" := by
    intro c hc
    have hleak : ((r.parents.filter (namesOurs (allPart s))).filter (onlyInvalid s g r)) = [] := by
      rw [List.filter_eq_nil_iff]; intro q hq; simp [hnoleak q hq]
    simp only [routeCondsT, hv, if_true, hleak, List.map_nil, List.nil_append] at hc
    exact routeConds_no_accepted.mpr hv c hc
  exact ⟨fun h => h.2.1, fun h => ⟨rfl, h, hno⟩⟩

/-- a route all of whose bound listeners are invalid contributes nothing to `genT`: `genT` builds its servers from `acceptedAt` at the VALID
listeners only (`httpPart` / `httpsPart`), and there the route accepts no hostname -/
theorem invalid_listeners_contribute_nothing_T (s : ScenarioT) (g : GatewayT) (r : Route)
    (hg : gatewayOK (gAll g) = true) (hpo : parentsOK r = true)
    (hall : ∀ p ∈ r.parents, ∀ b ∈ boundListeners (gAll g) true r p, validBase s g b = false)
    (keep : GatewayT → ListenerT → Bool) (l : ListenerT) (hl : l ∈ g.listeners) (hv : validL s g l = true) :
    acceptedAt (projGw keep g) l.base r = [] := by
  rw [acceptedAt_projGw keep (fun _ _ => true)]
  cases hacc : acceptedAt (projGw (fun _ _ => true) g) l.base r with
  | nil => rfl
  | cons h hs =>
    exfalso
    have hne : acceptedAt (gAll g) l.base r ≠ [] := by unfold gAll; rw [hacc]; simp
    obtain ⟨⟨p, hp, hn, hsel⟩, _, _⟩ := acceptedAt_ne_nil.mp hne
    have hlb : l.base ∈ (gAll g).listeners := by
      simp only [gAll, projGw, List.mem_map, List.mem_filter]
      exact ⟨l, ⟨hl, by simp⟩, rfl⟩
    have hb := (bound_iff_acceptedAt (parentsOK_spec hpo hp) (listener_names_unique hg) hp).mpr ⟨hlb, hn, hsel, hne⟩
    have := hall p hp _ hb
    have hvb : validBase s g l.base = true := List.any_eq_true.mpr ⟨l, hl, by simp [hv]⟩
    rw [hvb] at this; cases this

/-! ## non-vacuity and the finding, on a concrete scenario: HTTP :80 valid, HTTPS :443 whose Secret is missing -/

def demoT : ScenarioT :=
  { cls := ['n'], ctlr := ['c'], classes := [⟨['n'], ['c']⟩],
    gateways := [⟨['d'], ['g'], ['n'], 0,
      [⟨⟨['h'], 80, [], true⟩, false, none⟩, ⟨⟨['s'], 443, [], true⟩, true, some (['d'], ['x'])⟩]⟩],
    routes := [{ ns := ['d'], name := ['r'], age := 1, parents := [⟨['d'], ['g'], some ['h']⟩, ⟨['d'], ['g'], some ['s']⟩],
                 hostnames := [], rules := [⟨[⟨false, ['/', 'a'], [], [], []⟩], .forward []⟩], valid := true }],
    secrets := [], grants := [] }

def demoGT : GatewayT := ⟨['d'], ['g'], ['n'], 0, [⟨⟨['h'], 80, [], true⟩, false, none⟩, ⟨⟨['s'], 443, [], true⟩, true, some (['d'], ['x'])⟩]⟩

example : winnerT demoT = some demoGT ∧ inFragmentT demoT = true ∧ gatewayOK (gAll demoGT) = true ∧ statusOK (allPart demoT) = true ∧
    demoGT.listeners.map (validL demoT demoGT) = [true, false] := by
  refine ⟨by decide, by decide, by decide, by decide, by decide⟩

/-- listener `h`: Programmed=True, 1 route; listener `s` (Secret missing): Accepted/ResolvedRefs/Programmed=False, yet attachedRoutes = 1;
the finding: the entry of parentRef `h` says Accepted=False/InvalidListener although `genT` serves the route on port 80 -/
example :
    (demoGT.listeners.map fun l => ((listenerStatusT demoT demoGT false 1 l).attachedRoutes,
        (listenerStatusT demoT demoGT false 1 l).conds.map fun c => c.type ++ "=" ++ c.status)) =
      [(1, ["Accepted=True", "Programmed=True", "ResolvedRefs=True", "Conflicted=False"]),
       (1, ["Accepted=False", "ResolvedRefs=False", "Programmed=False"])] ∧
    (demoT.routes.map fun r => (routeParentStatusesT demoT false 1 r).map fun es => es.map fun x => (acceptedTrue x, x.conds.map (·.reason))) =
      [some [(false, ["ResolvedRefs", "InvalidListener"]), (false, ["ResolvedRefs", "InvalidListener"])]] ∧
    ((genT demoT).http.servers.map fun sv => (sv.port, sv.locs.map (·.path))) = [(80, [['/', 'a', '/'], ['/', 'a'], ['/']])] := by
  refine ⟨by decide, by decide, by decide⟩

/-! ## expectation lemmas over the facts regenerated from /repo -/

/-- the listener condition constructors the validators / resolvers use are the ones the model writes -/
theorem facts_listener_conditions :
    NGF.StatusPrep.lookup "NewListenerInvalidCertificateRef" = some invalidCertificateRef ∧
    NGF.StatusPrep.lookup "NewListenerRefNotPermitted" = some refNotPermitted ∧
    NGF.StatusPrep.lookup "NewListenerProtocolConflict" = some protocolConflict ∧
    NGF.StatusPrep.lookup "NewRouteInvalidListener" = some [invalidListener] := by decide

end NGF.PipelineStatusTls
