/-
C08 — status writes: idempotent, retry-safe, foreign entries preserved, within the CRD limits.

Model: `NGF.Model.StatusWrite` (setter closures with their captured status, equality helpers, retry
loop) and `NGF.Model.StatusLimits`. `Setter.invoke` is the code in the tree (since fix 4e76cf1 the
closures never change their captured status); `Setter.invokeMutating` is the pre-fix behaviour, kept
with its witnesses as a regression detector (section C'). Vocabulary (defined in `NGF.Proofs.StatusWrite`):
  `Fresh s`    the captured status holds own entries only (how the Prepare*Requests functions build it)
  `Merging s`  route / policy / snippets-filter setter (status merged with foreign entries)
  `ekey k e`   what the equality helper of kind `k` compares: controller, compared reference fields,
               conditions without lastTransitionTime
  `SameOwn k c prev cap`  own entries of `prev` and `cap` are the same set of `ekey`s
Every theorem quantifies over all previous statuses (own, foreign, stale, duplicated, any order), all
computed statuses and — for the loop — all step counts and all get/update failure schedules.
-/
import NGF.Proofs.StatusRetry
import NGF.Proofs.StatusLimits
import NGF.Props.C08Drift
import NGF.Generated.StatusFacts

namespace NGF.StatusWrite
open NGF.Generated

/-! ## A. One invocation of a setter: every previous status, every computed status -/

/-- Foreign entries are left intact: same content, same order, same multiplicity. -/
theorem setter_preserves_foreign (s : Setter) (hm : Merging s) (hf : Fresh s) (prev : Status) :
    foreign s.ctlr (s.invoke prev).2.1 = foreign s.ctlr prev := by
  rw [invoke_snd]
  split
  · rfl
  · exact merged_foreign hm hf prev

/-- Exactly this controller's entries are replaced: whatever `prev` held for us (stale, duplicated,
permuted), the written status holds precisely the computed entries, in their order. -/
theorem setter_replaces_own (s : Setter) (hm : Merging s) (hf : Fresh s) (prev : Status)
    (h : (s.invoke prev).2.2 = true) : own s.ctlr (s.invoke prev).2.1 = s.cap := by
  rw [invoke_out_of_set s prev h]; exact merged_own hm hf prev

/-- The written list is the computed entries followed by the foreign ones (routes) or the foreign
ones followed by the computed entries (policies, snippets filters). -/
theorem setter_result_order (s : Setter) (prev : Status) (h : (s.invoke prev).2.2 = true) :
    (s.kind.mode = .ownFirst → (s.invoke prev).2.1 = s.cap ++ foreign s.ctlr prev) ∧
    (s.kind.mode = .foreignFirst → (s.invoke prev).2.1 = foreign s.ctlr prev ++ s.cap) := by
  rw [invoke_out_of_set s prev h]
  constructor <;> intro hk <;> simp [merged, hk]

/-- No write ⇔ the own entries are unchanged modulo lastTransitionTime (as sets of compared keys:
the reading of DESIGN §8). -/
theorem setter_noop_iff (s : Setter) (hm : Merging s) (hf : Fresh s) (prev : Status) :
    (s.invoke prev).2.2 = false ↔ SameOwn s.kind s.ctlr prev s.cap :=
  invoke_wasSet_false_iff hm hf prev

/-- A no-op leaves the fetched object as it was. -/
theorem setter_noop_leaves_object (s : Setter) (prev : Status) (h : (s.invoke prev).2.2 = false) :
    (s.invoke prev).2.1 = prev := by
  rw [invoke_snd] at *
  split at h <;> simp_all

/-- In particular: if only transition times differ (entry by entry), nothing is written. -/
theorem setter_noop_of_equal_mod_time (s : Setter) (hm : Merging s) (hf : Fresh s) (prev : Status)
    (h : (own s.ctlr prev).map (ekey s.kind) = s.cap.map (ekey s.kind)) : (s.invoke prev).2.2 = false := by
  rw [setter_noop_iff s hm hf]
  constructor
  · intro p hp
    have : ekey s.kind p ∈ s.cap.map (ekey s.kind) := h ▸ List.mem_map_of_mem hp
    obtain ⟨x, hx, hk⟩ := List.mem_map.1 this
    exact ⟨x, hx, hk.symm⟩
  · intro x hx
    have : ekey s.kind x ∈ (own s.ctlr prev).map (ekey s.kind) := h ▸ List.mem_map_of_mem hx
    obtain ⟨p, hp, hk⟩ := List.mem_map.1 this
    exact ⟨p, hp, hk.symm⟩

/-- …and any difference other than the time in some own entry (reason, message, status, type,
observedGeneration, compared reference field, an entry missing or added) forces a write. -/
theorem setter_writes_when_key_missing (s : Setter) (hm : Merging s) (hf : Fresh s) (prev : Status)
    (x : Entry) (hx : x ∈ s.cap) (h : ∀ p ∈ own s.ctlr prev, ekey s.kind x ≠ ekey s.kind p) :
    (s.invoke prev).2.2 = true := by
  cases hw : (s.invoke prev).2.2 with
  | true => rfl
  | false =>
    obtain ⟨p, hp, hk⟩ := ((setter_noop_iff s hm hf prev).1 hw).2 x hx
    exact absurd hk (h p hp)

/-- Gateway / GatewayClass / NginxGateway: no write ⇔ equal modulo time, entry by entry, in order;
a write stores exactly the computed status. -/
theorem whole_setter_spec (s : Setter) (h : s.kind.mode = .whole) (prev : Status) :
    ((s.invoke prev).2.2 = false ↔ prev.map wkey = s.cap.map wkey) ∧
    ((s.invoke prev).2.2 = true → (s.invoke prev).2.1 = s.cap) ∧ (s.invoke prev).1 = s := by
  refine ⟨?_, ?_, invoke_fst s prev⟩
  · rw [invoke_snd, ← wholeEq_iff]
    simp only [equalCheck, merged, h]
    split <;> simp_all
  · intro hw
    rw [invoke_out_of_set s prev hw]; simp [merged, h]

/-! ## B. Re-invocation of the same closure (what the retry loop does): full strength, all k -/

/-- The closure state never changes. -/
theorem setter_state_after_invoke (s : Setter) (prev : Status) : (s.invoke prev).1 = s :=
  invoke_fst s prev

/-- IDEMPOTENT UNDER RE-INVOCATION, for every number k of earlier invocations on arbitrary fetched
statuses `prevs` (the retry loop after conflicts / failed updates): the next invocation behaves
exactly like the first one of a freshly built setter. -/
theorem setter_reinvocation_idempotent (s : Setter) (prevs : List Status) (p : Status) :
    (prevs.foldl (fun t q => (t.invoke q).1) s).invoke p = s.invoke p := by
  have : ∀ (l : List Status) (t : Setter), l.foldl (fun t q => (t.invoke q).1) t = t := by
    intro l
    induction l with
    | nil => intro t; rfl
    | cons q l ih => intro t; rw [List.foldl_cons, invoke_fst]; exact ih t
  rw [this]

/-- Hence after any k earlier invocations: foreign entries preserved, own entries replaced, no-op ⇔
own entries unchanged modulo time. -/
theorem setter_reinvocation_full_clause (s : Setter) (hm : Merging s) (hf : Fresh s)
    (prevs : List Status) (p : Status) :
    let r := (prevs.foldl (fun t q => (t.invoke q).1) s).invoke p
    foreign s.ctlr r.2.1 = foreign s.ctlr p ∧ (r.2.2 = true → own s.ctlr r.2.1 = s.cap) ∧
      (r.2.2 = false ↔ SameOwn s.kind s.ctlr p s.cap) := by
  simp only [setter_reinvocation_idempotent]
  exact ⟨setter_preserves_foreign s hm hf p, setter_replaces_own s hm hf p, setter_noop_iff s hm hf p⟩

private def wOwn : Entry := ⟨"ngf", ["~", "~", "ns", "gw", "~", "~"], [⟨"Accepted", "True", "Accepted", "ok", 2, 9⟩]⟩
private def wFor : Entry := ⟨"other", ["~", "~", "ns", "gw2", "~", "~"], [⟨"Accepted", "True", "Accepted", "ok", 1, 5⟩]⟩

/-! ## C. The retry loop: every step count, every store, every failure schedule -/

private theorem submission_spec {s : Setter} (hm : Merging s) (hf : Fresh s) {prev sub : Status}
    (h : (s.invoke prev).2 = (sub, true)) :
    foreign s.ctlr sub = foreign s.ctlr prev ∧ own s.ctlr sub = s.cap ∧
      ¬ SameOwn s.kind s.ctlr prev s.cap := by
  rw [invoke_snd] at h
  split at h
  · simp at h
  · rename_i hne
    have hsub : sub = merged s prev := by simpa using (congrArg Prod.fst h).symm
    subst hsub
    exact ⟨merged_foreign hm hf prev, merged_own hm hf prev,
      fun hso => hne ((equalCheck_iff_sameOwn hm hf prev).2 hso)⟩

/-- RETRY-SAFE, all schedules, all k: every status ever submitted (also after conflicts, failed
updates and failed gets, also when other writers changed the object in between) keeps the foreign
entries of the object it was computed from (content, order, multiplicity), holds exactly the computed
own entries, and is only submitted when the own entries differ modulo time.
(Before 4e76cf1 this theorem was `retry_fixed_every_submission`, about the repaired variant.) -/
theorem retry_every_submission (s : Setter) (hm : Merging s) (hf : Fresh s) (n : Nat)
    (store : Status) (sched : List Op) :
    ∀ prev sub ok, Call.update prev sub ok ∈ (runRetry Setter.invoke n (Run.init s store) sched).calls →
      foreign s.ctlr sub = foreign s.ctlr prev ∧ own s.ctlr sub = s.cap ∧
        ¬ SameOwn s.kind s.ctlr prev s.cap :=
  fun prev sub ok h => submission_spec hm hf (retry_submissions s n store sched prev sub ok h)

/-- No-op under retry, all schedules: when the own entries are unchanged modulo time nothing is ever
submitted and the stored object is untouched, whatever get errors precede. -/
theorem retry_noop_all_schedules (s : Setter) (hm : Merging s) (hf : Fresh s) (n : Nat) (store : Status)
    (sched : List Op) (h : SameOwn s.kind s.ctlr store s.cap) :
    let r := runRetry Setter.invoke n (Run.init s store) sched
    r.store = store ∧ r.writes = 0 ∧ ∀ p sub ok, Call.update p sub ok ∉ r.calls :=
  retry_noop s hm hf n store sched h

/-- When something has to change and the first attempt meets no failure, exactly one write stores
the merged status (non-vacuity of the two theorems above, and "own entries == computed" for the
stored object). -/
theorem retry_first_try_success (s : Setter) (hm : Merging s) (hf : Fresh s) (n : Nat) (store : Status)
    (h : ¬ SameOwn s.kind s.ctlr store s.cap) :
    let r := runRetry Setter.invoke (n + 1) (Run.init s store) []
    r.writes = 1 ∧ own s.ctlr r.store = s.cap ∧ foreign s.ctlr r.store = foreign s.ctlr store := by
  have hw : (Setter.invoke (Run.init s store).setter (Run.init s store).store).2.2 = true := by
    cases hb : (s.invoke store).2.2 with
    | true => simpa [Run.init] using hb
    | false => exact absurd ((invoke_wasSet_false_iff hm hf store).1 hb) h
  simp only [runRetry_succ, List.headD_nil, attempt_ok_set Setter.invoke _ hw, if_true]
  refine ⟨rfl, ?_, ?_⟩
  · exact setter_replaces_own s hm hf store (by simpa [Run.init] using hw)
  · exact setter_preserves_foreign s hm hf store

/-- Whole-status kinds (Gateway, GatewayClass, NginxGateway), all schedules: every submission is
exactly the computed status and is made only when it differs modulo time. -/
theorem retry_whole_every_submission (s : Setter) (h : s.kind.mode = .whole) (n : Nat) (store : Status)
    (sched : List Op) :
    ∀ prev sub ok, Call.update prev sub ok ∈ (runRetry Setter.invoke n (Run.init s store) sched).calls →
      sub = s.cap ∧ prev.map wkey ≠ s.cap.map wkey := by
  intro prev sub ok hc
  have hr := retry_submissions s n store sched prev sub ok hc
  obtain ⟨h1, h2, _⟩ := whole_setter_spec s h prev
  have hw : (s.invoke prev).2.2 = true := by rw [hr]
  refine ⟨by rw [← h2 hw, hr], fun heq => ?_⟩
  rw [h1.2 heq] at hw; exact absurd hw (by simp)

/-- At most `steps` attempts (one Get each), whatever the invocation function. -/
theorem retry_attempts_bounded (inv : Invoke) (n : Nat) (s : Setter) (store : Status) (sched : List Op) :
    (runRetry inv n (Run.init s store) sched).gets ≤ n := by
  simpa [Run.init, Run.gets] using retry_gets_le inv n (Run.init s store) sched

/-- At most one successful write; it is the last call and what it submitted is what is stored. -/
theorem retry_at_most_one_write (inv : Invoke) (n : Nat) (s : Setter) (store : Status) (sched : List Op) :
    let r := runRetry inv n (Run.init s store) sched
    r.writes = 0 ∨ (r.writes = 1 ∧ ∃ prev, r.calls.getLast? = some (.update prev r.store true)) :=
  retry_writes inv n (Run.init s store) sched rfl

/-- the code in the tree on the two schedules that broke the pre-fix code (see C') -/
theorem retry_on_regression_schedules :
    (runRetry Setter.invoke 4 (Run.init ⟨routeKind, "ngf", [wOwn]⟩ [wFor]) [.updFail none]).store
      = [wOwn, wFor] ∧
    (runRetry Setter.invoke 4 (Run.init ⟨routeKind, "ngf", [wOwn]⟩ [wFor]) [.updFail (some [])]).store
      = [wOwn] := by decide

/-! ## C'. The pre-fix variant `invokeMutating` (regression detector for commit 4e76cf1)

A tree whose setters store the merged status in their captured variable again behaves like
`invokeMutating`; the correspondence then matches only this variant and the judge reports
`retry-duplicates-foreign` with the failing input. The statements below say exactly what that variant
does: what is lost (idempotence) and what is not (own entries, no foreign entry dropped). -/

/-- one invocation gives the same object status and verdict as the code in the tree … -/
theorem mutating_same_result (s : Setter) (p : Status) : (s.invokeMutating p).2 = (s.invoke p).2 :=
  invokeMutating_snd s p

/-- … but stores the merged status in the closure -/
theorem mutating_state_after_invoke (s : Setter) (prev : Status) :
    (s.invokeMutating prev).1 = { s with cap := merged s prev } := invokeMutating_fst s prev

/-- WITNESS (was reproduced on all six real merging setters before the fix): re-invocation of the
mutating closure writes the foreign entry twice. -/
theorem mutating_reinvocation_idempotent_false :
    ¬ ∀ (s : Setter) (p1 p2 : Status), Merging s → Fresh s →
        foreign s.ctlr ((s.invokeMutating p1).1.invokeMutating p2).2.1 = foreign s.ctlr p2 := by
  intro h
  have h1 := h ⟨routeKind, "ngf", [wOwn]⟩ [wFor] [wFor] (by decide) (by decide)
  revert h1; decide

theorem mutating_reinvocation_idempotent_false_policy :
    ((Setter.mk policyKind "ngf" [wOwn]).invokeMutating [wFor]).1.invokeMutating [wFor] =
      (⟨policyKind, "ngf", [wFor, wFor, wOwn]⟩, [wFor, wFor, wOwn], true) := by decide

/-- the mutating variant is harmless only when the earlier fetched status held no foreign entry -/
theorem mutating_reinvocation_partial (s : Setter) (p1 p2 : Status) (h : foreign s.ctlr p1 = []) :
    (s.invokeMutating p1).1.invokeMutating p2 = s.invokeMutating p2 := by
  have : (s.invokeMutating p1).1 = s := by
    rw [invokeMutating_fst]; cases s with | mk k c cap =>
    simp only [merged] at *
    cases hk : k.mode <;> simp_all
  rw [this]

/-- mutating variant, all schedules, all k: own entries exact and no foreign entry lost or reordered
(this is what distinguishes `retry-duplicates-foreign` from `foreign-not-preserved` in the judge) -/
theorem mutating_retry_own_replaced_nothing_lost (s : Setter) (hm : Merging s) (hf : Fresh s) (n : Nat)
    (store : Status) (sched : List Op) :
    ∀ prev sub ok, Call.update prev sub ok ∈
        (runRetry Setter.invokeMutating n (Run.init s store) sched).calls →
      own s.ctlr sub = s.cap ∧ (foreign s.ctlr prev).Sublist (foreign s.ctlr sub) :=
  (retry_invariant s hm hf n store sched).subs

/-- mutating variant with a single invocation (k = 1): indistinguishable from the code in the tree -/
theorem mutating_retry_submission_partial (s : Setter) (hm : Merging s) (hf : Fresh s) (n : Nat)
    (store : Status) (sched : List Op)
    (hk : (runRetry Setter.invokeMutating n (Run.init s store) sched).invocations ≤ 1) :
    ∀ prev sub ok, Call.update prev sub ok ∈
        (runRetry Setter.invokeMutating n (Run.init s store) sched).calls →
      foreign s.ctlr sub = foreign s.ctlr prev ∧ own s.ctlr sub = s.cap ∧
        ¬ SameOwn s.kind s.ctlr prev s.cap :=
  fun prev sub ok h =>
    submission_spec hm hf ((retry_invariant s hm hf n store sched).single hk prev sub ok h)

/-- WITNESS: one failed Update, then success — the mutating variant stores the foreign parent twice … -/
theorem mutating_retry_duplicates_foreign_witness :
    (runRetry Setter.invokeMutating 4 (Run.init ⟨routeKind, "ngf", [wOwn]⟩ [wFor]) [.updFail none]).store
      = [wOwn, wFor, wFor] := by decide

/-- … and after a conflict in which the other controller REMOVED its entry, resurrects it. -/
theorem mutating_retry_resurrects_foreign_witness :
    (runRetry Setter.invokeMutating 4 (Run.init ⟨routeKind, "ngf", [wOwn]⟩ [wFor]) [.updFail (some [])]).store
      = [wOwn, wFor] := by decide

/-! ### non-vacuity -/

example : Merging ⟨routeKind, "ngf", [wOwn]⟩ ∧ Fresh ⟨routeKind, "ngf", [wOwn]⟩ := by
  constructor <;> decide

/-- a run with a get error, a conflict that changes the store, then success: two invocations -/
example :
    let r := runRetry Setter.invoke 4 (Run.init ⟨routeKind, "ngf", [wOwn]⟩ [wFor, { wOwn with conds := [] }])
      [.getErr, .updFail (some [wFor]), .ok]
    r.invocations = 2 ∧ r.writes = 1 ∧ r.gets = 3 ∧ r.store = [wOwn, wFor] := by decide

/-- no-op: previous own entry differs only in time; duplicated own entries are still a no-op -/
example :
    let old : Entry := { wOwn with conds := [⟨"Accepted", "True", "Accepted", "ok", 2, 1⟩] }
    (Setter.invoke ⟨routeKind, "ngf", [wOwn]⟩ [wFor, old]).2.2 = false ∧
    (Setter.invoke ⟨routeKind, "ngf", [wOwn]⟩ [old, wFor, old]).2.2 = false ∧
    (Setter.invoke ⟨routeKind, "ngf", [wOwn]⟩ [wFor, { old with ref := ["~", "~", "ns", "gw", "l1", "~"] }]).2.2 = true := by
  decide

/-! ## D. CRD limits -/

/-- all condition types any constructor can produce -/
def tableTypes : List String := (Status.condTable.map (·.2.1)).eraseDups

theorem table_types_le_maxConds : tableTypes.length ≤ Status.maxConds := by decide

theorem table_types_cover : ∀ row ∈ Status.condTable, row.2.1 ∈ tableTypes := by decide

/-- Conditions built from the repository's constructors and passed through
`DeduplicateConditions` number at most 8 (the CRD's maxItems) and have pairwise distinct types
(the CRD's list-map key), so `conditions` never violates the schema. -/
theorem conditions_le_8_unique (cs : List Cond)
    (h : ∀ c ∈ cs, ∃ row ∈ Status.condTable, row.2.1 = c.type) :
    (dedup cs).length ≤ Status.maxConds ∧ ((dedup cs).map (·.type)).Nodup ∧
      hasDupTypes (dedup cs) = false := by
  refine ⟨Nat.le_trans (dedup_length_le cs tableTypes ?_) table_types_le_maxConds,
    dedup_types_nodup cs, (hasDupTypes_false_iff _).2 (dedup_types_nodup cs)⟩
  intro c hc
  obtain ⟨row, hr, he⟩ := h c hc
  exact he ▸ table_types_cover row hr

/-- `DeduplicateConditions` keeps only conditions of the input and loses no type. -/
theorem dedup_sound_complete (cs : List Cond) :
    (∀ c ∈ dedup cs, c ∈ cs) ∧ (∀ c ∈ cs, ∃ d ∈ dedup cs, d.type = c.type) :=
  ⟨dedup_subset cs, dedup_complete cs⟩

/-- the last condition of a type wins and the survivors keep their relative order (example) -/
example :
    dedup [⟨"A", "True", "r1", "", 0, 0⟩, ⟨"B", "True", "r2", "", 0, 0⟩, ⟨"A", "False", "r3", "", 0, 0⟩]
      = [⟨"B", "True", "r2", "", 0, 0⟩, ⟨"A", "False", "r3", "", 0, 0⟩] := by decide

/-- Every (type, status, reason) a constructor can emit satisfies the CRD patterns and lengths. -/
theorem reason_pattern_ok : ∀ row ∈ Status.condTable,
    reasonOk row.2.2.2 = true ∧ row.2.2.2.length ≤ Status.maxReason ∧
    typeOk row.2.1 = true ∧ row.2.1.length ≤ Status.maxType ∧ statusOk row.2.2.1 = true := by
  decide +kernel

/-- NGF policies, graph built from `snap`, write landing on `live`: when other controllers did not add
foreign ancestors in between, the submitted ancestor list has at most `maxItems` entries. -/
theorem ancestors_le_16_of_snapshot (c : String) (snap live : Status) (targets : List Entry)
    (hsnap : snap.length ≤ Status.maxAncestors) (hlive : live.length ≤ Status.maxAncestors)
    (hnogrow : (foreign c live).length ≤ (foreign c snap).length) :
    let s : Setter := ⟨policyKind, c, ngfAttach Status.maxAncestorsConst c snap targets []⟩
    (s.invoke live).2.1.length ≤ Status.maxAncestors := by
  intro s
  have hm : Merging s := by show policyKind.mode ≠ .whole; decide
  cases hw : (s.invoke live).2.2 with
  | false => rw [setter_noop_leaves_object s live hw]; exact hlive
  | true =>
    rw [invoke_out_of_set s live hw, merged_length hm]
    have h1 := ngfAttach_length Status.maxAncestorsConst c snap targets []
    have h2 := foreign_length_le c snap
    have h3 : Status.maxAncestorsConst ≤ Status.maxAncestors := by decide
    simp only [List.length_nil, Nat.zero_add] at h1
    show (ngfAttach Status.maxAncestorsConst c snap targets []).length + (foreign c live).length ≤ _
    omega

/-- NGF policies: with the ancestors collected through `ngfPolicyAncestorsFull` against the status
the setter then sees — EXPLICIT hypothesis `hsame`: the live object the retry function fetches is the
snapshot the graph was built from — the submitted ancestor list has at most `maxItems` entries.
Without `hsame` the statement is false: `ancestors_le_16_needs_same_snapshot`. -/
theorem ancestors_le_16 (c : String) (snap live : Status) (targets : List Entry) (hsame : live = snap)
    (hcur : snap.length ≤ Status.maxAncestors) :
    let s : Setter := ⟨policyKind, c, ngfAttach Status.maxAncestorsConst c snap targets []⟩
    (s.invoke live).2.1.length ≤ Status.maxAncestors := by
  subst hsame
  exact ancestors_le_16_of_snapshot c live live targets hcur hcur (Nat.le_refl _)

/-- BackendTLSPolicy: when `backendTLSPolicyAncestorsFull` says "not full", the one own ancestor fits. -/
theorem btp_ancestors_le_16 (c : String) (snap cur : Status) (e : Entry) (hsame : cur = snap)
    (hfull : btpFull Status.maxAncestorsConst c snap = false) (hcur : snap.length ≤ Status.maxAncestors) :
    let s : Setter := ⟨policyKind, c, [e]⟩
    (s.invoke cur).2.1.length ≤ Status.maxAncestors := by
  subst hsame
  intro s
  have hm : Merging s := by show policyKind.mode ≠ .whole; decide
  cases hw : (s.invoke cur).2.2 with
  | false => rw [setter_noop_leaves_object s cur hw]; exact hcur
  | true =>
    rw [invoke_out_of_set s cur hw, merged_length hm]
    have h3 : Status.maxAncestorsConst = Status.maxAncestors := by decide
    have := btp_room Status.maxAncestorsConst c cur hfull (h3 ▸ hcur)
    show 1 + (foreign c cur).length ≤ _
    omega

/-- non-vacuity: 14 foreign ancestors, 5 targets → 2 own ancestors are admitted, 16 submitted;
a full list of 16 foreign ancestors blocks a BackendTLSPolicy, 15 foreign + 1 own does not -/
example :
    let cur : Status := (List.range 14).map fun i => ⟨"other", ["g", "k", "ns", toString i, "~", "~"], wFor.conds⟩
    let ts : List Entry := (List.range 5).map fun i => ⟨"ngf", ["g", "k", "ns", toString i, "~", "~"], wOwn.conds⟩
    (ngfAttach Status.maxAncestorsConst "ngf" cur ts []).length = 2 ∧
    ((Setter.mk policyKind "ngf" (ngfAttach Status.maxAncestorsConst "ngf" cur ts [])).invoke cur).2.1.length = 16 ∧
    btpFull Status.maxAncestorsConst "ngf" ((List.range 16).map fun i => ⟨"other", [toString i], []⟩) = true ∧
    btpFull Status.maxAncestorsConst "ngf" (⟨"ngf", [], []⟩ :: (List.range 15).map fun i => ⟨"other", [toString i], []⟩) = false := by
  decide

private def manyForeign (n : Nat) : Status :=
  (List.range n).map fun i => ⟨"other", ["~", "~", "ns", toString i, "~", "~"], wFor.conds⟩

/-- WITNESS OF FALSITY under LIVE DRIFT (reproduced on the real policy setters, known findings
`C08:entries-exceed-maxItems:{NGFPolicy,BackendTLSPolicy}:live-drift`): the graph was built from a cached
policy with 15 foreign ancestors (both "ancestor list is full" checks say: room for one), another
controller adds a 16th before the write lands; both objects are admissible, the setter runs on the live
one and submits 17 ancestors. So `ancestors_le_16` / `btp_ancestors_le_16` need `live = snap`. -/
theorem ancestors_le_16_needs_same_snapshot :
    ¬ (∀ (c : String) (snap live : Status) (targets : List Entry),
        snap.length ≤ Status.maxAncestors → live.length ≤ Status.maxAncestors →
        ((Setter.mk policyKind c (ngfAttach Status.maxAncestorsConst c snap targets [])).invoke live).2.1.length
          ≤ Status.maxAncestors) ∧
    btpFull Status.maxAncestorsConst "ngf" (manyForeign 15) = false ∧
    ((Setter.mk policyKind "ngf" [wOwn]).invoke (manyForeign 16)).2.1.length = Status.maxAncestors + 1 ∧
    -- …and the foreign entries of the live object are all still there (the write is rejected, nothing is lost)
    foreign "ngf" ((Setter.mk policyKind "ngf" [wOwn]).invoke (manyForeign 16)).2.1 = manyForeign 16 := by
  refine ⟨fun h => ?_, by decide, by decide, by decide⟩
  have := h "ngf" (manyForeign 15) (manyForeign 16) [wOwn] (by decide) (by decide)
  revert this; decide

/-- WITNESS OF FALSITY (reproduced on the real route and snippets-filter setters): `parents`
(`controllers`) may exceed the CRD's maxItems — a previous status that is itself admissible (32
foreign parents) makes the setter submit 33. There is no "full" check for routes or snippets filters. -/
theorem parents_le_32_false :
    ((Setter.mk routeKind "ngf" [wOwn]).invoke (manyForeign Status.maxParents)).2.1.length
      = Status.maxParents + 1 ∧
    ((Setter.mk snippetsKind "ngf" [wOwn]).invoke (manyForeign Status.maxControllers)).2.1.length
      = Status.maxControllers + 1 := by decide

/-- PARTIAL: within the limit whenever own + foreign entries fit. -/
theorem parents_le_32_partial (s : Setter) (hm : Merging s) (prev : Status) (lim : Nat)
    (hprev : prev.length ≤ lim) (hroom : s.cap.length + (foreign s.ctlr prev).length ≤ lim) :
    (s.invoke prev).2.1.length ≤ lim := by
  cases hw : (s.invoke prev).2.2 with
  | false => rw [setter_noop_leaves_object s prev hw]; exact hprev
  | true => rw [invoke_out_of_set s prev hw, merged_length hm]; exact hroom

/-- `message` is NOT bounded by the setters: whatever message a computed condition carries is
submitted unchanged (messages are aggregated validation errors of unbounded length), so
`message ≤ 32768` cannot be proved; the judge reports `message-exceeds-maxLength` when it happens. -/
theorem message_le_32768_false (m : String) :
    ∃ (s : Setter) (prev : Status), Merging s ∧ Fresh s ∧ (s.invoke prev).2.2 = true ∧
      ∃ e ∈ (s.invoke prev).2.1, ∃ c ∈ e.conds, c.message = m := by
  refine ⟨⟨routeKind, "ngf", [{ wOwn with conds := [⟨"Accepted", "False", "UnsupportedValue", m, 1, 1⟩] }]⟩, [],
    by show routeKind.mode ≠ .whole; decide, ?_, ?_, ?_⟩
  · intro e he; simp at he; subst he; rfl
  · simp [Setter.invoke, merged, equalCheck, routeKind, statusEq, foreign]
  · simp [Setter.invoke, merged, equalCheck, routeKind, statusEq, foreign]

theorem message_limit_detected (L : Limits) (c : Cond) (h : c.message.length > L.maxMessage) :
    condViolation L c = some "message-exceeds-maxLength" := by
  simp [condViolation, h]

/-! ## E. Tie to the source: facts regenerated by the translator on every run -/

/-- CRD figures: one consistent value per figure over all 15 CRD files/versions; the patterns are
the ones `reasonOk` / `typeOk` implement; the code's `maxAncestors` does not exceed the CRD's. -/
theorem crd_limits_as_modelled :
    Status.limitsConsistent = true ∧ Status.crdFilesRead = 15 ∧
    Status.minCondsPerEntry = 1 ∧ Status.maxConds = 8 ∧
    Status.maxAncestorsConst ≤ Status.maxAncestors ∧
    Status.reasonPatterns = ["^[A-Za-z]([A-Za-z0-9_,:]*[A-Za-z0-9_])?$"] ∧
    Status.typePatterns =
      ["^([a-z0-9]([-a-z0-9]*[a-z0-9])?(\\.[a-z0-9]([-a-z0-9]*[a-z0-9])?)*/)?(([A-Za-z0-9][-A-Za-z0-9_.]*)?[A-Za-z0-9])$"] := by
  decide

/-- `NewRetryUpdateFunc`: Get (NotFound ⇒ done, other error ⇒ retry) → setter (false ⇒ done) →
Update (error ⇒ retry) → done; driven by exactly one ExponentialBackoff of 4 steps. -/
theorem retry_function_as_modelled :
    Status.backoffCalls = 1 ∧ Status.backoffSteps = 4 ∧
    Status.retrySkeleton =
      ["if err := getter.Get(ctx, nsname, obj); err != nil => if apierrors.IsNotFound(err) | return true, nil | return false, nil",
       "if !statusSetter(obj) => return true, nil",
       "if err := updater.Update(ctx, obj); err != nil => return false, nil",
       "return true, nil"] := by
  refine ⟨by decide, by decide, ?_⟩
  rfl

/-- The merging setters (since 4e76cf1): copy the captured status into a local `newStatus`, append the
foreign entries of the fetched object to the copy, compare with the set-like helper and only then
overwrite the object's status; none of them assigns to its captured parameter (`mutates_… = false`,
computed by the translator from the closure's assignments). A setter that assigns to its captured
status again breaks this obligation and behaves like `invokeMutating`. -/
theorem setters_as_modelled :
    Status.mutates_newHTTPRouteStatusSetter = false ∧
    Status.body_newHTTPRouteStatusSetter =
      ["hr := helpers.MustCastObject[*gatewayv1.HTTPRoute](object)",
       "newStatus := status",
       "newStatus.Parents = slices.Clone(status.Parents)",
       "for _, os := range hr.Status.Parents { if string(os.ControllerName) != gatewayCtlrName { newStatus.Parents = append(newStatus.Parents, os) } }",
       "if routeStatusEqual(gatewayCtlrName, hr.Status.Parents, newStatus.Parents) { return false }",
       "hr.Status = newStatus",
       "return true"] ∧
    Status.mutates_newGRPCRouteStatusSetter = false ∧
    Status.body_newGRPCRouteStatusSetter =
      ["gr := helpers.MustCastObject[*gatewayv1.GRPCRoute](object)",
       "newStatus := status",
       "newStatus.Parents = slices.Clone(status.Parents)",
       "for _, os := range gr.Status.Parents { if string(os.ControllerName) != gatewayCtlrName { newStatus.Parents = append(newStatus.Parents, os) } }",
       "if routeStatusEqual(gatewayCtlrName, gr.Status.Parents, newStatus.Parents) { return false }",
       "gr.Status = newStatus",
       "return true"] ∧
    Status.mutates_newTLSRouteStatusSetter = false ∧
    Status.body_newTLSRouteStatusSetter =
      ["tr := helpers.MustCastObject[*v1alpha2.TLSRoute](object)",
       "newStatus := status",
       "newStatus.Parents = slices.Clone(status.Parents)",
       "for _, os := range tr.Status.Parents { if string(os.ControllerName) != gatewayCtlrName { newStatus.Parents = append(newStatus.Parents, os) } }",
       "if routeStatusEqual(gatewayCtlrName, tr.Status.Parents, newStatus.Parents) { return false }",
       "tr.Status = newStatus",
       "return true"] ∧
    Status.mutates_newNGFPolicyStatusSetter = false ∧
    Status.body_newNGFPolicyStatusSetter =
      ["policy := helpers.MustCastObject[policies.Policy](object)",
       "prevStatus := policy.GetPolicyStatus()",
       "maxAncestors := len(status.Ancestors) + len(prevStatus.Ancestors)",
       "ancestors := make([]v1alpha2.PolicyAncestorStatus, 0, maxAncestors)",
       "for _, as := range prevStatus.Ancestors { if string(as.ControllerName) != gatewayCtlrName { ancestors = append(ancestors, as) } }",
       "ancestors = append(ancestors, status.Ancestors...)",
       "newStatus := v1alpha2.PolicyStatus{Ancestors: ancestors}",
       "if policyStatusEqual(gatewayCtlrName, prevStatus, newStatus) { return false }",
       "policy.SetPolicyStatus(newStatus)",
       "return true"] ∧
    Status.mutates_newBackendTLSPolicyStatusSetter = false ∧
    Status.body_newBackendTLSPolicyStatusSetter =
      ["btp := helpers.MustCastObject[*v1alpha3.BackendTLSPolicy](object)",
       "maxAncestors := 1 + len(btp.Status.Ancestors)",
       "ancestors := make([]v1alpha2.PolicyAncestorStatus, 0, maxAncestors)",
       "for _, os := range btp.Status.Ancestors { if string(os.ControllerName) != gatewayCtlrName { ancestors = append(ancestors, os) } }",
       "ancestors = append(ancestors, status.Ancestors...)",
       "newStatus := v1alpha2.PolicyStatus{Ancestors: ancestors}",
       "if policyStatusEqual(gatewayCtlrName, btp.Status, newStatus) { return false }",
       "btp.Status = newStatus",
       "return true"] ∧
    Status.mutates_newSnippetsFilterStatusSetter = false ∧
    Status.body_newSnippetsFilterStatusSetter =
      ["sf := helpers.MustCastObject[*ngfAPI.SnippetsFilter](obj)",
       "maxControllerStatus := 1 + len(sf.Status.Controllers)",
       "controllerStatuses := make([]ngfAPI.ControllerStatus, 0, maxControllerStatus)",
       "for _, status := range sf.Status.Controllers { if string(status.ControllerName) != gatewayCtlrName { controllerStatuses = append(controllerStatuses, status) } }",
       "controllerStatuses = append(controllerStatuses, snippetsFilterStatus.Controllers...)",
       "newStatus := ngfAPI.SnippetsFilterStatus{Controllers: controllerStatuses}",
       "if snippetsFilterStatusEqual(gatewayCtlrName, newStatus.Controllers, sf.Status.Controllers) { return false }",
       "sf.Status = newStatus",
       "return true"] := by
  repeat' (first | rfl | constructor)

/-- The whole-status setters compare, then assign the captured status (never mutated). -/
theorem whole_setters_as_modelled :
    Status.mutates_newGatewayStatusSetter = false ∧ Status.mutates_newGatewayClassStatusSetter = false ∧
    Status.mutates_newNginxGatewayStatusSetter = false ∧
    Status.body_newGatewayStatusSetter =
      ["gw := helpers.MustCastObject[*gatewayv1.Gateway](obj)",
       "if gwStatusEqual(gw.Status, status) { return false }", "gw.Status = status", "return true"] ∧
    Status.body_newGatewayClassStatusSetter =
      ["gc := helpers.MustCastObject[*gatewayv1.GatewayClass](obj)",
       "if frameworkStatus.ConditionsEqual(gc.Status.Conditions, status.Conditions) { return false }",
       "gc.Status = status", "return true"] ∧
    Status.body_newNginxGatewayStatusSetter =
      ["ng := helpers.MustCastObject[*ngfAPI.NginxGateway](obj)",
       "if frameworkStatus.ConditionsEqual(ng.Status.Conditions, status.Conditions) { return false }",
       "ng.Status = status", "return true"] := by
  repeat' (first | rfl | constructor)

/-- What the equality helpers compare (= `Kind.idx` of the model plus the conditions; `condEq`). -/
theorem equality_helpers_as_modelled :
    Status.cmp_routeParentStatusEqual =
      ["p1.ControllerName != p2.ControllerName", "p1.ParentRef.Name != p2.ParentRef.Name",
       "!helpers.EqualPointers(p1.ParentRef.Namespace, p2.ParentRef.Namespace)",
       "!helpers.EqualPointers(p1.ParentRef.SectionName, p2.ParentRef.SectionName)",
       "return frameworkStatus.ConditionsEqual(p1.Conditions, p2.Conditions)"] ∧
    Status.cmp_ancestorStatusEqual =
      ["p1.ControllerName != p2.ControllerName", "p1.AncestorRef.Name != p2.AncestorRef.Name",
       "!helpers.EqualPointers(p1.AncestorRef.Namespace, p2.AncestorRef.Namespace)",
       "!helpers.EqualPointers(p1.AncestorRef.Group, p2.AncestorRef.Group)",
       "!helpers.EqualPointers(p1.AncestorRef.Kind, p2.AncestorRef.Kind)",
       "return frameworkStatus.ConditionsEqual(p1.Conditions, p2.Conditions)"] ∧
    Status.cmp_snippetsStatusEqual =
      ["status1.ControllerName != status2.ControllerName",
       "return frameworkStatus.ConditionsEqual(status1.Conditions, status2.Conditions)"] ∧
    Status.cmp_ConditionsEqual =
      ["c1.ObservedGeneration != c2.ObservedGeneration", "c1.Type != c2.Type", "c1.Status != c2.Status",
       "c1.Message != c2.Message", "return c1.Reason == c2.Reason"] := by
  repeat' (first | rfl | constructor)

/-- The ancestor-full checks as modelled by `ngfFull` / `btpFull`. -/
theorem ancestor_full_checks_as_modelled :
    Status.ngfFullBody =
      ["currAncestors := policy.Source.GetPolicyStatus().Ancestors", "var nonNGFControllerCount int",
       "for _, ancestor := range currAncestors { if ancestor.ControllerName != v1.GatewayController(ctlrName) { nonNGFControllerCount++ } }",
       "return nonNGFControllerCount+len(policy.Ancestors) >= maxAncestors"] ∧
    Status.btpFullBody =
      ["if len(ancestors) < maxAncestors { return false }",
       "for _, ancestor := range ancestors { if string(ancestor.ControllerName) == ctlrName { return false } }",
       "return true"] := by
  repeat' (first | rfl | constructor)

end NGF.StatusWrite
